"""C11 correspondence: reference model (coordinates, sequences, on-disk annotation, GTF round trip).

For every generated annotation ("world", harness/lib/gen_reference.py + structural edits that add
1-nt introns / 1-nt exons) and EVERY position of every gene and transcript (exonic, intronic,
boundary, out of range: two positions beyond each end) the repo's conversions
    TranscriptAnnotationModel.get_transcript_index / is_exonic / transcript_len
    GenomicAnnotation.coordinate_transcript_to_genomic / _genomic_to_gene / _gene_to_genomic / _gene_to_transcript
are compared (values and error classes, 'intron' told from 'out of range' by the repo's own
ERROR_INDEX_IN_INTRON constant) with the extracted Coq model (Model/Anno.v) AND, independently of
the model, with the property's own statement evaluated from the generator's ground truth
(mutual inverse on exonic positions, rejection of intronic positions).  Transcript / gene sequences,
ORF start / end and Sec positions: implementation (fully parsed and on-disk) vs model vs ground truth.
On-disk annotation (generate_index, and load_index from idx files written the way
IndexDir.save_annotation writes them): every access of random and adversarial histories returns a
model equal to the fully parsed one, and the pointer dictionaries' internal (deque, cache) state
equals the model state machine Model/PtrCache.v after every access.  GtfIO.write -> dump_gtf
preserves every model.  The fully parsed models are also compared with the generator's ground truth.

Deciding a disagreement: model != implementation at some input => the declarative check of that
input decides (violation with that input) ; if the statement still holds there, one
no-failing-input violation naming the correspondence is reported.
"""
import json, hashlib, random, os, glob, copy
from harness.lib import oracle as O, impl as I, gen_reference as G

PROPERTY = 'C11'
ROOT = os.path.dirname(os.path.dirname(os.path.dirname(os.path.abspath(__file__))))
FINDING_D9 = 'C11-D9'

# ------------------------------------------------------------------ generation
def squeeze(rng, world, stats):
    """structural edits the shared generator never produces: 1-nt introns, 1-nt exons (on
    transcripts without CDS only, so the CDS ground truth stays valid)"""
    for gene in world['genes']:
        touched = False
        for tx in gene['transcripts']:
            if tx['cds'] is not None:
                continue
            ex = tx['exons']
            if len(ex) >= 2 and rng.random() < 0.35:
                k = rng.randrange(len(ex) - 1)
                ex[k][1] = ex[k + 1][0] - 1            # 1-nt intron
                stats['intron1'] = stats.get('intron1', 0) + 1
                touched = True
            if len(ex) >= 2 and rng.random() < 0.08:
                k = rng.randrange(len(ex) - 1)
                ex[k][1] = ex[k + 1][0]                # abutting exons: outside wf, model vs code only
                tx['abut'] = True
                stats['abutting'] = stats.get('abutting', 0) + 1
                touched = True
            if len(ex) >= 2 and rng.random() < 0.25:
                k = rng.randrange(len(ex))
                if rng.random() < 0.5:
                    ex[k][1] = ex[k][0] + 1            # 1-nt exon
                else:
                    ex[k][0] = ex[k][1] - 1
                stats['exon1'] = stats.get('exon1', 0) + 1
                touched = True
        for tx in gene['transcripts']:
            ex = tx['exons']
            if any(ex[k][1] == ex[k + 1][0] for k in range(len(ex) - 1)):
                tx['abut'] = True
        if touched:
            gene['start'] = min(t['exons'][0][0] for t in gene['transcripts'])
            gene['end'] = max(t['exons'][-1][1] for t in gene['transcripts'])
    # distinct exon structures are not required, but transcript ids are
    return world

def tiny_world(n_tx=11):
    """n single-exon non-coding genes on one chromosome: the smallest annotation with more keys
    than the pointer cache holds (used for the minimised cache replay)"""
    rng = random.Random(1)
    genes = []
    pos = 5
    for k in range(n_tx):
        gid = 'ENSG%011d.1' % (k + 1)
        tid = 'ENST%011d.1' % (k + 1)
        genes.append({'id': gid, 'name': 'G%d' % (k + 1), 'chrom': 'chr1', 'strand': 1 if k % 2 == 0 else -1,
                      'biotype': 'lncRNA', 'start': pos, 'end': pos + 8,
                      'transcripts': [{'id': tid, 'protein_id': None, 'exons': [[pos, pos + 8]], 'cds': None, 'frame': 0,
                                       'tags': [], 'sec': [], 'utr': False, 'biotype': 'lncRNA'}]})
        pos += 12
    return {'chroms': {'chr1': G.rand_dna(rng, pos + 5)}, 'genes': genes}

def gen_hist(rng, gkeys, tkeys, limit, n, bad=False):
    """one access history over both pointer dictionaries; mixes adversarial patterns"""
    hist = []
    def keys_of(which):
        return gkeys if which == 'g' else tkeys
    while len(hist) < n:
        which = 'g' if rng.random() < 0.4 else 't'
        ks = keys_of(which)
        pat = rng.choice(['rand', 'cycle', 'burst', 'evict_return', 'recent', 'sweep'])
        if pat == 'rand':
            seg = [rng.choice(ks) for _ in range(rng.randint(1, 25))]
        elif pat == 'cycle':             # cycle over limit+1 keys: every access misses once warm
            m = min(len(ks), limit + 1)
            sub = rng.sample(ks, m)
            seg = [sub[i % m] for i in range(rng.randint(m, 3 * m))]
        elif pat == 'burst':             # the same key repeatedly
            seg = [rng.choice(ks)] * rng.randint(2, 6)
        elif pat == 'evict_return':      # k, then `limit` other keys, then k again
            k = rng.choice(ks)
            others = [x for x in ks if x != k]
            rng.shuffle(others)
            seg = [k] + others[:limit] + [k]
        elif pat == 'recent':            # working set just below / at the limit
            m = min(len(ks), rng.choice([limit - 1, limit]))
            sub = rng.sample(ks, max(1, m))
            seg = [rng.choice(sub) for _ in range(rng.randint(5, 30))]
        else:
            seg = list(ks)
            if rng.random() < 0.5:
                seg.reverse()
        for k in seg:
            hist.append([which, k])
            if bad and rng.random() < 0.08:
                hist.append([which, rng.choice(['ENSX_missing.1', 'ENSX_missing.2', k + '_x'])])
    return hist[:n]

def positions(world):
    pos = {'gene': {}, 'tx': {}}
    for g in world['genes']:
        pos['gene'][g['id']] = {'g': [g['start'] - 2, g['end'] + 3], 'i': [-2, g['end'] - g['start'] + 3]}
        for t in g['transcripts']:
            pos['tx'][t['id']] = {'g': [t['exons'][0][0] - 2, t['exons'][-1][1] + 3], 'i': [-2, G.tx_len(t) + 3]}
    return pos

def malform(rng, case, stats):
    """malformed stream: one gene written with strand '?' (parsed as 0: neither arm of the
    conversions applies) or one coding transcript whose CDS records carry no frame ('.').
    Only model == implementation (values and error classes) is compared for the affected entities."""
    world = case['world']
    lines = G.gtf_lines(world)
    how = rng.choice(['strand', 'frame'])
    if how == 'frame':
        cands = [t['id'] for g in world['genes'] for t in g['transcripts'] if t['cds']]
        if not cands:
            how = 'strand'
        else:
            tid = rng.choice(cands)
            out = []
            for l in lines:
                f = l.split('\t')
                if f[2] == 'CDS' and ('transcript_id "%s"' % tid) in f[8]:
                    f[7] = '.'
                out.append('\t'.join(f))
            case['gtf_lines'] = out
            case['noframe'] = tid
            stats['malformed_frame'] = stats.get('malformed_frame', 0) + 1
    if how == 'strand':
        gene = rng.choice(world['genes'])
        out = []
        for l in lines:
            f = l.split('\t')
            if ('gene_id "%s"' % gene['id']) in f[8]:
                f[6] = '?'
            out.append('\t'.join(f))
        case['gtf_lines'] = out
        case['unstranded'] = gene['id']
        stats['malformed_strand'] = stats.get('malformed_strand', 0) + 1
    return case

NONASCII = ['\u00d8', '\u00e9', '\u00df', '\u4e2d', '\u03b1', '\u2192', '\U0001F9EC', '\u00fc']   # 2-, 3- and 4-byte UTF-8

def nonascii_word(rng, n=None):
    n = n or rng.randint(1, 4)
    return ''.join(rng.choice(NONASCII + list('ABcd12')) for _ in range(n)) + rng.choice(NONASCII)

def line_kind(l):
    """(kind, key) of one line of OUR OWN GTF text: kind 0 comment, 1 gene record, 2 other record"""
    if l.startswith('#'):
        return 0, None
    f = l.split('\t')
    if f[2] == 'gene':
        return 1, f[8].split('gene_id "', 1)[1].split('"', 1)[0]
    return 2, f[8].split('transcript_id "', 1)[1].split('"', 1)[0]

def text_variant(rng, case, stats, force=None):
    """GTF TEXT layer: the same annotation written with non-ASCII characters (kept attribute gene_name,
    dropped attributes, comment lines), CRLF / mixed line ends, comment lines between entities, very long
    attribute columns, no newline after the last line.  `inside` additionally puts comment lines INSIDE
    transcript blocks (outside the precondition of theorem pointer_block: the byte range of the pointer then
    holds the comment, which TranscriptPointer.load skips since fix c3e2bdd; models must equal the parsed ones)."""
    world = case['world']
    feats = force or [f for f, p in (('nonascii_name', 0.5), ('nonascii_attr', 0.4), ('nonascii_comment', 0.5),
                                     ('crlf', 0.25), ('mixed_eol', 0.1), ('comments_between', 0.5), ('long_attr', 0.3),
                                     ('no_final_newline', 0.3), ('inside', 0.15), ('ensembl_utr', 0.15)) if rng.random() < p]
    if not feats:
        feats = ['nonascii_comment']
    if 'nonascii_name' in feats and not case.get('gtf_lines'):
        for g in world['genes']:
            if rng.random() < 0.6:
                g['name'] = g['name'] + nonascii_word(rng)
    lines = case.get('gtf_lines') or G.gtf_lines(world)
    if 'ensembl_utr' in feats:
        # Ensembl-style records: five_prime_utr / three_prime_utr instead of UTR (decided from the ground truth)
        txl = tx_lookup(world)
        new = []
        n_utr = 0
        for l in lines:
            f = l.split('\t')
            if f[2] == 'UTR':
                gene, tx = txl[line_kind(l)[1]]
                cfs = tx.get('cds_feature_start', tx['cds'][0])
                five = set(G._segments(gene, tx, 0, cfs))
                f[2] = 'five_prime_utr' if (int(f[3]) - 1, int(f[4])) in five else 'three_prime_utr'
                n_utr += 1
            new.append('\t'.join(f))
        lines = new
        if n_utr:
            case['ensembl_utr'] = True
    out = []
    inside = set()
    def comment():
        return '#' + rng.choice(['', '#', ' ']) + (nonascii_word(rng, 6) if 'nonascii_comment' in feats and rng.random() < 0.7 else 'comment %d' % rng.randint(0, 999))
    if 'comments_between' in feats or 'nonascii_comment' in feats:
        for _ in range(rng.randint(1, 3)):
            out.append(comment())
    long_left = rng.randint(1, 2) if 'long_attr' in feats else 0
    first_of_block = True
    for l in lines:
        f = l.split('\t')
        if f[2] in ('gene', 'transcript'):
            if 'comments_between' in feats and rng.random() < 0.5:
                for _ in range(rng.randint(1, 2)):
                    out.append(comment())
        elif 'inside' in feats and f[2] == 'exon' and rng.random() < 0.3:
            out.append(comment())
            inside.add(line_kind(l)[1])
        if 'nonascii_attr' in feats and rng.random() < 0.3:
            f[8] += ' note "%s";' % nonascii_word(rng, rng.randint(1, 12))
        if long_left and rng.random() < 0.15:
            long_left -= 1
            filler = 'x' if rng.random() < 0.5 else rng.choice(NONASCII)
            f[8] += ' ont "%s";' % (filler * rng.randint(2000, 30000))
        out.append('\t'.join(f))
    if 'comments_between' in feats and rng.random() < 0.5:
        out.append(comment())
    eol = '\r\n' if 'crlf' in feats else '\n'
    text = ''
    for i, l in enumerate(out):
        e = rng.choice(['\n', '\r\n']) if 'mixed_eol' in feats else eol
        if i == len(out) - 1 and 'no_final_newline' in feats:
            e = ''
        text += l + e
    case['gtf_text'] = text
    case['text_features'] = sorted(feats)
    if inside:
        case['inside_tx'] = sorted(inside)
    for f in feats:
        stats['text:' + f] = stats.get('text:' + f, 0) + 1
    stats['text_cases'] = stats.get('text_cases', 0) + 1
    return case

def gtf_text_of(case):
    if case.get('gtf_text') is not None:
        return case['gtf_text']
    lines = case.get('gtf_lines') or G.gtf_lines(case['world'])
    return '\n'.join(lines) + '\n'

def split_keepends(text):
    """lines as the binary file iterator yields them: split after every \\n"""
    parts = text.split('\n')
    out = [p + '\n' for p in parts[:-1]]
    if parts[-1] != '':
        out.append(parts[-1])
    return out

def gen_ops(rng, world, pos):
    """a history of READ-ONLY operations for ONE annotation object: queries, sequence accessors and
    GtfIO.write interleaved; at least two writes with sequence / Sec / coordinate queries after the first"""
    pairs = [(g, t) for g in world['genes'] for t in g['transcripts']]
    if not pairs:
        return []
    coding = [(g, t) for g, t in pairs if t['cds']]
    secs = [(g, t) for g, t in pairs if t.get('sec')]
    def one():
        g, t = rng.choice(pairs)
        k = rng.choices(['seq', 'cdna', 'gseq', 'g2tx', 'tx2g', 'gene2tx', 'exonic_txs', 'write'],
                        [25, 12, 8, 15, 10, 6, 6, 12])[0]
        if k == 'seq':
            if secs and rng.random() < 0.4:
                g, t = rng.choice(secs)
            return ['seq', t['id'], rng.random() < 0.3]
        if k == 'cdna':
            if not coding:
                return ['seq', t['id'], False]
            return ['cdna', rng.choice(coding)[1]['id']]
        if k == 'gseq':
            return ['gseq', g['id']]
        if k == 'g2tx':
            return ['g2tx', t['id'], rng.randrange(*pos['tx'][t['id']]['g'])]
        if k == 'tx2g':
            return ['tx2g', t['id'], rng.randrange(*pos['tx'][t['id']]['i'])]
        if k == 'gene2tx':
            return ['gene2tx', g['id'], t['id'], rng.randrange(*pos['gene'][g['id']]['i'])]
        if k == 'exonic_txs':
            return ['exonic_txs', g['id'], rng.randrange(*pos['gene'][g['id']]['g'])]
        return ['write']
    ops = [one() for _ in range(rng.randint(8, 18))]
    ops.insert(rng.randint(0, max(0, len(ops) // 3)), ['write'])
    for g, t in rng.sample(pairs, min(2, len(pairs))) + (rng.sample(secs, 1) if secs else []) :
        ops.append(['seq', t['id'], False])
    if coding:
        ops.append(['cdna', rng.choice(coding)[1]['id']])
    ops.append(['write'])
    ops.append(one())
    return ops

def add_lone_gene(rng, world, stats=None):
    """a gene record without any transcript (last gene of the file)"""
    cname = sorted(world['chroms'])[-1]
    L = len(world['chroms'][cname])
    n = rng.randint(8, 30)
    st = rng.randint(0, max(0, L - n - 1))
    k = len(world['genes']) + 900
    world['genes'].append({'id': 'ENSG%011d.1' % k, 'name': 'LONE%d' % k, 'chrom': cname, 'strand': rng.choice([1, -1]),
                           'biotype': 'lncRNA', 'start': st, 'end': st + n, 'transcripts': [], 'lone': True})
    if stats is not None:
        stats['lone_gene'] = stats.get('lone_gene', 0) + 1

def make_case(rng, stats, kind=None, limit=10):
    kind = kind or rng.choices(['small', 'many', 'normal'], [0.62, 0.28, 0.10])[0]
    wr = random.Random(rng.getrandbits(64))
    if kind == 'small':
        world = G.gen_world(wr, small=True, sec_p=0.4)
    elif kind == 'many':
        world = G.gen_world(wr, n_chrom=rng.choice([2, 3]), max_genes=rng.choice([6, 8]), small=True, sec_p=0.3, multi_iso_p=0.8)
    else:
        world = G.gen_world(wr, sec_p=0.4)
    squeeze(wr, world, stats)
    if rng.random() < 0.06:
        add_lone_gene(wr, world, stats)
    gkeys = [g['id'] for g in world['genes']]
    tkeys = [t['id'] for g in world['genes'] for t in g['transcripts']]
    n = rng.choice([40, 80, 200]) if kind == 'many' else rng.choice([20, 40])
    hist = {'gen': gen_hist(wr, gkeys, tkeys, limit, n), 'idx': gen_hist(wr, gkeys, tkeys, limit, n)}
    if rng.random() < (0.5 if kind == 'many' else 0.15):
        hist['bad'] = gen_hist(wr, gkeys, tkeys, limit, n, bad=True)
    case = {'kind': 'world', 'wkind': kind, 'world': world, 'pos': positions(world), 'hist': hist,
            'check_coding': rng.random() < 0.6}
    # a (gene, transcript of another gene) pair for the membership check of gene -> transcript
    withtx = [g for g in world['genes'] if g['transcripts']]
    if len(withtx) >= 2 and rng.random() < 0.5:
        g1, g2 = rng.sample(withtx, 2)
        case['nonmember'] = [g1['id'], g2['transcripts'][0]['id']]
    if rng.random() < 0.12:
        malform(wr, case, stats)
    if rng.random() < 0.35:
        text_variant(wr, case, stats)
    # every key once, in file order, on a fresh annotation of each kind (generate_index / idx files)
    allk = [['g', k] for k in gkeys] + [['t', k] for k in tkeys]
    case['hist']['all'] = allk
    case['hist']['idx_all'] = list(reversed(allk))
    case['ops'] = gen_ops(wr, world, case['pos'])
    return case

# ------------------------------------------------------------------ model side
ERRCLS = {1: 'E:ValueError:intron', 2: 'E:ValueError', 3: 'E:ValueError', 4: 'E:ValueError',
          5: 'E:IndexError', 6: 'E:UnboundLocalError', 7: 'E:TypeError'}

def dec(r):
    """model result -> canonical form shared with the implementation side"""
    if r[0] == 0:
        return r[1]
    return ERRCLS.get(r[0], 'E:?%d' % r[0])

def tx_lookup(world):
    m = {}
    for g in world['genes']:
        for t in g['transcripts']:
            m[t['id']] = (g, t)
    return m

def cds_features(gene, tx):
    """[(s, e, phase)] ascending, as gtf_lines emits them"""
    if not tx['cds']:
        return []
    cfs = tx.get('cds_feature_start', tx['cds'][0])
    out = []
    for s, e in G._segments(gene, tx, cfs, tx['cds'][1]):
        first_tx = G.g2tx(gene, tx, s if gene['strand'] == 1 else e - 1)
        out.append([s, e, (tx['cds'][0] - first_tx) % 3])
    return out

def utr_features(gene, tx):
    if not (tx['cds'] and tx.get('utr')):
        return []
    cfs = tx.get('cds_feature_start', tx['cds'][0])
    n = G.tx_len(tx)
    out = []
    for a, b in ((0, cfs), (tx['cds'][1], n)):
        out += [list(x) for x in G._segments(gene, tx, a, b)]
    return out

def sec_features(gene, tx):
    out = []
    for p in tx.get('sec', []):
        for s, e in G._segments(gene, tx, p, p + 3)[:1]:
            out.append([s, e, gene['strand']])
    return out

def model_requests(case):
    """-> (list of oracle requests, list of tags) for one world"""
    world = case['world']
    reqs, tags = [], []
    pos = case['pos']
    for g0 in world['genes']:
        g = dict(g0)
        if case.get('unstranded') == g['id']:
            g['strand'] = 0                      # '?' is parsed as strand 0
        pr = pos['gene'][g['id']]
        gp = list(range(*pr['g'])); ip = list(range(*pr['i']))
        reqs.append(('c11_g2gene_many', [g['strand'], g['start'], g['end'], gp])); tags.append(('gene', g['id'], 'g2gene'))
        reqs.append(('c11_gene2g_many', [g['strand'], g['start'], g['end'], ip])); tags.append(('gene', g['id'], 'gene2g'))
        reqs.append(('c11_geneseq', [g['strand'], g['start'], g['end'], world['chroms'][g['chrom']]])); tags.append(('geneseq', g['id'], None))
        for t in g['transcripts']:
            tr = pos['tx'][t['id']]
            tg = list(range(*tr['g'])); ti = list(range(*tr['i']))
            reqs.append(('c11_g2tx_many', [g['strand'], t['exons'], tg])); tags.append(('tx', t['id'], 'g2tx'))
            reqs.append(('c11_exonic_many', [t['exons'], tg])); tags.append(('tx', t['id'], 'exonic'))
            reqs.append(('c11_tx2g_many', [g['strand'], t['exons'], ti])); tags.append(('tx', t['id'], 'tx2g'))
            reqs.append(('c11_gene2tx_many', [g['strand'], g['start'], g['end'], 1, g['strand'], t['exons'], ip])); tags.append(('tx', t['id'], 'gene2tx'))
            cds = [[s, e, ([] if case.get('noframe') == t['id'] else [ph])] for s, e, ph in cds_features(g0, t)]
            secs = [[a, b, g['strand']] for a, b, _ in sec_features(g0, t)]
            reqs.append(('c11_txseq', [g['strand'], t['exons'], cds, utr_features(g0, t), secs, world['chroms'][g['chrom']]]))
            tags.append(('txseq', t['id'], None))
            if t['cds']:
                reqs.append(('c11_cdna', [g['strand'], t['exons'], cds, world['chroms'][g['chrom']]]))
                tags.append(('cdna', t['id'], None))
    if case.get('nonmember'):
        gid, tid = case['nonmember']
        g = [x for x in world['genes'] if x['id'] == gid][0]
        g2, t = tx_lookup(world)[tid]
        st1 = 0 if case.get('unstranded') == gid else g['strand']
        st2 = 0 if case.get('unstranded') == g2['id'] else g2['strand']
        reqs.append(('c11_gene2tx_many', [st1, g['start'], g['end'], 0, st2, t['exons'], list(range(*pos['gene'][gid]['i']))]))
        tags.append(('nonmember', None, None))
    return reqs, tags

def pointer_request(case):
    """the GTF text as (bytes, kind, key) lines for Model/GtfPtr.v"""
    text = gtf_text_of(case)
    keyidx = {}
    lines = []
    for l in split_keepends(text):
        kind, key = line_kind(l)
        if key is not None:
            keyidx.setdefault((kind, key), len(keyidx) + 1)
        lines.append([list(l.encode('utf-8')), kind, keyidx.get((kind, key), 0)])
    names = {v: k[1] for k, v in keyidx.items()}
    return ('c11_pointers', [lines]), names, lines

def check_pointers(case, out, mres, names, plines, stats):
    """idx files written by the implementation vs the proved byte accounting, and (declaratively) the
    byte range of every entity = exactly its own lines"""
    bad = []
    mg, mt = {}, {}
    for isg, key, st, en, txs in mres:
        if isg:
            mg[names[key]] = [st, en, sorted(names[x] for x in txs)]
        else:
            mt[names[key]] = [st, en]
    ig = {k: [st, en, txs] for k, st, en, txs in out['idx']['g']}
    it = {k: [st, en] for k, st, en, _ in out['idx']['t']}
    stats['pointers'] = stats.get('pointers', 0) + len(ig) + len(it)
    if ig != mg:
        k = sorted(x for x in set(ig) | set(mg) if ig.get(x) != mg.get(x))[0]
        bad.append(('model', 'gene pointer %s: idx file %r, byte accounting %r' % (k, ig.get(k), mg.get(k))))
    if it != mt:
        k = sorted(x for x in set(it) | set(mt) if it.get(x) != mt.get(x))[0]
        bad.append(('model', 'transcript pointer %s: idx file %r, byte accounting %r' % (k, it.get(k), mt.get(k))))
    # declarative: bytes [start, end) of the file are exactly the entity's lines
    data = b''.join(bytes(l[0]) for l in plines)
    own = {}
    for b, kind, key in plines:
        if kind:
            own.setdefault((kind, names[key]), []).append(bytes(b))
    inside = set(case.get('inside_tx', []))
    for (kind, key), ls in own.items():
        if kind == 2 and key in inside:
            continue
        p = (ig if kind == 1 else it).get(key)
        if p is None:
            bad.append(('stmt', 'no pointer for %s' % key))
        elif data[p[0]:p[1]] != b''.join(ls):
            bad.append(('stmt', 'pointer of %s = bytes [%d, %d) which hold %r..., not the entity\'s own %d line(s)' % (
                key, p[0], p[1], data[p[0]:p[1]][:60], len(ls))))
    return bad

def cache_requests(case, sizes):
    """model traces of the two pointer dictionaries for every history (as written and repaired)"""
    world = case['world']
    gkeys = sorted(g['id'] for g in world['genes'])
    tkeys = sorted(t['id'] for g in world['genes'] for t in g['transcripts'])
    reqs, tags = [], []
    for hname, hist in case['hist'].items():
        for which, keys, limit in (('g', gkeys, sizes[0]), ('t', tkeys, sizes[1])):
            idx = {k: i + 1 for i, k in enumerate(keys)}
            extra = {}
            ops = []
            for w, k in hist:
                if w != which:
                    continue
                if k in idx:
                    ops.append(idx[k])
                else:
                    extra.setdefault(k, -(len(extra) + 1))
                    ops.append(extra[k])
            tbl = [[i, i] for i in idx.values()]
            names = {v: k for k, v in idx.items()}
            names.update({v: k for k, v in extra.items()})
            for fixed in (0, 1):
                if fixed and hname != 'bad':
                    continue
                reqs.append(('c11_cache_run', [limit, tbl, ops, fixed]))
                tags.append((hname, which, fixed, names))
    return reqs, tags

# ------------------------------------------------------------------ declarative checks (no model)
def truth_g2tx(gene, tx, g):
    return G.g2tx(gene, tx, g)

def is_err(x):
    return isinstance(x, str) and x.startswith('E:')

def check_statement_tx(gene, tx, conv, pr):
    """the property's own statement on the implementation's output, from the generator's ground truth.
    returns list of (what, position)"""
    bad = []
    glo = pr['g'][0]; ilo = pr['i'][0]
    n = G.tx_len(tx)
    s0, eN = tx['exons'][0][0], tx['exons'][-1][1]
    for k, r in enumerate(conv['g2tx']):
        g = glo + k
        t = truth_g2tx(gene, tx, g)
        if t is None:
            if not is_err(r):
                bad.append(('non-exonic genomic position %d mapped to %r instead of being rejected' % (g, r), g))
            elif not r.startswith('E:ValueError'):
                bad.append(('non-exonic genomic position %d raised %s' % (g, r), g))
        elif r != t:
            bad.append(('exonic genomic position %d -> %r, expected transcript index %d' % (g, r, t), {'g': g, 'r': r}))
        ex = conv['exonic'][k]
        if ex != (t is not None):
            bad.append(('is_exonic(%d) = %r' % (g, ex), g))
    for k, r in enumerate(conv['tx2g']):
        i = ilo + k
        if 0 <= i < n:
            t = G.tx2g(gene, tx, i)
            if r != t:
                bad.append(('transcript index %d -> %r, expected genomic %d' % (i, r, t), i))
            else:
                back = conv['g2tx'][t - glo]
                if back != i:
                    bad.append(('tx->genomic->tx: %d -> %d -> %r' % (i, t, back), {'g': t, 'r': back}))
        elif i > n and not is_err(r):
            bad.append(('transcript index %d beyond the transcript (length %d) mapped to %r' % (i, n, r), i))
    if conv['len'] != n:
        bad.append(('transcript_len %r, expected %d' % (conv['len'], n), 0))
    return bad

def check_statement_gene(gene, conv, pr, txconvs):
    bad = []
    glo = pr['g'][0]; ilo = pr['i'][0]
    L = gene['end'] - gene['start']
    for k, r in enumerate(conv['g2gene']):
        g = glo + k
        if gene['start'] <= g < gene['end']:
            if r != G.g2gene(gene, g):
                bad.append(('genomic %d -> gene %r, expected %d' % (g, r, G.g2gene(gene, g)), g))
        elif not is_err(r):
            bad.append(('genomic %d outside the gene mapped to %r' % (g, r), g))
    for k, r in enumerate(conv['gene2g']):
        i = ilo + k
        if 0 <= i < L:
            t = G.gene2g(gene, i)
            if r != t:
                bad.append(('gene index %d -> genomic %r, expected %d' % (i, r, t), i))
            elif conv['g2gene'][t - glo] != i:
                bad.append(('gene->genomic->gene: %d -> %d -> %r' % (i, t, conv['g2gene'][t - glo]), i))
    for tx, tc in txconvs:
        for k, r in enumerate(tc['gene2tx']):
            i = ilo + k
            g = G.gene2g(gene, i)
            t = G.g2tx(gene, tx, g)
            if t is None:
                if not is_err(r):
                    bad.append(('gene index %d (genomic %d, not exonic in %s) mapped to %r' % (i, g, tx['id'], r), i))
            elif r != t:
                bad.append(('gene index %d -> transcript %r of %s, expected %d' % (i, r, tx['id'], t), {'g': g, 'r': r, 'tx': tx}))
    return bad

def expected_seq(world, gene, tx):
    s = G.tx_seq(world, gene, tx)
    n = len(s)
    orf = None
    if tx['cds']:
        st = tx['cds'][0]
        has3 = tx.get('utr') and tx['cds'][1] < n
        en = tx['cds'][1] if has3 else n - (n - st) % 3
        orf = [st, en]
    sec = []
    for seg_s, seg_e, _ in sec_features(gene, tx):
        a, b = G.g2tx(gene, tx, seg_s), G.g2tx(gene, tx, seg_e - 1)
        sec.append([min(a, b), max(a, b) + 1])
    return {'seq': s, 'orf': orf, 'sec': sorted(sec)}

def expected_dump_checks(world, dump, skip_ids=(), ensembl_utr=False):
    """fully parsed models vs the generator's description of the annotation"""
    bad = []
    if sorted(dump['g']) != sorted(g['id'] for g in world['genes']):
        bad.append('gene key set differs')
    for gene in world['genes']:
        d = dump['g'].get(gene['id'])
        if d is None or gene['id'] in skip_ids:
            continue
        exp = [gene['chrom'], gene['start'], gene['end'], gene['strand'], sorted(t['id'] for t in gene['transcripts']), gene['name']]
        got = [d['chrom'], d['start'], d['end'], d['strand'], d['transcripts'], d['gene_name']]
        if exp != got:
            bad.append('gene %s parsed as %r, expected %r' % (gene['id'], got, exp))
        for tx in gene['transcripts']:
            t = dump['t'].get(tx['id'])
            if t is None:
                bad.append('transcript %s missing' % tx['id'])
                continue
            if tx['id'] in skip_ids:
                continue
            exp = {'exon': [list(e) for e in tx['exons']],
                   'cds': [[s, e] for s, e, _ in cds_features(gene, tx)],
                   'frames': [ph for _, _, ph in cds_features(gene, tx)],
                   'utr': sorted(utr_features(gene, tx)),
                   'sec': sorted([s, e] for s, e, _ in sec_features(gene, tx)),
                   'strand': gene['strand'], 'chrom': gene['chrom'], 'gene_id': gene['id'], 'tid': tx['id'],
                   'protein_id': tx.get('protein_id'), 'tags': sorted(tx['tags']),
                   'span': [tx['exons'][0][0], tx['exons'][-1][1]],
                   'nf': ['cds_start_NF' in tx['tags'], 'mRNA_end_NF' in tx['tags']]}
            got = {'exon': [[x['start'], x['end']] for x in t['exon']],
                   'cds': [[x['start'], x['end']] for x in t['cds']],
                   'frames': [x['frame'] for x in t['cds']],
                   'utr': sorted([x['start'], x['end']] for x in (t['utr'] if not ensembl_utr else t['five_utr'] + t['three_utr'])),
                   'sec': sorted([x['start'], x['end']] for x in t['selenocysteine']),
                   'strand': t['transcript']['strand'], 'chrom': t['transcript']['chrom'], 'gene_id': t['gene_id'],
                   'tid': t['transcript_id'], 'protein_id': t['protein_id'],
                   'tags': sorted(t['transcript']['attrs'].get('tag', [])),
                   'span': [t['transcript']['start'], t['transcript']['end']],
                   'nf': [t['cds_start_nf'], t['mrna_end_nf']]}
            if any(x['strand'] != gene['strand'] or x['chrom'] != gene['chrom'] for k in ('exon', 'cds', 'utr', 'selenocysteine') for x in t[k]):
                bad.append('transcript %s: a sub-record has a different strand/chrom' % tx['id'])
            if ensembl_utr and t['utr']:
                bad.append('transcript %s: UTR records although the file has only five_/three_prime_utr records' % tx['id'])
            if sorted([x['start'], x['end']] for x in t['five_utr'] + t['three_utr']) != got['utr']:
                bad.append('transcript %s: five_utr + three_utr is not a split of utr' % tx['id'])
            if exp != got:
                diff = {k: (got[k], exp[k]) for k in exp if exp[k] != got[k]}
                bad.append('transcript %s parsed differently from the annotation: %r' % (tx['id'], diff))
    return bad

def digest(d):
    return hashlib.md5(json.dumps(d, sort_keys=True).encode()).hexdigest()

# ------------------------------------------------------------------ comparison of one world
def cache_mechanism_d9(hist_which, results, keys_valid):
    """signature of D9: a VALID key's access raises KeyError although the key has a pointer"""
    return any(r == 'E:KeyError' and k in keys_valid for (k, r) in zip(hist_which, results))

def compare_world(case, out, model, cmodel, stats):
    """returns list of violation dicts for this world"""
    V = []
    world = case['world']
    def viol(what, no_input=False, finding=None, replay=None):
        v = {'what': what, 'replay_obj': replay or {'kind': 'world', 'case': case}, 'no_input': no_input}
        if finding:
            v['finding'] = finding
        V.append(v)
    if isinstance(out, dict) and '__exc__' in out:
        viol('implementation raised %s on a generated annotation: %s' % (out['__exc__'], out.get('msg', '')[:200] + ' ' + out.get('tb', '')[-300:]))
        return V
    txl = tx_lookup(world)
    conv = out['conv']
    # ---- 1. declarative statement on the implementation's conversions
    stmt_bad = []
    unstr = case.get('unstranded')
    def off_statement(gene, tx=None):
        # entities outside the statement's premises (strand '?'): only model == implementation is compared
        return gene['id'] == unstr
    for gene in world['genes']:
        if off_statement(gene):
            stats['off_statement'] = stats.get('off_statement', 0) + 1
            continue
        txconvs = [(t, conv['tx'][t['id']]) for t in gene['transcripts']]
        for what, p in check_statement_gene(gene, conv['gene'][gene['id']], case['pos']['gene'][gene['id']], txconvs):
            stmt_bad.append('gene %s (%s strand): %s' % (gene['id'], gene['strand'], what))
        for t, tc in txconvs:
            for what, p in check_statement_tx(gene, t, tc, case['pos']['tx'][t['id']]):
                stmt_bad.append('transcript %s (strand %d, exons %s): %s' % (t['id'], gene['strand'], t['exons'], what))
    if case.get('nonmember'):
        if any(not is_err(r) for r in conv['nonmember']):
            stmt_bad.append('gene -> transcript accepted a transcript of another gene %r' % (case['nonmember'],))
    for s in stmt_bad[:3]:
        viol('coordinates: ' + s)
    # ---- 2. model vs implementation, every conversion, every position
    corr_bad = []
    for (kind, ident, fn), m in zip(*model):
        if kind in ('gene', 'tx'):
            got = conv[kind][ident][fn]
            exp = [bool(x) for x in m] if fn == 'exonic' else [dec(r) for r in m]
            stats['positions'] += len(exp)
            if got != exp:
                k = [i for i, (a, b) in enumerate(zip(got, exp)) if a != b]
                pr = case['pos'][kind][ident]['g' if fn in ('g2tx', 'exonic', 'g2gene') else 'i'][0]
                corr_bad.append('%s %s %s at position %d: implementation %r, model %r' % (kind, ident, fn, pr + k[0], got[k[0]], exp[k[0]]))
        elif kind == 'pointers':
            pbad = check_pointers(case, out, m, ident, fn, stats)
            for what in [w for h, w in pbad if h == 'stmt'][:2]:
                viol('byte-range pointers: ' + what)
            if pbad and not any(h == 'stmt' for h, _ in pbad):
                corr_bad.append('pointer files: ' + pbad[0][1])
        elif kind == 'nonmember':
            if conv['nonmember'] != [dec(r) for r in m]:
                corr_bad.append('gene2tx(non member): implementation %r model %r' % (conv['nonmember'][:3], [dec(r) for r in m][:3]))
        elif kind == 'geneseq':
            got = out['seqs']['gene'][ident]
            exp = O.U(m[1]) if m[0] == 0 else ERRCLS[m[0]]
            gene = [g for g in world['genes'] if g['id'] == ident][0]
            truth = G.gene_seq(world, gene) if not off_statement(gene) else got
            gl = out['seqs'].get('gene_loc', {}).get(ident)
            if not is_err(got) and gl != [[0, len(got), 0, len(got), ident]]:
                viol('gene sequence record of %s carries locations %r' % (ident, gl))
            if got != truth:
                viol('gene sequence of %s differs from the strand-corrected genome: %r vs %r' % (ident, got[:60], truth[:60]))
            elif got != exp:
                corr_bad.append('gene sequence %s: implementation != model' % ident)
        elif kind == 'txseq':
            gene, tx = txl[ident]
            truth = expected_seq(world, gene, tx)
            loose = off_statement(gene) or case.get('noframe') == ident
            if m[0] == 0:
                exp = {'seq': O.U(m[1]), 'orf': m[2] if m[2] else None, 'sec': sorted(m[3])}
            else:
                exp = ERRCLS[m[0]]
            for src, got in (('fully parsed', out['seqs']['tx'][ident]), ('on-disk', out['disk_seqs'][ident])):
                g3 = got if is_err(got) else {k: got[k] for k in ('seq', 'orf', 'sec')}
                if loose:
                    if g3 != exp:
                        corr_bad.append('transcript sequence %s (%s, malformed input): implementation %r != model %r' % (ident, src, str(g3)[:80], str(exp)[:80]))
                    continue
                if g3 != truth:
                    d = g3 if is_err(g3) else {k: (str(g3[k])[:80], str(truth[k])[:80]) for k in truth if g3[k] != truth[k]}
                    viol('transcript sequence / ORF / Sec of %s (%s annotation, strand %d) disagree with the annotation and genome: %r' % (ident, src, gene['strand'], d))
                elif g3 != exp:
                    corr_bad.append('transcript sequence %s (%s): implementation != model' % (ident, src))
                if not is_err(got) and (got['id'] != ident or not got['desc'].startswith(ident + '|' + gene['id'])):
                    viol('transcript sequence record of %s carries id %r / description %r' % (ident, got['id'], got['desc']))
                if not is_err(got) and not loose and got.get('loc') != [[0, len(truth['seq']), 0, len(truth['seq']), ident]]:
                    viol('transcript sequence record of %s (%s) carries locations %r, expected the whole transcript' % (ident, src, got.get('loc')))
            stats['seqs'] += 1
            if tx['cds']:
                stats['orfs'] += 1
            stats['secs'] += len(tx.get('sec', []))
        elif kind == 'cdna':
            gene, tx = txl[ident]
            loose = off_statement(gene) or case.get('noframe') == ident
            txs = G.tx_seq(world, gene, tx)
            cfs = tx.get('cds_feature_start', tx['cds'][0])
            truth_seq = txs[cfs:tx['cds'][1]]               # strand-corrected genome at the CDS positions
            n_seg = len(cds_features(gene, tx))
            stats['cdna'] = stats.get('cdna', 0) + 1
            if gene['strand'] == -1 and n_seg >= 2:
                stats['cdna_minus_multi'] = stats.get('cdna_minus_multi', 0) + 1
            exp = {'seq': O.U(m[1]), 'ref': m[2]} if m[0] == 0 else ERRCLS[m[0]]
            for src, got in (('fully parsed', out['seqs'].get('cdna', {}).get(ident)), ('on-disk', out.get('disk_cdna', {}).get(ident))):
                if got is None:
                    viol('no CDS sequence returned for coding transcript %s (%s)' % (ident, src))
                    continue
                g3 = got if is_err(got) else {'seq': got['seq'], 'ref': got['loc'][0][2] if got['loc'] else None}
                if loose:
                    if g3 != exp:
                        corr_bad.append('CDS sequence %s (%s, malformed input): implementation %r != model %r' % (ident, src, str(g3)[:80], str(exp)[:80]))
                    continue
                if is_err(g3) or g3['seq'] != truth_seq:
                    viol('CDS sequence (get_cdna_sequence) of %s (%s annotation, strand %d, %d CDS segments) is not the strand-corrected genome at the CDS positions: %r vs %r' % (
                        ident, src, gene['strand'], n_seg, str(g3 if is_err(g3) else g3['seq'])[:60], truth_seq[:60]))
                elif g3 != exp:
                    corr_bad.append('CDS sequence %s (%s): implementation %r != model %r' % (ident, src, str(g3)[:60], str(exp)[:60]))
                else:
                    L = len(truth_seq)
                    okloc = got['loc'] == [[0, L, tx['cds'][0], tx['cds'][0] + L, ident]]
                    if not okloc or got['id'] != ident:
                        viol('CDS sequence record of %s (%s) carries id %r / locations %r; expected query [0,%d) at reference start %d' % (
                            ident, src, got['id'], got['loc'], L, tx['cds'][0]))
    if corr_bad and not stmt_bad and not V:
        viol('implementation differs from the proved model although the statement holds at that input: ' + corr_bad[0], no_input=True,
             replay={'kind': 'correspondence', 'name': 'corr:C11/coordinates', 'example': corr_bad[:3], 'case': case})
    elif corr_bad and not stmt_bad:
        pass
    elif corr_bad and stmt_bad:
        pass   # already reported with the failing input
    # ---- 3. fully parsed models vs the annotation
    skip_ids = set()
    if unstr:
        skip_ids.add(unstr)
        skip_ids.update(t['id'] for g in world['genes'] if g['id'] == unstr for t in g['transcripts'])
    if case.get('noframe'):
        skip_ids.add(case['noframe'])
    for s in expected_dump_checks(world, out['dump'], skip_ids, bool(case.get('ensembl_utr')))[:3]:
        viol('parser: ' + s)
    if out['gene_order'] != [g['id'] for g in world['genes']]:
        viol('parser: gene order differs from the file')
    # ---- 4. on-disk annotation
    full = {w: {k: digest(v) for k, v in out['dump'][w].items()} for w in 'gt'}
    if out['disk_keys'] != [sorted(out['dump']['g']), sorted(out['dump']['t'])]:
        viol('on-disk annotation has a different key set than the fully parsed one')
    if out.get('idx_load_error'):
        viol('load_index failed on the idx files written from generate_index for this annotation: %s' % out['idx_load_error'])
    (creqs, ctags, cres) = cmodel
    traces = {}
    for tag, res in zip(ctags, cres):
        traces[(tag[0], tag[1], tag[2])] = (tag[3], res)
    for hname, hist in case['hist'].items():
        if hname not in out['disk'] and out.get('idx_load_error') and hname.startswith('idx'):
            continue
        results = out['disk'][hname]
        stats['accesses'] += len(hist)
        for which in 'gt':
            sub = [(k, r) for (w, k), r in zip(hist, results) if w == which]
            if not sub:
                continue
            names, tr = traces[(hname, which, 0)]
            inv = {v: k for k, v in names.items()}
            valid = set(out['dump'][which].keys())
            def conv_trace(tr):
                o = []
                for (k, r), step in zip(sub, tr):
                    code, val, dq, ck, invok = step
                    res = full[which].get(names[val]) if code == 0 else 'E:KeyError'
                    o.append([res, [[names[x] for x in dq], sorted(names[x] for x in ck)]])
                return o
            got = [r for k, r in sub]
            as_written = conv_trace(tr)
            stats['evictions'] += sum(1 for a, b in zip(as_written, as_written[1:]) if len(b[1][0]) == len(a[1][0]) and b[1][0] != a[1][0])
            # the statement: every valid key returns the fully parsed model, whatever happened before
            wrong = [(i, k, r[0]) for i, (k, r) in enumerate(sub) if k in valid and r[0] != full[which][k]]
            wrong_bad = [(i, k, r[0]) for i, (k, r) in enumerate(sub) if k not in valid and not is_err(r[0])]
            if hname == 'bad' and (hname, which, 1) in traces:
                fixed = conv_trace(traces[(hname, which, 1)][1])
            else:
                fixed = None
            if wrong or wrong_bad:
                i, k, r = (wrong or wrong_bad)[0]
                keys_sub = [x for x, _ in sub]
                if hname == 'bad' and got == as_written and r == 'E:KeyError' and cache_mechanism_d9(keys_sub, [x[0] for x in got], valid):
                    # minimise: the prefix up to the failing access, on the cache alone
                    small = minimal_d9(which, case)
                    viol('on-disk annotation: access #%d of a history (%s dictionary) to the VALID key %s raised KeyError after an earlier '
                         'access with an unknown key (deque/cache out of step; D9)' % (i, which, k), finding=FINDING_D9,
                         replay=small)
                else:
                    viol('on-disk annotation (%s, history %s): access #%d to key %s returned %s, the fully parsed model is %s' % (
                        which, hname, i, k, r, full[which].get(k)))
            elif got != as_written and (fixed is None or got != fixed):
                first = [i for i, (a, b) in enumerate(zip(got, as_written)) if a != b][0]
                viol('pointer dictionary (%s, history %s): internal state after access #%d is %r, model %r (returned models are still right)' % (
                    which, hname, first, got[first][1], as_written[first][1]), no_input=True,
                    replay={'kind': 'correspondence', 'name': 'corr:C11/pointer_cache', 'example': [sub[first][0], got[first], as_written[first]], 'case': case})
            # the model's own invariant flag on valid-only histories
            if hname != 'bad' and any(step[4] != 1 for step in tr):
                viol('model invariant flag false on a valid-key history (model bug)', no_input=True,
                     replay={'kind': 'correspondence', 'name': 'corr:C11/pointer_cache_inv', 'case': case})
    # ---- 4b. operation histories on ONE object: read-only operations must not change the annotation
    for hname, label in (('history', 'fully parsed'), ('disk_history', 'on-disk')):
        h = out.get(hname)
        if not h:
            continue
        stats['history_ops'] = stats.get('history_ops', 0) + h['n_ops']
        stats['history_writes'] = stats.get('history_writes', 0) + h['writes']
        for pr in h['problems'][:2]:
            if pr['kind'] == 'state_changed':
                viol('%s annotation object: after read-only operation #%d %r the %s %s no longer equals the snapshot taken before the history (fields %r)' % (
                    label, pr['step'], pr['op'], 'gene' if pr['what'][0] == 'g' else 'transcript', pr['what'][1], pr['what'][2]))
            else:
                viol('%s annotation object: operation #%d %r returns a different result than the same operation earlier in the history (%r)' % (
                    label, pr['step'], pr['op'], pr['what']))
        # the first result of every operation = the result on the pristine main object
        for key, r in h['results'].items():
            op = json.loads(key)
            ref = None
            if op[0] == 'seq':
                ref = (out['seqs']['tx'] if hname == 'history' else out['disk_seqs']).get(op[1])
            elif op[0] == 'cdna':
                ref = (out['seqs'].get('cdna', {}) if hname == 'history' else out.get('disk_cdna', {})).get(op[1])
            elif op[0] == 'gseq':
                sq = out['seqs']['gene'][op[1]]
                ref = sq if is_err(sq) else {'seq': sq, 'loc': out['seqs']['gene_loc'][op[1]]}
            elif op[0] == 'g2tx':
                ref = conv['tx'][op[1]]['g2tx'][op[2] - case['pos']['tx'][op[1]]['g'][0]]
            elif op[0] == 'tx2g':
                ref = conv['tx'][op[1]]['tx2g'][op[2] - case['pos']['tx'][op[1]]['i'][0]]
            elif op[0] == 'gene2tx':
                ref = conv['tx'][op[2]]['gene2tx'][op[3] - case['pos']['gene'][op[1]]['i'][0]]
            elif op[0] == 'write':
                ref = out.get('roundtrip_text_md5')
            else:
                continue
            if r != ref:
                d = sorted(f for f in r if r[f] != ref.get(f)) if isinstance(r, dict) and isinstance(ref, dict) else [str(r)[:60], str(ref)[:60]]
                viol('%s annotation object: %r inside a history gives %r, differs from the same call on a fresh object' % (label, op, d))
                break
        if hname == 'history':
            rp = h.get('reparsed')
            if isinstance(rp, str):
                viol('re-parsing the LAST write of a history failed: %s' % rp)
            elif rp is not None:
                for w in 'gt':
                    for k, v in out['dump'][w].items():
                        if unstr and (k == unstr or k in [t['id'] for g in world['genes'] if g['id'] == unstr for t in g['transcripts']]):
                            continue
                        if rp[w].get(k) != v:
                            b = rp[w].get(k)
                            d = 'missing' if b is None else sorted(x for x in v if v[x] != b.get(x))
                            viol('history: the %s %s parsed back from the LAST write differs from the snapshot before the history (fields %r)' % (
                                'gene' if w == 'g' else 'transcript', k, d))
                            break
            if h.get('snapshot_equals_main') is False:
                viol('a fresh fully parsed annotation differs from the first one after a history of read-only operations')
    # ---- 5. write -> parse round trip
    rt = out['roundtrip']
    if isinstance(rt, str):
        viol('GtfIO.write / re-parse failed: %s' % rt)
    else:
        for w in 'gt':
            for k, v in out['dump'][w].items():
                if k in skip_ids and unstr:
                    continue
                if rt[w].get(k) != v:
                    a, b = v, rt[w].get(k)
                    d = 'missing' if b is None else {x: (str(a[x])[:100], str(b[x])[:100]) for x in a if a[x] != b.get(x)}
                    viol('GTF write -> parse changed %s %s: %r' % ('gene' if w == 'g' else 'transcript', k, d))
                    break
        if rt['gene_order'] != out['gene_order'] or sorted(rt['tx_order']) != sorted(out['tx_order']):
            viol('GTF write -> parse changed the set/order of genes or transcripts')
    if out['source'] not in (None, 'GENCODE') or out['disk_source'] != 'GENCODE':
        viol('annotation source inferred as %r / %r for a GENCODE-style file' % (out['source'], out['disk_source']))
    return V

def simple_world(specs, chrom_len=150, seed=7):
    """specs: [(strand, exons)] -> one non-coding single-transcript gene each"""
    w = {'chroms': {'chr1': G.rand_dna(random.Random(seed), chrom_len)}, 'genes': []}
    for i, (strand, exons) in enumerate(specs, 1):
        gid = 'ENSG%011d.1' % i; tid = 'ENST%011d.1' % i
        w['genes'].append({'id': gid, 'name': 'E%d' % i, 'chrom': 'chr1', 'strand': strand, 'biotype': 'lncRNA',
                           'start': exons[0][0], 'end': exons[-1][1] if exons else 0,
                           'transcripts': [{'id': tid, 'protein_id': None, 'exons': [list(e) for e in exons], 'cds': None, 'frame': 0,
                                            'tags': [], 'sec': [], 'utr': False, 'biotype': 'lncRNA'}]})
    return w

def simple_case(world):
    keys = [['g', g['id']] for g in world['genes']] + [['t', t['id']] for g in world['genes'] for t in g['transcripts']]
    return {'kind': 'world', 'wkind': 'corpus', 'world': world, 'pos': positions(world),
            'hist': {'gen': keys, 'idx': keys[::-1]}, 'check_coding': False}

def minimal_bookend():
    w = simple_world([(1, [[10, 20], [20, 30]]), (-1, [[50, 60], [60, 70]])])
    for g in w['genes']:
        g['transcripts'][0]['abut'] = True
    return {'kind': 'world', 'case': simple_case(w)}

def minimal_comment_inside():
    w = simple_world([(1, [[10, 20], [25, 30]]), (-1, [[50, 60], [65, 70]])])
    case = simple_case(w)
    lines = G.gtf_lines(w)
    out = []
    tid = w['genes'][0]['transcripts'][0]['id']
    seen = 0
    for l in lines:
        if l.split('\t')[2] == 'exon' and tid in l:
            seen += 1
            if seen == 2:
                out.append('# a comment between two records of one transcript')
        out.append(l)
    case['gtf_text'] = '\n'.join(out) + '\n'
    case['text_features'] = ['inside']
    case['inside_tx'] = [tid]
    return {'kind': 'world', 'case': case}

def minimal_ensutr():
    rng = random.Random(5)
    for _ in range(200):
        w = G.gen_world(rng, n_chrom=1, max_genes=1, small=True, coding_p=1.0, multi_iso_p=0.0, sec_p=0.0, nf_p=0.0)
        t = w['genes'][0]['transcripts'][0]
        if t['cds'] and t.get('utr') and t['cds'][1] < G.tx_len(t) and t.get('cds_feature_start', t['cds'][0]) > 0:
            break
    case = simple_case(w)
    text_variant(random.Random(1), case, {}, force=['ensembl_utr'])
    return {'kind': 'world', 'case': case}

def minimal_lone():
    w = simple_world([(1, [[10, 20], [25, 30]])])
    w['genes'].append({'id': 'ENSG00000000900.1', 'name': 'LONE', 'chrom': 'chr1', 'strand': 1, 'biotype': 'lncRNA',
                       'start': 60, 'end': 80, 'transcripts': [], 'lone': True})
    return {'kind': 'world', 'case': simple_case(w)}

def minimal_d9(which, case=None):
    w = tiny_world(11)
    keys = [g['id'] for g in w['genes']] if which == 'g' else [t['id'] for g in w['genes'] for t in g['transcripts']]
    hist = [[which, 'ENSX_missing.1']] + [[which, k] for k in keys[:10]]
    return {'kind': 'cache_only', 'case': {'kind': 'cache_only', 'world': w, 'hist': hist}}

# ------------------------------------------------------------------ driver
def new_stats():
    return {'positions': 0, 'seqs': 0, 'orfs': 0, 'secs': 0, 'accesses': 0, 'evictions': 0}

def run_cases(ctx, cases, stats):
    sizes = O.call('c11_consts', [])
    limits = (sizes[1], sizes[2])
    outs = I.run_cases('c11', cases, jobs=ctx.jobs, tag='c11')
    all_reqs, spans = [], []
    for c in cases:
        if c['kind'] == 'cache_only':
            r1, t1 = [], []
            c2 = {'world': c['world'], 'hist': {'bad': c['hist']}}
        else:
            r1, t1 = model_requests(c)
            preq, pnames, plines = pointer_request(c)
            r1.insert(0, preq); t1.insert(0, ('pointers', pnames, plines))
            c2 = c
        r2, t2 = cache_requests(c2, limits)
        spans.append((len(all_reqs), len(r1), t1, len(r2), t2))
        all_reqs += r1 + r2
    res = O.call_parallel(all_reqs, jobs=8)
    V = []
    for c, out, (st, n1, t1, n2, t2) in zip(cases, outs, spans):
        m = (t1, res[st:st + n1])
        cm = (None, t2, res[st + n1:st + n1 + n2])
        if c['kind'] == 'cache_only':
            V += compare_cache_only(c, out, cm, stats)
        else:
            V += compare_world(c, out, m, cm, stats)
    return outs, V

def compare_cache_only(c, out, cm, stats):
    """replay of a pointer-cache history: statement = every valid key is served"""
    V = []
    if isinstance(out, dict) and '__exc__' in out:
        return [{'what': 'implementation raised %s' % out['__exc__'], 'replay_obj': {'kind': 'cache_only', 'case': c}, 'no_input': False}]
    valid = {'g': set(out['disk_keys'][0]), 't': set(out['disk_keys'][1])}
    for i, ((w, k), r) in enumerate(zip(c['hist'], out['disk']['bad'])):
        if k in valid[w] and is_err(r[0]):
            V.append({'what': 'on-disk annotation: access #%d to the VALID key %s raised %s after an earlier access with an unknown key '
                              '(deque/cache out of step; D9)' % (i, k, r[0]),
                      'replay_obj': {'kind': 'cache_only', 'case': c}, 'no_input': False, 'finding': FINDING_D9})
            break
    return V

def world_features(case):
    w = case['world']
    f = {'genes': len(w['genes']), 'tx': 0, 'minus': 0, 'multi_exon': 0, 'coding': 0, 'sec': 0, 'nf': 0, 'utr': 0}
    for g in w['genes']:
        for t in g['transcripts']:
            f['tx'] += 1
            f['minus'] += g['strand'] == -1
            f['multi_exon'] += len(t['exons']) > 1
            f['coding'] += t['cds'] is not None
            f['sec'] += bool(t.get('sec'))
            f['nf'] += bool(t['tags'])
            f['utr'] += bool(t['cds'] and t.get('utr'))
    return f

def load_corpus():
    objs = []
    for p in sorted(glob.glob(os.path.join(ROOT, 'corpus', 'C11', '*.json'))):
        try:
            objs.append((os.path.basename(p), json.load(open(p))))
        except Exception:
            pass
    return objs

def run(ctx):
    rng = ctx.rng
    n = int(os.environ.get('VERIF_C11_N', '300' if ctx.quick else '5000'))
    stats = new_stats()
    gstats = {}
    violations = []
    seen_find, seen_corr = set(), set()
    def add(V):
        for v in V:
            fid = v.get('finding')
            if fid:                       # one (minimised) report per finding signature
                if fid in seen_find:
                    continue
                seen_find.add(fid)
            if v.get('no_input'):         # ONE no-failing-input report per correspondence
                name = v.get('replay_obj', {}).get('name')
                if name in seen_corr:
                    continue
                seen_corr.add(name)
            if len(violations) < 12:
                violations.append(v)
    # corpus first
    corpus = load_corpus()
    ccases = [o['case'] for _, o in corpus if isinstance(o, dict) and 'case' in o]
    if ccases:
        _, V = run_cases(ctx, ccases, new_stats())
        add(V)
    dist = {'wkind': {}, 'tx_total': 0, 'minus_tx': 0, 'multi_exon_tx': 0, 'coding_tx': 0, 'sec_tx': 0, 'nf_tx': 0, 'utr_tx': 0,
            'worlds_over_10_tx': 0, 'worlds_over_10_genes': 0, 'bad_histories': 0}
    nontrivial = set()
    samples = []
    done = 0
    batch = 250
    while done < n:
        cases = [make_case(rng, gstats) for _ in range(min(batch, n - done))]
        done += len(cases)
        outs, V = run_cases(ctx, cases, stats)
        add(V)
        for c in cases:
            f = world_features(c)
            dist['wkind'][c['wkind']] = dist['wkind'].get(c['wkind'], 0) + 1
            dist['tx_total'] += f['tx']; dist['minus_tx'] += f['minus']; dist['multi_exon_tx'] += f['multi_exon']
            dist['coding_tx'] += f['coding']; dist['sec_tx'] += f['sec']; dist['nf_tx'] += f['nf']; dist['utr_tx'] += f['utr']
            dist['worlds_over_10_tx'] += f['tx'] > 10; dist['worlds_over_10_genes'] += f['genes'] > 10
            dist['bad_histories'] += 'bad' in c['hist']
            if f['multi_exon'] and f['minus']:
                nontrivial.add(digest(c['world']))
            if len(samples) < 3:
                samples.append({'wkind': c['wkind'], 'features': f,
                                'first_transcript': {'strand': c['world']['genes'][0]['strand'], 'exons': c['world']['genes'][0]['transcripts'][0]['exons']},
                                'history_head': c['hist']['gen'][:5]})
    dist.update({'intron_1nt_edits': gstats.get('intron1', 0), 'exon_1nt_edits': gstats.get('exon1', 0),
                 'abutting_exon_edits': gstats.get('abutting', 0), 'malformed_strand_cases': gstats.get('malformed_strand', 0),
                 'malformed_frame_cases': gstats.get('malformed_frame', 0), 'corpus_cases': len(ccases)})
    dist['generator'] = dict(gstats)
    dist.update(stats)
    return dict(evaluations=n, distinct_nontrivial=len(nontrivial),
                rule='one evaluation = one generated annotation (genome + GTF + proteome) on which ALL conversions at ALL positions '
                     '(two beyond each end), all sequences / ORFs / Sec, two on-disk access histories (+ one with unknown keys on a subset), '
                     'and the GTF write->parse round trip are compared; non-trivial = the annotation has at least one multi-exon transcript '
                     'and at least one minus-strand transcript; distinct by world content. `positions` counts compared conversion results.',
                samples=samples, distribution=dist, violations=violations,
                assumptions=['exons of a transcript are separated by at least one intronic base (wf); abutting exons are outside the theorems and the generator',
                             'the `source` attribute of non-transcript records (None on disk, inferred when fully parsed) is not part of the compared model; no code reads it',
                             'gene.transcripts compared as a set (the on-disk loader builds it from a Python set)',
                             'genome letters are ACGT; the complement table in the model is regenerated from the installed Biopython'],
                trusted_base=['harness/lib/gen_reference.py ground truth (tx2g/g2tx/tx_seq) used for the declarative checks',
                              'harness/translate/anno.py (cache sizes, complement table)'])

def replay(ctx, obj):
    if obj.get('kind') == 'correspondence' and 'case' in obj:
        cases = [obj['case']]
    elif 'case' in obj:
        cases = [obj['case']]
    else:
        return dict(violations=[{'what': 'replay object without a case: %s' % obj.get('kind'), 'replay_obj': obj, 'no_input': True}])
    _, V = run_cases(ctx, cases, new_stats())
    return dict(violations=V)

def search_failing_input(ctx, broken):
    """a theorem of Props/C11.v no longer checks (e.g. the regenerated cache size): look for a
    concrete annotation / history on which model or statement and implementation part"""
    rng = random.Random(ctx.seed + 1)
    st = {}
    cases = [make_case(rng, st, kind='many') for _ in range(40)] + [make_case(rng, st) for _ in range(40)]
    _, V = run_cases(ctx, cases, new_stats())
    for v in V:
        if not v.get('no_input') and not v.get('finding'):
            r = dict(v['replay_obj'])
            r['what'] = v['what']
            return r
    return None
