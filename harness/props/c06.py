"""C06 correspondence: the dispatch loop of callVariant vs Model/Batch.v, and metamorphic equality of
the peptide set of the real CLI function across threads / file layouts / GVF idx / index dir / hash seeds.

Stream (i) 'loop'  (harness/impl/c06.py wraps, in the worker only, the names the loop resolves at call
  time): for generated worlds and skip patterns (natural: every record of a transcript is intronic, or
  --noncanonical-transcripts; generated: a forced subset, exhaustive for small worlds) x threads 1..5 the
  batches actually handed to caller_reducer are compared with
     B = the model of the loop shape found in the source (Gen/BatchLoop.v: 0 as written, 1 repaired)
  and the statement itself is evaluated on the observation: concatenation of the observed batches ==
  the transcripts for which gather_data_for_call_variant returned a dispatch, in order; and the peptide
  set == the peptide set of the --threads 1 run of the same input (for one thread the loop as written
  is proved correct: all_dispatched_single).
Stream (ii) 'cli' (nothing wrapped, real pathos pool): baseline = threads 1, one GVF file, no idx, raw
  reference, hash seed 0; variants: threads 2 and 3, three partitions/orders of the records into files,
  .idx files, generateIndex directory, two more hash seeds.  Peptide sets must be equal.
Signature of finding D3 (loop as written, i not incremented on `continue`): the loop shape in the
source is 0, threads > 1, the observed batches equal model B's, and what is missing is exactly B's
never-flushed pending list (stream i) / the peptide set equals the one of the observed serial run with
the same thread count whose batches are incomplete in that way (stream ii).
"""
import json, collections
from harness.lib import oracle as O, impl as I, gen_reference as G

PROPERTY = 'C06'
HDR = ['##fileformat=VCFv4.2', '##mopepgen_version=1.4.6', '##parser=parseVEP', '##reference_index=',
       '##genome_fasta=', '##annotation_gtf=', '##source=%s', "##CHROM=<Description='Gene ID'>",
       '##INFO=<ID=TRANSCRIPT_ID,Number=1,Type=String,Description="Transcript ID">',
       '##INFO=<ID=GENE_SYMBOL,Number=1,Type=String,Description="Gene Symbol">',
       '##INFO=<ID=GENOMIC_POSITION,Number=1,Type=String,Description="Genomic Position">',
       '#CHROM\tPOS\tID\tREF\tALT\tQUAL\tFILTER\tINFO']

def gvf_text(records, source='gSNP'):
    rows = ['%s\t%d\t%s\t%s\t%s\t.\t.\tTRANSCRIPT_ID=%s;%sGENOMIC_POSITION=%s:%d;GENE_SYMBOL=%s' % (
        r['gene'], r['pos'], r['id'], r['ref'], r['alt'], r['tx'], r.get('extra', ''), r['chrom'], r['gpos'], r['symbol']) for r in records]
    return '\n'.join([h % source if '%s' in h else h for h in HDR] + rows) + '\n'

def world_texts(world):
    import tempfile, os, shutil
    d = tempfile.mkdtemp(dir=I.WORK if os.path.isdir(I.WORK) else None)
    try:
        g, a, p = G.write_world(world, d)
        return {'genome.fasta': open(g).read(), 'annotation.gtf': open(a).read(), 'proteome.fasta': open(p).read()}
    finally:
        shutil.rmtree(d, ignore_errors=True)

def mk_record(rng, world, gene, tx, ti, kind):
    """SNV / small INDEL at transcript position ti (exonic), given in gene coordinates"""
    gs = G.gene_seq(world, gene)
    gi = G.g2gene(gene, G.tx2g(gene, tx, ti))
    n = G.tx_len(tx)
    ref = gs[gi]
    if kind == 'del' and ti + 3 < n and abs(G.tx2g(gene, tx, ti + 3) - G.tx2g(gene, tx, ti)) == 3:
        ref, alt, typ = gs[gi:gi + 3], gs[gi], 'INDEL'
    elif kind == 'ins':
        alt, typ = ref + rng.choice(['A', 'CT', 'GGA', 'T']), 'INDEL'
    else:
        alt, typ = rng.choice([b for b in 'ACGT' if b != ref]), 'SNV'
    return dict(gene=gene['id'], pos=gi + 1, id='%s-%d-%s-%s' % (typ, gi + 1, ref, alt), ref=ref, alt=alt, tx=tx['id'],
                chrom=gene['chrom'], gpos=G.tx2g(gene, tx, ti) + 1, symbol=gene['name'])

def tx_exons(gene, tx):
    """exons in transcription order as gene-coordinate half-open intervals"""
    out = []
    for a, b in (tx['exons'] if gene['strand'] == 1 else list(reversed(tx['exons']))):
        g0 = G.g2gene(gene, a if gene['strand'] == 1 else b - 1)
        out.append((g0, g0 + (b - a)))
    return out

def as_records(rng, world, gene, tx):
    """Alternative-splicing style records (<INS>/<DEL>/<SUB>, gene coordinates, 1-based inclusive DONOR_START/
    DONOR_END/START/END as parseRMATS writes them) for a transcript with >= 2 exons, including PAIRS that differ
    in exactly one attribute (DONOR_END or DONOR_START) and are otherwise identical (same POS/REF/ALT)."""
    ex = tx_exons(gene, tx)
    gs = G.gene_seq(world, gene)
    base = dict(gene=gene['id'], tx=tx['id'], chrom=gene['chrom'], symbol=gene['name'], gpos=1)
    out = []
    introns = [(ex[i][1], ex[i + 1][0], i) for i in range(len(ex) - 1) if ex[i + 1][0] - ex[i][1] >= 8]
    if introns and rng.random() < 0.8:
        s, e, i = rng.choice(introns)
        anchor = s - 1                                  # last base of the upstream exon
        L = e - s
        kind = rng.choice(['donor_end', 'donor_end', 'donor_start', 'single'])
        if kind == 'donor_end':                         # exon extended by l1 or by l2 bases of the intron (A5SS-like)
            l1, l2 = sorted(rng.sample(range(3, L + 1), 2)) if L >= 4 else (3, L)
            spans = [(s, s + l1), (s, s + l2)]
        elif kind == 'donor_start':                     # two intronic pieces ending at the same base
            a1, a2 = sorted(rng.sample(range(s, e - 3), 2)) if e - 3 - s >= 2 else (s, s + 1)
            spans = [(a1, e), (a2, e)]
        else:
            spans = [(s, s + rng.randint(3, L))]
        for (a, b) in spans:
            out.append(dict(base, pos=anchor + 1, id='A5SS_%d_%d_%d' % (anchor + 1, a + 1, b), ref=gs[anchor], alt='<INS>',
                            extra='DONOR_GENE_ID=%s;DONOR_START=%d;DONOR_END=%d;' % (gene['id'], a + 1, b)))
    if len(ex) >= 3 and rng.random() < 0.5:             # an internal exon skipped (SE as deletion)
        i = rng.randrange(1, len(ex) - 1)
        a, b = ex[i]
        out.append(dict(base, pos=a + 1, id='SE_%d' % (a + 1), ref=gs[a], alt='<DEL>', extra='START=%d;END=%d;' % (a + 1, b)))
    if len(ex) >= 3 and introns and rng.random() < 0.3:  # an internal exon replaced by an intronic piece (MXE as substitution)
        i = rng.randrange(1, len(ex) - 1)
        a, b = ex[i]
        s, e, _ = rng.choice(introns)
        pieces = [(s, min(e, s + rng.randint(4, 30)))]
        if e - s >= 8 and rng.random() < 0.5:
            pieces.append((s, min(e, pieces[0][1] + rng.randint(1, 5))))
        for (c0, c1) in pieces:
            if c1 <= a or c0 >= b:
                out.append(dict(base, pos=a + 1, id='MXE_%d_%d_%d' % (a + 1, c0 + 1, c1), ref=gs[a], alt='<SUB>',
                                extra='START=%d;END=%d;DONOR_GENE_ID=%s;DONOR_START=%d;DONOR_END=%d;' % (a + 1, b, gene['id'], c0 + 1, c1)))
    # distinct (pos, alt, extra) only
    seen, uniq = set(), []
    for r in out:
        k = (r['pos'], r['alt'], r['extra'])
        if k not in seen:
            seen.add(k); uniq.append(r)
    return uniq

def fusion_records(rng, world, gene, tx):
    """<FUSION> records with tx as donor: breakpoint at an exonic position of the donor, accepter = an exonic position
    of a transcript of ANOTHER gene; with probability 1/2 a second record that differs ONLY in ACCEPTER_POSITION or
    only in ACCEPTER_TRANSCRIPT_ID (another isoform of the accepter gene)"""
    others = [(g, t) for g in world['genes'] if g['id'] != gene['id'] for t in g['transcripts']]
    if not others:
        return []
    gs = G.gene_seq(world, gene)
    n = G.tx_len(tx)
    ti = rng.randrange(max(1, (tx['cds'][0] + 6) if tx['cds'] else 3), max(2, n - 3))
    gi = G.g2gene(gene, G.tx2g(gene, tx, min(ti, n - 1)))
    g2, t2 = rng.choice(others)
    def acc(g2, t2, k):
        k = min(max(1, k), G.tx_len(t2) - 2)
        return G.g2gene(g2, G.tx2g(g2, t2, k))
    a1 = acc(g2, t2, rng.randrange(1, max(2, G.tx_len(t2) - 2)))
    recs = [(g2, t2, a1)]
    if rng.random() < 0.5:
        iso = [t for t in g2['transcripts'] if t['id'] != t2['id']]
        if iso and rng.random() < 0.5:
            t3 = rng.choice(iso)
            # the same accepter gene position must be exonic in the other isoform
            if G.g2tx(g2, t3, G.gene2g(g2, a1)) is not None:
                recs.append((g2, t3, a1))
        else:
            a2 = acc(g2, t2, rng.randrange(1, max(2, G.tx_len(t2) - 2)))
            if a2 != a1:
                recs.append((g2, t2, a2))
    out = []
    for (ga, ta, ap) in recs:
        out.append(dict(gene=gene['id'], tx=tx['id'], chrom=gene['chrom'], symbol=gene['name'], gpos=1, pos=gi + 1,
                        id='FUSION-%s:%d-%s:%d' % (tx['id'], gi + 1, ta['id'], ap + 1), ref=gs[gi], alt='<FUSION>',
                        extra='ACCEPTER_GENE_ID=%s;ACCEPTER_TRANSCRIPT_ID=%s;ACCEPTER_SYMBOL=%s;ACCEPTER_POSITION=%d;ACCEPTER_GENOMIC_POSITION=%s:%d:%d;'
                              % (ga['id'], ta['id'], ga['name'], ap + 1, ga['chrom'], 1, 1)))
    return out

def intron_record(rng, world, gene, tx):
    """SNV inside an intron of tx (every record intronic => the series is empty => transcript skipped)"""
    introns = [(a[1], b[0]) for a, b in zip(tx['exons'], tx['exons'][1:]) if b[0] - a[1] >= 1]
    if not introns:
        return None
    s, e = rng.choice(introns)
    g = rng.randrange(s, e)
    gs = G.gene_seq(world, gene)
    gi = G.g2gene(gene, g)
    ref = gs[gi]
    alt = rng.choice([b for b in 'ACGT' if b != ref])
    return dict(gene=gene['id'], pos=gi + 1, id='SNV-%d-%s-%s' % (gi + 1, ref, alt), ref=ref, alt=alt, tx=tx['id'],
                chrom=gene['chrom'], gpos=g + 1, symbol=gene['name'])

def gen_world_case(rng, max_tx=7, p_intronic=0.3, cluster_p=0.0, nrec=(1, 1, 2, 3)):
    for _ in range(50):
        world = G.gen_world(rng, n_chrom=1, max_genes=rng.choice([2, 3, 4]), small=True, sec_p=0.0, nf_p=0.05, multi_iso_p=0.7)
        txs = [(g, t) for g in world['genes'] for t in g['transcripts']]
        if 2 <= len(txs):
            break
    rng.shuffle(txs)
    txs = txs[:max_tx]
    records, plan = [], {}
    for gene, tx in txs:
        x = rng.random()
        if x < 0.08:
            plan[tx['id']] = 'none'
            continue
        if x < 0.08 + p_intronic:
            r = intron_record(rng, world, gene, tx)
            if r:
                records.append(r)
                if rng.random() < 0.3:
                    r2 = intron_record(rng, world, gene, tx)
                    if r2 and r2['id'] != r['id']:
                        records.append(r2)
                plan[tx['id']] = 'intronic'
                continue
        n = G.tx_len(tx)
        lo, hi = (tx['cds'][0] + 3, max(tx['cds'][0] + 4, tx['cds'][1] - 3)) if tx['cds'] else (1, n - 1)
        used = set()
        clustered = rng.random() < cluster_p
        for _k in range(rng.choice(nrec)):
            if clustered and used:      # two or three SNVs inside one tryptic peptide: 3-9 nt apart
                ti = min(max(lo, max(used) + rng.choice([3, 4, 6, 9])), max(lo, min(hi, n - 1) - 1))
            else:
                ti = rng.randrange(lo, max(lo + 1, min(hi, n - 1)))
            if any(abs(ti - u) < (3 if clustered else 6) for u in used):
                continue
            used.add(ti)
            records.append(mk_record(rng, world, gene, tx, ti, 'snv' if clustered else rng.choice(['snv', 'snv', 'snv', 'del', 'ins'])))
        plan[tx['id']] = 'exonic'
    # distinct records only (the same record id for the same transcript twice is the same record)
    seen, uniq = set(), []
    for r in records:
        k = (r['tx'], r['id'])
        if k not in seen:
            seen.add(k); uniq.append(r)
    return dict(world=world_texts(world), records=uniq, plan=plan, _world=world)

NOCUT = 'ADEFGHNQSTVWYLIC'

def gen_paralog_case(rng, short=False):
    """World with paralogous coding genes: gene B's protein is gene A's protein with one residue replaced, and the
    GVF holds exactly the SNV of A that produces that residue, so A's variant peptides across that residue are
    canonical peptides of ANOTHER protein (B) and must be filtered whatever the reference form.  Proteins are made
    of tryptic peptides of 6-38 residues (so some exceed the default --max-length 25); a second, ordinary SNV
    elsewhere and a third gene give peptides that must be reported."""
    def protein(force5=False):
        p = 'M'
        n = rng.randint(4, 7)
        at = rng.randrange(1, n) if force5 else -1          # a 6-residue tryptic peptide, not the first one
        for i_ in range(n):
            p += ''.join(rng.choice(NOCUT) for _ in range(5 if i_ == at else rng.choice([5, 8, 12, 20, 26, 28, 31, 37]))) + rng.choice('KR')
        return p + ''.join(rng.choice(NOCUT) for _ in range(rng.randint(6, 12)))
    protA = protein(force5=short)
    dnaA = G.backtranslate(rng, protA)
    # residue to replace: inside a long peptide if there is one; a codon with a single-base neighbour coding
    # another NOCUT residue
    cands = []
    for k in range(2, len(protA) - 2):
        cod = dnaA[3 * k:3 * k + 3]
        for j in range(3):
            for b in 'ACGT':
                if b != cod[j]:
                    new = cod[:j] + b + cod[j + 1:]
                    aa = G.CODON[new]
                    if aa != protA[k] and aa in NOCUT and protA[k] in NOCUT:
                        cands.append((k, j, b, aa))
    import re as _re
    spans, a0 = {}, 0
    for seg in _re.split('(?<=[KR])', protA):
        for x in range(a0, a0 + len(seg)):
            spans[x] = len(seg)
        a0 += len(seg)
    long_c = [c_ for c_ in cands if spans.get(c_[0], 0) >= 26]
    short_c = [c_ for c_ in cands if spans.get(c_[0], 0) == 6]
    if short and short_c:       # the paralog peptide is a 6-mer: inside the length window only with --min-length <= 6
        k, j, b, aa = rng.choice(short_c)
    else:
        k, j, b, aa = rng.choice(long_c if long_c and rng.random() < 0.75 else cands)
    dnaB = dnaA[:3 * k + j] + b + dnaA[3 * k + j + 1:]
    protC = protein()
    world = {'chroms': {}, 'genes': []}
    chrom, pos = [], rng.randint(20, 50)
    specs = [('A', dnaA), ('B', dnaB), ('C', G.backtranslate(rng, protC))]
    rng.shuffle(specs)
    placed = {}
    for gi, (name, cds) in enumerate(specs):
        u5, u3 = rng.randint(9, 40), rng.randint(9, 40)
        text = ''.join(rng.choice('CT') for _ in range(u5)) + cds + rng.choice(['TAA', 'TAG']) + ''.join(rng.choice('CT') for _ in range(u3))
        n = len(text)
        # 1-3 exons: cut the transcript at random points, introns of 5-30 nt
        cuts = sorted(rng.sample(range(12, n - 12), rng.choice([0, 1, 2])))
        exons, p0, last = [], pos, 0
        for c_ in cuts + [n]:
            exons.append([p0, p0 + (c_ - last)])
            p0 += (c_ - last) + rng.randint(5, 30)
            last = c_
        strand = rng.choice([1, -1])
        gene = {'id': 'ENSG%011d.1' % (gi + 1), 'name': 'PARA' + name, 'chrom': 'chr1', 'strand': strand, 'biotype': 'protein_coding',
                'start': exons[0][0], 'end': exons[-1][1], 'transcripts': []}
        tx = {'id': 'ENST%011d.1' % ((gi + 1) * 10), 'protein_id': 'ENSP%011d.1' % ((gi + 1) * 10), 'exons': exons,
              'cds': [u5, u5 + len(cds)], 'frame': 0, 'tags': [], 'sec': [], 'utr': rng.random() < 0.5, 'biotype': 'protein_coding',
              'cds_feature_start': u5}
        gene['transcripts'].append(tx)
        end = exons[-1][1]
        while len(chrom) < end + 60:
            chrom.append(rng.choice('ACGT'))
        G._write_into(chrom, gene, exons, 0, text)
        world['genes'].append(gene)
        placed[name] = (gene, tx, u5)
        pos = end + rng.randint(20, 60)
    world['chroms']['chr1'] = ''.join(chrom)
    gA, tA, u5A = placed['A']
    gs = G.gene_seq(world, gA)
    def snv(gene, tx, ti, alt=None):
        gi_ = G.g2gene(gene, G.tx2g(gene, tx, ti))
        g_seq = G.gene_seq(world, gene)
        ref = g_seq[gi_]
        alt = alt or rng.choice([x for x in 'ACGT' if x != ref])
        return dict(gene=gene['id'], pos=gi_ + 1, id='SNV-%d-%s-%s' % (gi_ + 1, ref, alt), ref=ref, alt=alt, tx=tx['id'],
                    chrom=gene['chrom'], gpos=G.tx2g(gene, tx, ti) + 1, symbol=gene['name'])
    records = [snv(gA, tA, u5A + 3 * k + j, b)]
    # an ordinary SNV in A far from the first one, and one in C
    far = [x for x in range(3, len(protA) - 2) if abs(x - k) > 45]
    if far:
        records.append(snv(gA, tA, u5A + 3 * rng.choice(far) + rng.choice([0, 1])))
    gC, tC, u5C = placed['C']
    records.append(snv(gC, tC, u5C + 3 * rng.randint(3, len(protC) - 3) + rng.choice([0, 1])))
    if rng.random() < 0.5:
        records.append(snv(gC, tC, u5C + 3 * rng.randint(3, len(protC) - 3) + 2))
    seen, uniq = set(), []
    for r in records:
        if (r['tx'], r['pos']) not in seen:
            seen.add((r['tx'], r['pos'])); uniq.append(r)
    return dict(world=world_texts(world), records=uniq, plan={t['id']: 'exonic' for g in world['genes'] for t in g['transcripts']},
                paralog=dict(residue=k, peptide_len=spans[k]))

def mutate_proteome(rng, text):
    """proteome entries as translation tools emit them: terminal '*', an inner '*', a leading X"""
    out, kinds = [], collections.Counter()
    if not text.strip():
        return text, {}
    lines = text.strip().split('\n')
    for i in range(0, len(lines), 2):
        h, sq = lines[i], lines[i + 1]
        x = rng.random()
        if x < 0.3:
            sq += '*'; kinds['terminal*'] += 1
        elif x < 0.4 and len(sq) > 10:
            k = rng.randrange(4, len(sq) - 3)
            sq = sq[:k] + '*' + sq[k + 1:]; kinds['inner*'] += 1
        elif x < 0.5:
            sq = 'X' + sq[1:]; kinds['leadingX'] += 1
        out += [h, sq]
    return '\n'.join(out) + '\n', dict(kinds)

def alternate_split(records):
    """records alternately into two files: members of a pair (adjacent in the list) land in different files"""
    return [records[0::2], records[1::2]]

def single_file_layouts(rng, records):
    """layouts in ONE file in which a transcript's records form several non-adjacent blocks:
    gene-sorted (CHROM = gene id, POS) as the gene-based parsers write, and round-robin over the transcripts"""
    gs = sorted(records, key=lambda r: (r['gene'], r['pos'], r['tx']))
    by = collections.OrderedDict()
    for r in records:
        by.setdefault(r['tx'], []).append(r)
    rr, lists = [], [list(v) for v in by.values()]
    while any(lists):
        for l in lists:
            if l:
                rr.append(l.pop(0))
    return {'gene-sorted': gs, 'round-robin': rr}

def n_split_blocks(records):
    """number of transcripts whose records are NOT contiguous in this file order"""
    blocks = collections.Counter()
    prev = None
    for r in records:
        if r['tx'] != prev:
            blocks[r['tx']] += 1
            prev = r['tx']
    return sum(1 for v in blocks.values() if v > 1)

def gen_cleavage_args(rng):
    """non-default cleavage parameters (the same for generateIndex and callVariant)"""
    if rng.random() < 0.2:
        return []
    a = []
    if rng.random() < 0.75:
        a += ['--max-length', rng.choice([26, 28, 30, 33, 36, 40])]
    if rng.random() < 0.5:
        a += ['--min-length', rng.choice([5, 6, 8, 9])]
    if rng.random() < 0.5:
        a += ['--miscleavage', rng.choice([0, 1, 3])]
    if rng.random() < 0.4:
        a += ['--min-mw', rng.choice([300.5, 700.5, 900.5])]
    if rng.random() < 0.3:
        a += ['--cleavage-rule', rng.choice(ENZYMES)]
    return a

# enzymes other than trypsin offered to the strict stream (rules with look-ahead / look-behind included)
ENZYMES = ['lysc', 'arg-c', 'chymotrypsin high specificity', 'asp-n', 'lysn', 'glutamyl endopeptidase']

def partitions(rng, records):
    """three layouts of the same records: split into files, file order, record order"""
    outs = []
    recs = list(records)
    # 1: two files by random assignment, original order
    a = [r for r in recs if rng.random() < 0.5]
    b = [r for r in recs if r not in a]
    outs.append([x for x in (a, b) if x] or [recs])
    # 2: reversed record order, three files round robin, files reversed
    rv = list(reversed(recs))
    fs = [rv[0::3], rv[1::3], rv[2::3]]
    outs.append([x for x in reversed(fs) if x] or [recs])
    # 3: one file per transcript interleaved/shuffled
    sh = list(recs); rng.shuffle(sh)
    k = rng.randint(1, max(1, min(4, len(sh))))
    fs = [sh[i::k] for i in range(k)]
    outs.append([x for x in fs if x] or [recs])
    return [[gvf_text(f) for f in layout] for layout in outs]

# ----------------------------------------------------------------------------- stream (i)
def loop_cases(rng, quick):
    cases = []
    n_worlds = 40 if quick else 400
    for wi in range(n_worlds):
        w = gen_world_case(rng, max_tx=rng.choice([3, 4, 5, 6, 7]))
        if not w['records']:
            continue
        txs = sorted({r['tx'] for r in w['records']})
        pats = [[]]
        if len(txs) <= (4 if quick else 6) and rng.random() < 0.5:
            for m in range(1, 2 ** len(txs)):           # exhaustive forced skip patterns
                pats.append([t for k, t in enumerate(txs) if m >> k & 1])
        else:
            for _ in range(3 if quick else 6):
                pats.append([t for t in txs if rng.random() < 0.4])
        seen = set()
        for fs in pats:
            if tuple(fs) in seen:
                continue
            seen.add(tuple(fs))
            for th in (1, 2, 3, 4, 5):
                cases.append(dict(kind='loop', wid=wi, world=w['world'], gvfs=[gvf_text(w['records'])], threads=th,
                                  force_skip=fs, noncanonical=False, plan=w['plan']))
        if rng.random() < 0.2:
            for th in (1, 3):
                cases.append(dict(kind='loop', wid=wi, world=w['world'], gvfs=[gvf_text(w['records'])], threads=th,
                                  force_skip=[], noncanonical=True, plan=w['plan']))
    # retry path: the first attempt of chosen transcripts raises TimeoutError inside the worker; caller_reducer
    # retries them with the next (smaller) --max-variants-per-node / --additional-variants-per-misc.  Transcripts
    # carry 2-3 SNVs inside one tryptic peptide, so lowered limits change their peptides: if the lowered limits
    # of a timed-out transcript reached OTHER transcripts (shared CleavageParams object) only in some thread
    # configuration, the peptide set would depend on --threads.
    for wi in range(25 if quick else 250):
        w = gen_world_case(rng, max_tx=rng.choice([3, 4, 5, 6]), p_intronic=0.1, cluster_p=0.8, nrec=(2, 3, 3))
        txs = sorted(t for t, v in w['plan'].items() if v == 'exonic')
        if len(txs) < 2:
            continue
        for _ in range(2):
            to = rng.sample(txs, rng.choice([1, 1, 2]))
            for th in (1, 2, 3):
                cases.append(dict(kind='loop', wid='to%d' % wi, world=w['world'], gvfs=[gvf_text(w['records'])], threads=th,
                                  force_skip=[], noncanonical=False, plan=w['plan'], timeout_tx=sorted(to),
                                  call_args=['--max-variants-per-node', 7, 1, '--additional-variants-per-misc', 2, 0]))
    return cases

def model_batches(variant, threads, gathered, ids):
    return ('c06_batches', [variant, threads, [[ids[t], sk] for t, sk in gathered]])

def eval_loop(ctx, cases, variant):
    impl = I.run_cases('c06', cases, jobs=ctx.jobs, tag='c06l')
    reqs, idmaps = [], []
    for c, r in zip(cases, impl):
        if isinstance(r, dict) and 'gathered' in r:
            ids = {t: k + 1 for k, (t, _) in enumerate(r['gathered'])}
            idmaps.append(ids)
            reqs.append(model_batches(variant, c['threads'], r['gathered'], ids))
        else:
            idmaps.append(None)
    model = O.call_parallel(reqs, jobs=8)
    mi = iter(model)
    viol, stats = [], collections.Counter()
    ref = {}
    for c, r in zip(cases, impl):       # reference peptide sets: threads == 1
        if c['threads'] == 1 and isinstance(r, dict) and 'peptides' in r:
            ref[(c['wid'], tuple(c['force_skip']), c['noncanonical'], tuple(c.get('timeout_tx', [])))] = r['peptides']
    for c, r, ids in zip(cases, impl, idmaps):
        small = {k: v for k, v in c.items() if k not in ('world', 'gvfs')}
        if ids is None:
            viol.append(dict(what='callVariant raised %s (%s)' % (r.get('__exc__'), json.dumps(small)[:200]),
                             replay_obj={'kind': 'case', 'case': c, 'impl': r}, no_input=False))
            continue
        m = next(mi)
        inv = {v: k for k, v in ids.items()}
        mb = [[inv[x] for x in b] for b in m[0]]
        pending = [inv[x] for x in m[1]]
        want = [t for t, sk in r['gathered'] if not sk]
        got = [t for b in r['batches'] for t in b]
        nskip = sum(1 for _, sk in r['gathered'] if sk)
        stats['loop/threads=%d' % c['threads']] += 1
        stats['loop/skipped=%s' % ('0' if nskip == 0 else '1' if nskip == 1 else '2+')] += 1
        same_model = (r['batches'] == mb)
        ok_prop = (got == want)
        rp = ref.get((c['wid'], tuple(c['force_skip']), c['noncanonical'], tuple(c.get('timeout_tx', []))))
        if c.get('timeout_tx'):
            stats['loop/forced-timeout'] += 1
            # did the lowered limits of a retried transcript reach the first attempt of another transcript?
            first = {}
            for tx, mv, av in r.get('attempts', []):
                first.setdefault(tx, (mv, av))
            leaked = sorted(t for t, (mv, av) in first.items() if (mv, av) != (7, 2))
            if leaked:
                stats['loop:retry-limits-leaked'] += 1
        ok_pep = (rp is None or rp == r['peptides'])
        rep = {'kind': 'case', 'case': c, 'impl': {k: r.get(k) for k in ('batches', 'gathered', 'peptides', 'attempts')},
               'model_batches': mb, 'model_never_flushed': pending, 'peptides_threads1': rp}
        if ok_prop and ok_pep and same_model:
            stats['loop:agree'] += 1
            continue
        if not ok_prop or not ok_pep:
            d3 = (variant == 0 and c['threads'] > 1 and same_model and nskip > 0 and
                  want == got + pending and (ok_pep or not ok_prop))
            stats['loop:property-fails' + ('(D3)' if d3 else '')] += 1
            lost = [t for t in want if t not in got]
            extra = ''
            if c.get('timeout_tx'):
                extra = '; forced timeout of %s, first-attempt limits per transcript %s' % (c['timeout_tx'], r.get('attempts'))
            if ok_prop:
                what = ('--threads %d: every non-skipped transcript is dispatched once (batches %s) but the peptide set differs from the '
                        '--threads 1 run of the same input: %d vs %d peptides%s' % (c['threads'], r['batches'], len(r['peptides'] or []),
                                                                                   len(rp or []), extra))
            else:
                what = ('--threads %d, %d of %d transcripts skipped: dispatched batches %s but %s had a dispatch; never dispatched: %s; '
                        'peptides %d vs %d with --threads 1%s' % (c['threads'], nskip, len(r['gathered']), r['batches'], want, lost,
                                                                  len(r['peptides'] or []), len(rp or []), extra))
            viol.append(dict(what=what,
                             replay_obj=rep, no_input=False, finding='D3' if d3 else None,
                             _size=len(r['gathered']) * 10 + c['threads']))
        else:
            stats['loop:batches differ from model, statement holds'] += 1
            viol.append(dict(what='batches %s differ from the model of the loop found in the source %s although every non-skipped transcript '
                                  'is dispatched once' % (r['batches'], mb), replay_obj=dict(rep, name='corr:C06/dispatch_loop'),
                             no_input=True, _harmless=True))
    return impl, viol, stats

# ----------------------------------------------------------------------------- stream (ii)
def cli_cases(rng, quick):
    groups = []
    n_worlds = 20 if quick else 100
    for wi in range(n_worlds):
        paralog = (wi % 2 == 1)
        w = gen_paralog_case(rng) if paralog else gen_world_case(rng, max_tx=7, p_intronic=0.25, nrec=(2, 2, 3, 4))
        if len(w['records']) < 2:
            continue
        w['kinds'] = collections.Counter()
        if not paralog and w.get('_world') is not None and rng.random() < 0.7:
            wd = w['_world']
            extra = []
            for g in wd['genes']:
                for t in g['transcripts']:
                    if len(t['exons']) >= 2 and rng.random() < 0.6:
                        extra += as_records(rng, wd, g, t)
                    if rng.random() < 0.25:
                        extra += fusion_records(rng, wd, g, t)
            for r in extra:
                w['kinds'][r['alt']] += 1
            # pairs that differ in one attribute only
            by = collections.Counter((r['tx'], r['pos'], r['alt']) for r in extra)
            w['kinds']['pairs differing in one attribute'] = sum(1 for v in by.values() if v > 1)
            w['records'] = w['records'] + extra
        ref_args, protkinds = [], {}
        if rng.random() < 0.7:
            w['world'] = dict(w['world'])
            w['world']['proteome.fasta'], protkinds = mutate_proteome(rng, w['world']['proteome.fasta'])
            if rng.random() < 0.35:
                ref_args = ['--invalid-protein-as-noncoding']
        cargs = gen_cleavage_args(rng)
        if paralog and '--max-length' not in cargs and rng.random() < 0.8:
            cargs = cargs + ['--max-length', rng.choice([30, 36, 40])]
        base = dict(kind='cli', wid=wi, world=w['world'], threads=1, gvf_idx=False, index_dir=False, noncanonical=False,
                    cleavage_args=cargs, paralog=w.get('paralog'), ref_args=ref_args, protkinds=protkinds, reckinds=dict(w['kinds']))
        one = [gvf_text(w['records'])]
        lays = partitions(rng, w['records'])
        singles = single_file_layouts(rng, w['records'])
        variants = [('baseline', dict(base, gvfs=one), '0')]
        for k, lay in enumerate(lays):
            variants.append(('layout%d' % (k + 1), dict(base, gvfs=lay), '0'))
        variants.append(('gvf-idx', dict(base, gvfs=lays[0], gvf_idx=True), '0'))
        variants.append(('layout3+gvf-idx', dict(base, gvfs=lays[2], gvf_idx=True), '0'))
        for nm, recs in singles.items():       # several non-adjacent blocks of a transcript inside one file
            sb = n_split_blocks(recs)
            variants.append((nm, dict(base, gvfs=[gvf_text(recs)], split_blocks=sb), '0'))
            variants.append((nm + '+gvf-idx', dict(base, gvfs=[gvf_text(recs)], gvf_idx=True, split_blocks=sb), '0'))
        alt2 = [gvf_text(f) for f in alternate_split(w['records']) if f]
        variants.append(('alternate-split', dict(base, gvfs=alt2), '0'))
        variants.append(('alternate-split-reversed', dict(base, gvfs=list(reversed(alt2))), '0'))
        variants.append(('alternate-split-reversed+gvf-idx', dict(base, gvfs=list(reversed(alt2)), gvf_idx=True), '0'))
        # byte layout of the same records: files WITHOUT a final line break (hand-split / concatenated files), CRLF line
        # ends (both accepted by the unchanged tree with and without .idx); the last record of a file is the one at risk,
        # so the reversed order is run as well
        rev = gvf_text(list(reversed(w['records'])))
        crlf = one[0].replace('\n', '\r\n')
        variants.append(('no-final-newline', dict(base, gvfs=[one[0][:-1]]), '0'))
        variants.append(('no-final-newline+gvf-idx', dict(base, gvfs=[one[0][:-1]], gvf_idx=True), '0'))
        variants.append(('reversed-no-final-newline', dict(base, gvfs=[rev[:-1]]), '0'))
        variants.append(('alternate-split-no-final-newline', dict(base, gvfs=[x[:-1] for x in alt2]), '0'))
        variants.append(('alternate-split-no-final-newline+gvf-idx', dict(base, gvfs=[x[:-1] for x in alt2], gvf_idx=True), '0'))
        variants.append(('crlf', dict(base, gvfs=[crlf]), '0'))
        variants.append(('crlf-no-final-newline+gvf-idx', dict(base, gvfs=[crlf[:-2]], gvf_idx=True), '0'))
        variants.append(('index-dir', dict(base, gvfs=one, index_dir=True), '0'))
        variants.append(('hashseed-1', dict(base, gvfs=lays[2]), '1'))
        variants.append(('hashseed-31337', dict(base, gvfs=one), '31337'))
        for th in ((2, 3) if quick or wi % 2 else (2, 3, 4)):
            variants.append(('threads%d' % th, dict(base, gvfs=one, threads=th), '0'))
            variants.append(('threads%d-observed' % th, dict(base, gvfs=one, threads=th, kind='loop', force_skip=[]), '0'))
        if wi % 3 == 0:
            comb = dict(base, gvfs=[gvf_text(singles['gene-sorted'])], threads=2, gvf_idx=True, index_dir=True)
            variants.append(('threads2+gene-sorted+idx+index', comb, '7'))
            variants.append(('threads2+gene-sorted+idx+index-observed', dict(comb, kind='loop', force_skip=[]), '0'))
        groups.append((wi, w, variants))
    # index directories that hold SEVERAL canonical pools (generateIndex with one setting + updateIndex for 1-2 more, in
    # a generated registration order): for EACH registered setting the run with --index-dir must equal the run of the
    # same setting on the raw files.  Paralog worlds whose paralog peptide lies inside the window of only SOME of the
    # registered settings (a 6-mer: needs --min-length <= 6; a 27-38-mer: needs --max-length >= its length), so a run
    # that filters against the pool of another setting writes a different peptide set.
    for wi in range(5 if quick else 40):
        short = (wi % 2 == 0)
        w = gen_paralog_case(rng, short=short)
        common = []
        if rng.random() < 0.4:
            common += ['--miscleavage', rng.choice([0, 1, 3])]
        if rng.random() < 0.3:
            common += ['--min-mw', rng.choice([300.5, 700.5])]
        settings = [common, common + ['--min-length', rng.choice([5, 5, 6])], common + ['--max-length', rng.choice([30, 36, 40])]]
        if rng.random() < 0.3:
            settings.append(common + ['--min-length', 5, '--max-length', 40])
        order = list(range(len(settings)))
        if wi % 4 != 0 and rng.random() < 0.6:
            rng.shuffle(order)                      # else: the default window first, as generateIndex + updateIndex gives
        pools = [settings[i] for i in order]
        for j, st in enumerate(settings):
            wid = 'pools%d/%d' % (wi, j)
            base = dict(kind='cli', wid=wid, world=w['world'], threads=1, gvf_idx=False, index_dir=False, noncanonical=False,
                        cleavage_args=st, paralog=w.get('paralog'), gvfs=[gvf_text(w['records'])])
            groups.append((wid, w, [('baseline', base, '0'),
                                    ('index-dir-%d-pools' % len(pools), dict(base, index_dir=True, index_pools=pools), '0')]))
    # small separate stream with the cleavage exception ON (--cleavage-exception auto = trypsin_exception):
    # callVariant is known to be run-to-run non-deterministic there on dense inputs (finding D14), so a
    # disagreement is first re-run against itself (eval_cli)
    for wi in range(3 if quick else 20):
        w = gen_world_case(rng, max_tx=7, p_intronic=0.15)
        if len(w['records']) < 2:
            continue
        base = dict(kind='cli', wid='on%d' % wi, world=w['world'], threads=1, gvf_idx=False, index_dir=False, noncanonical=False, exc='auto')
        one = [gvf_text(w['records'])]
        lays = partitions(rng, w['records'])
        variants = [('baseline', dict(base, gvfs=one), '0'), ('layout3', dict(base, gvfs=lays[2]), '0'),
                    ('index-dir', dict(base, gvfs=one, index_dir=True), '0'), ('hashseed-1', dict(base, gvfs=one), '1'),
                    ('threads2', dict(base, gvfs=one, threads=2), '0'),
                    ('threads2-observed', dict(base, gvfs=one, threads=2, kind='loop', force_skip=[]), '0')]
        groups.append(('on%d' % wi, w, variants))
    return groups

def eval_cli(ctx, groups, variant):
    flat = [(wi, name, c, hs) for wi, w, vs in groups for name, c, hs in vs]
    results = {}
    for hs in sorted({x[3] for x in flat}):
        sub = [x for x in flat if x[3] == hs]
        out = I.run_cases('c06', [x[2] for x in sub], jobs=ctx.jobs, hashseed=hs, tag='c06c' + hs)
        for x, r in zip(sub, out):
            results[(x[0], x[1])] = r
    viol, stats = [], collections.Counter()
    for wi, w, vs in groups:
        base = results[(wi, 'baseline')]
        if (not isinstance(base, dict) or 'peptides' not in base) and '--cleavage-rule' in vs[0][1].get('cleavage_args', []):
            # the engine aborts for this enzyme on this input whatever the layout (not C06's statement): all variants
            # must then abort as well - a variant that succeeds where the baseline aborts is reported
            stats['cli:baseline-aborts(non-trypsin enzyme)'] += 1
            for name, c, hs in vs:
                r = results[(wi, name)]
                if isinstance(r, dict) and r.get('peptides') is not None:
                    viol.append(dict(what='variant %s succeeds where the baseline aborts (%s)' % (name, str(base)[:120]),
                                     replay_obj={'kind': 'cli', 'variant': name, 'hashseed': hs, 'case': c, 'baseline_case': vs[0][1]},
                                     no_input=False))
            continue
        if not isinstance(base, dict) or 'peptides' not in base:
            viol.append(dict(what='baseline callVariant run failed: %s' % str(base)[:200],
                             replay_obj={'kind': 'cli', 'case': vs[0][1], 'impl': base}, no_input=False))
            continue
        for name, c, hs in vs:
            if name == 'baseline' or name.endswith('-observed'):
                continue
            r = results[(wi, name)]
            stats['cli%s/' % ('-excON' if c.get('exc') == 'auto' else '') + name.rstrip('0123456789')] += 1
            if name == 'index-dir':
                for k_, v_ in (c.get('protkinds') or {}).items():
                    stats['cli:index-dir/proteome ' + k_ + ('/invalid-as-noncoding' if c.get('ref_args') else '')] += v_
            if name == 'alternate-split':
                for k_, v_ in (c.get('reckinds') or {}).items():
                    stats['cli:records/' + k_] += v_
            if c.get('index_pools') and c.get('paralog'):
                L = c['paralog']['peptide_len']
                stats['cli:multi-pool index, paralog peptide of %s' % ('<= 6 aa' if L <= 6 else '> 25 aa' if L > 25 else '7-25 aa')] += 1
            if c.get('split_blocks'):
                stats['cli:file with non-adjacent blocks of a transcript' + ('+idx' if c.get('gvf_idx') else '')] += 1
            if c.get('index_dir') and c.get('paralog') and '--max-length' in c.get('cleavage_args', []) and c['paralog']['peptide_len'] > 25:
                stats['cli:index-dir, paralog peptide > 25 aa, --max-length > 25'] += 1
            if isinstance(r, dict) and r.get('peptides') == base['peptides']:
                stats['cli:equal'] += 1
                continue
            rep = {'kind': 'cli', 'variant': name, 'hashseed': hs, 'case': c, 'baseline_case': vs[0][1],
                   'peptides': r.get('peptides') if isinstance(r, dict) else r, 'baseline_peptides': base['peptides']}
            d3 = False
            obs = results.get((wi, name + '-observed'))
            if variant == 0 and c['threads'] > 1 and isinstance(obs, dict) and 'gathered' in obs and isinstance(r, dict):
                want = [t for t, sk in obs['gathered'] if not sk]
                got = [t for b in obs['batches'] for t in b]
                ids = {t: k + 1 for k, (t, _) in enumerate(obs['gathered'])}
                m = O.call('c06_batches', [0, c['threads'], [[ids[t], sk] for t, sk in obs['gathered']]])
                inv = {v: k for k, v in ids.items()}
                d3 = (obs['peptides'] == r['peptides'] and got != want and
                      [[inv[x] for x in b] for b in m[0]] == obs['batches'] and want == got + [inv[x] for x in m[1]])
                rep['observed_batches'] = obs['batches']; rep['had_dispatch'] = want
            d14 = False
            if not d3 and c.get('exc') == 'auto':
                # exception ON: does the same configuration disagree with itself?
                again = I.run_cases('c06', [c, c, vs[0][1], vs[0][1]], jobs=4, hashseed=hs, tag='c06r')
                sets = [json.dumps(a.get('peptides')) if isinstance(a, dict) else str(a) for a in again]
                d14 = (len({sets[0], sets[1], json.dumps(rep['peptides'])}) > 1 or
                       len({sets[2], sets[3], json.dumps(base['peptides'])}) > 1)
                rep['reruns'] = again
            stats['cli:differs' + ('(D3)' if d3 else '(D14 self-disagreement)' if d14 else '')] += 1
            if d14:
                viol.append(dict(what='exception ON: configuration %s disagrees with itself run to run' % name, replay_obj=rep,
                                 no_input=False, finding='D14', _size=len(c['gvfs'][0])))
                continue
            viol.append(dict(what='peptide set of variant %s differs from the baseline run (threads 1, one file, raw reference): %s vs %s peptides'
                                  % (name, len(rep['peptides']) if isinstance(rep['peptides'], list) else rep['peptides'], len(base['peptides'])),
                             replay_obj=rep, no_input=False, finding='D3' if d3 else None, _size=len(c['gvfs'][0])))
    return results, viol, stats

# ----------------------------------------------------------------------------- stream (iii): record order / identity
# VariantRecord.__eq__ / __gt__ / __ge__ / __lt__ / __le__ / __hash__, FeatureLocation == / >, sorted() and set() on REAL
# objects vs Model/VarRecord.v; and the statement itself on the real objects: for records the model calls
# conflict_free, sorted() of every permutation is the same id sequence.
HASH_ATTRS = ['DONOR_TRANSCRIPT_ID', 'START', 'END', 'DONOR_START', 'DONOR_END', 'LEFT_INSERT_START', 'LEFT_INSERT_END',
              'RIGHT_INSERT_START', 'RIGHT_INSERT_END', 'ACCEPTER_TRANSCRIPT_ID', 'ACCEPTER_POSITION']
STRAND_LEVEL = {None: 0, 0: 1, -1: 2, 1: 3}

def vr_enc(r):
    at = r.get('attrs') or {}
    return [r['start'], r['end'], STRAND_LEVEL[r['strand']], r['ref'], r['alt'], r['type'],
            [[repr(at[k])] if k in at else [] for k in HASH_ATTRS], r['id']]

def gen_vr_list(rng, n):
    """records crowded on one or two positions so that ties, conflicts and duplicates are frequent"""
    starts = rng.sample(range(5, 40), rng.choice([1, 1, 2]))
    refseq = ''.join(rng.choice('ACGT') for _ in range(60))
    mixed_strand = rng.random() < 0.15
    out = []
    for k in range(n):
        if rng.random() < 0.05 and k + 1 < n:                 # same location and alt, DIFFERENT ref: `<` both ways (only the types
            st = rng.choice(starts)                           # whose ref need not have the length of the location allow it)
            typ, alt = rng.choice([('Deletion', '<DEL>'), ('Substitution', '<SUB>')])
            for ref in rng.sample('ACGT', 2):
                out.append(dict(start=st, end=st + 4, strand=None, ref=ref, alt=alt, type=typ, attrs={'START': str(st), 'END': str(st + 4)},
                                id='%s-%d-%s-%d' % (typ, st, ref, len(out))))
            continue
        if out and rng.random() < 0.12:                       # an identical record delivered twice
            out.append(dict(rng.choice(out)))
            continue
        if out and rng.random() < 0.12:                       # `==` but not identical: other id and / or other attrs
            r = dict(rng.choice(out), id='dup%d' % k)
            if rng.random() < 0.5:
                r['attrs'] = dict(r.get('attrs') or {}, **{rng.choice(HASH_ATTRS): rng.choice(['7', '12', 'ENST1', 12])})
            out.append(r)
            continue
        st = rng.choice(starts)
        x = rng.random()
        ref1 = refseq[st]
        if x < 0.3:
            typ, ref, alt = rng.choice(['SNV', 'SNV', 'RNAEditingSite']), ref1, rng.choice([b for b in 'ACGT' if b != ref1])
        elif x < 0.55:
            typ, ref, alt = 'INDEL', ref1, ref1 + rng.choice(['A', 'G', 'CT', 'T', 'AC'])
        elif x < 0.7:
            ref = refseq[st:st + rng.choice([2, 3])]
            typ, alt = 'INDEL', ref[0]
        elif x < 0.85:
            ref = refseq[st:st + rng.choice([2, 3])]
            typ, alt = 'MNV', ''.join(rng.choice('ACGT') for _ in range(rng.choice([2, 3])))
        elif x < 0.9:
            typ, ref, alt = 'Fusion', ref1, '<FUSION>'
        elif x < 0.95:
            typ, ref, alt = 'Insertion', ref1, '<INS>'
        else:
            typ, ref, alt = rng.choice(['Deletion', 'Substitution']), rng.choice([ref1, rng.choice('ACGT')]), rng.choice(['<DEL>', '<SUB>'])
        end = st + len(ref) if typ not in ('Deletion', 'Substitution') else st + rng.choice([1, 4, 9])
        attrs = {}
        if typ in ('Insertion', 'Substitution') or rng.random() < 0.1:
            attrs['DONOR_START'] = rng.choice(['40', '44']); attrs['DONOR_END'] = rng.choice(['50', '52'])
        if typ == 'Fusion':
            attrs['ACCEPTER_TRANSCRIPT_ID'] = rng.choice(['ENST1', 'ENST2']); attrs['ACCEPTER_POSITION'] = rng.choice(['3', '9'])
        if typ in ('Deletion', 'Substitution'):
            attrs['START'] = str(st); attrs['END'] = str(end)
        out.append(dict(start=st, end=end, strand=rng.choice([None, 0, -1, 1]) if mixed_strand else None, ref=ref, alt=alt,
                        type=typ, attrs=attrs, id='%s-%d-%s-%s-%d' % (typ, st, ref, alt, k)))
    return out[:max(n, 2)]

def vr_cases(rng, quick):
    import itertools
    cases = []
    for k in range(300 if quick else 4000):
        n = rng.choice([2, 2, 2, 3, 3, 4, 5, 7])
        recs = gen_vr_list(rng, n)
        pairs = [(i, j) for i in range(n) for j in range(n)]
        if len(pairs) > 16:
            pairs = rng.sample(pairs, 16)
        perms = [list(range(n)), list(reversed(range(n)))]
        for _ in range(2 if n > 2 else 0):
            q = list(range(n)); rng.shuffle(q); perms.append(q)
        cases.append(dict(kind='vr', records=recs, pairs=pairs, perms=perms))
    return cases

def eval_vr(ctx, cases):
    impl = I.run_cases('c06', cases, jobs=max(1, min(ctx.jobs, (len(cases) + 99) // 100)), tag='c06v')
    reqs = []
    for c in cases:
        encs = [vr_enc(r) for r in c['records']]
        for i, j in c['pairs']:
            reqs.append(('c06_vr_cmp', [encs[i], encs[j]]))
        for perm in c['perms']:
            reqs.append(('c06_vr_sorted', [[encs[k] for k in perm]]))
    model = iter(O.call_parallel(reqs, jobs=8))
    viol, stats, nontriv = [], collections.Counter(), 0
    names = ['__eq__', '__gt__', '__ge__', '__lt__', '__le__', 'hash equal', 'location ==', 'location >']
    for c, r in zip(cases, impl):
        mc = [next(model) for _ in c['pairs']]
        ms = [next(model) for _ in c['perms']]
        small = dict(kind='vr', records=c['records'], pairs=c['pairs'], perms=c['perms'])
        if not isinstance(r, dict) or 'cmp' not in r:
            viol.append(dict(what='VariantRecord construction / comparison raised: %s' % str(r)[:200], replay_obj={'kind': 'vr', 'case': small},
                             no_input=False))
            continue
        cf = bool(ms[0][1])
        stats['vr:lists ' + ('conflict-free' if cf else 'with a conflicting pair')] += 1
        # (1) the statement on the REAL objects: conflict-free records sort the same way from every delivery order
        sorted_sets = {json.dumps(x) for x in r['sorted']}
        prop_ok = (not cf) or len(sorted_sets) == 1
        if not cf and len(sorted_sets) > 1:
            stats['vr:real sorted() differs between delivery orders (conflicting pair, as the refuted theorem says)'] += 1
        # (2) model vs implementation
        diffs = []
        for (i, j), m, got in zip(c['pairs'], mc, r['cmp']):
            want = [bool(m[0]), bool(m[1]), bool(m[2]), bool(m[3]), bool(m[4]), bool(m[5]), bool(m[9]), bool(m[10])]
            if m[7]:
                stats['vr:pairs `>` both ways'] += 1
            if m[8]:
                stats['vr:pairs `<` both ways'] += 1
            if m[0] and not m[5]:
                stats['vr:pairs == with different hash'] += 1
            for nm, w, g in zip(names, want, got):
                if w != g:
                    diffs.append('%s(%s, %s): code %s, model %s' % (nm, c['records'][i]['id'], c['records'][j]['id'], g, w))
        for perm, m, got_sorted, got_set in zip(c['perms'], ms, r['sorted'], r['set']):
            want_ids = [O.U(x) for x in m[0]]
            if cf or len(perm) <= 2:
                stats['vr:sorted() compared exactly'] += 1
                if want_ids != got_sorted:
                    diffs.append('sorted(%s): code %s, model %s' % ([c['records'][k]['id'] for k in perm], got_sorted, want_ids))
            else:
                stats['vr:sorted() on > 2 conflicting records (CPython binary insertion, not modelled): ' +
                      ('same as the model' if want_ids == got_sorted else 'differs from the model')] += 1
                if sorted(want_ids) != sorted(got_sorted):
                    diffs.append('sorted() is not a rearrangement of its input')
            if sorted(O.U(x) for x in m[2]) != got_set:
                diffs.append('set(%s): code keeps %s, model %s' % ([c['records'][k]['id'] for k in perm], got_set, sorted(O.U(x) for x in m[2])))
        if cf and len(c['records']) > 1:
            nontriv += 1
        if prop_ok and not diffs:
            stats['vr:agree'] += 1
            continue
        if not prop_ok:
            viol.append(dict(what='records the model calls conflict-free are sorted differently by the real sorted() depending on the order '
                                  'in which they are delivered: %s%s' % (sorted(sorted_sets)[:2], ('; ' + '; '.join(diffs[:3])) if diffs else ''),
                             replay_obj={'kind': 'vr', 'case': small}, no_input=False, _size=len(c['records'])))
        else:
            viol.append(dict(what='record comparison differs from Model/VarRecord.v although sorted() is the same for every delivery order: '
                                  + '; '.join(diffs[:4]),
                             replay_obj={'kind': 'correspondence', 'name': 'corr:C06/VariantRecord-order', 'case': small, 'example': diffs[:4]},
                             no_input=True, _harmless=True, _size=len(c['records'])))
    return viol, stats, nontriv

# ----------------------------------------------------------------------------- stream (iv): `order`
# callVariant on transcripts that carry a CONFLICTING pair / triple at one position (records that are `>` each other, so
# list.sort() keeps their delivery order - sorted_layout_dependent_refuted): every order of the group inside one GVF, the
# group split over two GVF files in either file order, three hash seeds (set() iteration order).  The peptide SEQUENCES
# must not depend on it (the statement of C06); the order of the sorted series is observed in the worker (it does vary),
# header differences are counted after the configuration was checked against itself.
def conflict_group(rng, world, gene, tx, kind):
    gs = G.gene_seq(world, gene)
    n = G.tx_len(tx)
    lo, hi = tx['cds'][0] + 3, tx['cds'][1] - 6
    cands = []
    for ti in range(lo, hi):
        gi = G.g2gene(gene, G.tx2g(gene, tx, ti))
        if gs[gi] == 'A':
            continue
        if kind == 'mnv+del' and not (ti + 3 < n and abs(G.tx2g(gene, tx, ti + 3) - G.tx2g(gene, tx, ti)) == 3):
            continue
        cands.append((ti, gi))
    if not cands:
        return None
    ti, gi = rng.choice(cands)
    r = gs[gi]
    base = dict(gene=gene['id'], tx=tx['id'], chrom=gene['chrom'], gpos=G.tx2g(gene, tx, ti) + 1, symbol=gene['name'], pos=gi + 1)
    def rec(ref, alt, typ):
        return dict(base, ref=ref, alt=alt, id='%s-%d-%s-%s' % (typ, gi + 1, ref, alt))
    low = [b for b in 'ACGT' if b < r]
    if kind == 'snv+ins':             # 'A' < 'CG' but 'SNV' > 'INDEL'
        return [rec(r, rng.choice(low), 'SNV'), rec(r, r + rng.choice(['A', 'CT', 'GGA', 'T', 'G']), 'INDEL')]
    if kind == 'snv+2ins':            # the SNV is unrelated to both insertions, which are ordered between themselves
        x, y = rng.sample(['A', 'CT', 'GGA', 'T', 'G', 'AC'], 2)
        return [rec(r, rng.choice(low), 'SNV'), rec(r, r + x, 'INDEL'), rec(r, r + y, 'INDEL')]
    if kind == 'mnv+del':             # deletion CAT>C (INDEL) and MNV CAT>AG..: 'AG' < 'C' but 'MNV' > 'INDEL'
        ref = gs[gi:gi + 3]
        alt = rng.choice(low) + ''.join(rng.choice('ACGT') for _ in range(rng.choice([1, 2])))
        return [rec(ref, ref[0], 'INDEL'), rec(ref, alt, 'MNV')]
    return None

def gen_order_world(rng, kind):
    for _ in range(300):
        world = G.gen_world(rng, n_chrom=1, max_genes=2, small=True, sec_p=0.0, nf_p=0.0, multi_iso_p=0.3)
        txs = [(g, t) for g in world['genes'] for t in g['transcripts'] if t['cds'] and t['cds'][1] - t['cds'][0] > 40]
        if not txs:
            continue
        gene, tx = rng.choice(txs)
        grp = conflict_group(rng, world, gene, tx, kind)
        if grp:
            break
    else:
        return None
    others, used = [], {grp[0]['pos']}
    for _k in range(rng.choice([0, 1, 2])):
        ti = rng.randrange(tx['cds'][0] + 3, tx['cds'][1] - 3)
        r = mk_record(rng, world, gene, tx, ti, 'snv')
        if all(abs(r['pos'] - u) > 4 for u in used):
            used.add(r['pos']); others.append(r)
    return dict(world=world_texts(world), group=grp, others=others, kind=kind)

ORDER_SEEDS = ('0', '1', '2')
VR_THEOREMS = {'varrecord_eq_equivalence', 'hash_key_eq', 'hash_key_eq_unguarded_refuted', 'eq_hash_consistent_refuted',
               'eq_hash_consistent_guarded', 'gt_not_antisymmetric_refuted', 'gt_conflict_iff', 'pair_not_ok_cases', 'sorted_perm',
               'sorted_layout_free', 'sorted_unique', 'sorted_is_sorted', 'sorted_layout_dependent_refuted', 'sorted_triple_refuted',
               'conflict_free_example', 'dedup_layout_free', 'dedup_layout_dependent_refuted', 'code_varrecord_methods_translated'}

def order_cases(rng, quick):
    import itertools
    groups = []
    for wi in range(6 if quick else 90):
        kind = ['snv+ins', 'snv+2ins', 'mnv+del'][wi % 3]
        w = gen_order_world(rng, kind)
        if w is None:
            continue
        groups.append(('ord%d' % wi, w, order_variants(w, 'ord%d' % wi)))
    return groups

def order_variants(w, wid):
    import itertools
    base = dict(kind='cli', wid=wid, world=w['world'], threads=1, gvf_idx=False, index_dir=False, noncanonical=False,
                headers=True, observe_series=True)
    variants = []
    for pi, perm in enumerate(itertools.permutations(w['group'])):
        recs = list(perm) + w['others']
        for hs in ORDER_SEEDS:
            variants.append(('one-file/order%d/hashseed-%s' % (pi, hs), dict(base, gvfs=[gvf_text(recs)]), hs))
        if pi < 2:
            a, b = [perm[0]] + w['others'], list(perm[1:])
            variants.append(('two-files/order%d' % pi, dict(base, gvfs=[gvf_text(a), gvf_text(b)]), '0'))
            variants.append(('two-files-reversed/order%d' % pi, dict(base, gvfs=[gvf_text(b), gvf_text(a)]), '0'))
    return variants

def eval_order(ctx, groups):
    flat = [(wi, name, c, hs) for wi, w, vs in groups for name, c, hs in vs]
    results = {}
    for hs in sorted({x[3] for x in flat}):
        sub = [x for x in flat if x[3] == hs]
        out = I.run_cases('c06', [x[2] for x in sub], jobs=max(1, min(ctx.jobs, (len(sub) + 5) // 6)), hashseed=hs, tag='c06o' + hs)
        for x, r in zip(sub, out):
            results[(x[0], x[1])] = r
    viol, stats, nontriv = [], collections.Counter(), 0
    pending = []
    for wi, w, vs in groups:
        name0, c0, hs0 = vs[0]
        base = results[(wi, name0)]
        gids = [r['id'] for r in w['group']]
        if not isinstance(base, dict) or base.get('peptides') is None:
            viol.append(dict(what='callVariant failed on a transcript with the conflicting records %s: %s' % (gids, str(base)[:200]),
                             replay_obj={'kind': 'order', 'variant': name0, 'hashseed': hs0, 'case': c0, 'baseline_case': c0, 'baseline_hashseed': hs0,
                                         'group': gids}, no_input=False))
            continue
        orders = set()
        hdr_diff = []
        for name, c, hs in vs:
            r = results[(wi, name)]
            stats['order/' + w['kind']] += 1
            if isinstance(r, dict):
                for ids in r.get('series') or []:
                    orders.add(tuple(i for i in ids if i in gids))
            if isinstance(r, dict) and r.get('peptides') == base['peptides']:
                stats['order:sequences equal'] += 1
                if r.get('entries') != base.get('entries'):
                    hdr_diff.append((name, c, hs))
                continue
            stats['order:sequences differ'] += 1
            rep = {'kind': 'order', 'variant': name, 'hashseed': hs, 'case': c, 'baseline_case': c0, 'baseline_hashseed': hs0, 'group': gids,
                   'peptides': r.get('peptides') if isinstance(r, dict) else r, 'baseline_peptides': base['peptides'],
                   'series': r.get('series') if isinstance(r, dict) else None, 'baseline_series': base.get('series')}
            viol.append(dict(what='records %s that are `>` each other on one transcript: the peptide set of layout %s differs from layout %s: '
                                  '%s vs %s peptides (sorted series seen: %s vs %s)' % (
                                      gids, name, name0, len(rep['peptides']) if isinstance(rep['peptides'], list) else rep['peptides'],
                                      len(base['peptides']), rep['series'], rep['baseline_series']),
                             replay_obj=rep, no_input=False, _size=len(c['gvfs'][0])))
        if base['peptides']:
            nontriv += 1
        stats['order:worlds in which the sorted series was seen in %s order(s) of the group' % ('1' if len(orders) <= 1 else '2+')] += 1
        if hdr_diff:
            same = [x for x in hdr_diff if x[2] == hs0]
            pending.append((wi, (same or hdr_diff)[0], (name0, c0, hs0)))
    # headers: is a configuration a function of its input at all?  the differing layout and the baseline layout are run
    # four more times each (same hash seed); batched per hash seed
    rer = {}
    for wi, (name, c, hs), (name0, c0, hs0) in pending:
        rer.setdefault(hs, []).extend([(wi, 'v', c)] * 4)
        rer.setdefault(hs0, []).extend([(wi, 'b', c0)] * 4)
    again = collections.defaultdict(list)
    for hs, lst in sorted(rer.items()):
        out = I.run_cases('c06', [x[2] for x in lst], jobs=max(1, min(ctx.jobs, (len(lst) + 5) // 6)), hashseed=hs, tag='c06p' + hs)
        for (wi, which, _c), a in zip(lst, out):
            again[(wi, which)].append(json.dumps(a.get('entries')) if isinstance(a, dict) else str(a))
    for wi, (name, c, hs), (name0, c0, hs0) in pending:
        selfdis = len(set(again[(wi, 'v')]) | {json.dumps(results[(wi, name)].get('entries'))}) > 1 or \
            len(set(again[(wi, 'b')]) | {json.dumps(results[(wi, name0)].get('entries'))}) > 1
        stats['order:worlds with header differences between layouts (sequences equal): ' +
              ('the same layout also disagrees with itself run to run' if selfdis else 'no self-disagreement seen in 5 runs of either layout')] += 1
    return results, viol, stats, nontriv

def thin(viol):
    out, seen, plain = [], {}, 0
    harmless = [v for v in viol if v.get('_harmless')]
    for v in sorted((v for v in viol if not v.get('_harmless')), key=lambda v: v.get('_size', 0)):
        if v.get('finding'):
            key = (v['finding'], v['replay_obj'].get('kind'))
            if seen.get(key, 0) >= 2:
                continue
            seen[key] = seen.get(key, 0) + 1
        else:
            if plain >= 10:
                continue
            plain += 1
        out.append(v)
    if harmless and plain == 0:
        out.append(harmless[0])
    for v in out:
        v.pop('_size', None); v.pop('_harmless', None)
        if v.get('finding') is None:
            v.pop('finding', None)
    return out

def load_corpus():
    import glob, os
    root = os.path.dirname(os.path.dirname(os.path.dirname(os.path.abspath(__file__))))
    return [json.load(open(f)) for f in sorted(glob.glob(os.path.join(root, 'corpus', 'C06', '*.json')))]

def run(ctx):
    rng = ctx.rng
    variant = O.call('c06_loop_variant', [])
    corpus = [o['case'] for o in load_corpus() if o.get('case', {}).get('kind') == 'loop']
    # corpus loop cases need their --threads 1 partner for the peptide reference
    lc = []
    for k, c in enumerate(corpus):
        c = dict(c, wid='corpus%d' % k)
        lc += [dict(c, threads=1), c]
    lc += loop_cases(rng, ctx.quick)
    impl, v1, s1 = eval_loop(ctx, lc, variant)
    groups = cli_cases(rng, ctx.quick)
    results, v2, s2 = eval_cli(ctx, groups, variant)
    # (iii) record order / identity on real objects, (iv) layouts of conflicting records through the real CLI; the corpus first
    vcorpus = [o['case'] for o in load_corpus() if o.get('kind') == 'vr' or (o.get('kind') == 'correspondence' and o.get('case', {}).get('kind') == 'vr')]
    vcases = vcorpus + vr_cases(rng, ctx.quick)
    v3, s3, nt3 = eval_vr(ctx, vcases)
    ogroups = [('corpus-ord%d' % k, o['world'], order_variants(o['world'], 'corpus-ord%d' % k))
               for k, o in enumerate(load_corpus()) if o.get('kind') == 'order-world']
    ogroups += order_cases(rng, ctx.quick)
    _ores, v4, s4, nt4 = eval_order(ctx, ogroups)
    n_order = sum(len(vs) for _, _, vs in ogroups)
    nontriv = set()
    for c, r in zip(lc, impl):
        if isinstance(r, dict) and r.get('gathered') and any(sk for _, sk in r['gathered']) and any(not sk for _, sk in r['gathered']) \
                and r.get('peptides') is not None:
            nontriv.add(json.dumps([c['wid'], c['force_skip'], c['threads'], c['noncanonical']]))
    n_cli = sum(len(vs) for _, _, vs in groups)
    for wi, w, vs in groups:
        base = results.get((wi, 'baseline'))
        if isinstance(base, dict) and base.get('peptides'):
            for name, c, hs in vs:
                nontriv.add(json.dumps(['cli', wi, name]))
    stats = dict(s1); stats.update(s2); stats.update(s3); stats.update(s4)
    sample = {k: v for k, v in lc[len(corpus) * 2].items() if k not in ('world', 'gvfs')} if len(lc) > len(corpus) * 2 else {}
    return dict(evaluations=len(lc) + n_cli + len(vcases) + n_order, distinct_nontrivial=len(nontriv) + nt3 + nt4,
                rule='loop cases: generated single-chromosome worlds (2-7 transcripts with SNV/INDEL records, ~30%% of the transcripts with only '
                     'intronic records = naturally skipped, forced skip subsets - exhaustive for <= 4 (quick) / 6 (thorough) transcripts - and '
                     '--noncanonical-transcripts) x threads 1..5; non-trivial = at least one transcript skipped and one dispatched. cli cases: '
                     'per world baseline + 3 layouts + idx + index dir + 2 hash seeds + threads 2,3(,4) with the real pathos pool + combined + files without a final line break / CRLF (with and without idx); multi-pool index directories (generateIndex + updateIndex, each registered setting vs the raw-file run of that setting); '
                     'non-trivial = baseline peptide set non-empty. distinct by (world, pattern, threads) / (world, variant). record-order cases: '
                     'lists of 2-7 VariantRecord objects crowded on one or two positions (duplicates, == with other attrs, SNV / RNAEditingSite / '
                     'INDEL / MNV / Fusion / Insertion / Deletion / Substitution): six comparison methods, hash equality, sorted() and set() of 2-4 '
                     'delivery orders vs Model/VarRecord.v; non-trivial = conflict-free list of >= 2 records. order cases: a transcript with a '
                     'conflicting pair / triple at one position, every order in one GVF x 3 hash seeds + split over two files in either file order; '
                     'non-trivial = world with a non-empty peptide set',
                samples=[sample], outcome=stats, loop_shape_in_source=variant, violations=thin(v1 + v2 + v3 + v4),
                assumptions=['gather_data_for_call_variant is deterministic for a fixed input (its result does not depend on the batch it lands in)',
                             'the serial pool used to observe batches returns the same results as pathos ParallelPool.map; checked by comparing the '
                             'peptide sets of observed and real runs with the same thread count'],
                trusted_base=['pathos scheduling, pickling of dispatches and OS process behaviour are outside the model (partial): covered only by the '
                              'real-pool runs of stream (ii)', 'GVF writer and world generator of the harness (harness/props/c06.py, harness/lib/gen_reference.py)',
                              'wrapping of ParallelPool / caller_reducer / gather_data_for_call_variant inside the worker (harness/impl/c06.py)',
                              'record order: CPython list.sort() returns a `<`-sorted rearrangement when `<` is a strict total order on the elements '
                              '(sorted_unique then identifies it); its behaviour on > 2 conflicting records (binary insertion) is not modelled; '
                              'attribute values are compared through repr(); hash(tuple) is a function of the tuple'])

def replay(ctx, obj):
    variant = O.call('c06_loop_variant', [])
    if obj.get('kind') == 'vr' or (obj.get('kind') == 'correspondence' and obj.get('case', {}).get('kind') == 'vr'):
        viol, stats, _ = eval_vr(ctx, [obj['case']])
        return dict(violations=thin(viol))
    if obj.get('kind') == 'order-world':
        _r, viol, stats, _ = eval_order(ctx, [('replay', obj['world'], order_variants(obj['world'], 'replay'))])
        return dict(violations=thin(viol))
    if obj.get('kind') == 'order':
        w = dict(kind='replay', group=[dict(id=i) for i in obj.get('group', [])])
        vs = [('baseline', obj['baseline_case'], obj.get('baseline_hashseed', '0')), (obj['variant'], obj['case'], obj.get('hashseed', '0'))]
        _r, viol, stats, _ = eval_order(ctx, [('replay', w, vs)])
        return dict(violations=thin(viol))
    c = obj['case']
    if c.get('kind') == 'loop' or obj.get('kind') == 'case':
        c = dict(c, wid='replay')
        impl, viol, stats = eval_loop(ctx, [dict(c, threads=1), c], variant)
        return dict(violations=thin(viol))
    base = obj['baseline_case']
    vs = [('baseline', base, '0'), (obj['variant'], c, obj.get('hashseed', '0'))]
    if c.get('threads', 1) > 1:
        vs.append((obj['variant'] + '-observed', dict(c, kind='loop', force_skip=[]), '0'))
    results, viol, stats = eval_cli(ctx, [(0, None, vs)], variant)
    return dict(violations=thin(viol))

def search_failing_input(ctx, broken):
    """A theorem of Props/C06.v no longer checks (typically loop_modelled: the dispatch loop has a shape the
    translator does not know): look for a concrete skip pattern / thread count on which the statement fails."""
    th = (broken or {}).get('theorem') or ''
    if th.startswith('code_varrecord') or th.startswith('code_featurelocation') or th in VR_THEOREMS:
        # an obligation about the record order / identity: real objects vs the model, and the statement on the real sorted()
        viol, stats, _ = eval_vr(ctx, vr_cases(ctx.rng, False)[:1500])
        real = sorted((v for v in viol if not v.get('no_input')), key=lambda v: v.get('_size', 0))
        if real:
            return dict(real[0]['replay_obj'], what=real[0]['what'][:400])
        return None
    variant = O.call('c06_loop_variant', [])
    cases = loop_cases(ctx.rng, True)[:400]
    impl, viol, stats = eval_loop(ctx, cases, variant if variant in (0, 1) else 1)
    for v in sorted(viol, key=lambda v: v.get('_size', 0)):
        if not v.get('no_input') and not v.get('finding'):
            return dict(v['replay_obj'], what=v['what'][:300])
    return None
