"""C06 correspondence: the dispatch loop of callVariant vs Model/Batch.v, and metamorphic equality of
the peptide set of the real CLI function across threads / file layouts / GVF idx / index dir / hash seeds.

Stream (i) 'loop'  (harness/impl/c06.py wraps, in the worker only, the names the loop resolves at call
  time): for generated worlds and skip patterns (natural: every record of a transcript is intronic, or
  --noncanonical-transcripts; generated: a forced subset, exhaustive for small worlds) x threads 1..5 the
  batches actually handed to caller_reducer are compared with
     B = the model of the loop shape found in the source (Gen/BatchLoop.v: 0 as written, 1 repaired)
  and the statement itself is evaluated on the observation: concatenation of the observed batches ==
  the transcripts for which gather_data_for_call_variant returned a dispatch, in order; and the peptide
  set == the peptide set of the --threads 1 run of the same input (for one thread the loop as written
  is proved correct: all_dispatched_single).
Stream (ii) 'cli' (nothing wrapped, real pathos pool): baseline = threads 1, one GVF file, no idx, raw
  reference, hash seed 0; variants: threads 2 and 3, three partitions/orders of the records into files,
  .idx files, generateIndex directory, two more hash seeds.  Peptide sets must be equal.
Signature of finding D3 (loop as written, i not incremented on `continue`): the loop shape in the
source is 0, threads > 1, the observed batches equal model B's, and what is missing is exactly B's
never-flushed pending list (stream i) / the peptide set equals the one of the observed serial run with
the same thread count whose batches are incomplete in that way (stream ii).
"""
import json, collections
from harness.lib import oracle as O, impl as I, gen_reference as G

PROPERTY = 'C06'
HDR = ['##fileformat=VCFv4.2', '##mopepgen_version=1.4.6', '##parser=parseVEP', '##reference_index=',
       '##genome_fasta=', '##annotation_gtf=', '##source=%s', "##CHROM=<Description='Gene ID'>",
       '##INFO=<ID=TRANSCRIPT_ID,Number=1,Type=String,Description="Transcript ID">',
       '##INFO=<ID=GENE_SYMBOL,Number=1,Type=String,Description="Gene Symbol">',
       '##INFO=<ID=GENOMIC_POSITION,Number=1,Type=String,Description="Genomic Position">',
       '#CHROM\tPOS\tID\tREF\tALT\tQUAL\tFILTER\tINFO']

def gvf_text(records, source='gSNP'):
    rows = ['%s\t%d\t%s\t%s\t%s\t.\t.\tTRANSCRIPT_ID=%s;GENOMIC_POSITION=%s:%d;GENE_SYMBOL=%s' % (
        r['gene'], r['pos'], r['id'], r['ref'], r['alt'], r['tx'], r['chrom'], r['gpos'], r['symbol']) for r in records]
    return '\n'.join([h % source if '%s' in h else h for h in HDR] + rows) + '\n'

def world_texts(world):
    import tempfile, os, shutil
    d = tempfile.mkdtemp(dir=I.WORK if os.path.isdir(I.WORK) else None)
    try:
        g, a, p = G.write_world(world, d)
        return {'genome.fasta': open(g).read(), 'annotation.gtf': open(a).read(), 'proteome.fasta': open(p).read()}
    finally:
        shutil.rmtree(d, ignore_errors=True)

def mk_record(rng, world, gene, tx, ti, kind):
    """SNV / small INDEL at transcript position ti (exonic), given in gene coordinates"""
    gs = G.gene_seq(world, gene)
    gi = G.g2gene(gene, G.tx2g(gene, tx, ti))
    n = G.tx_len(tx)
    ref = gs[gi]
    if kind == 'del' and ti + 3 < n and abs(G.tx2g(gene, tx, ti + 3) - G.tx2g(gene, tx, ti)) == 3:
        ref, alt, typ = gs[gi:gi + 3], gs[gi], 'INDEL'
    elif kind == 'ins':
        alt, typ = ref + rng.choice(['A', 'CT', 'GGA', 'T']), 'INDEL'
    else:
        alt, typ = rng.choice([b for b in 'ACGT' if b != ref]), 'SNV'
    return dict(gene=gene['id'], pos=gi + 1, id='%s-%d-%s-%s' % (typ, gi + 1, ref, alt), ref=ref, alt=alt, tx=tx['id'],
                chrom=gene['chrom'], gpos=G.tx2g(gene, tx, ti) + 1, symbol=gene['name'])

def intron_record(rng, world, gene, tx):
    """SNV inside an intron of tx (every record intronic => the series is empty => transcript skipped)"""
    introns = [(a[1], b[0]) for a, b in zip(tx['exons'], tx['exons'][1:]) if b[0] - a[1] >= 1]
    if not introns:
        return None
    s, e = rng.choice(introns)
    g = rng.randrange(s, e)
    gs = G.gene_seq(world, gene)
    gi = G.g2gene(gene, g)
    ref = gs[gi]
    alt = rng.choice([b for b in 'ACGT' if b != ref])
    return dict(gene=gene['id'], pos=gi + 1, id='SNV-%d-%s-%s' % (gi + 1, ref, alt), ref=ref, alt=alt, tx=tx['id'],
                chrom=gene['chrom'], gpos=g + 1, symbol=gene['name'])

def gen_world_case(rng, max_tx=7, p_intronic=0.3):
    for _ in range(50):
        world = G.gen_world(rng, n_chrom=1, max_genes=rng.choice([2, 3, 4]), small=True, sec_p=0.0, nf_p=0.05, multi_iso_p=0.7)
        txs = [(g, t) for g in world['genes'] for t in g['transcripts']]
        if 2 <= len(txs):
            break
    rng.shuffle(txs)
    txs = txs[:max_tx]
    records, plan = [], {}
    for gene, tx in txs:
        x = rng.random()
        if x < 0.08:
            plan[tx['id']] = 'none'
            continue
        if x < 0.08 + p_intronic:
            r = intron_record(rng, world, gene, tx)
            if r:
                records.append(r)
                if rng.random() < 0.3:
                    r2 = intron_record(rng, world, gene, tx)
                    if r2 and r2['id'] != r['id']:
                        records.append(r2)
                plan[tx['id']] = 'intronic'
                continue
        n = G.tx_len(tx)
        lo, hi = (tx['cds'][0] + 3, max(tx['cds'][0] + 4, tx['cds'][1] - 3)) if tx['cds'] else (1, n - 1)
        used = set()
        for _k in range(rng.choice([1, 1, 2, 3])):
            ti = rng.randrange(lo, max(lo + 1, min(hi, n - 1)))
            if any(abs(ti - u) < 6 for u in used):
                continue
            used.add(ti)
            records.append(mk_record(rng, world, gene, tx, ti, rng.choice(['snv', 'snv', 'snv', 'del', 'ins'])))
        plan[tx['id']] = 'exonic'
    # distinct records only (the same record id for the same transcript twice is the same record)
    seen, uniq = set(), []
    for r in records:
        k = (r['tx'], r['id'])
        if k not in seen:
            seen.add(k); uniq.append(r)
    return dict(world=world_texts(world), records=uniq, plan=plan)

def partitions(rng, records):
    """three layouts of the same records: split into files, file order, record order"""
    outs = []
    recs = list(records)
    # 1: two files by random assignment, original order
    a = [r for r in recs if rng.random() < 0.5]
    b = [r for r in recs if r not in a]
    outs.append([x for x in (a, b) if x] or [recs])
    # 2: reversed record order, three files round robin, files reversed
    rv = list(reversed(recs))
    fs = [rv[0::3], rv[1::3], rv[2::3]]
    outs.append([x for x in reversed(fs) if x] or [recs])
    # 3: one file per transcript interleaved/shuffled
    sh = list(recs); rng.shuffle(sh)
    k = rng.randint(1, max(1, min(4, len(sh))))
    fs = [sh[i::k] for i in range(k)]
    outs.append([x for x in fs if x] or [recs])
    return [[gvf_text(f) for f in layout] for layout in outs]

# ----------------------------------------------------------------------------- stream (i)
def loop_cases(rng, quick):
    cases = []
    n_worlds = 40 if quick else 400
    for wi in range(n_worlds):
        w = gen_world_case(rng, max_tx=rng.choice([3, 4, 5, 6, 7]))
        if not w['records']:
            continue
        txs = sorted({r['tx'] for r in w['records']})
        pats = [[]]
        if len(txs) <= (4 if quick else 6) and rng.random() < 0.5:
            for m in range(1, 2 ** len(txs)):           # exhaustive forced skip patterns
                pats.append([t for k, t in enumerate(txs) if m >> k & 1])
        else:
            for _ in range(3 if quick else 6):
                pats.append([t for t in txs if rng.random() < 0.4])
        seen = set()
        for fs in pats:
            if tuple(fs) in seen:
                continue
            seen.add(tuple(fs))
            for th in (1, 2, 3, 4, 5):
                cases.append(dict(kind='loop', wid=wi, world=w['world'], gvfs=[gvf_text(w['records'])], threads=th,
                                  force_skip=fs, noncanonical=False, plan=w['plan']))
        if rng.random() < 0.2:
            for th in (1, 3):
                cases.append(dict(kind='loop', wid=wi, world=w['world'], gvfs=[gvf_text(w['records'])], threads=th,
                                  force_skip=[], noncanonical=True, plan=w['plan']))
    return cases

def model_batches(variant, threads, gathered, ids):
    return ('c06_batches', [variant, threads, [[ids[t], sk] for t, sk in gathered]])

def eval_loop(ctx, cases, variant):
    impl = I.run_cases('c06', cases, jobs=ctx.jobs, tag='c06l')
    reqs, idmaps = [], []
    for c, r in zip(cases, impl):
        if isinstance(r, dict) and 'gathered' in r:
            ids = {t: k + 1 for k, (t, _) in enumerate(r['gathered'])}
            idmaps.append(ids)
            reqs.append(model_batches(variant, c['threads'], r['gathered'], ids))
        else:
            idmaps.append(None)
    model = O.call_parallel(reqs, jobs=8)
    mi = iter(model)
    viol, stats = [], collections.Counter()
    ref = {}
    for c, r in zip(cases, impl):       # reference peptide sets: threads == 1
        if c['threads'] == 1 and isinstance(r, dict) and 'peptides' in r:
            ref[(c['wid'], tuple(c['force_skip']), c['noncanonical'])] = r['peptides']
    for c, r, ids in zip(cases, impl, idmaps):
        small = {k: v for k, v in c.items() if k not in ('world', 'gvfs')}
        if ids is None:
            viol.append(dict(what='callVariant raised %s (%s)' % (r.get('__exc__'), json.dumps(small)[:200]),
                             replay_obj={'kind': 'case', 'case': c, 'impl': r}, no_input=False))
            continue
        m = next(mi)
        inv = {v: k for k, v in ids.items()}
        mb = [[inv[x] for x in b] for b in m[0]]
        pending = [inv[x] for x in m[1]]
        want = [t for t, sk in r['gathered'] if not sk]
        got = [t for b in r['batches'] for t in b]
        nskip = sum(1 for _, sk in r['gathered'] if sk)
        stats['loop/threads=%d' % c['threads']] += 1
        stats['loop/skipped=%s' % ('0' if nskip == 0 else '1' if nskip == 1 else '2+')] += 1
        same_model = (r['batches'] == mb)
        ok_prop = (got == want)
        rp = ref.get((c['wid'], tuple(c['force_skip']), c['noncanonical']))
        ok_pep = (rp is None or rp == r['peptides'])
        rep = {'kind': 'case', 'case': c, 'impl': {k: r[k] for k in ('batches', 'gathered', 'peptides')},
               'model_batches': mb, 'model_never_flushed': pending, 'peptides_threads1': rp}
        if ok_prop and ok_pep and same_model:
            stats['loop:agree'] += 1
            continue
        if not ok_prop or not ok_pep:
            d3 = (variant == 0 and c['threads'] > 1 and same_model and nskip > 0 and
                  want == got + pending and (ok_pep or not ok_prop))
            stats['loop:property-fails' + ('(D3)' if d3 else '')] += 1
            lost = [t for t in want if t not in got]
            viol.append(dict(what='--threads %d, %d of %d transcripts skipped: dispatched batches %s but %s had a dispatch; never dispatched: %s; '
                                  'peptides %d vs %d with --threads 1' % (c['threads'], nskip, len(r['gathered']), r['batches'], want, lost,
                                                                         len(r['peptides'] or []), len(rp or [])),
                             replay_obj=rep, no_input=False, finding='D3' if d3 else None,
                             _size=len(r['gathered']) * 10 + c['threads']))
        else:
            stats['loop:batches differ from model, statement holds'] += 1
            viol.append(dict(what='batches %s differ from the model of the loop found in the source %s although every non-skipped transcript '
                                  'is dispatched once' % (r['batches'], mb), replay_obj=dict(rep, name='corr:C06/dispatch_loop'),
                             no_input=True, _harmless=True))
    return impl, viol, stats

# ----------------------------------------------------------------------------- stream (ii)
def cli_cases(rng, quick):
    groups = []
    n_worlds = 10 if quick else 60
    for wi in range(n_worlds):
        w = gen_world_case(rng, max_tx=7, p_intronic=0.25)
        if len(w['records']) < 2:
            continue
        base = dict(kind='cli', wid=wi, world=w['world'], threads=1, gvf_idx=False, index_dir=False, noncanonical=False)
        one = [gvf_text(w['records'])]
        lays = partitions(rng, w['records'])
        variants = [('baseline', dict(base, gvfs=one), '0')]
        for k, lay in enumerate(lays):
            variants.append(('layout%d' % (k + 1), dict(base, gvfs=lay), '0'))
        variants.append(('gvf-idx', dict(base, gvfs=lays[0], gvf_idx=True), '0'))
        variants.append(('index-dir', dict(base, gvfs=one, index_dir=True), '0'))
        variants.append(('hashseed-1', dict(base, gvfs=lays[2]), '1'))
        variants.append(('hashseed-31337', dict(base, gvfs=one), '31337'))
        for th in ((2, 3) if quick or wi % 2 else (2, 3, 4)):
            variants.append(('threads%d' % th, dict(base, gvfs=one, threads=th), '0'))
            # the same configuration observed through the serial pool (which batches were dispatched)
            variants.append(('threads%d-observed' % th, dict(base, gvfs=one, threads=th, kind='loop', force_skip=[]), '0'))
        if wi % 3 == 0:
            comb = dict(base, gvfs=lays[1], threads=2, gvf_idx=True, index_dir=True)
            variants.append(('threads2+layout+idx+index', comb, '7'))
            variants.append(('threads2+layout+idx+index-observed', dict(comb, kind='loop', force_skip=[]), '0'))
        groups.append((wi, w, variants))
    # small separate stream with the cleavage exception ON (--cleavage-exception auto = trypsin_exception):
    # callVariant is known to be run-to-run non-deterministic there on dense inputs (finding D14), so a
    # disagreement is first re-run against itself (eval_cli)
    for wi in range(3 if quick else 20):
        w = gen_world_case(rng, max_tx=7, p_intronic=0.15)
        if len(w['records']) < 2:
            continue
        base = dict(kind='cli', wid='on%d' % wi, world=w['world'], threads=1, gvf_idx=False, index_dir=False, noncanonical=False, exc='auto')
        one = [gvf_text(w['records'])]
        lays = partitions(rng, w['records'])
        variants = [('baseline', dict(base, gvfs=one), '0'), ('layout3', dict(base, gvfs=lays[2]), '0'),
                    ('index-dir', dict(base, gvfs=one, index_dir=True), '0'), ('hashseed-1', dict(base, gvfs=one), '1'),
                    ('threads2', dict(base, gvfs=one, threads=2), '0'),
                    ('threads2-observed', dict(base, gvfs=one, threads=2, kind='loop', force_skip=[]), '0')]
        groups.append(('on%d' % wi, w, variants))
    return groups

def eval_cli(ctx, groups, variant):
    flat = [(wi, name, c, hs) for wi, w, vs in groups for name, c, hs in vs]
    results = {}
    for hs in sorted({x[3] for x in flat}):
        sub = [x for x in flat if x[3] == hs]
        out = I.run_cases('c06', [x[2] for x in sub], jobs=ctx.jobs, hashseed=hs, tag='c06c' + hs)
        for x, r in zip(sub, out):
            results[(x[0], x[1])] = r
    viol, stats = [], collections.Counter()
    for wi, w, vs in groups:
        base = results[(wi, 'baseline')]
        if not isinstance(base, dict) or 'peptides' not in base:
            viol.append(dict(what='baseline callVariant run failed: %s' % str(base)[:200],
                             replay_obj={'kind': 'cli', 'case': vs[0][1], 'impl': base}, no_input=False))
            continue
        for name, c, hs in vs:
            if name == 'baseline' or name.endswith('-observed'):
                continue
            r = results[(wi, name)]
            stats['cli%s/' % ('-excON' if c.get('exc') == 'auto' else '') + name.rstrip('0123456789')] += 1
            if isinstance(r, dict) and r.get('peptides') == base['peptides']:
                stats['cli:equal'] += 1
                continue
            rep = {'kind': 'cli', 'variant': name, 'hashseed': hs, 'case': c, 'baseline_case': vs[0][1],
                   'peptides': r.get('peptides') if isinstance(r, dict) else r, 'baseline_peptides': base['peptides']}
            d3 = False
            obs = results.get((wi, name + '-observed'))
            if variant == 0 and c['threads'] > 1 and isinstance(obs, dict) and 'gathered' in obs and isinstance(r, dict):
                want = [t for t, sk in obs['gathered'] if not sk]
                got = [t for b in obs['batches'] for t in b]
                ids = {t: k + 1 for k, (t, _) in enumerate(obs['gathered'])}
                m = O.call('c06_batches', [0, c['threads'], [[ids[t], sk] for t, sk in obs['gathered']]])
                inv = {v: k for k, v in ids.items()}
                d3 = (obs['peptides'] == r['peptides'] and got != want and
                      [[inv[x] for x in b] for b in m[0]] == obs['batches'] and want == got + [inv[x] for x in m[1]])
                rep['observed_batches'] = obs['batches']; rep['had_dispatch'] = want
            d14 = False
            if not d3 and c.get('exc') == 'auto':
                # exception ON: does the same configuration disagree with itself?
                again = I.run_cases('c06', [c, c, vs[0][1], vs[0][1]], jobs=4, hashseed=hs, tag='c06r')
                sets = [json.dumps(a.get('peptides')) if isinstance(a, dict) else str(a) for a in again]
                d14 = (len({sets[0], sets[1], json.dumps(rep['peptides'])}) > 1 or
                       len({sets[2], sets[3], json.dumps(base['peptides'])}) > 1)
                rep['reruns'] = again
            stats['cli:differs' + ('(D3)' if d3 else '(D14 self-disagreement)' if d14 else '')] += 1
            if d14:
                viol.append(dict(what='exception ON: configuration %s disagrees with itself run to run' % name, replay_obj=rep,
                                 no_input=False, finding='D14', _size=len(c['gvfs'][0])))
                continue
            viol.append(dict(what='peptide set of variant %s differs from the baseline run (threads 1, one file, raw reference): %s vs %s peptides'
                                  % (name, len(rep['peptides']) if isinstance(rep['peptides'], list) else rep['peptides'], len(base['peptides'])),
                             replay_obj=rep, no_input=False, finding='D3' if d3 else None, _size=len(c['gvfs'][0])))
    return results, viol, stats

def thin(viol):
    out, seen, plain = [], {}, 0
    harmless = [v for v in viol if v.get('_harmless')]
    for v in sorted((v for v in viol if not v.get('_harmless')), key=lambda v: v.get('_size', 0)):
        if v.get('finding'):
            key = (v['finding'], v['replay_obj'].get('kind'))
            if seen.get(key, 0) >= 2:
                continue
            seen[key] = seen.get(key, 0) + 1
        else:
            if plain >= 10:
                continue
            plain += 1
        out.append(v)
    if harmless and plain == 0:
        out.append(harmless[0])
    for v in out:
        v.pop('_size', None); v.pop('_harmless', None)
        if v.get('finding') is None:
            v.pop('finding', None)
    return out

def load_corpus():
    import glob, os
    root = os.path.dirname(os.path.dirname(os.path.dirname(os.path.abspath(__file__))))
    return [json.load(open(f)) for f in sorted(glob.glob(os.path.join(root, 'corpus', 'C06', '*.json')))]

def run(ctx):
    rng = ctx.rng
    variant = O.call('c06_loop_variant', [])
    corpus = [o['case'] for o in load_corpus() if o.get('case', {}).get('kind') == 'loop']
    # corpus loop cases need their --threads 1 partner for the peptide reference
    lc = []
    for k, c in enumerate(corpus):
        c = dict(c, wid='corpus%d' % k)
        lc += [dict(c, threads=1), c]
    lc += loop_cases(rng, ctx.quick)
    impl, v1, s1 = eval_loop(ctx, lc, variant)
    groups = cli_cases(rng, ctx.quick)
    results, v2, s2 = eval_cli(ctx, groups, variant)
    nontriv = set()
    for c, r in zip(lc, impl):
        if isinstance(r, dict) and r.get('gathered') and any(sk for _, sk in r['gathered']) and any(not sk for _, sk in r['gathered']) \
                and r.get('peptides') is not None:
            nontriv.add(json.dumps([c['wid'], c['force_skip'], c['threads'], c['noncanonical']]))
    n_cli = sum(len(vs) for _, _, vs in groups)
    for wi, w, vs in groups:
        base = results.get((wi, 'baseline'))
        if isinstance(base, dict) and base.get('peptides'):
            for name, c, hs in vs:
                nontriv.add(json.dumps(['cli', wi, name]))
    stats = dict(s1); stats.update(s2)
    sample = {k: v for k, v in lc[len(corpus) * 2].items() if k not in ('world', 'gvfs')} if len(lc) > len(corpus) * 2 else {}
    return dict(evaluations=len(lc) + n_cli, distinct_nontrivial=len(nontriv),
                rule='loop cases: generated single-chromosome worlds (2-7 transcripts with SNV/INDEL records, ~30%% of the transcripts with only '
                     'intronic records = naturally skipped, forced skip subsets - exhaustive for <= 4 (quick) / 6 (thorough) transcripts - and '
                     '--noncanonical-transcripts) x threads 1..5; non-trivial = at least one transcript skipped and one dispatched. cli cases: '
                     'per world baseline + 3 layouts + idx + index dir + 2 hash seeds + threads 2,3(,4) with the real pathos pool + combined; '
                     'non-trivial = baseline peptide set non-empty. distinct by (world, pattern, threads) / (world, variant)',
                samples=[sample], outcome=stats, loop_shape_in_source=variant, violations=thin(v1 + v2),
                assumptions=['gather_data_for_call_variant is deterministic for a fixed input (its result does not depend on the batch it lands in)',
                             'the serial pool used to observe batches returns the same results as pathos ParallelPool.map; checked by comparing the '
                             'peptide sets of observed and real runs with the same thread count'],
                trusted_base=['pathos scheduling, pickling of dispatches and OS process behaviour are outside the model (partial): covered only by the '
                              'real-pool runs of stream (ii)', 'GVF writer and world generator of the harness (harness/props/c06.py, harness/lib/gen_reference.py)',
                              'wrapping of ParallelPool / caller_reducer / gather_data_for_call_variant inside the worker (harness/impl/c06.py)'])

def replay(ctx, obj):
    variant = O.call('c06_loop_variant', [])
    c = obj['case']
    if c.get('kind') == 'loop' or obj.get('kind') == 'case':
        c = dict(c, wid='replay')
        impl, viol, stats = eval_loop(ctx, [dict(c, threads=1), c], variant)
        return dict(violations=thin(viol))
    base = obj['baseline_case']
    vs = [('baseline', base, '0'), (obj['variant'], c, obj.get('hashseed', '0'))]
    if c.get('threads', 1) > 1:
        vs.append((obj['variant'] + '-observed', dict(c, kind='loop', force_skip=[]), '0'))
    results, viol, stats = eval_cli(ctx, [(0, None, vs)], variant)
    return dict(violations=thin(viol))

def search_failing_input(ctx, broken):
    """A theorem of Props/C06.v no longer checks (typically loop_modelled: the dispatch loop has a shape the
    translator does not know): look for a concrete skip pattern / thread count on which the statement fails."""
    variant = O.call('c06_loop_variant', [])
    cases = loop_cases(ctx.rng, True)[:400]
    impl, viol, stats = eval_loop(ctx, cases, variant if variant in (0, 1) else 1)
    for v in sorted(viol, key=lambda v: v.get('_size', 0)):
        if not v.get('no_input') and not v.get('finding'):
            return dict(v['replay_obj'], what=v['what'][:300])
    return None
