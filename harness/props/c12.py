"""C12 correspondence: the index-directory state machine (Model/Index.v, extracted) vs the real
generateIndex / updateIndex / load_references run in-process on scratch directories.

Streams
  corpus : corpus/C12/*.json (explicit op sequences; D8 regression first)
  tree   : EXHAUSTIVE op sequences up to length 3 (thorough: 4) over the alphabet
             generateIndex  x reference {A, B} x parameter set {P0, P1, P2} x {--force, no --force}   (12)
             updateIndex    x parameter set {P0, P1, P2} x {--force, no --force}                     (6)
           P0 = trypsin/auto/k=2, P1 = trypsin/trypsin_exception/k=2 (EQUAL to P0 after 'auto'
           resolution, on purpose), P2 = lysc/auto/k=1; plus the same tree one level shallower on a
           directory that already holds an unrelated file.  After EVERY op: exit status / exception
           class, canonical metadata.json (version triple, pools: file name, index, resolved
           parameters, source), directory listing, digest of every pool file, and
           load_references(--index-dir) for every parameter set (pool digest, which reference's
           genome / proteome / annotation came back, or the error class).
  seq    : sampled longer sequences (length 5-7) where generateIndex may have been run by another
           environment (python / biopython / moPepGen version triple recorded in metadata.json)
  ref    : genome / annotation / proteome / coding transcripts load back equal to the generator's
           ground truth and to the raw files
  ver    : a recorded version that is not valid for the running one makes every consumer raise
  fly    : on-the-fly load_references pool (no index) and index pool equal the C10 model's pool
The expected pool for a provenance (reference, resolved parameters) reported by the index model is
computed by C10's proved digestion model (oracle api pool_multi).
A disagreement is decided by the property's own statement evaluated on the implementation's
observations (statement_failures below: a Python dictionary model independent of the Coq model).
"""
import os, json, glob, hashlib, itertools, random, copy
from harness.lib import oracle as O, impl as I, gen_reference as G, rules as R

PROPERTY = 'C12'
ROOT = os.path.dirname(os.path.dirname(os.path.dirname(os.path.abspath(__file__))))

MW = 500.00005          # off the 1e-4 mass grid: no float boundary in the digestion
def P(rule, exc, k, min_len=7, max_len=25, min_mw=MW):
    return dict(rule=rule, exc=exc, k=k, min_mw=min_mw, min_len=min_len, max_len=max_len)
PARAMS = [P('trypsin', 'auto', 2), P('trypsin', 'trypsin_exception', 2), P('lysc', 'auto', 1)]
# sampled-sequence stream: parameter sets that differ from P0 in exactly one compared field
EXTRA = [P('trypsin', 'auto', 1), P('trypsin', 'auto', 3), P('trypsin', 'auto', 2, min_len=8), P('trypsin', 'auto', 2, min_len=6),
         P('trypsin', 'auto', 2, max_len=26), P('trypsin', 'auto', 2, max_len=24),
         P('trypsin', 'auto', 2, min_mw=546.00005), P('trypsin', 'auto', 2, min_mw=546.90005),   # same integer part
         P('trypsin', 'off', 2), P('lysc', 'auto', 2)]
# ('off' is not a rule name: the implementation compiles it as a literal regex that cannot match an upper-case sequence, i.e. trypsin
#  without the exception; the empty string would be the regex that matches everywhere -- C10's domain, not used here)

OUT = {0: 'ok', 1: 'SystemExit:1', 2: 'InvalidIndexError', 3: 'ValueError', 4: 'ValueError', 5: 'ValueError',
       6: 'FileNotFoundError'}
REF_FILES = ['annotation.gtf', 'annotation_gene.idx', 'annotation_tx.idx', 'coding_transcripts.pkl', 'genome.pkl', 'proteome.pkl']

def dg(x):
    return hashlib.sha1(json.dumps(x, sort_keys=True).encode()).hexdigest()[:16]

# ----------------------------------------------------------------------------- parameters
def mw5(ps):
    return int(round(ps['min_mw'] * 100000))

def enc_params(ps):
    """protocol value of the RAW (command line) parameters"""
    return [ps['rule'], [] if ps['exc'] is None else [ps['exc']], int(ps['k']), mw5(ps), int(ps['min_len']), int(ps['max_len'])]

def resolved(ps):
    """CleavageParams semantics, written independently of the model: the tuple compared by the index"""
    e = ps['exc']
    if e == 'auto':
        e = 'trypsin_exception' if ps['rule'] == 'trypsin' else None
    return (ps['rule'], e, int(ps['k']), mw5(ps), int(ps['min_len']), int(ps['max_len']))

def dec_params(v):
    return (O.U(v[0]), O.U(v[1][0]) if v[1] else None, v[2], v[3], v[4], v[5])

def enc_ver(v):
    return [v[0], v[1], v[2]]

def world_proteins(world):
    """[sequence as written to the proteome FASTA, cds_start_NF] per coding transcript"""
    out = []
    ov = world.get('prot_override') or {}
    for gene in world['genes']:
        for tx in gene['transcripts']:
            if tx['cds']:
                out.append([ov.get(tx['id'], G.protein_of(world, gene, tx)), 'cds_start_NF' in tx['tags']])
    return out

def coding_ids(world):
    return [tx['id'] for gene in world['genes'] for tx in gene['transcripts'] if tx['cds']]

# One designed protein makes every pair of parameter sets below differ in its pool (trypsin):
#   GGGGAGK 502.3 Da (between 500 and 546) | GASGAGK 546.57 Da, 7 aa (between 546.0 and 546.9; min_length 7/8)
#   FWGAGK 6 aa (min_length 6/7) | A*24+K 25 aa, A*25+K 26 aa (max_length 24/25/26) | runs of short fragments
#   (miscleavage 1/2/3) | CK|D (trypsin_exception vs none)
DESIGNED = 'MGHK' + 'GGGGAGK' + 'GASGAGK' + 'FWGAGK' + 'A' * 24 + 'K' + 'A' * 25 + 'K' + 'GASGAGK' + 'AAAAAACKDAAAAAAAR' + 'GHGHGHK'

class Digests:
    """expected pool digest for (reference id, resolved parameter tuple), from C10's model"""
    def __init__(self, worlds):
        self.worlds = worlds
        self.tab = {}
        self.size = {}
    def need(self, keys):
        keys = [k for k in set(keys) if k not in self.tab]
        if not keys:
            return
        reqs = []
        for r, rp in keys:
            rule, exc, k, m5, lo, hi = rp
            reqs.append([rule, exc, [k, m5 // 10, lo, hi], world_proteins(self.worlds[r])])
        res = O.call('pool_multi', reqs)
        for key, (raised, ps) in zip(keys, res):
            if raised:
                self.tab[key] = 'E:ValueError'
                self.size[key] = 0
            else:
                s = sorted(set(O.U(p) for p in ps))
                self.tab[key] = dg(s)
                self.size[key] = len(s)
    def get(self, r, rp):
        self.need([(r, rp)])
        return self.tab[(r, rp)]

# ----------------------------------------------------------------------------- model side
def model_request(other, real, params, ops, envs=None):
    steps = []
    for i, op in enumerate(ops):
        env = (envs[i] if envs and envs[i] is not None else real)
        if op[0] == 'g':
            o = [0, op[1], enc_params(params[op[2]]), 1 if op[3] else 0]
        else:
            o = [1, enc_params(params[op[1]]), 1 if op[2] else 0]
        steps.append([enc_ver(env), o])
    return ('c12_run', [1 if other else 0, enc_ver(real), [enc_params(p) for p in params], steps])

def expected_obs(step, other, digests):
    """model step -> the observation the implementation must produce"""
    out, disk, loads = step[0], step[1], step[2]
    meta, ref, files, oth = disk
    exp = {'out': OUT[out[0]]}
    listing = []
    if meta:
        ver, pools, src = meta[0]
        exp['meta'] = {'version': [O.U(x) for x in ver],
                       'pools': [[O.U(f), i, list(dec_params(p))] for f, i, p in pools],
                       'source': 'GENCODE' if src else None}
        listing.append('metadata.json')
    else:
        exp['meta'] = None
    if ref:
        listing += REF_FILES
        exp['refdata'] = {k: ref[0] for k in ('genome', 'proteome', 'anno', 'coding')}
    else:
        exp['refdata'] = {}
    exp['files'] = {}
    for name, (r, p) in files:
        exp['files'][O.U(name)] = digests.get(r, dec_params(p))
        listing.append(O.U(name))
    if oth:
        listing.append('README.txt')
    exp['listing'] = sorted(listing) if (listing or meta or ref or oth) else None
    exp['loads'] = []
    for l in loads:
        if l[0] == 7:
            (r, p), rr = l[1], l[2]
            exp['loads'].append({'pool': digests.get(r, dec_params(p)), 'genome': rr, 'proteome': rr, 'tx': True})
        else:
            exp['loads'].append({'exc': OUT[l[0]]})
    return exp

def canon_obs(obs):
    o = {'out': obs['out'], 'files': obs['files'], 'refdata': obs['refdata']}
    m = obs['meta']
    if m is None or 'unreadable' in m:
        o['meta'] = m
    else:
        pools = []
        for f, i, p in m['pools']:
            pools.append([f, i, [p[0], p[1], p[2], p[3], p[4], p[5]]])
        o['meta'] = {'version': m['version'], 'pools': pools, 'source': m['source']}
        if m.get('keys') != ['canonical_pools', 'source', 'version']:
            o['meta']['keys'] = m.get('keys')
    o['listing'] = obs['listing'] if obs['listing'] else None     # a missing and an empty directory are the same state
    o['loads'] = [({'exc': l['exc']} if 'exc' in l else {k: l[k] for k in ('pool', 'genome', 'proteome', 'tx')}) for l in obs['loads']]
    return o

def diff_obs(a, b):
    return [k for k in ('out', 'meta', 'listing', 'files', 'loads', 'refdata') if a.get(k) != b.get(k)]

# ----------------------------------------------------------------------------- the statement itself
def semver(s):
    return tuple(int(x) for x in s.split('-')[0].split('.'))

def version_ok(real, rec, minimal):
    """the property's notion: the recorded environment matches the running one (python, biopython) and
    the recorded moPepGen version is not older than the minimal supported one.  None = unparsable."""
    if rec[0] != real[0] or rec[1] != real[1]:
        return False
    try:
        return semver(rec[2]) >= semver(minimal)
    except ValueError:
        return None

def statement_failures(case, obs_list, digests, real, minimal):
    """C12's statement evaluated on what the implementation did (independent dictionary model).
    Returns a list of strings (empty = the property holds on this history)."""
    params, ops = case['params'], case['ops']
    envs = case.get('env') or [None] * len(ops)
    bad = []
    cur_ref = None             # reference of the last successful generateIndex
    rec_ver = None             # environment that built the index
    have = {}                  # resolved params -> True for pools the history created (dictionary model)
    prev = None
    for i, (op, obs) in enumerate(zip(ops, obs_list)):
        ok = obs['out'] == 'ok'
        target = resolved(params[op[2] if op[0] == 'g' else op[1]])
        was_usable = rec_ver is not None and version_ok(real, [x or y for x, y in zip(rec_ver, real)], minimal)
        if op[0] == 'u' and obs['out'] == 'SystemExit:1' and was_usable and target not in have:
            bad.append('step %d: updateIndex refused %s as already existing although no pool was ever created for these '
                       'parameters (confused with another parameter set)' % (i, target))
        if op[0] == 'g' and ok:
            cur_ref, rec_ver, have = op[1], (envs[i] or real), {target: True}
        elif op[0] == 'u' and ok:
            have[target] = True
        usable = rec_ver is not None and version_ok(real, [x or y for x, y in zip(rec_ver, real)], minimal)
        if op[0] == 'u' and ok and rec_ver is not None and not usable:
            bad.append('step %d: updateIndex accepted an index recorded for %s' % (i, rec_ver))
        for j, l in enumerate(obs['loads']):
            rp = resolved(params[j])
            if 'pool' in l:
                if not usable:
                    bad.append('step %d: load %d used an index whose recorded version %s is not valid' % (i, j, rec_ver))
                want = digests.get(cur_ref, rp) if cur_ref is not None else None
                if l['pool'] != want:
                    owner = [k for k, v in digests.tab.items() if v == l['pool']]
                    bad.append('step %d: load with parameters %s returned a pool that is not the canonical pool of those '
                               'parameters on reference %s (it is the pool of %s)' % (i, rp, cur_ref, owner or 'nothing known'))
                if l['genome'] != cur_ref or l['proteome'] != cur_ref or not l['tx']:
                    what = [k for k in ('genome', 'proteome') if l[k] != cur_ref] + ([] if l['tx'] else ['annotation'])
                    bad.append('step %d: %s loaded back through load_references differ(s) from what generateIndex was given '
                               '(reference %s; got %s)' % (i, ' and '.join(what), cur_ref, [l[k] for k in ('genome', 'proteome')]))
            else:
                if usable and rp in have:
                    bad.append('step %d: pool for %s was created by this history but load raised %s' % (i, rp, l['exc']))
            # existing pools are unaffected by adding / overwriting another one
            if op[0] == 'u' and prev is not None and rp != target and prev['loads'][j] != l:
                bad.append('step %d: updateIndex for %s changed what load returns for %s' % (i, target, rp))
        if op[0] == 'u' and prev is not None:
            tfile = None
            if obs['meta'] and 'pools' in obs['meta']:
                for f, _, p in obs['meta']['pools']:
                    if tuple(p) == target:
                        tfile = f
            for f, d in prev['files'].items():
                if f != tfile and obs['files'].get(f) != d:
                    bad.append('step %d: updateIndex changed or removed the existing pool file %s' % (i, f))
        if not ok and prev is not None and op[0] == 'u' and canon_obs(prev) != dict(canon_obs(obs), out=prev['out']):
            bad.append('step %d: a rejected updateIndex changed the directory' % i)
        prev = obs
    return bad

# ----------------------------------------------------------------------------- worlds
def pick_worlds(rng, n=2):
    """reference worlds whose pools separate ALL parameter sets (PARAMS + EXTRA, each differing from P0 or
    from its neighbour in one field, minimally) and the references; the trypsin exception matters.  World 0
    carries the designed protein and a protein with leading X; world 1 a leading X and an inner '*'
    (the stored proteome must keep them as given while the pool builder strips / cuts them)."""
    allp = [PARAMS[0], PARAMS[2]] + EXTRA
    for _ in range(400):
        worlds = [G.gen_world(rng, small=True, coding_p=0.9, bias='KRKRPMWDEFLCHYCKDRRH') for _ in range(n)]
        ids = [coding_ids(w) for w in worlds]
        if any(len(i) < 2 for i in ids):
            continue
        for wi, w in enumerate(worlds):
            prots = dict(zip(ids[wi], [p for p, _ in world_proteins(w)]))
            ov = {}
            if wi == 0:
                ov[ids[wi][0]] = DESIGNED
                ov[ids[wi][1]] = 'XX' + prots[ids[wi][1]]
            else:
                ov[ids[wi][0]] = 'X' + prots[ids[wi][0]]
                q = prots[ids[wi][1]]
                ov[ids[wi][1]] = q[:max(1, len(q) * 2 // 3)] + '*' + q[max(1, len(q) * 2 // 3):]
            w['prot_override'] = ov
        D = Digests(worlds)
        keys0 = [(0, resolved(p)) for p in allp]
        keys = keys0 + [(r, resolved(p)) for r in range(1, n) for p in (PARAMS[0], PARAMS[2])]
        D.need(keys)
        vals = [D.tab[k] for k in keys]
        if len(set(vals)) == len(vals) and all(D.size[k] > 3 for k in keys):
            return worlds, D
    raise RuntimeError('no separating worlds found')

def gen_pair_cases(worlds, wid):
    """every ordered pair (a, b) of parameter sets: generate a, add b, overwrite a, overwrite b"""
    allp = PARAMS + EXTRA
    cases = []
    for a in range(len(allp)):
        for b in range(len(allp)):
            if a != b:
                cases.append(dict(kind='seq', worlds=worlds, params=[allp[a], allp[b]], other=False, wid=wid,
                                  ops=[['g', 0, 0, False], ['u', 1, False], ['u', 0, True], ['u', 1, True]]))
    return cases

def alphabet(n_ref=2, n_par=3):
    a = []
    for r in range(n_ref):
        for p in range(n_par):
            for f in (False, True):
                a.append(['g', r, p, f])
    for p in range(n_par):
        for f in (False, True):
            a.append(['u', p, f])
    return a

FOREIGN = [['3.11.4', None, None], [None, '1.80', None], [None, None, '1.2.9'], [None, None, '1.3.0'], [None, None, '1.3'],
           [None, None, '1.3.0.1'], [None, None, '2.0.0-beta'], [None, None, '0.9.9'], [None, None, '1.10.0'],
           [None, None, 'abc'], [None, None, '1.x.0'], [None, None, ''], ['', None, None], [None, '', None],
           [None, None, '1.3.0-rc1'], [None, None, '1..3'], ['3.12', None, None]]

# ----------------------------------------------------------------------------- running
def get_real(ctx, worlds):
    r = I.run_cases('c12', [dict(kind='seq', worlds=worlds[:1], params=PARAMS, ops=[['g', 0, 0, False]])], jobs=1, tag='c12e')[0]
    return r['steps'][0]['meta']['version']

def minimal_version():
    c = O.call('c12_constants', [])
    return O.U(c[1]), bool(c[2])

def check_sequences(ctx, seq_cases, digests_by_id, real, minimal, stats, tag='c12s'):
    """seq_cases: list of dict(kind='seq', ...,'wid': id into digests_by_id).  Returns violations."""
    if not seq_cases:
        return [], []
    impl = I.run_cases('c12', [{k: v for k, v in c.items() if k != 'wid'} for c in seq_cases], jobs=ctx.jobs, tag=tag)
    model = O.call_parallel([model_request(c.get('other'), real, c['params'], c['ops'], c.get('env')) for c in seq_cases], jobs=8)
    disagreements, failures = [], []
    for c, r, m in zip(seq_cases, impl, model):
        D = digests_by_id[c['wid']]
        if isinstance(r, dict) and '__exc__' in r:
            disagreements.append((c, 'impl script raised %s' % r['__exc__'], None))
            continue
        obs = r['steps']
        for i, (o, ms) in enumerate(zip(obs, m)):
            d = diff_obs(canon_obs(o), expected_obs(ms, c.get('other'), D))
            if d:
                disagreements.append((c, 'step %d differs in %s: impl %s / model %s' % (
                    i, d, json.dumps({k: canon_obs(o)[k] for k in d})[:300], json.dumps({k: expected_obs(ms, c.get('other'), D)[k] for k in d})[:300]), i))
                break
        if not r.get('sources_intact', True):
            failures.append((c, ['the reference files given to generateIndex were modified']))
        f = statement_failures(c, obs, D, real, minimal)
        if f:
            failures.append((c, f))
        account(stats, c['ops'], obs)
    return disagreements, failures

def account(stats, ops, obs):
    n_ok = sum(1 for o in obs if o['out'] == 'ok')
    for o in obs:
        stats['outcomes'][o['out']] = stats['outcomes'].get(o['out'], 0) + 1
    mp = max([len(o['meta']['pools']) for o in obs if o['meta'] and 'pools' in o['meta']] + [0])
    stats['max_pools'][mp] = stats['max_pools'].get(mp, 0) + 1
    if n_ok >= 2:
        stats['nontrivial'].add(json.dumps(ops))

def run_tree(ctx, worlds, D, real, minimal, depth, other, stats, vio):
    alpha = alphabet()
    plen = min(2, depth - 1) if depth >= 2 else 0
    cases = []
    for pre in itertools.product(range(len(alpha)), repeat=plen):
        cases.append(dict(kind='tree', worlds=worlds, params=PARAMS, alphabet=alpha, prefix=list(pre), depth=depth, other=other))
    impl = I.run_cases('c12', cases, jobs=ctx.jobs, tag='c12t')
    nodes = {}
    for c, r in zip(cases, impl):
        if isinstance(r, dict) and '__exc__' in r:
            vio['disagree'].append((dict(kind='tree', prefix=c['prefix']), 'impl script raised %s: %s' % (r['__exc__'], r.get('msg')), None))
            continue
        if r['gtf_after'] != impl[0].get('gtf_after'):
            vio['fail'].append((dict(kind='seq', worlds=worlds, params=PARAMS, ops=[alpha[k] for k in c['prefix']], other=other),
                                ['the reference GTF given to generateIndex was modified by some sequence under this prefix']))
        for s, key in r['nodes']:
            nodes[tuple(s)] = r['table'][key]
    leaves = sorted(s for s in nodes if len(s) == depth)
    seen = set()
    n_eval = 0
    exp_cache = {}
    canon_cache = {}
    def canon_of(o):
        k = id(o)
        if k not in canon_cache:
            canon_cache[k] = (o, canon_obs(o))
        return canon_cache[k][1]
    for lo in range(0, len(leaves), 4000):
        chunk = leaves[lo:lo + 4000]
        model = O.call_parallel([model_request(other, real, PARAMS, [alpha[k] for k in s]) for s in chunk], jobs=8)
        for s, m in zip(chunk, model):
            obs = [nodes[s[:k]] for k in range(1, depth + 1)]
            ops = [alpha[k] for k in s]
            case = dict(kind='seq', worlds=worlds, params=PARAMS, ops=ops, other=other)
            for i in range(depth):
                if s[:i + 1] in seen:
                    continue
                seen.add(s[:i + 1])
                n_eval += 1
                mk = json.dumps(m[i][:3])
                if mk not in exp_cache:
                    exp_cache[mk] = expected_obs(m[i], other, D)
                a, b = canon_of(obs[i]), exp_cache[mk]
                d = diff_obs(a, b)
                if d:
                    sub = dict(case, ops=ops[:i + 1])
                    vio['disagree'].append((sub, 'step %d differs in %s: impl %s / model %s' % (
                        i, d, json.dumps({k: a[k] for k in d})[:300], json.dumps({k: b[k] for k in d})[:300]), i))
                # abstract (dictionary) machine and concrete machine of the model agree (proved; cheap cross-check of the glue)
                if m[i][0] != m[i][3]:
                    vio['disagree'].append((dict(case, ops=ops[:i + 1]), 'model: concrete and dictionary outcome differ', i))
            f = statement_failures(case, obs, D, real, minimal)
            if f:
                vio['fail'].append((case, f))
            account(stats, ops, obs)
        del model
    return n_eval

def gen_seq_cases(ctx, worlds, wid, n, real):
    rng = ctx.rng
    cases = []
    for _ in range(n):
        L = rng.choice([5, 5, 6, 7])
        ops, envs = [], []
        params = [PARAMS[0]] + rng.sample(PARAMS[1:] + EXTRA, 3)
        alpha = alphabet(2, len(params))
        for i in range(L):
            if i == 0 and rng.random() < 0.8:
                op = ['g', rng.randrange(2), rng.randrange(len(params)), rng.random() < 0.3]
            else:
                op = list(rng.choice(alpha)) if rng.random() < 0.4 else ['u', rng.randrange(len(params)), rng.random() < 0.4]
                if op[0] == 'g' and rng.random() < 0.7:
                    op[3] = True
            e = None
            if op[0] == 'g' and rng.random() < 0.35:
                f = rng.choice(FOREIGN)
                e = [real[k] if f[k] is None else f[k] for k in range(3)]
            ops.append(op)
            envs.append(e)
        cases.append(dict(kind='seq', worlds=worlds, params=params, ops=ops, env=envs, other=rng.random() < 0.2, wid=wid))
    return cases

def gen_symlink_cases(worlds, wid, depth):
    """exhaustive sequences over generateIndex x {A, B} x {force} x {--gtf-symlink} (P0) and updateIndex P2"""
    alpha = [['g', r, 0, f, sl] for r in (0, 1) for f in (False, True) for sl in (False, True)] + [['u', 2, False]]
    cases = []
    for L in range(2, depth + 1):
        for tup in itertools.product(range(len(alpha)), repeat=L):
            ops = [alpha[k] for k in tup]
            if ops[0][0] != 'g' or not any(len(o) > 4 and o[4] for o in ops):
                continue
            cases.append(dict(kind='seq', worlds=worlds, params=PARAMS, ops=ops, other=False, wid=wid))
    return cases

def edit_proteome(rng, w):
    """proteome entries as real reference proteomes have them: leading X (incomplete 5' end), inner '*'"""
    ov, kinds = {}, []
    for (p, _), tid in zip(world_proteins(w), coding_ids(w)):
        r = rng.random()
        if r < 0.3:
            ov[tid] = 'X' * rng.randint(1, 3) + p
            kinds.append('X')
        elif r < 0.5 and len(p) > 3:
            k = rng.randint(1, len(p) - 1)
            ov[tid] = p[:k] + '*' + p[k:]
            kinds.append('*')
        elif r < 0.6 and len(p) > 3:
            k = rng.randint(1, len(p) - 1)
            ov[tid] = 'X' * rng.randint(1, 2) + p[:k] + '*' + p[k:]
            kinds.append('X*')
    if ov:
        w['prot_override'] = ov
    return kinds

def run_ref(ctx, n, vio, stats):
    rng = ctx.rng
    cases = []
    hist = {}
    for i in range(n):
        w = G.gen_world(rng, small=(i % 3 != 0), coding_p=rng.choice([0.5, 0.7, 0.9]))
        kinds = edit_proteome(rng, w) if i % 5 != 4 else []
        flag = rng.random() < 0.4
        for k in set(kinds) or {'plain'}:
            key = k + ('/invalid-as-noncoding' if flag else '')
            hist[key] = hist.get(key, 0) + 1
        cases.append(dict(kind='ref', world=w, symlink=(i % 4 == 3), invalid_as_noncoding=flag, then_update=(i % 2 == 1)))
    res = I.run_cases('c12', cases, jobs=ctx.jobs, tag='c12r')
    for c, r in zip(cases, res):
        if '__exc__' in r or r['out'] != 'ok' or r['diffs']:
            vio['fail'].append((c, ['reference data round trip: %s' % (r.get('diffs') or r.get('__exc__') or r.get('out'))]))
        else:
            stats['ref_tx'] += r['n_tx']
            stats['ref_coding'] += r['n_coding']
    stats['ref_kinds'] = hist
    return len(cases)

def run_ver(ctx, worlds, real, vio, stats):
    recs = [['<same>'] * 3]
    for f in FOREIGN:
        recs.append(['<same>' if x is None else x for x in f])
    recs += [['3.11.4', '1.80', '1.2.9'], ['<same>', '1.80', 'abc']]
    params = [PARAMS[0], PARAMS[2]]
    cases = [dict(kind='ver', world=worlds[0], params=params, recorded=r) for r in recs]
    res = I.run_cases('c12', cases, jobs=ctx.jobs, tag='c12v')
    control = None
    model = O.call_many([('c12_is_valid', [enc_ver(real), enc_ver([real[k] if x == '<same>' else x for k, x in enumerate(c['recorded'])])])
                         for c in cases])
    for c, r, code in zip(cases, res, model):
        if '__exc__' in r or r.get('gen') != 'ok':
            vio['fail'].append((c, ['version stream could not run: %s' % r]))
            continue
        cons = r['consumers']
        if control is None:
            control = cons
        want = {0: None, 1: 'InvalidIndexError', 2: 'ValueError'}[code]
        stats['ver'][str(code)] = stats['ver'].get(str(code), 0) + 1
        if want is None:
            if cons != control:
                vio['disagree'].append((c, 'recorded version %s is valid in the model but consumers behave differently from the control: %s' % (r['recorded'], cons), None))
        else:
            wrong = {k: v for k, v in cons.items() if v != want}
            if wrong or not r['unchanged']:
                used = {k: v for k, v in wrong.items() if v in ('ok', 'SystemExit:1')}
                if used or not r['unchanged']:
                    vio['fail'].append((c, ['recorded version %s is not valid for %s but was not rejected by %s%s' % (
                        r['recorded'], real, sorted(used), '' if r['unchanged'] else ' (directory changed)')]))
                else:
                    vio['disagree'].append((c, 'rejection class differs: %s (model: %s)' % (wrong, want), None))
    if control is not None:
        bad = {k: v for k, v in control.items() if v not in ('ok', 'SystemExit:1')}
        expect = {'updateIndex(existing)': 'SystemExit:1'}
        for k, v in control.items():
            if v != expect.get(k, 'ok'):
                vio['disagree'].append((cases[0], 'control (matching version): consumer %s ended with %s' % (k, v), None))
    return len(cases)

def run_fly(ctx, n, vio, stats):
    rng = ctx.rng
    names = R.rule_names()
    cases = []
    for i in range(n):
        world = G.gen_world(rng, small=True, coding_p=0.9, bias='KRKRPMWDEFLCHYCKD')
        params, seen = [], set()
        for j in range(3):
            rule = 'trypsin' if rng.random() < 0.5 else rng.choice(names)
            exc = rng.choice(['auto', 'auto', 'trypsin_exception']) if rule == 'trypsin' else 'auto'
            ps = P(rule, exc, rng.choice([0, 1, 2]), rng.choice([5, 7]), rng.choice([25, 30]), rng.choice([300, 500]) + 0.00005)
            if resolved(ps) not in seen:
                seen.add(resolved(ps))
                params.append(ps)
        cases.append(dict(kind='fly', world=world, params=params))
    res = I.run_cases('c12', cases, jobs=ctx.jobs, tag='c12f')
    for c, r in zip(cases, res):
        D = Digests([c['world']])
        want = []
        for ps in c['params']:
            D.need([(0, resolved(ps))])
            want.append(D.tab[(0, resolved(ps))])
        if '__exc__' in r:
            vio['disagree'].append((c, 'fly: impl raised %s' % r['__exc__'], None))
            continue
        got_f = [dg(x) if isinstance(x, list) else 'E:' + x['exc'] for x in r['fly']]
        got_i = [dg(x) if isinstance(x, list) else 'E:' + x['exc'] for x in r['index']]
        if got_f != want or got_i != want:
            vio['fail'].append((c, ['pool of load_references (on the fly: %s, through the index: %s) is not the canonical pool of the '
                                    'requested parameters' % ([a == b for a, b in zip(got_f, want)], [a == b for a, b in zip(got_i, want)])]))
    return len(cases)

# ----------------------------------------------------------------------------- --reference-source
def restyle(world, style, chrnames):
    """a copy of the world as a GENCODE- or ENSEMBL-style reference (ENSEMBL: unversioned ids) on chromosomes named
    'chr1'.. (the built-in guess says GENCODE) or '1'.. (the guess says ENSEMBL)"""
    w = copy.deepcopy(world)
    w['style'] = style
    if chrnames == 'bare':
        w['chroms'] = {k[3:] if k.startswith('chr') else k: v for k, v in w['chroms'].items()}
        for g in w['genes']:
            if g['chrom'].startswith('chr'):
                g['chrom'] = g['chrom'][3:]
    if style == 'ENSEMBL':
        for g in w['genes']:
            g['id'] = g['id'].split('.')[0]
            for t in g['transcripts']:
                t['id'] = t['id'].split('.')[0]
                if t.get('protein_id'):
                    t['protein_id'] = t['protein_id'].split('.')[0]
    return w

def run_src(ctx, n, vio, stats):
    """`--reference-source` given explicitly (both values) or not, on references where the built-in guess agrees or
    disagrees.  Statement: what the index returns (recorded source, per-transcript source and biotype, coding set,
    proteome, pool) equals what the raw files give under the SAME options; and, when the options describe the files
    (option = style, or no option and an agreeing guess), the ground truth."""
    rng = ctx.rng
    combos = [(st, ch, op) for st in ('GENCODE', 'ENSEMBL') for ch in ('chr', 'bare') for op in (None, 'GENCODE', 'ENSEMBL')]
    cases = []
    for i in range(n):
        style, chrn, opt = combos[i % len(combos)]
        base = G.gen_world(rng, small=True, coding_p=0.8, bias='KRKRPMWDEFLCHYCKD')
        w = restyle(base, style, chrn)
        ps = P('trypsin', 'auto', 2) if i % 3 else P('lysc', 'auto', 1, 6, 30, 300.00005)
        cases.append(dict(kind='src', world=w, style=style, chrnames=chrn, option=opt, flag=(i % 5 == 2), params=ps,
                          update=(P('trypsin', 'trypsin_exception', 1) if i % 4 == 1 else None)))
    res = I.run_cases('c12', cases, jobs=ctx.jobs, tag='c12o')
    hist, out = {}, {}
    for c, r in zip(cases, res):
        guess = 'GENCODE' if c['chrnames'] == 'chr' else 'ENSEMBL'
        eff = c['option'] or guess                      # the source the run is made under
        describes = eff == c['style']                   # the options describe the files
        key = '%s-style/%s names/option %s%s' % (c['style'], c['chrnames'], c['option'], '' if describes else ' (does not describe the files)')
        hist[key] = hist.get(key, 0) + 1
        fails = src_failures(c, r, eff, describes)
        ok = isinstance(r.get('raw'), dict) and 'exc' not in r['raw'] and r.get('gen') == 'ok'
        k2 = ('describing options' if describes else 'non-describing options') + (': loaded on both routes' if ok else ': rejected on both routes')
        out[k2] = out.get(k2, 0) + 1
        if fails:
            vio['fail'].append((c, fails))
    stats['src_cases'] = hist
    stats['src_outcomes'] = out
    return len(cases)

def src_failures(c, r, eff, describes):
    if '__exc__' in r:
        return ['reference-source stream: worker raised %s' % r['__exc__']]
    f = []
    ix, raw = r.get('index'), r.get('raw')
    # same options => same result, also when both fail
    raw_ok = isinstance(raw, dict) and 'exc' not in raw
    ix_ok = r['gen'] == 'ok' and isinstance(ix, dict) and 'exc' not in ix
    if raw_ok != ix_ok:
        f.append('generateIndex/load through the index: %s / %s, the raw files under the same options: %s' % (
            r['gen'], (ix or {}).get('exc', 'loaded') if ix is not None else '-', raw.get('exc', 'loaded')))
        return f
    if not raw_ok:
        if describes:
            f.append('options describe the files (%s-style, source %s) but generateIndex gave %s and the raw files %s' % (
                c['style'], eff, r['gen'], raw.get('exc')))
        return f
    if c.get('update') and r.get('update') != 'ok':
        f.append('updateIndex for new parameters: %s' % r.get('update'))
    if ix['source'] != raw['source']:
        f.append('metadata.json records source %s, the raw annotation under the same options has %s' % (ix['source'], raw['source']))
    if c['option'] and ix['source'] != c['option']:
        f.append('index built with --reference-source %s records source %s' % (c['option'], ix['source']))
    for k in sorted(set(ix['tx']) | set(raw['tx'])):
        a, b = ix['tx'].get(k), raw['tx'].get(k)
        if a != b:
            diff = [x for x in ('source', 'biotype', 'gene', 'exons', 'coding') if (a or {}).get(x) != (b or {}).get(x)]
            f.append('transcript %s differs between index and raw files in %s: %s vs %s' % (
                k, diff, {x: (a or {}).get(x) for x in diff}, {x: (b or {}).get(x) for x in diff}))
            break
    if ix['coding'] != raw['coding'] or ix['coding_file'] != raw['coding']:
        f.append('coding transcripts: index %s / coding_transcripts.pkl %s / raw %s' % (ix['coding'], ix['coding_file'], raw['coding']))
    if ix['proteome'] != raw['proteome']:
        f.append('proteome loaded from the index differs from the raw FASTA parsed under the same options')
    if ix['pool'] != raw['pool']:
        f.append('canonical pool through the index (%d peptides) differs from the pool of the raw files under the same options (%d)' % (
            len(ix['pool']), len(raw['pool'])))
    if describes:
        w = c['world']
        bt = {t['id']: g['biotype'] for g in w['genes'] for t in g['transcripts']}
        if ix['source'] != c['style']:
            f.append('source recorded %s, the reference is %s' % (ix['source'], c['style']))
        bad = [k for k, v in ix['tx'].items() if v['source'] != c['style'] or v['biotype'] != bt.get(k)]
        if bad or set(ix['tx']) != set(bt):
            k = (bad or ['-'])[0]
            f.append('transcript %s loaded from the index: source %s biotype %s, the GTF says %s / %s' % (
                k, ix['tx'].get(k, {}).get('source'), ix['tx'].get(k, {}).get('biotype'), c['style'], bt.get(k)))
        if sorted(ix['coding']) != sorted(coding_ids(w)):
            f.append('coding transcripts %s, ground truth %s' % (ix['coding'], sorted(coding_ids(w))))
        D = Digests([w])
        want = D.get(0, resolved(c['params']))
        if dg(ix['pool']) != want:
            f.append('pool through the index is not the canonical pool of the requested parameters on this reference')
    return f

def load_corpus():
    out = []
    for f in sorted(glob.glob(os.path.join(ROOT, 'corpus', 'C12', '*.json'))):
        c = json.load(open(f))
        if c.get('kind') == 'seq':
            c['_file'] = os.path.basename(f)
            out.append(c)
    return out

def finish(vio):
    violations = []
    # smallest inputs first (reference round-trip cases carry record-level messages and have no op list)
    order = sorted(range(len(vio['fail'])), key=lambda i: (len(vio['fail'][i][0].get('ops', [])), i))
    for c, f in [vio['fail'][i] for i in order][:8]:
        c = {k: v for k, v in c.items() if k not in ('wid', '_file')}
        violations.append({'what': 'C12 violated: %s | ops=%s' % ('; '.join(f[:3])[:500], json.dumps(c.get('ops', c.get('recorded', c.get('kind'))))[:200]),
                           'replay_obj': {'kind': 'case', 'case': c, 'failures': f[:10]}, 'no_input': False})
    if vio['disagree'] and not vio['fail']:
        c, what, _ = vio['disagree'][0]
        c = {k: v for k, v in c.items() if k not in ('wid', '_file')}
        violations.append({'what': 'implementation differs from the proved index model (%d disagreements; the statement itself still '
                                   'holds on them): %s' % (len(vio['disagree']), what[:600]),
                           'replay_obj': {'kind': 'correspondence', 'name': 'corr:C12/index_state_machine', 'example': c, 'difference': what},
                           'no_input': True})
    return violations

def run(ctx):
    stats = {'outcomes': {}, 'max_pools': {}, 'nontrivial': set(), 'ref_tx': 0, 'ref_coding': 0, 'ref_coding_vs_truth_diff': 0, 'ver': {}}
    vio = {'fail': [], 'disagree': []}
    minimal, const_ok = minimal_version()
    worlds, D = pick_worlds(ctx.rng)
    real = get_real(ctx, worlds)
    n = 0
    # corpus first
    corp = load_corpus()
    ds = {}
    for i, c in enumerate(corp):
        c['wid'] = 'c%d' % i
        ds[c['wid']] = Digests(c['worlds'])
    dis, fl = check_sequences(ctx, corp, ds, real, minimal, stats, tag='c12c')
    vio['disagree'] += dis
    vio['fail'] += fl
    n += sum(len(c['ops']) for c in corp)
    # exhaustive trees
    depth = 3 if ctx.quick else 4
    n += run_tree(ctx, worlds, D, real, minimal, depth, False, stats, vio)
    n += run_tree(ctx, worlds, D, real, minimal, depth - 1, True, stats, vio)
    # sampled long sequences with foreign environments
    n_seq = 300 if ctx.quick else 3000
    seqs = []
    ds = {'w0': D}
    seqs += gen_seq_cases(ctx, worlds, 'w0', n_seq // 2, real)
    w2, D2 = pick_worlds(ctx.rng)
    ds['w1'] = D2
    seqs += gen_seq_cases(ctx, w2, 'w1', n_seq - n_seq // 2, real)
    dis, fl = check_sequences(ctx, seqs, ds, real, minimal, stats)
    vio['disagree'] += dis
    vio['fail'] += fl
    n += sum(len(c['ops']) for c in seqs)
    # every ordered pair of parameter sets (minimal one-field differences included)
    pairs = gen_pair_cases(worlds, 'w0')
    dis, fl = check_sequences(ctx, pairs, ds, real, minimal, stats, tag='c12q')
    vio['disagree'] += dis
    vio['fail'] += fl
    n += sum(len(c['ops']) for c in pairs)
    stats['pair_sequences'] = len(pairs)
    # --gtf-symlink histories (the model ignores the flag: a symlinked GTF must behave like a copy)
    syms = gen_symlink_cases(worlds, 'w0', 3 if ctx.quick else 4)
    if ctx.quick:
        syms = syms[:40] + ctx.rng.sample(syms[40:], 300)
    dis, fl = check_sequences(ctx, syms, ds, real, minimal, stats, tag='c12l')
    vio['disagree'] += dis
    vio['fail'] += fl
    n += sum(len(c['ops']) for c in syms)
    stats['symlink_sequences'] = len(syms)
    n += run_ref(ctx, 60 if ctx.quick else 600, vio, stats)
    n += run_ver(ctx, worlds, real, vio, stats)
    n += run_fly(ctx, 40 if ctx.quick else 400, vio, stats)
    n += run_src(ctx, 48 if ctx.quick else 480, vio, stats)
    violations = finish(vio)
    if not const_ok:
        violations.append({'what': 'regenerated index constants are not the ones the model understands (Gen/Version.v)',
                           'replay_obj': {'kind': 'obligation', 'theorem': 'index_constants_ok', 'file': 'coq/Props/C12.v'}, 'no_input': True})
    samples = [dict(ops=json.loads(s)) for s in sorted(stats['nontrivial'])[:3]]
    return dict(evaluations=n, distinct_nontrivial=len(stats['nontrivial']),
                rule='every op sequence up to length %d over 18 ops (generateIndex x 2 references x 3 parameter sets x force, updateIndex x 3 '
                     'parameter sets x force) from an empty directory, up to length %d from a directory holding an unrelated file, %d sampled '
                     'sequences of length 5-7 with foreign recording environments; evaluations = observed directory states (one per op) + '
                     'round-trip / version / on-the-fly cases; non-trivial = distinct op sequence in which at least two operations succeeded' % (
                         depth, depth - 1, n_seq),
                samples=samples, distribution={'outcomes': stats['outcomes'], 'max_pools_in_history': stats['max_pools'],
                                               'version_stream_model_codes': stats['ver'],
                                               'ref_roundtrip': {'transcripts': stats['ref_tx'], 'coding': stats['ref_coding'],
                                                                 'worlds_by_proteome_edit': stats.get('ref_kinds', {})},
                                               'pair_sequences': stats.get('pair_sequences', 0),
                                               'reference_source_cases': stats.get('src_cases', {}),
                                               'reference_source_outcomes': stats.get('src_outcomes', {})},
                disagreements=len(vio['disagree']), statement_failures=len(vio['fail']), violations=violations,
                real_environment=real, minimal_version=minimal,
                assumptions=['min_mw values are decimal literals (float equality of equal literals is exact); the digestion threshold is off the 1e-4 mass grid',
                             'version strings are made of ASCII digits, letters, dots and dashes (Python int() leniency for blanks, signs, underscores, '
                             'non-ASCII digits is outside the model)',
                             'a generateIndex run by another environment is emulated by rewriting the three version fields of metadata.json right after it',
                             'generateIndex is run without --gtf-symlink in the state-machine streams (the model covers the copying variant)'],
                trusted_base=['C10 digestion model (pool_multi) expands a pool provenance (reference, resolved parameters) to the expected peptide set',
                              'harness/lib/gen_reference.py ground truth for the reference round trip',
                              'pool files and load results are compared through a SHA-1 digest of the sorted peptide list'])

def replay(ctx, obj):
    c = obj.get('case') or obj.get('example')
    if c is None:
        return dict(violations=[])
    minimal, _ = minimal_version()
    stats = {'outcomes': {}, 'max_pools': {}, 'nontrivial': set(), 'ref_tx': 0, 'ref_coding': 0, 'ref_coding_vs_truth_diff': 0, 'ver': {}}
    vio = {'fail': [], 'disagree': []}
    if c['kind'] == 'seq':
        real = get_real(ctx, c['worlds'])
        c = dict(c, wid='r')
        dis, fl = check_sequences(ctx, [c], {'r': Digests(c['worlds'])}, real, minimal, stats, tag='c12p')
        vio['disagree'] += dis
        vio['fail'] += fl
    elif c['kind'] == 'ver':
        w = [c['world']]
        real = get_real(ctx, w)
        res = I.run_cases('c12', [c], jobs=1, tag='c12p')[0]
        code = O.call('c12_is_valid', [enc_ver(real), enc_ver([real[k] if x == '<same>' else x for k, x in enumerate(c['recorded'])])])
        want = {0: None, 1: 'InvalidIndexError', 2: 'ValueError'}[code]
        if want and any(v in ('ok', 'SystemExit:1') for v in res['consumers'].values()):
            vio['fail'].append((c, ['recorded version not rejected: %s' % res['consumers']]))
    elif c['kind'] == 'src':
        r = I.run_cases('c12', [c], jobs=1, tag='c12p')[0]
        guess = 'GENCODE' if c['chrnames'] == 'chr' else 'ENSEMBL'
        eff = c['option'] or guess
        fails = src_failures(c, r, eff, eff == c['style'])
        if fails:
            vio['fail'].append((c, fails))
    elif c['kind'] in ('ref', 'fly'):
        class X: pass
        x = X(); x.rng = random.Random(0); x.jobs = 1
        r = I.run_cases('c12', [c], jobs=1, tag='c12p')[0]
        if c['kind'] == 'ref' and ('__exc__' in r or r['out'] != 'ok' or r['diffs']):
            vio['fail'].append((c, ['reference data round trip: %s' % (r.get('diffs') or r)]))
        if c['kind'] == 'fly':
            D = Digests([c['world']])
            want = [D.get(0, resolved(ps)) for ps in c['params']]
            got_f = [dg(x) if isinstance(x, list) else 'E' for x in r.get('fly', [])]
            got_i = [dg(x) if isinstance(x, list) else 'E' for x in r.get('index', [])]
            if got_f != want or got_i != want:
                vio['fail'].append((c, ['pool differs from the canonical pool of the requested parameters']))
    return dict(violations=finish(vio))

def search_failing_input(ctx, broken):
    """An obligation of Props/C12.v no longer checks (typically a regenerated constant: the compared
    parameter fields, the numbering rule, the version constants).  Explore the length-3 tree and the
    version stream on the implementation and return the first history on which the statement fails."""
    class X: pass
    x = X(); x.rng = random.Random(ctx.seed); x.jobs = ctx.jobs; x.quick = True
    try:
        minimal, _ = minimal_version()
    except Exception:
        minimal = '1.3.0'
    stats = {'outcomes': {}, 'max_pools': {}, 'nontrivial': set(), 'ref_tx': 0, 'ref_coding': 0, 'ref_coding_vs_truth_diff': 0, 'ver': {}}
    vio = {'fail': [], 'disagree': []}
    worlds, D = pick_worlds(x.rng)
    real = get_real(x, worlds)
    # statement only (the model may not even build): observe the implementation, evaluate the statement.
    # (a) every ordered pair of parameter sets (minimal one-field differences included)
    pair_cases = [{k: v for k, v in c.items() if k != 'wid'} for c in gen_pair_cases(worlds, 'w0')]
    res = I.run_cases('c12', pair_cases, jobs=ctx.jobs, tag='c12o')
    for c, r in zip(pair_cases, res):
        if isinstance(r, dict) and 'steps' in r:
            f = statement_failures(c, r['steps'], D, real, minimal)
            if f:
                return {'kind': 'case', 'case': c, 'failures': f[:10], 'what': '; '.join(f[:2])[:400]}
    # (b) recorded versions that are too old / foreign must be rejected by every consumer
    for rec in (['<same>', '<same>', '1.2.9'], ['<same>', '<same>', '0.11.5'], ['3.11.4', '<same>', '<same>'], ['<same>', '1.80', '<same>'],
                ['<same>', '<same>', '1.3']):
        c = dict(kind='ver', world=worlds[0], params=[PARAMS[0], PARAMS[2]], recorded=rec)
        r = I.run_cases('c12', [c], jobs=1, tag='c12o')[0]
        used = {k: v for k, v in (r.get('consumers') or {}).items() if v in ('ok', 'SystemExit:1')}
        if used:
            return {'kind': 'case', 'case': c, 'failures': ['recorded version %s accepted by %s' % (r.get('recorded'), sorted(used))],
                    'what': 'an index recorded for %s (running: %s) is used by %s' % (r.get('recorded'), r.get('real'), sorted(used))}
    # (c) the length-3 tree
    alpha = alphabet()
    cases = [dict(kind='tree', worlds=worlds, params=PARAMS, alphabet=alpha, prefix=[a, b], depth=3, other=False)
             for a in range(len(alpha)) for b in range(len(alpha))]
    impl = I.run_cases('c12', cases, jobs=ctx.jobs, tag='c12o')
    nodes = {}
    for r in impl:
        if isinstance(r, dict) and 'nodes' in r:
            for s, key in r['nodes']:
                nodes[tuple(s)] = r['table'][key]
    for s in sorted(k for k in nodes if len(k) == 3):
        obs = [nodes.get(s[:k]) for k in (1, 2, 3)]
        if any(o is None for o in obs):
            continue
        case = dict(kind='seq', worlds=worlds, params=PARAMS, ops=[alpha[k] for k in s], other=False)
        f = statement_failures(case, obs, D, real, minimal)
        if f:
            return {'kind': 'case', 'case': case, 'failures': f[:10], 'what': '; '.join(f[:2])[:400]}
    return None
