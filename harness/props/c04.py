"""C04 correspondence: output hygiene of callVariant / callNovelORF / callAltTranslation.

(a) op-sequence level (Level F, equality of observables with Model/PepTable.v)
    adds        VariantPeptideTable: header, add_peptide*, index, write_fasta (text, offsets, FASTA or error class)
    table       the callVariant loop  is_valid -> add_peptide  (trace of the filter, text, index, FASTA)
    vpool       VariantPeptidePool.add_peptide* ; write
    graph_valid the per-graph filter  MiscleavedNodes.is_valid_seq / VariantPeptideDict.is_valid_seq
    text        str(int), Python slicing
(b) end to end (Level S, the comparison IS the property): the three commands run on shared generated worlds x
    cleavage settings (explicit exception values and the default 'auto'); every written peptide is checked with
    the proved decider  PepTable.hygiene_ok  against the canonical pool that the C10 model computes for the SAME
    resolved settings (I->L images included), and - independently, in Python - for X / *, length, duplicates and
    for the callVariant FASTA <-> *_peptide_table.txt agreement ((sequence, header entry) pairs, row slices).
A disagreement at level (a) is decided by the property's own statement evaluated on the implementation's output.
Two runs are never compared with each other (D14: with trypsin_exception callVariant's output set is not
deterministic on dense inputs; hygiene must hold on whatever it writes).
"""
import json, os, glob, copy, random
from harness.lib import oracle as O, impl as I, rules as R, gen_reference as G

PROPERTY = 'C04'
ROOT = os.path.dirname(os.path.dirname(os.path.dirname(os.path.abspath(__file__))))
AA = 'ACDEFGHIKLMNPQRSTVWY'

# =================================================================== (a) op-sequence level
def _pep(rng, n, alpha='AIKLMCDEWRG'):
    return ''.join(rng.choice(alpha) for _ in range(n))

def _label(rng, i=None):
    tx = 'ENST%05d.%d' % (rng.randint(1, 3), rng.randint(1, 2))
    v = rng.choice(['SNV-%d-A-T' % rng.randint(1, 4), 'INDEL-%d-AC-A' % rng.randint(1, 3), 'W2F-%d' % rng.randint(1, 9),
                    'SECT-%d' % rng.randint(1, 9), 'RES-12-A-G'])
    return '%s|%s|%d' % (tx, v, rng.randint(1, 2))

def _seg(rng, n, wild=False):
    a = rng.randint(0, n)
    b = rng.randint(a, n + (2 if rng.random() < 0.15 else 0))
    if wild and rng.random() < 0.3:
        a = -rng.randint(1, n + 2)
        b = rng.randint(max(a, 0), n + 1) if rng.random() < 0.5 else rng.randint(a, -1) if a < -1 else b
        if b < a:
            b = a
    q = [a, b, rng.randint(0, 2), rng.randint(0, 2)]
    ref = None
    if rng.random() < 0.6:
        s = rng.randint(0, 300)
        ref = [s, s + (b - a), rng.randint(0, 2), rng.randint(0, 2)]
    ft = rng.choice([None, '', 'transcript', 'gene', 'transcript'])
    fid = rng.choice([None, '', 'ENST00001.1', 'ENSG00000000007.2'])
    var = rng.choice([None, None, '', 'SNV-7-A-T', 'INDEL-3-AC-A', 'MNV-9-AC-GT'])
    return [q, ref, ft, fid, var]

def _anno(rng, n, labels, nseg=None, wild=False):
    k = nseg if nseg is not None else rng.choice([1, 1, 2, 3])
    return {'label': rng.choice(labels), 'segs': [_seg(rng, n, wild) for _ in range(k)]}

def i2l(p):
    return p.replace('I', 'L')

def gen_op_cases(ctx):
    rng = ctx.rng
    n_tab = 1200 if ctx.quick else 12000
    n_adds = 600 if ctx.quick else 6000
    n_vp = 800 if ctx.quick else 8000
    n_gv = 400 if ctx.quick else 4000
    cases = []
    for i in range(n_tab + n_vp):
        kind = 'table' if i < n_tab else 'vpool'
        lens = [rng.choice([4, 5, 6, 7, 8, 9, 12]) for _ in range(rng.randint(3, 9))]
        base = [_pep(rng, n) for n in lens]
        base += [i2l(p) for p in base if 'I' in p and rng.random() < 0.5]           # I/L variants of each other
        base += [p[1:] for p in base if p.startswith('M') and rng.random() < 0.5]   # Met-removed forms
        if rng.random() < 0.3:
            base.append(rng.choice(base)[:-1] + rng.choice('X*BZJ'))                # molecular_weight raises
        if rng.random() < 0.15:
            base.append('')
        labels = [_label(rng) for _ in range(rng.randint(1, 5))]
        pool_src = [p for p in base if rng.random() < 0.4] + [_pep(rng, 7) for _ in range(rng.randint(0, 3))]
        pool = sorted(set(pool_src + [i2l(p) for p in pool_src]))
        ls = sorted(set(len(p) for p in base))
        c = dict(kind=kind, pool=pool, min_len=rng.choice(ls + [1, 7]), max_len=rng.choice(ls + [25, 40]),
                 mass_mode=rng.choice(['exact', 'exact', 'offgrid', 'offgrid', 'zero']), mass_of=rng.choice(base),
                 frac=rng.randrange(0, 10000), base=base)
        if kind == 'table':
            items = []
            for _ in range(rng.randint(1, 14)):
                p = rng.choice(base)
                items.append([p, [_anno(rng, len(p), labels) for _ in range(rng.choice([1, 1, 2, 3]))]])
            c['items'] = items
        else:
            c['ops'] = [[rng.choice(base), rng.choice(labels), rng.random() < 0.08] for _ in range(rng.randint(1, 16))]
        cases.append(c)
    for i in range(n_adds):
        base = [_pep(rng, rng.choice([1, 3, 6, 9, 14])) for _ in range(rng.randint(1, 5))]
        labels = [_label(rng) for _ in range(rng.randint(1, 4))]
        malformed = i % 5 == 4
        ops = []
        for _ in range(rng.randint(1, 12)):
            p = rng.choice(base)
            a = _anno(rng, len(p), labels, wild=True)
            if malformed:
                x = rng.random()
                if x < 0.4:
                    a['segs'] = []                           # no row at all: load_peptide cannot find the record
                elif x < 0.55:
                    a['label'] = a['label'] + rng.choice(['\t', '\tz', ' ', ' |x'])
                elif x < 0.7:
                    a['segs'][-1][4] = rng.choice([' ', 'v ', 'a\tb', '\x0b'])   # rstrip / split sensitive
                elif x < 0.8:
                    p = ''
            ops.append([p, a])
        cases.append(dict(kind='adds', ops=ops, malformed=malformed))
    for i in range(n_gv):
        base = [_pep(rng, rng.choice([4, 6, 7, 8, 10]), alpha='AIKLMCDEWRGX') for _ in range(rng.randint(3, 9))]
        if rng.random() < 0.3:
            base.append(_pep(rng, 7) + rng.choice('*BZ'))
        ls = sorted(set(len(p) for p in base))
        cases.append(dict(kind='graph_valid', accepted=[p for p in base if rng.random() < 0.15],
                          deny=[p for p in base if rng.random() < 0.3], peps=base, base=base,
                          min_len=rng.choice(ls), max_len=rng.choice(ls + [25]),
                          mass_mode=rng.choice(['exact', 'offgrid', 'zero']), mass_of=rng.choice(base),
                          frac=rng.randrange(0, 10000)))
    ints = [0, 1, 9, 10, 11, 99, 100, 101, 999, 1000, 1023, 1024, 65535, 65536, 10 ** 9, 10 ** 12 + 7, -1, -10, -999] + \
           [rng.randint(-5000, 200000) for _ in range(200)]
    slices = []
    for _ in range(300):
        s = _pep(rng, rng.randint(0, 9))
        slices.append([s, rng.randint(-12, 12), rng.randint(-12, 12)])
    cases.append(dict(kind='text', ints=ints, slices=slices))
    return cases

def resolve_masses(cases):
    """fix each case's threshold: the model side gets min_mw x 1e4 as an exact integer (mw4), the implementation
    the float.  'exact': the threshold IS the mass of one peptide of the case (the float the implementation itself
    computes for that peptide, so that peptide sits exactly on the boundary: `mass < min_mw` is False);
    'offgrid': strictly between two 1e-4 grid points (no float boundary can arise)."""
    need = [c for c in cases if 'mass_mode' in c]
    reps = O.call_parallel([('c04_mass4', c['base']) for c in need], jobs=8)
    for c, ms in zip(need, reps):
        m = dict(zip(c['base'], ms))
        c['mass4'] = m
        mode = c['mass_mode']
        if mode == 'exact' and m.get(c['mass_of'], -1) >= 0:
            c['mw4'] = m[c['mass_of']]
            c['min_mw'] = {'of': c['mass_of']}
        elif mode == 'zero':
            c['mw4'] = 0
            c['min_mw'] = 0.0
        else:
            g = (m[c['mass_of']] if m.get(c['mass_of'], -1) >= 0 else 5000000) + c['frac'] - 5000
            g = max(g, 0)
            c['mw4'] = g + 1                 # mass >= g/1e4 + 0.00005  <=>  mass4 >= g + 1
            c['min_mw'] = g / 10000.0 + 0.00005
    return cases

def _enc_seg(s):
    q, ref, ft, fid, var = s
    o = lambda x: [] if x is None else [x]
    return [q, [] if ref is None else [ref], o(ft), o(fid), o(var)]

def _enc_anno(a):
    return [a['label'], [_enc_seg(s) for s in a['segs']]]

def _lim(c):
    return [2, c['mw4'], c['min_len'], c['max_len']]

def op_req(c):
    k = c['kind']
    if k == 'adds':
        return ('c04_adds', [[p, _enc_anno(a)] for p, a in c['ops']])
    if k == 'table':
        return ('c04_table', [c['pool'], _lim(c), [[p, [_enc_anno(a) for a in an]] for p, an in c['items']]])
    if k == 'vpool':
        return ('c04_vpool', [c['pool'], _lim(c), [[p, l, s] for p, l, s in c['ops']]])
    if k == 'graph_valid':
        return ('c04_graph_valid', [c['accepted'], c['deny'], _lim(c), c['peps']])
    if k == 'text':
        return None

ERR = {1: 'KeyError', 2: 'ValueError', 3: 'IndexError'}

def _canon_table_model(t):
    text, index, fasta = t
    out = {'text': O.U(text), 'index': [[O.U(k), [list(x) for x in v]] for k, v in index]}
    if fasta[0] == 0:
        # header entries: the labels joined by ' ' and split again (a label containing a blank is several entries)
        out['fasta'] = [[O.U(p), sorted(set(' '.join(O.U(l) for l in ls).split(' ')))] for p, ls in fasta[1]]
    else:
        out['fasta'] = ERR[fasta[0][0]]
    return out

def _canon_table_impl(r):
    out = {'text': r['text'], 'index': r['index']}
    if isinstance(r['fasta'], dict):
        out['fasta'] = r['fasta']['__exc__']
    else:
        out['fasta'] = [[s, sorted(set(h.split(' ')))] for h, s in (r['fasta'] or [])]
    return out

def canon_model(c, m):
    k = c['kind']
    if k == 'adds':
        return _canon_table_model(m)
    if k == 'table':
        out = _canon_table_model(m[1])
        out['trace'] = m[0]
        out['loop_agrees'] = m[2]     # 0: process_items (the loop as written) = run_adds(accepted_ops); 1: it raises
        return out
    if k == 'vpool':
        return {'trace': m[0], 'fasta': sorted([O.U(p), O.U(d)] for p, d in m[1])}
    if k == 'graph_valid':
        return {'misc': m, 'dict': m}

def canon_impl(c, r):
    if isinstance(r, dict) and '__exc__' in r:
        return r['__exc__']
    k = c['kind']
    if k == 'adds':
        return _canon_table_impl(r)
    if k == 'table':
        out = _canon_table_impl(r)
        out['trace'] = r['trace']
        out['loop_agrees'] = 1 if 2 in r['trace'] else 0
        return out
    if k == 'vpool':
        return {'trace': r['trace'], 'fasta': sorted([s, h] for h, s in (r['fasta'] or []))}
    return r

# ---- the property's own statement on the implementation's output of one op-level case (independent Python)
def _mass_ok(c, p):
    m = c['mass4'].get(p, -1)
    return m >= 0 and m >= c['mw4']

def statement_table(c, r):
    """problems (empty = the sentence of C04 holds for what the implementation wrote)"""
    probs = []
    if not isinstance(r, dict) or '__exc__' in r:
        return probs          # nothing was written
    if isinstance(r.get('fasta'), dict):
        # the FASTA could not be regenerated although every annotation had a row: the table has pairs, the FASTA none
        wellformed = all(a['segs'] for _, a in c['ops']) if c['kind'] == 'adds' else True
        rows = [l for l in r['text'].split('\n') if l and not l.startswith('#')]
        if wellformed and rows and not c.get('malformed'):
            probs.append('write_fasta raised %s on a table whose %d rows were all written by add_peptide' % (r['fasta']['__exc__'], len(rows)))
        return probs
    fasta = r['fasta'] or []
    seqs = [s for h, s in fasta]
    if len(set(seqs)) != len(seqs):
        probs.append('a sequence occurs more than once in the FASTA')
    rows = [l.split('\t') for l in r['text'].split('\n') if l and not l.startswith('#')]
    pf = set((s, e) for h, s in fasta for e in h.split(' '))
    pt = set((x[0], e) for x in rows if len(x) > 1 for e in x[1].split(' '))
    if pf != pt:
        probs.append('FASTA and table list different (sequence, header entry) pairs: %s' % sorted(pf ^ pt)[:3])
    for x in rows:
        try:
            if len(x) < 5 or x[2] != x[0][int(x[3]):int(x[4])]:
                probs.append('row sub-sequence is not the stated slice: %s' % x[:5])
                break
        except ValueError:
            probs.append('unparsable row %s' % x[:5]); break
    if c['kind'] == 'table':
        pool = set(c['pool'])
        want = set()
        for p, annos in c['items']:
            ok = p not in pool and c['min_len'] <= len(p) <= c['max_len'] and 'X' not in p and '*' not in p and _mass_ok(c, p)
            if ok:
                for a in annos:
                    want.add((p, a['label']))
            elif p in seqs:
                probs.append('peptide %r written although it is canonical / outside the limits / has X or *' % p)
        if not (2 in r['trace']) and want != pf:
            probs.append('accepted (sequence, label) pairs differ from the FASTA: %s' % sorted(want ^ pf)[:3])
    return probs

def statement_vpool(c, r):
    probs = []
    if not isinstance(r, dict) or '__exc__' in r:
        return probs
    fasta = r['fasta'] or []
    seqs = [s for h, s in fasta]
    if len(set(seqs)) != len(seqs):
        probs.append('a sequence occurs more than once in the FASTA')
    pool = set(c['pool'])
    want = {}
    for p, l, skip in c['ops']:
        ok = skip or (p not in pool and c['min_len'] <= len(p) <= c['max_len'] and _mass_ok(c, p))
        if (not skip) and c['mass4'].get(p, -1) < 0:
            continue
        if ok:
            want.setdefault(p, []).append(l)
    skipped = set(p for p, l, s in c['ops'] if s)
    for h, s in fasta:
        if s in skipped:
            continue
        if s in pool or not (c['min_len'] <= len(s) <= c['max_len']) or not _mass_ok(c, s):
            probs.append('peptide %r written although canonical / outside limits' % s)
    got = dict((s, h) for h, s in fasta)
    if set(got) != set(want):
        probs.append('accepted sequences differ: %s' % sorted(set(got) ^ set(want))[:3])
    else:
        for s in got:
            if got[s] != ' '.join(want[s]):
                probs.append('header of %r is %r, labels added were %r' % (s, got[s], want[s])); break
    return probs

def run_ops(ctx, cases, tag='c04a'):
    impl = I.run_cases('c04', cases, jobs=ctx.jobs, tag=tag)
    reqs = [(i, op_req(c)) for i, c in enumerate(cases)]
    reps = O.call_parallel([r for _, r in reqs if r is not None], jobs=8)
    model = [None] * len(cases)
    it = iter(reps)
    for i, r in reqs:
        if r is not None:
            model[i] = next(it)
    bad = []
    for c, r, m in zip(cases, impl, model):
        if c['kind'] == 'text':
            dm = O.call_many([('c04_dec', z) for z in c['ints']] + [('c04_slice', [s, a, b]) for s, a, b in c['slices']])
            mm = {'dec': [O.U(x) for x in dm[:len(c['ints'])]], 'slice': [O.U(x) for x in dm[len(c['ints']):]]}
            if mm != r:
                bad.append((c, r, mm))
            continue
        a, b = canon_impl(c, r), canon_model(c, m)
        if a != b:
            bad.append((c, a, b))
    return impl, model, bad

def _diff(a, b):
    if isinstance(a, dict) and isinstance(b, dict):
        for k in sorted(set(a) | set(b)):
            if a.get(k) != b.get(k):
                return '%s: impl %s vs model %s' % (k, str(a.get(k))[:160], str(b.get(k))[:160])
    return 'impl %s vs model %s' % (str(a)[:160], str(b)[:160])

def _strip(c):
    c = dict(c)
    return c

def classify_ops(ctx, cases, impl, bad):
    """-> violations.  Each disagreement is decided by the statement on the implementation's output; harmless
    differences are shrunk/mutated (sub-sequences of the op list re-run on both sides) looking for a failing input."""
    violations, harmless, mech = [], [], []
    by_id = {id(c): r for c, r in zip(cases, impl)}
    for c, a, b in bad:
        r = by_id.get(id(c))
        if c['kind'] in ('adds', 'table'):
            probs = statement_table(c, r)
        elif c['kind'] == 'vpool':
            probs = statement_vpool(c, r)
        elif c['kind'] == 'graph_valid':
            # the verdict of the per-graph filter is not itself an output of a command: the statement cannot be evaluated on
            # it, so the broken correspondence is reported as such (the end-to-end stream looks for a failing input)
            mech.append((c, a, b, 'the per-graph filter is_valid_seq differs from its model (a peptide that is canonical for the '
                                  'transcript, outside the limits or carrying X is kept, or a valid one dropped)'))
            continue
        else:
            mech.append((c, a, b, 'str(int) / slicing differ from their model'))
            continue
        if probs:
            violations.append({'what': 'C04 %s: %s ; %s' % (c['kind'], probs[0], _diff(a, b)),
                               'replay_obj': {'kind': 'op', 'case': c, 'impl': a, 'model': b, 'statement': probs},
                               'no_input': False})
        else:
            harmless.append((c, a, b))
    if harmless and not violations:
        # nearby inputs: every prefix / single-op deletion of the disagreeing op lists
        near = []
        for c, a, b in harmless[:20]:
            key = 'items' if c['kind'] == 'table' else 'ops'
            if key not in c:
                continue
            for i in range(len(c[key])):
                d = copy.deepcopy(c); d[key] = c[key][:i] + c[key][i + 1:]
                if d[key]:
                    near.append(d)
        found = False
        if near:
            impl2, _, bad2 = run_ops(ctx, near, tag='c04n')
            by2 = {id(c): r for c, r in zip(near, impl2)}
            for c, a, b in bad2:
                probs = statement_table(c, by2[id(c)]) if c['kind'] in ('adds', 'table') else statement_vpool(c, by2[id(c)])
                if probs:
                    violations.append({'what': 'C04 %s (near a model/implementation difference): %s' % (c['kind'], probs[0]),
                                       'replay_obj': {'kind': 'op', 'case': c, 'impl': a, 'model': b, 'statement': probs},
                                       'no_input': False})
                    found = True
                    break
        if not found:
            c, a, b = harmless[0]
            violations.append({'what': 'C04: implementation and proved model of the %s store differ on %d inputs, the property itself '
                                       'holds on each output: %s' % (c['kind'], len(harmless), _diff(a, b)),
                               'replay_obj': {'kind': 'correspondence', 'name': 'corr:C04/%s' % c['kind'],
                                              'example': {'kind': 'op', 'case': c, 'impl': a, 'model': b}},
                               'no_input': True})
    seen = set()
    for c, a, b, what in mech:
        if c['kind'] in seen:
            continue
        seen.add(c['kind'])
        n = sum(1 for x in mech if x[0]['kind'] == c['kind'])
        violations.append({'what': 'C04: %s on %d inputs: %s' % (what, n, _diff(a, b)),
                           'replay_obj': {'kind': 'correspondence', 'name': 'corr:C04/%s' % ('is_valid_seq' if c['kind'] == 'graph_valid' else 'text'),
                                          'example': {'kind': 'op', 'case': c, 'impl': a, 'model': b}},
                           'no_input': True})
    return violations[:8]

# =================================================================== (b) end to end
def coding_txs(world):
    return [(g, t) for g in world['genes'] for t in g['transcripts'] if t.get('cds')]

def world_proteins(world):
    return [[G.protein_of(world, g, t), 'cds_start_NF' in t['tags']] for g, t in coding_txs(world)]

def world_consistent(world):
    """ground truth still matches the annotation: every CDS translates without a premature stop and Sec stays TGA"""
    for g, t in coding_txs(world):
        s = G.tx_seq(world, g, t)
        cs, ce = t['cds']
        if len(G.protein_of(world, g, t)) != (ce - cs) // 3:
            return False
        if any(s[p:p + 3] != 'TGA' for p in t.get('sec', [])):
            return False
        if 'cds_start_NF' not in t['tags'] and s[cs:cs + 3] != 'ATG':
            return False
    return True

MOTIFS = ['CKD', 'CKY', 'RRH', 'CKH', 'RRR', 'DKD', 'CRK', 'KP', 'RP', 'I', 'I', 'W', 'M']

def inject_motifs(rng, world, n=4):
    """write exception-relevant motifs (CK|D, CK|Y, RR|H ...) and I / W / M residues into the CDS of single-isoform
    genes; only sense codons are written, in frame, never over a Sec codon or the start codon"""
    w = copy.deepcopy(world)
    for g in w['genes']:
        if len(g['transcripts']) != 1:
            continue
        t = g['transcripts'][0]
        if not t.get('cds'):
            continue
        cs, ce = t['cds']
        ncod = (ce - cs) // 3
        chrom = list(w['chroms'][g['chrom']])
        for _ in range(n):
            m = rng.choice(MOTIFS)
            if ncod - len(m) - 2 < 2:
                continue
            k = rng.randint(1, ncod - len(m) - 1)
            if any(cs + 3 * k <= p < cs + 3 * (k + len(m)) for p in t.get('sec', [])):
                continue
            G._write_into(chrom, g, t['exons'], cs + 3 * k, G.backtranslate(rng, m))
        w['chroms'][g['chrom']] = ''.join(chrom)
    return w if world_consistent(w) else world

def add_paralogs(rng, world):
    """clone the first chromosome as 'chrP' with one codon of each coding single-isoform gene replaced by another
    sense codon: the proteome then contains near-identical proteins, and a variant that converts one paralog into
    the other produces a peptide that is canonical for the OTHER gene (only the global filter can know that).
    returns (world', [(gene_id, tx_id, tx_pos, ref_codon, alt_codon)] conversions on the original genes)"""
    w = copy.deepcopy(world)
    cname = sorted(w['chroms'])[0]
    chrom = list(w['chroms'][cname])
    conv = []
    new_genes = []
    gid = 900
    for g in world['genes']:
        if g['chrom'] != cname or len(g['transcripts']) != 1 or not g['transcripts'][0].get('cds'):
            continue
        t = g['transcripts'][0]
        cs, ce = t['cds']
        ncod = (ce - cs) // 3
        if ncod < 8:
            continue
        gid += 1
        g2 = copy.deepcopy(g)
        g2['id'] = 'ENSG%011d.1' % gid
        g2['name'] = g['name'] + 'P'
        g2['chrom'] = 'chrP'
        t2 = g2['transcripts'][0]
        t2['id'] = 'ENST%011d.1' % (gid * 10)
        if t2.get('protein_id'):
            t2['protein_id'] = 'ENSP' + t2['id'][4:]
        s = G.tx_seq(world, g, t)
        for _ in range(rng.choice([1, 2, 3])):
            k = rng.randint(1, ncod - 2)
            p0 = cs + 3 * k
            if any(p0 <= p < p0 + 3 for p in t.get('sec', [])):
                continue
            old = s[p0:p0 + 3]
            aa_old = G.CODON.get(old, 'X')
            # one-base changes to another sense codon, preferring I<->L, K/R changes
            cands = []
            for j in range(3):
                for b in 'ACGT':
                    if b != old[j]:
                        new = old[:j] + b + old[j + 1:]
                        aa = G.CODON[new]
                        if aa != '*' and aa != aa_old:
                            cands.append((j, b, new, aa))
            if not cands:
                continue
            pref = [x for x in cands if (aa_old + x[3]) in ('IL', 'LI')] or cands
            j, b, new, aa = rng.choice(pref if rng.random() < 0.6 else cands)
            G._write_into(chrom, g, t['exons'], p0 + j, b)
            conv.append((g['id'], t['id'], p0 + j, old[j], b))
        new_genes.append(g2)
    if not new_genes:
        return world, []
    w['chroms']['chrP'] = ''.join(chrom)
    w['genes'] += new_genes
    if not world_consistent(w):
        return world, []
    return w, conv

def _gene_pos(gene, tx, tpos):
    return G.g2gene(gene, G.tx2g(gene, tx, tpos))

def _exonic(gene, tx, gs, n):
    """gene interval [gs, gs+n) maps to n consecutive transcript positions"""
    ts = [G.g2tx(gene, tx, G.gene2g(gene, gs + i)) for i in range(n)]
    return all(x is not None for x in ts) and all(ts[i + 1] - ts[i] == 1 for i in range(n - 1))

def gen_variants(rng, world, conv):
    """a few SNV / INDEL records in GENE coordinates: I->L (A>C on the first base of an Ile codon), L->I, changes at
    K/R codons, paralog conversions, random SNVs and small indels; one row per transcript that carries the bases"""
    rows, tags = [], []
    genes = [g for g in world['genes'] if g['chrom'] != 'chrP']
    if not genes:
        return rows, tags
    for _ in range(rng.choice([1, 2, 3, 4, 5, 6])):
        g = rng.choice(genes)
        t = rng.choice(g['transcripts'])
        gseq = G.gene_seq(world, g)
        s = G.tx_seq(world, g, t)
        x = rng.random()
        rec = None
        mine = [c for c in conv if c[0] == g['id']]
        if mine and x < 0.3:
            _, _, tp, ref, alt = rng.choice(mine)
            rec = (_gene_pos(g, t, tp), ref, alt, 'paralog')
        elif t.get('cds') and x < 0.6:
            cs, ce = t['cds']
            cods = [(cs + 3 * k, s[cs + 3 * k: cs + 3 * k + 3]) for k in range(1, (ce - cs) // 3)]
            ile = [(p, c) for p, c in cods if c in ('ATT', 'ATC', 'ATA')]
            leu = [(p, c) for p, c in cods if c in ('CTT', 'CTC', 'CTA')]
            kr = [(p, c) for p, c in cods if G.CODON.get(c) in ('K', 'R')]
            y = rng.random()
            if ile and y < 0.5:
                p, c = rng.choice(ile); rec = (_gene_pos(g, t, p), 'A', 'C', 'I>L')
            elif leu and y < 0.65:
                p, c = rng.choice(leu); rec = (_gene_pos(g, t, p), 'C', 'A', 'L>I')
            elif kr:
                p, c = rng.choice(kr); j = rng.choice([0, 1, 2])
                rec = (_gene_pos(g, t, p + j), c[j], rng.choice([b for b in 'ACGT' if b != c[j]]), 'K/R')
        if rec is None:
            tp = rng.randrange(0, max(1, len(s) - 4))
            gs = _gene_pos(g, t, tp)
            y = rng.random()
            if y < 0.55:
                rec = (gs, gseq[gs], rng.choice([b for b in 'ACGT' if b != gseq[gs]]), 'snv')
            elif y < 0.8:
                rec = (gs, gseq[gs], gseq[gs] + ''.join(rng.choice('ACGT') for _ in range(rng.choice([1, 2, 3]))), 'ins')
            else:
                k = rng.choice([1, 2, 3])
                rec = (gs, gseq[gs:gs + 1 + k], gseq[gs], 'del')
        gs, ref, alt, tag = rec
        if gs < 0 or gs + len(ref) > len(gseq) or gseq[gs:gs + len(ref)] != ref or 'N' in ref:
            continue
        kind = 'SNV' if len(ref) == len(alt) == 1 else 'INDEL'
        vid = '%s-%d-%s-%s' % (kind, gs + 1, ref, alt)
        if any(r[2] == vid and r[0] == g['id'] for r in rows):
            continue
        n = 0
        for tx in g['transcripts']:
            if _exonic(g, tx, gs, len(ref)):
                rows.append([g['id'], gs + 1, vid, ref, alt, tx['id'], g['name']]); n += 1
        if n:
            tags.append(tag)
    return rows, tags


# ------------------------------------------------------------------ collision worlds (engineered)
# Duplicated coding genes / isoforms that encode identical (or near-identical) proteins with DIFFERENT cds_start_NF
# tags in either order, plus engineered third genes whose variant / novel-ORF / alt-translation peptide equals a
# canonical peptide of those proteins in one of the forms the pool contains: plain, N-terminal without the initiator
# Met, I->L image, k-miscleaved.  Whether the engineered peptide really is canonical is decided by the C10 MODEL's pool
# (probe), never by the implementation; whether the caller would have written it otherwise is measured on a control
# world in which the duplicated proteins carry one different residue inside the target.
_SEG_AA = 'ADEGHLNQSTVYIFIFAL'

def _mk_seg(rng, n, first=False, last=False):
    body = [rng.choice(_SEG_AA) for _ in range(n - 1)]
    body[rng.randrange(len(body))] = rng.choice('IF')
    if first:
        body[0] = 'M'
    return ''.join(body) + (rng.choice('AGSL') if last else rng.choice('KR'))

def _filler(rng):
    return ''.join(rng.choice('ADEGHNQSTVY') for _ in range(rng.randint(3, 6))) + rng.choice('KR')

def _snv_neighbour(rng, aa, forbid='KRP*'):
    """(codon for aa, position, alt base, aa') : one base change giving another sense residue outside `forbid`"""
    cands = []
    for cod in G.BACK[aa]:
        for j in range(3):
            for b in 'ACGT':
                if b != cod[j]:
                    new = cod[:j] + b + cod[j + 1:]
                    a2 = G.CODON[new]
                    if a2 != aa and a2 not in forbid:
                        cands.append((new, j, cod[j], a2))      # engineered codon `new`; SNV new[j] -> cod[j] restores aa
    return rng.choice(cands) if cands else None

class _Layout:
    """single-exon genes laid out on one chromosome, either strand; transcript text is written strand-aware"""
    def __init__(self, rng):
        self.rng, self.chrom, self.genes, self.n = rng, list(G.rand_dna(rng, rng.randint(10, 30)).replace('ATG', 'ACG')), [], 0
    def _pad(self, n):
        s = G.rand_dna(self.rng, n)
        while 'ATG' in s or 'CAT' in s:
            s = s.replace('ATG', 'ACG').replace('CAT', 'CGT')
        return s
    def add_gene(self, txs, biotype='protein_coding', strand=None):
        """txs: list of dict(offset, seq(whole gene text in gene orientation is txs[0]['text']), cds, tags) ;
        all transcripts are suffix-windows [offset, L) of the same gene text"""
        rng = self.rng
        self.n += 1
        text = txs[0]['text']
        strand = strand or rng.choice([1, -1])
        s = len(self.chrom)
        self.chrom += list(text if strand == 1 else G.revcomp(text))
        e = len(self.chrom)
        self.chrom += list(self._pad(rng.randint(8, 25)))
        gene = {'id': 'ENSG%011d.%d' % (self.n, rng.randint(1, 9)), 'name': 'COL%d' % self.n, 'chrom': 'chr1', 'strand': strand,
                'biotype': biotype, 'transcripts': [], 'start': s, 'end': e}
        for i, t in enumerate(txs):
            u = t.get('offset', 0)
            exons = [[s + u, e]] if strand == 1 else [[s, e - u]]
            tid = 'ENST%011d.%d' % (self.n * 10 + i, rng.randint(1, 9))
            tx = {'id': tid, 'protein_id': ('ENSP' + tid[4:]) if t.get('cds') else None, 'exons': exons, 'cds': t.get('cds'),
                  'frame': 0, 'tags': list(t.get('tags', [])), 'sec': [], 'utr': rng.random() < 0.5,
                  'biotype': biotype if (t.get('cds') or biotype != 'protein_coding') else 'processed_transcript'}
            if t.get('cds'):
                tx['cds_feature_start'] = t['cds'][0]
            gene['transcripts'].append(tx)
        self.genes.append(gene)
        return gene
    def world(self):
        return {'chroms': {'chr1': ''.join(self.chrom)}, 'genes': self.genes}

def _coding_text(rng, lay, prot, nf=False, stop=None):
    utr5 = '' if nf else lay._pad(rng.randint(6, 24))
    cds = G.backtranslate(rng, prot)
    text = utr5 + cds + (stop or rng.choice(['TAA', 'TAG', 'TGA'])) + lay._pad(rng.randint(6, 20))
    return text, len(utr5), len(utr5) + len(cds)

def gen_collision_case(rng, control=False, force=None):
    for _ in range(80):
        c = _gen_collision_case(rng, control, force)
        if c is not None:
            return c
    raise RuntimeError('collision generator failed')

def _gen_collision_case(rng, control, force=None):
    force = force or {}
    nseg = rng.randint(4, 6)
    segs = [_mk_seg(rng, rng.randint(7, 11), first=(i == 0), last=(i == nseg - 1 and rng.random() < 0.5)) for i in range(nseg)]
    xb = None
    if force.get('exc_motif'):
        # a trypsin_exception motif on a segment boundary: ...CK|D, ...CK|Y, ...CK|H  (no cut there with the exception)
        xb = rng.randint(0, nseg - 2)
        segs[xb] = segs[xb][:-2] + 'CK'
        segs[xb + 1] = rng.choice('DYH') + segs[xb + 1][1:]
    P = ''.join(segs)
    k = force['k'] if 'k' in force else rng.choice([0, 1, 2, 2])
    # ---- targets, one per caller
    def pick(need_f=False):
        form = rng.choice(force['forms']) if force.get('forms') else \
               rng.choice(['plain', 'metless', 'metless', 'i2l', 'misc', 'metless+i2l'] if k >= 1 else
                          ['plain', 'metless', 'metless', 'i2l', 'metless+i2l'])
        if form in ('excjoin', 'excleft', 'excjoin+i2l'):
            i = xb
            T = segs[xb] + segs[xb + 1] if form.startswith('excjoin') else segs[xb]
            if xb == 0 and rng.random() < 0.5:
                T = T[1:]; form = 'metless+' + form
        elif form.startswith('metless'):
            i, T = 0, segs[0][1:]
        elif form == 'misc':
            i = rng.randint(0, nseg - 2)
            T = segs[i] + segs[i + 1]
            if i == 0 and rng.random() < 0.5:
                T = T[1:]; form = 'metless+misc'
        else:
            i = rng.randint(0, nseg - 1)
            T = segs[i]
        E = T.replace('I', 'L') if 'i2l' in form else T
        if 'i2l' in form and 'I' not in T:
            return None
        if need_f and 'F' not in E:
            return None
        return dict(form=form, seg=i, T=T, E=E)
    tv, tn, ta = pick(), pick(), pick(need_f=True)
    if tv is None or tn is None:
        return None
    # control: the duplicated proteins get one other residue inside every target, so that no E is canonical any more
    Pd = P
    if control:
        pd = list(P)
        for t in (tv, tn, ta):
            if t is None:
                continue
            a = P.find(t['T'])
            cand = [j for j in range(a + 1, a + len(t['T']) - 1) if P[j] not in 'KRIFM']
            if not cand:
                return None
            j = rng.choice(cand)
            pd[j] = 'G' if pd[j] != 'G' else 'A'
        Pd = ''.join(pd)
    lay = _Layout(rng)
    mode = rng.choice(['genes', 'genes', 'isoforms'])
    nf_first = rng.random() < 0.6
    near = mode == 'genes' and rng.random() < 0.25
    P2 = Pd
    if near:                       # near-identical: one residue differs in the LAST segment only
        j = len(Pd) - rng.randint(2, 4)
        if Pd[j] in 'KRIFM':
            return None
        P2 = Pd[:j] + ('S' if Pd[j] != 'S' else 'T') + Pd[j + 1:]
    tag_pattern = rng.choice(['nf_other', 'nf_other', 'nf_other', 'both_full', 'both_nf'])
    def dup_genes():
        specs = []
        for idx, prot in enumerate([Pd, P2]):
            nf = {'nf_other': (idx == 0) == nf_first, 'both_full': False, 'both_nf': True}[tag_pattern]
            specs.append((prot, nf))
        return specs
    if mode == 'genes':
        for prot, nf in dup_genes():
            text, cs, ce = _coding_text(rng, lay, prot, nf=nf)
            lay.add_gene([dict(text=text, cds=[cs, ce], tags=['cds_start_NF'] if nf else [])])
    else:
        # two isoforms of one gene: the full transcript and the window starting exactly at the CDS start (cds_start_NF)
        text, cs, ce = _coding_text(rng, lay, Pd, nf=False)
        full = dict(text=text, offset=0, cds=[cs, ce], tags=[])
        nfw = dict(text=text, offset=cs, cds=[0, ce - cs], tags=['cds_start_NF'])
        if tag_pattern == 'both_full':
            u = rng.randint(1, max(1, cs - 1))
            nfw = dict(text=text, offset=u, cds=[cs - u, ce - u], tags=[])
        txs = [nfw, full] if nf_first else [full, nfw]
        txs[0]['text'] = text
        lay.add_gene(txs)
    gvf = []
    # ---- third gene for callVariant: ... K E' tail, an SNV turns E' into E
    def tail_of(t):
        E = t['E']
        return (rng.choice('ADEGS') + _filler(rng)) if E[-1] in 'KR' else ''
    E = tv['E']
    cand = [j for j in range(1, len(E) - 1) if E[j] not in 'KR']
    rng.shuffle(cand)
    eng = None
    for j in cand:
        r = _snv_neighbour(rng, E[j])
        if r:
            eng = (j, r); break
    if eng is None:
        return None
    j, (newcod, bj, refbase_restored, aa2) = eng
    Ep = E[:j] + aa2 + E[j + 1:]
    pre = 'M' + _filler(rng)
    Q = pre + Ep + tail_of(tv)
    utr5 = lay._pad(rng.randint(6, 20))
    cds = G.backtranslate(rng, Q)
    p0 = 3 * (len(pre) + j)
    cds = cds[:p0] + newcod + cds[p0 + 3:]
    stop = rng.choice(['TAA', 'TAG', 'TGA'])
    text = utr5 + cds + stop + lay._pad(rng.randint(6, 20))
    gC = lay.add_gene([dict(text=text, cds=[len(utr5), len(utr5) + len(cds)], tags=[])])
    gs = len(utr5) + p0 + bj
    ref, alt = newcod[bj], refbase_restored
    gvf.append([gC['id'], gs + 1, 'SNV-%d-%s-%s' % (gs + 1, ref, alt), ref, alt, gC['transcripts'][0]['id'], gC['name']])
    # ---- third gene for callNovelORF: a non-coding transcript carrying an ORF  M filler K E tail stop
    En = tn['E']
    if tn['form'].startswith('metless') and 'misc' not in tn['form'] and rng.random() < 0.5:
        orf = 'M' + En + tail_of(tn)                    # the ORF starts like the duplicated proteins themselves
    else:
        orf = 'M' + _filler(rng) + En + tail_of(tn)
    text = lay._pad(rng.randint(5, 20)) + G.backtranslate(rng, orf) + rng.choice(['TAA', 'TAG', 'TGA']) + lay._pad(rng.randint(5, 20))
    lay.add_gene([dict(text=text, cds=None, tags=[])], biotype='lncRNA')
    # ---- third gene for callAltTranslation: ... K E[F->W] tail ; W>F reassignment gives E
    if ta is not None:
        Ea = ta['E']
        fpos = [x for x in range(len(Ea)) if Ea[x] == 'F']
        x = rng.choice(fpos)
        Ew = Ea[:x] + 'W' + Ea[x + 1:]
        Qa = 'M' + _filler(rng) + Ew + tail_of(ta)
        text, cs, ce = _coding_text(rng, lay, Qa, nf=False)
        lay.add_gene([dict(text=text, cds=[cs, ce], tags=[])])
    w = lay.world()
    if not world_consistent(w):
        return None
    exc = force.get('exc') or rng.choice(['auto', 'auto', 'trypsin_exception', 'None'])
    g = force['mw4'] if 'mw4' in force else rng.choice([0, 300, 500]) * 10000 + rng.randrange(0, 10000)
    run = dict(rule='trypsin', exc=exc, k=k, mw4=g, min_mw=g / 10000.0 + 0.00005,
               min_len=force.get('min_len') or rng.choice([5, 7]), max_len=force.get('max_len') or 25,
               cmds=['variant', 'novel', 'alt'],
               variant_flags=(['--w2f-reassignment'] if rng.random() < 0.3 else []) + (['--coding-novel-orf'] if rng.random() < 0.3 else []),
               novel_flags=['--orf-assignment', rng.choice(['max', 'min'])] + (['--coding-novel-orf'] if rng.random() < 0.6 else []),
               alt_flags=['--w2f-reassignment'] + (['--selenocysteine-termination'] if rng.random() < 0.3 else []))
    return dict(kind='e2e', world=w, gvf_files=[gvf], runs=[run], tags=['collision'], motif=False, paralogs=0,
                collision=dict(control=control, mode=mode, nf_first=nf_first, near=near, tag_pattern=tag_pattern,
                               targets={'variant': tv, 'novel': tn, 'alt': ta}),
                probe=[tv['E'], tn['E']] + ([ta['E']] if ta else []),
                probe_cmds=['variant', 'novel'] + (['alt'] if ta else []))


# ------------------------------------------------------------------ several pools in one --index-dir
# The three callers run through --index-dir on an index whose canonical pools were created by generateIndex +
# updateIndex with settings that differ in EXACTLY ONE of (rule, exception, miscleavage, min_mw, min_length,
# max_length), registered in varied order; every run is judged against the C10 model pool of ITS OWN settings.
# Worlds are collision worlds whose engineered peptides are canonical under one of the settings and not under the
# other (longer than the smaller max_length, shorter than the larger min_length, lighter than the larger min_mw,
# miscleaved beyond the smaller k, joined over / cut at an exception site, products of the other rule; I->L images).
INDEX_FIELDS = ['rule', 'exception', 'miscleavage', 'min_mw', 'min_length', 'max_length']

def gen_index_case(rng, names, field=None):
    field = field or rng.choice(INDEX_FIELDS)
    force = dict(k=rng.choice([0, 1, 2]), exc=rng.choice(['auto', 'trypsin_exception', 'None']), min_len=5, max_len=25,
                 mw4=rng.choice([0, 300]) * 10000 + rng.randrange(0, 10000))
    other = {}
    if field == 'max_length':
        force['max_len'] = rng.choice([25, 25, 30]); other['max_len'] = rng.choice([6, 8, 10, 13])
        if force['k'] >= 1 and rng.random() < 0.5:
            force['forms'] = ['misc', 'misc', 'plain', 'i2l', 'metless+i2l']
    elif field == 'min_length':
        other['min_len'] = rng.choice([9, 11, 14])
    elif field == 'min_mw':
        g = rng.choice([1000, 1300, 2000]) * 10000 + rng.randrange(0, 10000)
        other['mw4'] = g; other['min_mw'] = g / 10000.0 + 0.00005
    elif field == 'miscleavage':
        force['k'] = rng.choice([1, 2]); other['k'] = rng.choice([0, force['k'] - 1])
        force['forms'] = ['misc', 'misc', 'misc', 'metless+i2l', 'plain']
    elif field == 'rule':
        cands = [n for n in ('lysc', 'arg-c', 'lysn', 'asp-n', 'chymotrypsin high specificity', 'glutamyl endopeptidase') if n in names]
        other['rule'] = rng.choice(cands or [n for n in names if n != 'trypsin'])
        if force['exc'] == 'trypsin_exception':
            force['exc'] = 'auto'          # auto resolves per rule (none for the other rule): still exactly one CLI field differs
    else:
        force['exc_motif'] = True
        force['k'] = 0
        if rng.random() < 0.6:
            force['exc'] = rng.choice(['trypsin_exception', 'auto']); other['exc'] = 'None'
            force['forms'] = ['excjoin', 'excjoin', 'excjoin+i2l', 'plain']
        else:
            force['exc'] = 'None'; other['exc'] = rng.choice(['trypsin_exception', 'auto'])
            force['forms'] = ['excleft', 'excleft', 'plain']
    c = gen_collision_case(rng, control=False, force=force)
    own = c['runs'][0]
    oth = copy.deepcopy(own); oth.update(other)
    runs = [own, oth]
    if rng.random() < 0.3:                 # a third pool, differing from the first in one other field
        third = copy.deepcopy(own)
        f2 = rng.choice([f for f in ('max_length', 'min_length', 'miscleavage') if f != field])
        if f2 == 'max_length': third['max_len'] = own['max_len'] + rng.choice([1, 5])
        elif f2 == 'min_length': third['min_len'] = own['min_len'] + rng.choice([1, 2])
        else: third['k'] = own['k'] + 1
        runs.append(third)
    order = list(range(len(runs)))
    rng.shuffle(order)
    keys = ('rule', 'exc', 'k', 'min_mw', 'mw4', 'min_len', 'max_len')
    c['runs'] = runs
    c['index'] = dict(field=field, settings=[{k2: runs[i][k2] for k2 in keys} for i in order], order=order)
    c['probe_all'] = True
    c['tags'] = ['index']
    return c

def gen_run(rng, names, auto=None):
    rule = 'trypsin' if rng.random() < 0.65 else rng.choice(names)
    if auto is None:
        auto = rng.random() < 0.5
    if auto:
        exc = 'auto'
    elif rule == 'trypsin':
        exc = rng.choice(['trypsin_exception', 'trypsin_exception', 'None'])
    else:
        exc = rng.choice(['None', 'None', 'trypsin_exception'])
    base = rng.choice([0, 300, 500, 500, 700, 900])
    g = base * 10000 + rng.randrange(0, 10000)
    r = dict(rule=rule, exc=exc, k=rng.choice([0, 1, 2, 2]), mw4=g, min_mw=g / 10000.0 + 0.00005,
             min_len=rng.choice([5, 7, 7, 8]), max_len=rng.choice([9, 12, 25, 25]), cmds=['variant', 'novel', 'alt'])
    vf = []
    if rng.random() < 0.35: vf.append('--selenocysteine-termination')
    if rng.random() < 0.35: vf.append('--w2f-reassignment')
    if rng.random() < 0.3: vf.append('--coding-novel-orf')
    r['variant_flags'] = vf
    nf = ['--orf-assignment', rng.choice(['max', 'min'])]
    if rng.random() < 0.6: nf.append('--coding-novel-orf')
    if rng.random() < 0.3: nf.append('--w2f-reassignment')
    r['novel_flags'] = nf
    r['alt_flags'] = rng.choice([['--selenocysteine-termination'], ['--w2f-reassignment'],
                                 ['--selenocysteine-termination', '--w2f-reassignment']])
    return r

def gen_e2e_case(rng, names, motif=False):
    if motif:
        w = G.gen_world(rng, n_chrom=1, max_genes=3, small=True, coding_p=0.9, bias='KRKRCKDYRRHPMWIL', multi_iso_p=0.0, sec_p=0.3)
        w = inject_motifs(rng, w, n=5)
    else:
        w = G.gen_world(rng, n_chrom=1, max_genes=3, small=True, coding_p=0.75, bias='KRKRPMWDEFLCIIL',
                        multi_iso_p=rng.choice([0.0, 0.6]), sec_p=0.3)
    conv = []
    if rng.random() < 0.6:
        w, conv = add_paralogs(rng, w)
    rows, tags = gen_variants(rng, w, conv)
    files = [rows]
    if len(rows) > 2 and rng.random() < 0.3:
        gi = sorted(set(r[2] for r in rows))
        a = set(rng.sample(gi, len(gi) // 2))
        files = [[r for r in rows if r[2] in a], [r for r in rows if r[2] not in a]]
        files = [f for f in files if f]
    runs = []
    for _ in range(rng.choice([1, 2])):
        r = gen_run(rng, names, auto=True if motif and not runs else None)
        if motif and not runs:
            r['rule'] = 'trypsin'
            if '--coding-novel-orf' not in r['novel_flags']:
                r['novel_flags'].append('--coding-novel-orf')
        runs.append(r)
    return dict(kind='e2e', world=w, gvf_files=files if rows else [], runs=runs, tags=tags, motif=motif,
                paralogs=len(conv))

def resolved_exc(r):
    """CleavageParams: auto -> trypsin_exception for trypsin, otherwise no exception"""
    if r['exc'] == 'auto':
        return 'trypsin_exception' if r['rule'] == 'trypsin' else None
    return r['exc']

FLAG = ['is a peptide of the canonical pool (same settings, I->L images included)', 'is shorter than --min-length',
        'is longer than --max-length', 'is lighter than --min-mw (or has no computable mass)', 'contains X', 'contains *']

def check_e2e(c, r):
    """-> (list of problems, stats) for one e2e case given the implementation result"""
    probs, stats = [], {'written': 0, 'errors': {}, 'cmd_runs': 0, 'nonempty': 0}
    if isinstance(r, dict) and '__exc__' in r:
        return [('harness', 'implementation worker raised %s: %s' % (r['__exc__'], r.get('msg', '')))], stats, []
    prots = world_proteins(c['world'])
    reqs, slots = [], []
    for e in r.get('index_errors', []) or []:
        stats['errors']['index:' + e] = stats['errors'].get('index:' + e, 0) + 1
    for i, (run, out) in enumerate(zip(c['runs'], r['runs'])):
        fastas, names = [], []
        for cmd in ('variant', 'novel', 'alt'):
            o = out.get(cmd)
            if o is None:
                continue
            stats['cmd_runs'] += 1
            if '__exc__' in o:
                stats['errors'][cmd + ':' + o['__exc__']] = stats['errors'].get(cmd + ':' + o['__exc__'], 0) + 1
                continue
            fa = o['fasta']
            if fa is None:
                probs.append((cmd, 'run %d: no FASTA written' % i)); continue
            fastas.append([s for h, s in fa]); names.append(cmd)
            stats['written'] += len(fa)
            stats['nonempty'] += 1 if fa else 0
            # ---- independent (Python) reading of the sentence
            seqs = [s for h, s in fa]
            dup = sorted(set(s for s in seqs if seqs.count(s) > 1))
            if dup:
                probs.append((cmd, 'run %d: sequence written more than once: %s' % (i, dup[:3])))
            for s in seqs:
                if 'X' in s or '*' in s:
                    probs.append((cmd, 'run %d: peptide %s contains X or *' % (i, s))); break
                if not (run['min_len'] <= len(s) <= run['max_len']):
                    probs.append((cmd, 'run %d: peptide %s (length %d) outside [%d, %d]' % (i, s, len(s), run['min_len'], run['max_len']))); break
            if cmd == 'variant':
                tb = o.get('table')
                if tb is None:
                    probs.append((cmd, 'run %d: no *_peptide_table.txt next to the FASTA' % i))
                else:
                    rows = [l.split('\t') for l in tb.split('\n') if l and not l.startswith('#')]
                    pf = set((s, e) for h, s in fa for e in h.split(' '))
                    pt = set((x[0], x[1]) for x in rows if len(x) > 1)
                    if pf != pt:
                        probs.append((cmd, 'run %d: FASTA and peptide table list different (sequence, header entry) pairs: %s'
                                      % (i, sorted(pf ^ pt)[:3])))
                    for x in rows:
                        ok = len(x) == 12 and x[3].lstrip('-').isdigit() and x[4].lstrip('-').isdigit() and \
                             x[2] == x[0][int(x[3]):int(x[4])]
                        if not ok:
                            probs.append((cmd, 'run %d: table row sub-sequence is not the stated slice of the peptide: %s' % (i, x[:5])))
                            break
        lim = [run['k'], run['mw4'], run['min_len'], run['max_len']]
        lim_out = [run['k'], run['mw4'] + 1, run['min_len'], run['max_len']]
        if c.get('probe') and (i == 0 or c.get('probe_all')):
            fastas.append(list(c['probe'])); names.append('probe')
        reqs.append(('c04_hygiene', [run['rule'], resolved_exc(run), lim, prots, fastas, lim_out]))
        slots.append((i, names, fastas))
    return probs, stats, list(zip(reqs, slots))

def eval_e2e(ctx, cases, tag='c04e'):
    impl = I.run_cases('c04', cases, jobs=ctx.jobs, tag=tag, timeout=7200)
    results = []
    allreq = []
    for c, r in zip(cases, impl):
        probs, stats, rs = check_e2e(c, r)
        results.append([c, r, probs, stats, rs])
        allreq += [q for q, _ in rs]
    reps = O.call_parallel(allreq, jobs=8)
    it = iter(reps)
    for res in results:
        c, r, probs, stats, rs = res
        stats['pool_raises'] = 0
        for q, (i, names, fastas) in rs:
            m = next(it)
            if isinstance(m, str) or m[0] == 1:
                stats['pool_raises'] += 1
                continue
            for cmd, seqs, (flags, nodup, ok) in zip(names, fastas, m[1]):
                if cmd == 'probe':
                    # engineered peptides: are they canonical according to the C10 model's pool, and were they written?
                    written = {n: set(f) for n, f in zip(names, fastas) if n != 'probe'}
                    pr = [dict(cmd=pc, E=e, canonical=bool(fl[0]), in_limits=not any(fl[1:]),
                               written=e in written.get(pc, set()))
                          for pc, e, fl in zip(c['probe_cmds'], seqs, flags)]
                    stats.setdefault('probes', {})[i] = pr
                    if i == 0:
                        stats['probe'] = pr
                    continue
                for s, fl in zip(seqs, flags):
                    for j, b in enumerate(fl):
                        if b:
                            probs.append((cmd, 'run %d (%s, exception %s -> %s, k=%d): written peptide %s %s' % (
                                i, c['runs'][i]['rule'], c['runs'][i]['exc'], resolved_exc(c['runs'][i]), c['runs'][i]['k'], s, FLAG[j])))
                if not nodup and not any('more than once' in p[1] for p in probs):
                    probs.append((cmd, 'run %d: sequence written more than once' % i))
                if bool(ok) != (not any(any(fl) for fl in flags) and bool(nodup)):
                    probs.append((cmd, 'decider hygiene_ok disagrees with its flags (harness error)'))
    return results

def shrink_e2e(ctx, c, cmd, budget=40):
    """keep the failing command/run, drop GVF rows and runs greedily while the same command still fails"""
    def fails(d):
        res = eval_e2e(ctx, [d], tag='c04s')[0]
        return any(p[0] == cmd for p in res[2])
    cur = copy.deepcopy(c)
    for r in cur['runs']:
        r['cmds'] = [cmd]
    n = 0
    if not fails(cur):
        return c
    if len(cur['runs']) > 1:
        for i in range(len(cur['runs'])):
            d = copy.deepcopy(cur); d['runs'] = [cur['runs'][i]]
            n += 1
            if fails(d):
                cur = d; break
    if cmd != 'variant':
        cur['gvf_files'] = []
    else:
        rows = [r for f in cur['gvf_files'] for r in f]
        changed = True
        while changed and n < budget:
            changed = False
            for vid in sorted(set(r[2] for r in rows)):
                d = copy.deepcopy(cur)
                d['gvf_files'] = [[r for r in rows if r[2] != vid]]
                if not d['gvf_files'][0]:
                    continue
                n += 1
                if fails(d):
                    cur = d; rows = d['gvf_files'][0]; changed = True; break
    for key in ('variant_flags', 'novel_flags', 'alt_flags'):
        for r in cur['runs']:
            for fl in list(r.get(key, [])):
                if not fl.startswith('--') or fl == '--orf-assignment':
                    continue
                d = copy.deepcopy(cur)
                rr = d['runs'][cur['runs'].index(r)]
                rr[key] = [x for x in rr[key] if x != fl]
                if key == 'alt_flags' and not rr[key]:
                    continue
                n += 1
                if n < budget and fails(d):
                    cur = d; r = rr
    return cur

# =================================================================== driver
def load_corpus():
    out = []
    for f in sorted(glob.glob(os.path.join(ROOT, 'corpus', 'C04', '*.json'))):
        try:
            o = json.load(open(f))
        except Exception:
            continue
        c = o.get('case', o)
        if isinstance(c, dict) and c.get('kind'):
            c['corpus'] = os.path.basename(f)
            out.append(c)
    return out

def run(ctx):
    rng = ctx.rng
    names = R.rule_names()
    violations = []
    corpus = load_corpus()
    # ---------------- (a)
    ops = [c for c in corpus if c['kind'] != 'e2e'] + gen_op_cases(ctx)
    resolve_masses([c for c in ops if 'mw4' not in c])
    impl, model, bad = run_ops(ctx, ops)
    violations += classify_ops(ctx, ops, impl, bad)
    dist = {}
    nontriv = set()
    reach = {'table_accept': 0, 'table_reject': 0, 'table_raise': 0, 'dup_seq_keys': 0, 'fasta_error': 0,
             'multi_label_records': 0, 'exact_boundary_hits': 0}
    for c, r in zip(ops, impl):
        dist['op/' + c['kind']] = dist.get('op/' + c['kind'], 0) + 1
        if not isinstance(r, dict) or '__exc__' in r:
            continue
        if c['kind'] in ('adds', 'table'):
            if isinstance(r['fasta'], dict):
                reach['fasta_error'] += 1
            elif r['fasta']:
                nontriv.add(json.dumps(c, sort_keys=True))
                reach['multi_label_records'] += sum(1 for h, s in r['fasta'] if ' ' in h)
            reach['dup_seq_keys'] += sum(1 for k, v in r['index'] if len(v) > 1)
        if c['kind'] == 'table':
            reach['table_accept'] += r['trace'].count(1); reach['table_reject'] += r['trace'].count(0)
            reach['table_raise'] += r['trace'].count(2)
            if isinstance(c.get('min_mw'), dict):
                reach['exact_boundary_hits'] += sum(1 for p, _ in c['items'] if p == c['min_mw']['of'])
        if c['kind'] == 'vpool' and r.get('fasta'):
            nontriv.add(json.dumps(c, sort_keys=True))
        if c['kind'] == 'graph_valid' and 1 in r.get('misc', []):
            nontriv.add(json.dumps(c, sort_keys=True))
    # ---------------- (b)
    n_e2e = 600 if ctx.quick else 8000
    e2e = [c for c in corpus if c['kind'] == 'e2e']
    for i in range(n_e2e):
        e2e.append(gen_e2e_case(rng, names, motif=(i % 3 == 0)))
    n_col = 400 if ctx.quick else 5000
    for i in range(n_col):
        e2e.append(gen_collision_case(rng, control=(i % 4 == 3)))
    n_idx = 120 if ctx.quick else 1500
    for i in range(n_idx):
        e2e.append(gen_index_case(rng, names, field=INDEX_FIELDS[i % len(INDEX_FIELDS)]))
    results = eval_e2e(ctx, e2e)
    idx = {'cases': 0, 'by_field': {}, 'pools_per_index': {}, 'own_registered_first': 0, 'targets': 0,
           'targets_canonical_for_own_settings': 0, 'targets_canonical_for_own_but_not_for_other_pool': {}}
    for c, r, probs, stats, _ in results:
        if not c.get('index'):
            continue
        idx['cases'] += 1
        f = c['index']['field']
        idx['by_field'][f] = idx['by_field'].get(f, 0) + 1
        n = len(c['index']['settings'])
        idx['pools_per_index'][n] = idx['pools_per_index'].get(n, 0) + 1
        idx['own_registered_first'] += 1 if c['index'].get('order', [0])[0] == 0 else 0
        p0, p1 = stats.get('probes', {}).get(0, []), stats.get('probes', {}).get(1, [])
        for a, b in zip(p0, p1):
            idx['targets'] += 1
            idx['targets_canonical_for_own_settings'] += 1 if a['canonical'] else 0
            if a['canonical'] and not b['canonical']:
                idx['targets_canonical_for_own_but_not_for_other_pool'][f] = idx['targets_canonical_for_own_but_not_for_other_pool'].get(f, 0) + 1
    col = {'cases': 0, 'controls': 0, 'by_form': {}, 'by_layout': {}, 'targets': 0, 'targets_canonical_in_model_pool': 0,
           'control_targets': 0, 'control_targets_written_by_intended_caller': {}, 'control_targets_by_caller': {}}
    for c, r, probs, stats, _ in results:
        if not c.get('collision') or c.get('index'):
            continue
        cc = c['collision']
        col['controls' if cc['control'] else 'cases'] += 1
        key = '%s/%s/%s%s' % (cc['mode'], cc['tag_pattern'], 'nf-first' if cc['nf_first'] else 'nf-second', '/near' if cc['near'] else '')
        col['by_layout'][key] = col['by_layout'].get(key, 0) + 1
        for pr in stats.get('probe', []):
            form = cc['targets'][pr['cmd']]['form']
            if cc['control']:
                col['control_targets'] += 1
                col['control_targets_by_caller'][pr['cmd']] = col['control_targets_by_caller'].get(pr['cmd'], 0) + 1
                if pr['written']:
                    col['control_targets_written_by_intended_caller'][pr['cmd']] = col['control_targets_written_by_intended_caller'].get(pr['cmd'], 0) + 1
            else:
                col['targets'] += 1
                col['targets_canonical_in_model_pool'] += 1 if pr['canonical'] else 0
                k2 = pr['cmd'] + '/' + form
                d = col['by_form'].setdefault(k2, [0, 0])
                d[0] += 1; d[1] += 1 if pr['canonical'] else 0
    est = {'cases': len(e2e), 'cmd_runs': 0, 'written_peptides': 0, 'nonempty_fastas': 0, 'errors': {}, 'pool_raises': 0,
           'cases_with_variants': 0, 'variant_tags': {}, 'auto_runs': 0, 'explicit_runs': 0, 'paralog_worlds': 0,
           'motif_worlds': 0, 'rules': {}}
    reported = 0
    for c, r, probs, stats, _ in results:
        est['cmd_runs'] += stats['cmd_runs']; est['written_peptides'] += stats['written']
        est['nonempty_fastas'] += stats['nonempty']; est['pool_raises'] += stats.get('pool_raises', 0)
        for k, v in stats['errors'].items():
            est['errors'][k] = est['errors'].get(k, 0) + v
        est['cases_with_variants'] += 1 if c.get('gvf_files') else 0
        est['paralog_worlds'] += 1 if c.get('paralogs') else 0
        est['motif_worlds'] += 1 if c.get('motif') else 0
        for t in c.get('tags', []):
            est['variant_tags'][t] = est['variant_tags'].get(t, 0) + 1
        for run_ in c['runs']:
            est['auto_runs' if run_['exc'] == 'auto' else 'explicit_runs'] += 1
            est['rules'][run_['rule']] = est['rules'].get(run_['rule'], 0) + 1
        if stats['written'] > 0:
            nontriv.add(json.dumps({'w': c['world']['chroms'], 'g': c.get('gvf_files'), 'r': c['runs']}, sort_keys=True))
        if probs and reported < 6:
            reported += 1
            cmd, what = probs[0]
            small = c
            if cmd in ('variant', 'novel', 'alt'):
                try:
                    small = shrink_e2e(ctx, c, cmd)
                except Exception:
                    small = c
            violations.append({'what': 'C04 %s: %s%s' % ({'variant': 'callVariant', 'novel': 'callNovelORF', 'alt': 'callAltTranslation'}.get(cmd, cmd),
                                                        what, (' [corpus %s]' % c['corpus']) if c.get('corpus') else ''),
                               'replay_obj': {'kind': 'e2e', 'case': small, 'problems': [p[1] for p in probs][:10]},
                               'no_input': False})
    dist['e2e'] = len(e2e) - n_col - n_idx
    dist['e2e/collision'] = n_col
    dist['e2e/index'] = n_idx
    samples = []
    for c in (ops[len(ops) // 7], ops[len(ops) // 2]):
        samples.append({k: v for k, v in c.items() if k not in ('mass4', 'base')})
    if e2e:
        c = e2e[-1]
        samples.append({'kind': 'e2e', 'gvf_files': c['gvf_files'], 'runs': c['runs'], 'genes': [g['id'] for g in c['world']['genes']]})
    return dict(
        evaluations=len(ops) + est['cmd_runs'],
        distinct_nontrivial=len(nontriv),
        rule='op level: generated add/is_valid sequences over small peptide and label sets (duplicate sequences, several labels per '
             'sequence, pool members, I/L images, Met-removed forms, X/*/B letters, thresholds exactly ON a peptide\'s mass and off the '
             '1e-4 grid, length limits on the peptides\' own lengths, plus a malformed stream: annotations without segments, tabs/blanks '
             'in labels and ids); non-trivial = the implementation wrote at least one record (table/pool) or accepted a peptide (graph '
             'filter). end to end: generated worlds (1 chromosome, 1-3 genes, paralog clone chrP in ~half, exception motifs CK|D CK|Y '
             'RR|H injected in a third) x 1-2 cleavage settings x the three commands, 1-6 SNV/INDEL records in gene coordinates biased '
             'to I>L / L>I / K,R codons / paralog conversions; plus engineered collision worlds (duplicated genes / isoforms encoding '
             'identical or near-identical proteins with different cds_start_NF tags in either order, and third genes whose variant / '
             'novel-ORF / W>F peptide equals a canonical peptide in plain, Met-removed, I->L and miscleaved form; canonicity probed in '
             'the C10 model pool, effectiveness measured on control worlds: see `collision`); plus the same callers through --index-dir on '
             'indexes holding 2-3 pools (generateIndex + updateIndex) that differ in exactly one cleavage field, each run judged '
             'against the model pool of its own settings: see `index`; non-trivial = at least one peptide was '
             'written; distinct by full input',
        samples=samples, distribution=dist, reach=reach, e2e=est, collision=col, index=idx, disagreements=len(bad), violations=violations,
        assumptions=['table text is ASCII without CR (byte offsets = character offsets, universal-newline translation is the identity)',
                     'the iteration order of Python sets (labels within one FASTA header, records of a VariantPeptidePool) is not modelled: '
                     'headers are compared as sets of entries, pools as sets of records',
                     'masses are exact 1e-4 integers; thresholds are either exactly the float the implementation computes for a peptide of '
                     'the case or strictly between two grid points, so no float-boundary case arises',
                     'peptide sequences are upper-case (Bio molecular_weight upper-cases and strips blanks; the model does not)',
                     'two runs of callVariant are never compared with each other (D14)'],
        trusted_base=['C10 model of the canonical pool (Model/Digest.v, proved in Props/C10.v and tied to create_unique_peptide_pool / '
                      'generateIndex / load_references by the C10 correspondence)',
                      'harness/lib/gen_reference.py ground truth (proteome written from the generator\'s own codon table)'])

def replay(ctx, obj):
    if obj.get('kind') == 'correspondence':
        obj = obj.get('example', {})
    c = obj.get('case')
    if not c:
        return dict(violations=[])
    if c['kind'] == 'e2e':
        res = eval_e2e(ctx, [c], tag='c04r')[0]
        return dict(violations=[{'what': 'replay: %s: %s' % p, 'replay_obj': obj, 'no_input': False} for p in res[2][:5]])
    if 'mw4' not in c and 'mass_mode' in c:
        resolve_masses([c])
    impl, model, bad = run_ops(ctx, [c], tag='c04r')
    return dict(violations=[{'what': 'replay: %s' % _diff(a, b), 'replay_obj': obj, 'no_input': False} for _, a, b in bad])

def search_failing_input(ctx, broken):
    """A theorem of Props/C04.v no longer checks - typically the filter chain regenerated from
    VariantPeptideTable.is_valid / VariantPeptidePool.add_peptide (Gen/PepFilter.v) is no longer the modelled one,
    or Biopython's table gained a mass for X / *.  Search the op-level streams (thresholds exactly on a peptide's
    mass, limits exactly on the peptides' lengths, pool members, I/L images) for an input on which the
    implementation's output violates the statement."""
    import random
    class C: pass
    c2 = C(); c2.rng = random.Random(ctx.seed + 1); c2.quick = True; c2.jobs = ctx.jobs; c2.seed = ctx.seed
    ops = [c for c in gen_op_cases(c2) if c['kind'] in ('table', 'vpool', 'graph_valid')]
    resolve_masses(ops)
    impl, model, bad = run_ops(c2, ops, tag='c04o')
    for v in classify_ops(c2, ops, impl, bad):
        if not v.get('no_input'):
            o = v['replay_obj']; o['what'] = v['what'][:300]
            return o
    return None
