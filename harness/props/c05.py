"""C05 correspondence: options and inputs act monotonically on callVariant's peptide set.

Every case = one generated world + GVF files + a LIST of run configurations executed on that same
input by the real callVariant entry point (harness/impl/c05.py -> harness/impl/callvariant.py:one_run)
+ a list of ORDERED PAIRS (strict run, relaxed run, dimension).  For every pair

   subset        sequences(strict) <= sequences(relaxed)
   attribution   every peptide of relaxed \\ strict is attributable to the relaxation:
                   k         more than k_strict cleavage sites inside the peptide (oracle api `sites`), or
                             (small inputs) not realizable under k_strict (oracle cv_realizable)
                   min_len   shorter than the strict minimum        max_len   longer than the strict maximum
                   min_mw    exact mass x 1e4 (oracle c05_mass4) not above the strict threshold
                   multi     violates at least one of the strict limits
                   sect/w2f/orf   EVERY header entry carries a SECT- / W2F- / ORF identifier
                   vars/file      EVERY header entry names an added record (or an added circRNA backbone)
                   restrictive switches (--noncanonical-transcripts, --backsplicing-only): subset only

Streams
  small     1-7 clustered SNV/MNV/INDEL records (harness/lib/cvgen.py), trypsin + look-ahead rules,
            exception OFF; limit and flag relaxations; unflagged runs are ALSO compared with the proved
            specification (must_set <= output <= may_set, finding tags of harness/lib/cvcheck.py),
            flagged runs with the flag-extended specification Model/SpecFlags.v (output <= fl_may_set)
  nested    the same with nested record sets: dropped records live in a second GVF file that the
            strict run does not read (drop records == drop a whole GVF file)
  excon     trypsin_exception ON (known finding D14: the output is not a function of the input);
            a disagreement is re-run 4 times and tagged D14 only if the outputs differ between repeats
  circ      SNV/INDEL file + circRNA file: --noncanonical-transcripts, --backsplicing-only (restrictive),
            dropping the circRNA file / the record file (nested inputs)
  large     30-40 records spread over one transcript, complexity limits -1, per-transcript timeout 60 s:
            subset + header-based attribution ONLY -- a metamorphic test of the implementation
            (no haplotype enumeration is possible), labelled as such in the evidence.

A peptide that is present at the strict setting and absent at the relaxed one is a violation of the
statement ("can only add peptides").  If it is a member of the per-transcript reference digest
(denylist) or the canonical pool computed under the RELAXED setting (oracle: c05_ref_forms, pool) it
carries the narrow finding signature C05-canonical-under-relaxed; anything else is unexplained.
"""
import json, os, glob, collections, copy, time, itertools, re
from harness.lib import oracle as O, impl as I, cvgen as CG, cvcheck as CK, cvsig as SG, gen_reference as G

PROPERTY = 'C05'
ROOT = os.path.dirname(os.path.dirname(os.path.dirname(os.path.abspath(__file__))))
F_CANON = 'C05-canonical-under-relaxed'
F_D14 = CK.F_D14

FLAG_ARGS = {'sect': '--selenocysteine-termination', 'w2f': '--w2f-reassignment', 'orf': '--coding-novel-orf',
             'noncan': '--noncanonical-transcripts', 'bso': '--backsplicing-only'}
HUGE_LEN = 100000
TIMES = collections.Counter()
ALPHABET = 'ACDEFGHIKLMNPQRSTVWYU'

# ------------------------------------------------------------------ sizes
def sizes(ctx):
    if ctx.quick:
        return dict(small=70, dense=45, nested=70, allkinds=40, excon=25, circ=30, large=8, adjacent=45)
    return dict(small=500, dense=350, nested=450, allkinds=300, excon=120, circ=200, large=40, adjacent=400)

# ------------------------------------------------------------------ run configurations
def flags_of(run):
    ex = run.get('extra', [])
    return [FLAG_ARGS['sect'] in ex, FLAG_ARGS['w2f'] in ex, FLAG_ARGS['orf'] in ex]

def with_flags(run, *names):
    r = dict(run)
    r['extra'] = list(run.get('extra', [])) + [FLAG_ARGS[n] for n in names]
    return r

def strict_run(rng, rule, exc_on=False):
    """a deliberately tight configuration so that every relaxation has room to add something"""
    r = CG.gen_run(rng, rule=rule, exc_on=exc_on)
    r['k'] = rng.choice([0, 0, 1, 1, 2])
    r['min_len'] = rng.choice([6, 7, 8, 9])
    r['max_len'] = rng.choice([9, 11, 13, 16, 20, 25])
    r['min_mw'], r['mw4'] = CG.off_grid_mw(rng, bases=(500, 700, 900, 1100))
    return r

def knobs(rng, run, p=0.5):
    """lowered collapse knobs: pop-collapse (PVGNodeCollapser) then really happens on small inputs"""
    if rng.random() < p:
        run['mnc'] = rng.choice([2, 2, 3, 5])
        run['naa'] = rng.choice([1, 3, 3, 5])
    return run

def relax(rng, base):
    """one-dimension relaxations of base (+ flag combinations + one simultaneous relaxation).
    Returns (runs, pairs) with runs[0] = base and pairs = [strict index, relaxed index, dimension]"""
    runs = [base]
    pairs = []
    def add(run, frm, dim):
        runs.append(run); pairs.append([frm, len(runs) - 1, dim]); return len(runs) - 1
    add(dict(base, k=base['k'] + rng.choice([1, 1, 2])), 0, 'k')
    add(dict(base, min_len=base['min_len'] - rng.choice([1, 2, 3, 4])), 0, 'min_len')
    add(dict(base, max_len=max(base['max_len'] + rng.choice([1, 2, 5, 15]), base.get('relax_max', 0))), 0, 'max_len')
    mw, mw4 = CG.off_grid_mw(rng, bases=(0, 200, 400))
    add(dict(base, min_mw=mw, mw4=mw4), 0, 'min_mw')
    multi = dict(base, k=base['k'] + 1, min_len=base['min_len'] - 2, max_len=base['max_len'] + 6, min_mw=mw, mw4=mw4)
    add(multi, 0, 'multi')
    s = add(with_flags(base, 'sect'), 0, 'sect')
    w = add(with_flags(base, 'w2f'), 0, 'w2f')
    sw = add(with_flags(base, 'sect', 'w2f'), s, 'w2f')
    pairs.append([w, sw, 'sect'])
    if rng.random() < 0.3:
        add(with_flags(base, 'orf'), 0, 'orf')
    # the limit relaxations once more UNDER a switch (both runs of the pair carry it)
    lim_runs = {'k': runs[1], 'min_len': runs[2], 'max_len': runs[3], 'min_mw': runs[4]}
    for fl, frm in (('sect', s), ('w2f', w)):
        for dim in rng.sample(sorted(lim_runs), 2 if fl == 'sect' else 1):
            if fl == 'sect' and dim not in ('max_len', 'k'):
                dim = 'max_len'
            add(with_flags(lim_runs[dim], fl), frm, dim)
    return runs, pairs

# ------------------------------------------------------------------ generators
def exon_gene_coords(gene, tx):
    out = []
    for a, b in tx['exons']:
        out.append((a - gene['start'], b - gene['start']) if gene['strand'] == 1 else (gene['end'] - b, gene['end'] - a))
    return sorted(out)

def circ_rows(rng, gene):
    rows = []
    for tx in gene['transcripts']:
        if rng.random() < 0.25 and rows:
            continue
        ex = exon_gene_coords(gene, tx)
        i = rng.randrange(len(ex)); j = rng.randrange(i, min(len(ex), i + 3))
        frag = ex[i:j + 1]
        if sum(b - a for a, b in frag) < 12:
            continue
        s0 = frag[0][0]
        rows.append([gene['id'], s0, 'CIRC-%s-%d:%d' % (tx['id'], s0, frag[-1][1]),
                     [a - s0 for a, b in frag], [b - a for a, b in frag], [], tx['id'], gene['name']])
    return rows

def split_rows(rng, rows):
    """kept / dropped rows by variant id (all isoform rows of an id go together); both non-empty if possible"""
    ids = sorted(set(r[2] for r in rows))
    if len(ids) < 2:
        return rows, []
    nd = rng.randint(1, max(1, len(ids) // 2))
    dropped = set(rng.sample(ids, nd))
    return [r for r in rows if r[2] not in dropped], [r for r in rows if r[2] in dropped]

def gen_small(rng, i, la_other):
    c = CG.gen_case(rng, coding_p=0.75)
    if i % 4 == 0:          # a quarter of the cases: the cluster sits at an annotated Sec codon (SECT forms need one)
        for _ in range(40):
            if c['tag'] == 'sec':
                break
            c = CG.gen_case(rng, coding_p=1.0)
    rule = 'trypsin' if rng.random() < 0.6 else la_other[i % len(la_other)]
    base = knobs(rng, strict_run(rng, rule))
    edge_bias(rng, c, base)
    c['files'] = [{'kind': 'var', 'rows': c['gvf']}]
    c['runs'], c['pairs'] = relax(rng, base)
    c['stream'] = 'small'
    return c

def dense_variants(rng, world, gene, tx, n):
    """n records, mostly SNVs, spread over two or three neighbouring tryptic fragments (sigma 11 nt) around
    an interesting position of tx"""
    gseq = G.gene_seq(world, gene)
    cents = CG._centres(world, gene, tx)
    tags = sorted(set(t for t, _ in cents))
    tag = rng.choice([t for t in tags if t in ('krp', 'sec', 'other')] or tags)
    tag, tp = rng.choice([c for c in cents if c[0] == tag])
    L = G.tx_len(tx)
    seen, out = set(), []
    for _ in range(300):
        if len(out) >= n:
            break
        ti = tp + int(round(rng.gauss(0, 11)))
        if tag == 'sec':
            # around the Sec codon (two thirds upstream), never inside it
            d = abs(int(round(rng.gauss(0, 9)))) + 1
            ti = tp - d if rng.random() < 0.67 else tp + 2 + d
        if not (0 <= ti < L - 4):
            continue
        gs = G.g2gene(gene, G.tx2g(gene, tx, ti))
        if not (0 <= gs < len(gseq) - 4):
            continue
        x = rng.random()
        if x < 0.85:
            ref = gseq[gs]; alt = CG._mut_base(rng, ref)
        elif x < 0.93:
            ref = gseq[gs]; alt = ref + ''.join(rng.choice(CG.NT) for _ in range(3))
        else:
            ref = gseq[gs:gs + 4]; alt = ref[:1]
        if not ref or ref == alt or any(abs(gs - g0) < 2 for g0, _, _ in out) or (gs, ref, alt) in seen:
            continue
        seen.add((gs, ref, alt)); out.append((gs, ref, alt))
    return tag, sorted(out)

def gen_dense(rng, i):
    """5-8 records (mostly SNVs) in neighbouring tryptic fragments, ALWAYS with lowered collapse knobs: the
    variant bubbles of one fragment are pop-collapsed, series with one and with two collapsed heads occur"""
    for _ in range(80):
        world = G.gen_world(rng, n_chrom=1, max_genes=2, coding_p=0.9, small=True, sec_p=0.45, nf_p=0.15)
        cands = [(g, t) for g in world['genes'] for t in g['transcripts'] if G.tx_len(t) >= 90 and t['cds']]
        if i % 3 == 0:
            cands = [(g, t) for g, t in cands if t.get('sec')]
        if not cands:
            continue
        gene, tx = rng.choice(cands)
        tag, vs = dense_variants(rng, world, gene, tx, rng.choice([5, 6, 6, 7, 7, 8]))
        if i % 3 == 0 and tag != 'sec':
            continue
        if len(vs) < 4:
            continue
        rows = []
        for gs, ref, alt in vs:
            for t in gene['transcripts']:
                kind, _, _ = CG.map_record(gene, t, gs, gs + len(ref))
                if kind != 'outside':
                    rows.append([gene['id'], gs + 1, CG.var_id(gs, ref, alt), ref, alt, t['id'], gene['name']])
        if rows:
            break
    c = {'world': world, 'gvf': rows, 'gene': gene['id'], 'target': tx['id'], 'tag': tag}
    base = knobs(rng, strict_run(rng, 'trypsin'), p=1.0)
    base['max_len'] = rng.choice([11, 13, 15, 16, 19, 25])
    edge_bias(rng, c, base)
    c['files'] = [{'kind': 'var', 'rows': rows}]
    c['runs'], c['pairs'] = relax(rng, base)
    c['stream'] = 'dense'
    return c

def edge_bias(rng, c, base):
    """put the strict maximum length right below an obliged peptide that starts with M (so that its
    Met-removed form sits exactly AT the maximum: the order of Met removal and the length test matters),
    or the strict limits right at the edge of some obliged peptide.  Uses the specification only."""
    if rng.random() < 0.35:
        return
    wide = dict(base, k=2, min_len=4, max_len=40, min_mw=0.00005, mw4=0)
    by_tx, _ = CG.tx_records(c)
    must = set()
    for tx_id, recs in by_tx.items():
        if recs:
            must |= set(O.U(p) for p in O.call('cv_must', CG.tx_input(c, tx_id, recs, wide, [])))
    us = sorted((p, i) for p in must for i, ch in enumerate(p) if ch == 'U' and i >= 5 and len(p) - i >= 3)
    if us and rng.random() < 0.6:
        # a Sec-containing obliged peptide: the strict maximum admits its SECT form p[:i] but not p itself
        p, i = rng.choice(us)
        base['max_len'] = rng.randint(i, len(p) - 2)
        base['min_len'] = min(base['min_len'], max(4, i - 1))
        base['relax_max'] = len(p) + 1
        c['edge'] = 'sect:' + p
        return
    ms = sorted(p for p in must if p.startswith('M') and 6 <= len(p) - 1 <= 30)
    if ms and rng.random() < 0.6:
        p = rng.choice(ms)
        base['max_len'] = len(p) - 1
        base['min_len'] = min(base['min_len'], base['max_len'] - 1)
        c['edge'] = 'met:' + p
        return
    ps = sorted(p for p in must if 6 <= len(p) <= 30)
    if ps:
        p = rng.choice(ps)
        if rng.random() < 0.5:
            base['max_len'] = len(p) - 1
            base['min_len'] = min(base['min_len'], base['max_len'] - 1)
            c['edge'] = 'max:' + p
        else:
            base['min_len'] = len(p) + 1
            base['max_len'] = max(base['max_len'], base['min_len'] + 2)
            c['edge'] = 'min:' + p

def gen_nested(rng, i, la_other):
    c = CG.gen_case(rng, nvar=rng.choice([2, 3, 3, 4, 4, 5, 6, 7]), coding_p=0.75)
    rule = 'trypsin' if rng.random() < 0.6 else la_other[i % len(la_other)]
    base = knobs(rng, CG.gen_run(rng, rule=rule))
    kept, dropped = split_rows(rng, c['gvf'])
    c['files'] = [{'kind': 'var', 'rows': kept}, {'kind': 'var', 'rows': dropped}]
    c['runs'] = [dict(base, use=[0]), dict(base, use=[0, 1])]
    c['pairs'] = [[0, 1, 'vars']]
    if rng.random() < 0.4:     # nested inputs under a flag as well
        f = rng.choice(['sect', 'w2f', 'orf'])
        c['runs'] += [with_flags(c['runs'][0], f), with_flags(c['runs'][1], f)]
        c['pairs'] += [[2, 3, 'vars'], [0, 2, f], [1, 3, f]]
    c['stream'] = 'nested'
    return c

def gen_excon(rng, i):
    c = CG.gen_case(rng, coding_p=0.8)
    base = knobs(rng, strict_run(rng, 'trypsin', exc_on=True))
    c['files'] = [{'kind': 'var', 'rows': c['gvf']}]
    c['runs'], c['pairs'] = relax(rng, base)
    c['stream'] = 'excon'
    return c

def gen_circ(rng, i):
    for _ in range(50):
        c = CG.gen_case(rng, nvar=rng.choice([1, 2, 2, 3, 3, 4]), coding_p=0.7)
        gene = CG.find_gene(c['world'], c['gene'])
        cr = circ_rows(rng, gene)
        if cr:
            break
    base = knobs(rng, CG.gen_run(rng, rule='trypsin'), p=0.4)
    base['min_len'] = rng.choice([5, 6, 7]); base['k'] = rng.choice([0, 0, 1, 1, 2])
    base['extra'] = ['--timeout-seconds', '20']
    c['files'] = [{'kind': 'var', 'rows': c['gvf']}, {'kind': 'circ', 'rows': cr}]
    full = dict(base, use=[0, 1])
    c['runs'] = [full, with_flags(full, 'noncan'), with_flags(full, 'bso'), with_flags(full, 'noncan', 'bso'),
                 dict(base, use=[0]), dict(base, use=[1])]
    # restrictive switches: (restricted, unrestricted); nested inputs: (fewer files, all files)
    c['pairs'] = [[1, 0, 'noncan'], [2, 0, 'bso'], [3, 1, 'bso'], [3, 2, 'noncan'], [4, 0, 'file'], [5, 0, 'file']]
    if rng.random() < 0.5:
        k2 = dict(full, k=full['k'] + 1)
        c['runs'].append(k2); c['pairs'].append([0, len(c['runs']) - 1, 'k'])
        w = with_flags(full, 'w2f')
        c['runs'].append(w); c['pairs'].append([0, len(c['runs']) - 1, 'w2f'])
    c['stream'] = 'circ'
    return c

def gen_allkinds(rng, i):
    """one transcript with all record kinds: SNV/INDEL file, fusion file (this transcript is the donor), circRNA
    file; records sit inside the circRNA fragments, most of them DOWNSTREAM of the fusion's donor breakpoint.
    Runs: every inclusion order of the three files (nested inputs)."""
    from harness.props import c07gen as C7
    for _ in range(300):
        world = G.gen_world(rng, n_chrom=1, max_genes=rng.choice([2, 3]), small=True, sec_p=0.1, nf_p=0.0,
                            multi_iso_p=0.4, coding_p=0.85)
        if len(world['genes']) < 2:
            continue
        coding = [(g, t) for g in world['genes'] for t in g['transcripts'] if t['cds'] and G.tx_len(t) >= 90]
        if not coding:
            continue
        gene, tx = rng.choice(coding)
        others = [(g, t) for g in world['genes'] if g['id'] != gene['id'] for t in g['transcripts'] if G.tx_len(t) >= 30]
        if not others:
            continue
        ag, at = rng.choice(others)
        nex = len(tx['exons'])
        ei = rng.randrange(nex); ej = rng.randrange(ei, min(nex, ei + 3))
        circ = C7.mk_circ(gene, tx, ei, ej)
        if sum(circ['lengths']) < 30:
            continue
        # transcript interval of the circRNA
        exs = C7.exons_gene_coords(gene, tx)
        t0 = sum(e - s_ for s_, e in exs[:ei]); t1 = t0 + sum(circ['lengths'])
        fus = None
        for _ in range(30):
            f = C7.mk_fusion(rng, world, gene, tx, ag, at)
            if f and f['donor_tx_pos'] < t1 - 9:       # breakpoint upstream of (part of) the circRNA
                fus = f
                break
        if not fus:
            continue
        lo = max(t0 + 1, fus['donor_tx_pos'] + 1)
        recs, used = [], set()
        for _ in range(rng.choice([1, 2, 2, 3, 4])):
            ti = rng.randrange(lo, t1 - 1) if rng.random() < 0.8 else rng.randrange(max(1, t0), t1 - 1)
            if any(abs(ti - u) < 4 for u in used):
                continue
            used.add(ti)
            recs.append(C7.mk_record(rng, world, gene, tx, ti, rng.choice(['snv', 'snv', 'snv', 'ins', 'del'])))
        if recs:
            break
    rows = [[r['gene'], r['pos'], r['id'], r['ref'], r['alt'], r['tx'], r['symbol']] for r in recs]
    frow = [[fus['gene'], fus['pos'], fus['id'], fus['ref'], fus['tx'], fus['symbol'], fus['gpos'], fus['acc_gene'], fus['acc_tx'],
             fus['acc_symbol'], fus['acc_pos'], fus['acc_gpos']]]
    crow = [[circ['gene'], circ['start'], circ['id'], circ['offsets'], circ['lengths'], [], circ['tx'], circ['symbol']]]
    c = {'world': world, 'gvf': rows, 'gene': gene['id'], 'target': tx['id'], 'tag': 'allkinds'}
    base = knobs(rng, CG.gen_run(rng, rule='trypsin'), p=0.3)
    base['k'] = rng.choice([0, 1, 1, 2]); base['min_len'] = rng.choice([5, 6, 7])
    base['extra'] = ['--timeout-seconds', '20']
    c['files'] = [{'kind': 'var', 'rows': rows}, {'kind': 'fusion', 'rows': frow}, {'kind': 'circ', 'rows': crow}]
    uses = [[0], [0, 1], [0, 2], [1, 2], [0, 1, 2], [2], [1]]
    c['runs'] = [dict(base, use=u) for u in uses]
    # (fewer files, more files)
    c['pairs'] = [[0, 1, 'file'], [0, 2, 'file'], [1, 4, 'file'], [2, 4, 'file'], [3, 4, 'file'], [5, 2, 'file'], [5, 3, 'file'], [6, 1, 'file'], [6, 3, 'file']]
    c['stream'] = 'allkinds'
    return c

def adjacent_geometry(rng, gseq, g0):
    """records (gene start, ref, alt) packed on the bases g0-1 .. g0+3: always an adjacent SNV pair (g0, g0+1), plus
    two to four of: further alleles on either base, a third adjacent SNV (triple), insertions / deletions anchored on
    a base that also carries an SNV, MNVs overlapping the SNVs, an SNV directly upstream, one distant SNV"""
    def snv(g, avoid=()):
        ref = gseq[g]
        alts = [c for c in CG.NT if c != ref and (g, ref, c) not in avoid]
        return (g, ref, rng.choice(alts)) if alts else None
    def ins(g):
        return (g, gseq[g], gseq[g] + ''.join(rng.choice(CG.NT) for _ in range(rng.choice([1, 2, 3]))))
    def dele(g):
        k = rng.choice([1, 2, 3])
        return (g, gseq[g:g + 1 + k], gseq[g])
    def mnv(g, n):
        ref = gseq[g:g + n]
        return (g, ref, ''.join(CG._mut_base(rng, c) for c in ref))
    recs = []
    def add(r):
        if r and r not in recs and r[1] and r[1] != r[2]:
            recs.append(r)
    add(snv(g0)); add(snv(g0 + 1))
    extras = [lambda: snv(g0, recs), lambda: snv(g0, recs), lambda: snv(g0 + 1, recs), lambda: snv(g0 + 2),
              lambda: snv(g0 + 2), lambda: ins(g0), lambda: dele(g0), lambda: ins(g0 + 1), lambda: dele(g0 + 1),
              lambda: mnv(g0, 2), lambda: mnv(g0 + 1, 2), lambda: mnv(g0, 3), lambda: snv(g0 - 1), lambda: snv(g0 + 3),
              lambda: snv(g0 + rng.choice([6, 7, 9]))]
    for f in rng.sample(extras, rng.choice([1, 2, 2, 3, 3, 4])):
        add(f())
    return sorted(recs)

def gen_adjacent(rng, i):
    """nested record sets on DENSE geometries (adjacent SNV pairs / triples, several alleles per base, indels
    anchored on an SNV base, MNVs overlapping SNVs) under each --max-adjacent-as-mnv value: the full set against
    the set minus one record.  One GVF file per record id."""
    for _ in range(200):
        world = G.gen_world(rng, n_chrom=1, max_genes=2, coding_p=0.85, small=True, sec_p=0.15, nf_p=0.15)
        cands = [(g, t) for g in world['genes'] for t in g['transcripts'] if G.tx_len(t) >= 60]
        if not cands:
            continue
        gene, tx = rng.choice(cands)
        L = G.tx_len(tx)
        lo, hi = (tx['cds'][0] + 3, tx['cds'][1] - 6) if (tx['cds'] and rng.random() < 0.85) else (4, L - 14)
        if hi <= lo:
            continue
        tp = rng.randrange(lo, hi)
        g0 = G.g2gene(gene, G.tx2g(gene, tx, tp))
        gseq = G.gene_seq(world, gene)
        if not (2 <= g0 < len(gseq) - 14) or CG.map_record(gene, tx, g0 - 1, g0 + 5)[0] != 'exonic':
            continue
        vs = adjacent_geometry(rng, gseq, g0)
        rows_by_id = collections.OrderedDict()
        for gs, ref, alt in vs:
            for t in gene['transcripts']:
                if CG.map_record(gene, t, gs, gs + len(ref))[0] != 'outside':
                    rows_by_id.setdefault(CG.var_id(gs, ref, alt), []).append(
                        [gene['id'], gs + 1, CG.var_id(gs, ref, alt), ref, alt, t['id'], gene['name']])
        if len(rows_by_id) >= 3:
            break
    ids = list(rows_by_id)
    c = {'world': world, 'gvf': [r for v in rows_by_id.values() for r in v], 'gene': gene['id'], 'target': tx['id'], 'tag': 'adjacent'}
    c['files'] = [{'kind': 'var', 'rows': rows_by_id[v]} for v in ids]
    base = knobs(rng, CG.gen_run(rng, rule='trypsin'), p=0.3)
    base['k'] = rng.choice([0, 1, 1, 2]); base['min_len'] = rng.choice([4, 5, 6]); base['max_len'] = rng.choice([20, 25, 30])
    base['extra'] = list(base.get('extra', [])) + ['--max-adjacent-as-mnv', str(rng.choice([0, 1, 2, 2, 2, 2, 2, 3]))]
    allf = list(range(len(ids)))
    c['runs'] = [dict(base, use=allf)]
    c['pairs'] = []
    for d in rng.sample(allf, min(3, len(allf))):
        c['runs'].append(dict(base, use=[j for j in allf if j != d]))
        c['pairs'].append([len(c['runs']) - 1, 0, 'vars'])
    c['stream'] = 'adjacent'
    return c

def gen_large(rng, i, quick=True):
    """30-40 records spread over one transcript of a larger world"""
    for _ in range(100):
        world = G.gen_world(rng, n_chrom=1, max_genes=1, coding_p=0.8, small=False, sec_p=0.3, nf_p=0.1)
        cands = [(g, t) for g in world['genes'] for t in g['transcripts'] if G.tx_len(t) >= 240]
        if cands:
            break
    gene, tx = rng.choice(cands)
    gseq = G.gene_seq(world, gene)
    L = G.tx_len(tx)
    n = rng.randint(30, 40)
    # transcript positions, at least 2 nt apart on average every L/n
    tps = sorted(rng.sample(range(3, L - 6), min(n, L - 9)))
    seen = set(); vs = []
    for tp in tps:
        gs = G.g2gene(gene, G.tx2g(gene, tx, tp))
        x = rng.random()
        if x < 0.78:
            ref = gseq[gs]; alt = CG._mut_base(rng, ref)
        elif x < 0.88:
            ref = gseq[gs]; alt = ref + ''.join(rng.choice(CG.NT) for _ in range(rng.choice([1, 2, 3])))
        else:
            k = rng.choice([1, 2, 3]); ref = gseq[gs:gs + 1 + k]; alt = ref[:1]
        if not ref or gs + len(ref) > len(gseq) or ref == alt or (gs, ref, alt) in seen:
            continue
        seen.add((gs, ref, alt)); vs.append((gs, ref, alt))
    rows = []
    for gs, ref, alt in sorted(vs):
        for t in gene['transcripts']:
            kind, _, _ = CG.map_record(gene, t, gs, gs + len(ref))
            if kind == 'outside':
                continue
            rows.append([gene['id'], gs + 1, CG.var_id(gs, ref, alt), ref, alt, t['id'], gene['name']])
    c = {'world': world, 'gvf': rows, 'gene': gene['id'], 'target': tx['id'], 'tag': 'large'}
    base = strict_run(rng, 'trypsin')
    base['k'] = rng.choice([0, 1]); base['max_len'] = rng.choice([9, 11, 13, 16])
    base['extra'] = ['--timeout-seconds', '60']
    kept, dropped = split_rows(rng, rows)
    c['files'] = [{'kind': 'var', 'rows': kept}, {'kind': 'var', 'rows': dropped}]
    base = dict(base, use=[0, 1])
    mw, mw4 = CG.off_grid_mw(rng, bases=(0, 300))
    options = [('k', dict(base, k=base['k'] + 1)), ('min_len', dict(base, min_len=base['min_len'] - 2)),
               ('max_len', dict(base, max_len=base['max_len'] + rng.choice([2, 5]))),
               ('min_mw', dict(base, min_mw=mw, mw4=mw4)), ('sect', with_flags(base, 'sect')), ('w2f', with_flags(base, 'w2f'))]
    runs, pairs = [base], []
    for dim, r in rng.sample(options, 3 if quick else 5):
        runs.append(r); pairs.append([0, len(runs) - 1, dim])
    runs.append(dict(base, use=[0])); pairs.append([len(runs) - 1, 0, 'vars'])
    c['runs'], c['pairs'] = runs, pairs
    c['stream'] = 'large'
    return c

def gen_cases(ctx):
    rng = ctx.rng
    rc = CK.rule_classes()
    la_other = [r for r in rc['la'] if r != 'trypsin']
    n = sizes(ctx)
    cases = []
    cases += [gen_small(rng, i, la_other) for i in range(n['small'])]
    cases += [gen_dense(rng, i) for i in range(n.get('dense', 0))]
    cases += [gen_nested(rng, i, la_other) for i in range(n['nested'])]
    cases += [gen_allkinds(rng, i) for i in range(n.get('allkinds', 0))]
    cases += [gen_excon(rng, i) for i in range(n['excon'])]
    cases += [gen_circ(rng, i) for i in range(n['circ'])]
    cases += [gen_large(rng, i, ctx.quick) for i in range(n['large'])]
    cases += [gen_adjacent(rng, i) for i in range(n.get('adjacent', 0))]
    return cases

# ------------------------------------------------------------------ evaluation (implementation + specification)
def rows_of(case, run):
    use = run.get('use')
    idx = range(len(case['files'])) if use is None else use
    return [r for i in idx if case['files'][i]['kind'] == 'var' for r in case['files'][i]['rows']]

def uses_circ(case, run):
    """the run reads a circRNA or fusion file (backbones the specification does not cover)"""
    use = run.get('use')
    idx = range(len(case['files'])) if use is None else use
    return any(case['files'][i]['kind'] in ('circ', 'fusion') and case['files'][i]['rows'] for i in idx)

F_MNVCRASH = 'C05-max-adjacent-mnv-crash'

def max_adjacent(run):
    ex = run.get('extra', [])
    return int(ex[ex.index('--max-adjacent-as-mnv') + 1]) if '--max-adjacent-as-mnv' in ex else 2

def is_mnv_crash(run, exc):
    """callVariant aborts inside seqvar.find_mnvs_from_adjacent_variants with --max-adjacent-as-mnv >= 3:
    KeyError (a record without an adjacent partner leaves no chains of length k-1) or ValueError (the chain is
    extended with records adjacent to its FIRST member, so two alleles of the next base are merged)"""
    return (isinstance(exc, dict) and exc.get('__exc__') in ('KeyError', 'ValueError')
            and 'find_mnvs_from_adjacent_variants' in exc.get('tb', '') and max_adjacent(run) >= 3)

def spec_covered(case, run):
    """the specification Model/Spec.v (+ SpecFlags.v) covers this run: SNV/MNV/INDEL on linear transcripts,
    few enough records for haplotype enumeration"""
    if case.get('stream') == 'large' or uses_circ(case, run):
        return False
    ex = run.get('extra', [])
    if max_adjacent(run) != 2:
        return False       # Spec.v fixes the convention of the default value (runs of <= 2 abutting records)
    if run['exc'] != 'None' and any(flags_of(run)):
        return False       # the D14 signatures of cvcheck are stated for the unflagged specification only
    return not (FLAG_ARGS['noncan'] in ex or FLAG_ARGS['bso'] in ex)

def evaluate(ctx, cases, tag='c05'):
    """-> {(ci, ri): Eval}; Eval as in cvcheck (got / must / missing / extra with finding tags)"""
    t0 = time.time()
    res = I.run_cases('c05', cases, jobs=ctx.jobs, tag=tag, timeout=14400)
    TIMES['impl'] += time.time() - t0
    t0 = time.time()
    evs, reqs = {}, []
    for ci, c in enumerate(cases):
        prots = CG.proteome(c['world'])
        r_all = res[ci]
        for ri, run in enumerate(c['runs']):
            ev = CK.Eval()
            ev.ci, ev.ri, ev.case, ev.run = ci, ri, c, run
            r = r_all['runs'][ri] if 'runs' in r_all else r_all
            ev.exc = r if '__exc__' in r else None
            ev.fasta = r.get('fasta', []) if not ev.exc else []
            ev.got = collections.OrderedDict()
            for h, s in ev.fasta:
                ev.got.setdefault(s, []).extend(h.split(' '))
            by_tx, _ = CG.tx_records({'world': c['world'], 'gvf': rows_of(c, run)})
            ev.recs = by_tx
            ev.xs = {}
            ev.must = set(); ev.missing = {}; ev.extra = {}; ev.unreal = set(); ev.may_novel = set()
            evs[(ci, ri)] = ev
            if ev.exc or not spec_covered(c, run):
                continue
            peps = list(ev.got.keys())
            fl = flags_of(run)
            for tx_id, recs in by_tx.items():
                if not recs:
                    continue
                x = CG.tx_input(c, tx_id, recs, run, prots)
                ev.xs[tx_id] = x
                if any(fl):
                    reqs.append((('c05_fl_realizable', [x, fl, peps]), (ev, 'real')))
                else:
                    reqs.append((('cv_must', x), (ev, 'must')))
                    reqs.append((('cv_realizable', [x, peps]), (ev, 'real')))
    outs = O.call_parallel([q for q, _ in reqs], jobs=ctx.jobs)
    real = {}
    for (q, (ev, kind)), o in zip(reqs, outs):
        if isinstance(o, str):
            raise RuntimeError('oracle error %s on %s' % (o, q[0]))
        if kind == 'must':
            ev.must |= set(O.U(p) for p in o)
        else:
            flags = [bool(b) for b in o]
            cur = real.get(id(ev))
            real[id(ev)] = flags if cur is None else [a or b for a, b in zip(cur, flags)]
    todo = []
    for ev in evs.values():
        if ev.exc or not ev.xs:
            continue
        flags = real.get(id(ev)) or [False] * len(ev.got)
        ev.unreal = set(p for p, ok in zip(ev.got.keys(), flags) if not ok)
        ev.missing = {p: None for p in ev.must - set(ev.got.keys())}
        ev.extra = {p: None for p in ev.unreal}
        if ev.missing or ev.extra:
            todo.append(ev)
    TIMES['oracle'] += time.time() - t0
    t0 = time.time()
    CK.classify([ev for ev in todo if not any(flags_of(ev.run))])
    for ev in todo:
        # flagged runs: an emitted sequence outside fl_may_set that is a form of a product of the
        # look-behind-relaxed digestion is C02's known finding D14b-lookbehind (trypsin W-K-P, ...)
        if any(flags_of(ev.run)) and ev.extra and ev.run['exc'] == 'None':
            ps = sorted(ev.extra)
            ok = [False] * len(ps)
            for x in ev.xs.values():
                ok = [a or bool(b) for a, b in zip(ok, O.call('c05_fl_realizable_relaxed2', [x, flags_of(ev.run), ps]))]
            for p_, o_ in zip(ps, ok):
                if o_:
                    ev.extra[p_] = CK.F_PEPSIN
    TIMES['classify'] += time.time() - t0
    return evs

# ------------------------------------------------------------------ attribution
def entry_fields(ent):
    f = ent.split('|')
    if f and f[-1].isdigit():
        f = f[:-1]
    return f

def entry_ids(ent):
    """identifiers an entry names: backbone (transcript, FUSION-.. or CIRC-.. id) and record ids; on a fusion
    backbone the record ids carry the index of the transcript they belong to ('1-SNV-56-A-T' donor, '2-..' accepter)"""
    f = entry_fields(ent)
    out = set(f)
    if f and f[0].startswith('FUSION-'):
        out |= set(re.sub(r'^\d+-', '', x) for x in f[1:])
    return out

def lim_of(run):
    return [run['k'], run['mw4'], run['min_len'], run['max_len']]

def outside_limits(p, strict, dims, mass4, nsites):
    """which of the strict limits p violates"""
    out = []
    if 'min_len' in dims and len(p) < strict['min_len']:
        out.append('min_len')
    if 'max_len' in dims and len(p) > strict['max_len']:
        out.append('max_len')
    if 'min_mw' in dims and mass4[p] <= strict['mw4']:
        out.append('min_mw')
    if 'k' in dims and nsites[p] > strict['k']:
        out.append('k')
    return out

def added_ids(case, a_run, b_run):
    """identifiers (record ids, circRNA ids) available to the relaxed run b but not to the strict run a"""
    def ids(run):
        use = run.get('use')
        idx = range(len(case['files'])) if use is None else use
        return set(r[2] for i in idx for r in case['files'][i]['rows'])
    return ids(b_run) - ids(a_run)

def judge_pair(case, a, b, dim, aux):
    """a = strict Eval, b = relaxed Eval.  -> (removed [p], unattributed [(p, why)])"""
    A, Bs = set(a.got), set(b.got)
    removed = sorted(A - Bs)
    added = sorted(Bs - A)
    bad = []
    if dim in ('noncan', 'bso'):
        return removed, bad
    for p in added:
        ents = b.got[p]
        if dim in ('k', 'min_len', 'max_len', 'min_mw', 'multi'):
            dims = ('k', 'min_len', 'max_len', 'min_mw') if dim == 'multi' else (dim,)
            if outside_limits(p, a.run, dims, aux['mass4'], aux['nsites']):
                continue
            if 'k' in dims and a.xs:
                # the peptide alone shows <= k sites: ask the specification whether it is a product under the strict k at all
                if not any(O.call('cv_realizable', [x, [p]])[0] for x in a.xs.values()):
                    continue
            if aux['raw_nsites'] and outside_limits(p, a.run, dims, aux['mass4'], aux['raw_nsites']):
                # exception ON: outside the stricter k only if exception-suppressed sites are counted as sites --
                # the node-local evaluation of the exception (D14, see C01/C02 "relaxed" semantics)
                bad.append((p, 'inside the stricter limits (%s) under trypsin_exception, outside when suppressed sites count' % dim, F_D14))
                continue
            bad.append((p, 'inside the stricter limits (%s)' % dim))
        elif dim in ('sect', 'w2f', 'orf'):
            pref = {'sect': 'SECT-', 'w2f': 'W2F-', 'orf': 'ORF'}[dim]
            miss = [e for e in ents if not any(f.startswith(pref) for f in entry_fields(e)[1:])]
            if miss:
                bad.append((p, 'header entry %s carries no %s identifier' % (miss[0], pref)))
        elif dim in ('vars', 'file'):
            new = aux['added_ids']
            miss = [e for e in ents if not (entry_ids(e) & new)]
            if not miss:
                continue
            aux['stats']['header_names_no_added_record'] += 1
            why = header_analysis(case, a, b, p, miss, new, aux)
            if why:
                bad.append((p, why))
    return removed, bad


def _pairwise_ok(rs):
    rs = sorted(rs, key=lambda r: (r['s'], r['e']))
    return all(rs[i]['e'] <= rs[i + 1]['s'] for i in range(len(rs) - 1))

def header_analysis(case, a, b, p, miss, new, aux):
    """p is reported by the relaxed run b (more records) and not by the strict run a, and the header
    entries `miss` name none of the added records.  Returns None if p is nevertheless attributable to
    the added records, else the reason.
      * small inputs: in the transcripts the entries name, p is not a novel product of any haplotype of the
        strict record set (every witness haplotype there uses an added record): attributable; the header
        merely under-reports (C03's findings D12 / C03-stoploss-header) -- counted, not a C05 violation
      * otherwise (large inputs, no haplotype enumeration): an entry that IS a witness with exactly its
        named (old) records shows a derivation without any added record -> not attributable (violation);
        an entry that is not a witness by itself is an untruthful header (C03) and cannot attest either
        way: counted (completed by <= 2 added records / undecided), not a C05 violation"""
    st = aux['stats']
    if spec_covered(case, a.run) and spec_covered(case, b.run):
        # per transcript named by the entries: is p a NOVEL product (not a product of the unmodified transcript --
        # may_set alone also contains the unchanged pieces) of some haplotype of the strict record set?
        for tx_id in sorted(set(entry_fields(e)[0] for e in miss)):
            x = a.xs.get(tx_id)
            if x is None:
                continue            # no record of the strict set maps onto this transcript
            if O.call('cv_realizable', [x, [p]])[0] and p not in set(O.U(q) for q in O.call('cv_ref', x)):
                return 'a novel product of %s from the strict record set alone, and header entry %s names no added record' % (tx_id, miss[0])
        st['header_underreports_but_semantically_attributed'] += 1
        return None
    if uses_circ(case, b.run) and any(e.startswith('CIRC-') for e in miss):
        # a circRNA entry without any added record claims a pure-circRNA peptide: decidable without the
        # engine -- is p a contiguous part of a translation of the record-free circle (4 copies, 3 frames)?
        for e in miss:
            if not e.startswith('CIRC-'):
                continue
            if pure_circ_possible(case, entry_fields(e)[0], p):
                return 'circRNA header entry %s names no added record and the peptide is readable from an open reading frame of the record-free circle' % e
            st['header_underreports_circ_record_behind_backsplice'] += 1
        miss = [e for e in miss if not e.startswith('CIRC-')]
        if not miss:
            return None
    for e in miss:
        f = entry_fields(e)
        tx_id = f[0]
        recs = b.recs.get(tx_id)
        if recs is None:
            return 'header entry %s: unknown transcript' % e
        x = CG.tx_input(case, tx_id, recs, b.run, [])
        ids = [i for i, r in enumerate(recs) if r['id'] in f[1:]]
        if O.call('cv_witness', [x, [[p, ids]]])[0]:
            return 'header entry %s names no added record and is a witness by itself: derivable from the strict record set' % e
        # the entry is not a truthful witness (C03's findings D12 / C03-stoploss-header: records that restore
        # the frame or remove a stop codon upstream are not named): it cannot attest either way
        cand = [i for i, r in enumerate(recs) if r['id'] in new]
        subs = [list(cb) for n in (1, 2) for cb in itertools.combinations(cand, n)
                if _pairwise_ok([recs[i] for i in sorted(set(ids) | set(cb))])]
        oks = O.call('cv_witness', [x, [[p, sorted(set(ids) | set(sb))] for sb in subs]]) if subs else []
        if any(oks):
            st['header_underreports_completed_by_added_records'] += 1
        else:
            st['header_underreports_undecided'] += 1
    return None

def pure_circ_possible(case, circ_id, p):
    """necessary condition for p to be a peptide of the circRNA WITHOUT any record: p (or M+p) is a contiguous
    part of the translation of an open reading frame of the record-free circle -- from an ATG (any frame, any
    position of the first copy) to the first stop codon within four copies (generator's own codon table).
    A stretch between two stop codons without an ATG, or an ORF that never closes, yields no peptide."""
    for f in case['files']:
        if f['kind'] != 'circ':
            continue
        for gene_id, s0, cid, offs, lens, introns, tx_id, gname in f['rows']:
            if cid != circ_id:
                continue
            gene = CG.find_gene(case['world'], gene_id)
            gs = G.gene_seq(case['world'], gene)
            one = ''.join(gs[s0 + o:s0 + o + l] for o, l in zip(offs, lens))
            circ = one * 5
            for st in range(len(one)):
                if circ[st:st + 3] != 'ATG':
                    continue
                aa = []
                closed = False
                for i in range(st, min(len(circ) - 2, st + 4 * len(one)), 3):
                    a = G.CODON.get(circ[i:i + 3], 'X')
                    if a == '*':
                        closed = True
                        break
                    aa.append(a)
                if closed and p in ''.join(aa):
                    return True
    return False

def canonical_under(case, ev_relaxed, peps, prots):
    """subset of peps that belong to the per-transcript reference digest (denylist) or the canonical
    pool computed under the relaxed run's configuration"""
    run = ev_relaxed.run
    fl = flags_of(run)
    lim = lim_of(run)
    exc = run['exc'] if run['exc'] != 'None' else None
    hit = set()
    raised, pool = O.call('pool', [run['rule'], exc, lim, prots])
    pool = set(O.U(q) for q in pool)
    hit |= set(p for p in peps if p in pool)
    for g in case['world']['genes']:
        for t in g['transcripts']:
            x = CG.tx_input(case, t['id'], [], run, [])
            ref = set(O.U(q) for q in O.call('c05_ref_forms', [x, fl]))
            hit |= set(p for p in peps if p in ref)
    return hit

# ------------------------------------------------------------------ verdicts
def pair_replay(case, what, extra=None):
    c = CK.strip_case(case)
    o = {'kind': 'case', 'what': what, 'case': c}
    if extra:
        o.update(extra)
    return o

def sub_case(case, i, j, dim):
    """the case reduced to one pair (for replays)"""
    c = CK.strip_case(case)
    c = dict(c, runs=[case['runs'][i], case['runs'][j]], pairs=[[0, 1, dim]])
    return c

def judge(ctx, cases, evs, violations, stats, rerun=True):
    t_judge = time.time()
    try:
        _judge(ctx, cases, evs, violations, stats)
    finally:
        TIMES['judge'] += time.time() - t_judge

def _judge(ctx, cases, evs, violations, stats):
    # exact masses and site counts of every peptide that may need them
    need = set()
    for (ci, ri), ev in evs.items():
        need |= set(ev.got)
    need = sorted(need)
    mass4 = dict(zip(need, O.call_parallel([('c05_mass4', [p]) for p in need], jobs=ctx.jobs))) if need else {}
    mass4 = {p: v[0] for p, v in mass4.items()}
    unstable = {}
    for ci, c in enumerate(cases):
        st = c.get('stream', '?').split(':')[0]
        prots = CG.proteome(c['world'])
        rule = c['runs'][0]['rule']
        exc = c['runs'][0]['exc'] if c['runs'][0]['exc'] != 'None' else None
        for ri, run in enumerate(c['runs']):
            ev = evs[(ci, ri)]
            stats['runs:' + st] += 1
            if ev.exc:
                stats['run_failed:%s:%s' % (st, ev.exc['__exc__'])] += 1
                to = ev.exc['__exc__'] == 'ValueError' and 'Failed to finish transcript' in ev.exc.get('msg', '')
                if to and '--timeout-seconds' in run.get('extra', []):
                    stats['timeouts:' + st] += 1
                    continue
                v = {'what': 'callVariant aborted with %s (%s) in stream %s' % (ev.exc['__exc__'], ev.exc.get('msg', '')[:120], st),
                     'replay_obj': pair_replay(dict(c, runs=[run], pairs=[]), 'crash'), 'no_input': False}
                if is_mnv_crash(run, ev.exc):
                    v['finding'] = F_MNVCRASH
                violations.append(v)
                continue
            # specification bracket of this run (small inputs only)
            if ev.xs:
                stats['spec_compared_runs'] += 1
                for kind, d in (('missing', ev.missing), ('extra', ev.extra)):
                    groups = collections.defaultdict(list)
                    for p, tag in d.items():
                        groups[tag].append(p)
                    for tag, ps in groups.items():
                        if tag is None and st == 'excon':
                            tag = nondeterministic(ctx, c, unstable) and F_D14 or None
                        stats['spec_%s:%s' % (kind, tag or 'UNEXPLAINED')] += len(ps)
                        if tag:
                            continue   # owned by C01 / C02 (listed there); counted here, not re-reported
                        violations.append({'what': 'run %d of a C05 case disagrees with the specification: %s %s (stream %s, rule %s, k=%d, flags %s)' % (
                                               ri, kind, sorted(ps)[:4], st, run['rule'], run['k'], run.get('extra', [])),
                                           'replay_obj': pair_replay(dict(c, runs=[run], pairs=[]), 'spec'), 'no_input': False})
        for i, j, dim in c['pairs']:
            a, b = evs[(ci, i)], evs[(ci, j)]
            if a.exc or b.exc:
                stats['pairs_skipped_failed_run'] += 1
                continue
            stats['pairs:%s:%s' % (st, dim)] += 1
            aux = {'mass4': mass4, 'nsites': {}, 'raw_nsites': {}, 'stats': stats, 'prots': prots, 'added_ids': added_ids(c, a.run, b.run) if dim in ('vars', 'file') else set()}
            added = set(b.got) - set(a.got)
            if dim in ('k', 'multi') and added:
                ps = sorted(added)
                ns = O.call_many([('sites', [rule, exc, p]) for p in ps])
                aux['nsites'] = {p: len([s for s in n if 0 < s < len(p)]) for p, n in zip(ps, ns)}
                if not (a.xs or spec_covered(c, a.run)):
                    # no specification fallback for this pair: a site next to the peptide's first residue can depend
                    # on the residue in front of the peptide (trypsin: (?<=M)R(?=P), (?<=W)K(?=P); Met-removed
                    # forms lose their M): count the sites inside the peptide with the best left neighbour
                    low = [p for p in ps if aux['nsites'][p] <= a.run['k']]
                    if low:
                        ns2 = O.call_many([('sites', [rule, exc, ch + p]) for p in low for ch in ALPHABET])
                        for i, p in enumerate(low):
                            best = max(len([s for s in n if 1 < s < len(p) + 1]) for n in ns2[i * len(ALPHABET):(i + 1) * len(ALPHABET)])
                            if best > aux['nsites'][p]:
                                stats['k_sites_counted_with_left_context'] += 1
                                aux['nsites'][p] = best
                if exc:
                    ns = O.call_many([('sites', [rule, None, p]) for p in ps])
                    aux['raw_nsites'] = {p: len([s for s in n if 0 < s < len(p)]) for p, n in zip(ps, ns)}
            removed, bad = judge_pair(c, a, b, dim, aux)
            stats['added:%s' % dim] += len(added)
            if added:
                stats['pairs_nontrivial:%s' % st] += 1
                stats['pairs_nontrivial_dim:%s' % dim] += 1
            if removed:
                stats['removed:%s' % dim] += len(removed)
                canon = set()
                if dim in ('k', 'multi', 'sect', 'w2f'):
                    canon = canonical_under(c, b, removed, prots)
                rest = [p for p in removed if p not in canon]
                if canon:
                    stats['removed_canonical_under_relaxed:%s' % dim] += len(canon)
                    stats['pairs_with_canonical_removal:%s' % dim] += 1
                    violations.append({'what': 'peptide(s) %s reported at the strict setting disappear when %s is relaxed: canonical / reference under the relaxed setting' % (sorted(canon)[:4], dim),
                                       'replay_obj': pair_replay(sub_case(c, i, j, dim), 'removed-canonical', {'removed': sorted(canon)}),
                                       'no_input': False, 'finding': F_CANON})
                if rest:
                    tag = None
                    # explained by a listed finding of C01 on the relaxed run (obliged there, missing, signature matched)?
                    tags = [b.missing.get(p) for p in rest]
                    if all(tags):
                        tag = sorted(set(tags))[0]
                    elif st == 'excon' and nondeterministic(ctx, c, unstable):
                        tag = F_D14
                    elif dim in ('vars', 'file') and b.xs and all(explain_stoploss(b, p) for p in rest):
                        tag = CK.F_STOPLOSS
                    elif a.run['exc'] == 'None' and flicker_stoploss(ctx, c, rest, (a, b), unstable):
                        tag = CK.F_STOPLOSS
                    stats['removed_other:%s:%s' % (dim, tag or 'UNEXPLAINED')] += len(rest)
                    v = {'what': 'NOT MONOTONE (%s, stream %s): %s in the output of the %s run but not of the %s run' % (
                             dim, st, rest[:4], 'restricted' if dim in ('noncan', 'bso') else 'strict',
                             'unrestricted' if dim in ('noncan', 'bso') else 'relaxed'),
                         'replay_obj': pair_replay(sub_case(c, i, j, dim), 'removed', {'removed': rest}), 'no_input': False}
                    if tag:
                        v['finding'] = tag
                    violations.append(v)
            if bad:
                tag = None
                if st == 'excon' and all(len(x) > 2 and x[2] == F_D14 for x in bad):
                    tag = F_D14
                elif st == 'excon' and nondeterministic(ctx, c, unstable):
                    tag = F_D14
                elif all(a.missing.get(x[0]) for x in bad):
                    # every such peptide is OBLIGED already at the strict setting and its absence there matches a
                    # listed signature of C01 (e.g. C01-stoploss: 3'UTR peptides behind a read-through stop flicker)
                    tag = sorted(set(a.missing[x[0]] for x in bad))[0]
                elif a.run['exc'] == 'None' and flicker_stoploss(ctx, c, [x[0] for x in bad], (a, b), unstable):
                    tag = CK.F_STOPLOSS
                bad = [x[:2] for x in bad]
                stats['unattributed:%s:%s' % (dim, tag or 'UNEXPLAINED')] += len(bad)
                v = {'what': 'added peptide not attributable to the relaxation of %s (stream %s): %s' % (dim, st, ['%s: %s' % x for x in bad[:3]]),
                     'replay_obj': pair_replay(sub_case(c, i, j, dim), 'unattributed', {'peptides': [p for p, _ in bad]}), 'no_input': False}
                if tag:
                    v['finding'] = tag
                violations.append(v)

def explain_stoploss(ev, p):
    for tx_id, x in ev.xs.items():
        recs = ev.recs[tx_id]
        ws = SG.decode_wits(O.call('cv_may_witnesses', [x, p]), recs)
        ce = CK._cds_end(ev.case, tx_id)
        if ws and any(SG.stoploss_witness(w, ce) for w in ws):
            return True
    return False

def repeats(ctx, case, memo, n=6):
    """re-run the case n times -> per run index the list of its n outputs ({sequence: [entries]} or None)"""
    key = id(case)
    if key not in memo:
        c = CK.strip_case(case)
        res = I.run_cases('c05', [json.loads(json.dumps(c)) for _ in range(n)], jobs=min(ctx.jobs, n), tag='c05nd')
        out = []
        for ri in range(len(case['runs'])):
            outs = []
            for r in res:
                rr = r['runs'][ri] if 'runs' in r else r
                if '__exc__' in rr:
                    outs.append(None); continue
                d = {}
                for h, q in rr['fasta']:
                    d.setdefault(q, []).extend(h.split(' '))
                outs.append(d)
            out.append(outs)
        memo[key] = out
    return memo[key]

def nondeterministic(ctx, case, memo, n=6):
    """do the outputs of one and the same run differ between repeats? (D14)"""
    for outs in repeats(ctx, case, memo, n):
        if len(set(None if o is None else frozenset(o) for o in outs)) > 1:
            return True
    return False

def utr_only_entry(case, ev, ent):
    """the header entry belongs to a coding transcript and every record it names lies at or behind the
    annotated stop codon: such a peptide exists only behind a read-through stop codon"""
    f = entry_fields(ent)
    tx_id = f[0]
    try:
        ce = CK._cds_end(case, tx_id)
    except KeyError:
        return False
    if ce is None:
        return False
    pos = {r['id']: r['s'] for r in ev.recs.get(tx_id, [])}
    ids = [x for x in f[1:] if x.split('-')[0] in ('SNV', 'INDEL', 'MNV')]
    return bool(ids) and all(x in pos and pos[x] >= ce for x in ids)

def flicker_stoploss(ctx, case, peps, evs_pair, memo):
    """signature of C01-stoploss where no specification is available (large inputs), exception OFF: the
    engine's traversal keeps one cursor for a node reached both through the reference path behind the stop
    codon and through the read-through path; which one survives depends on set iteration order, so the
    3'UTR peptides flicker between repeats of the SAME run.  Matches iff every disputed peptide (a) is
    present in some repeats and absent in others of one and the same run and (b) has only header entries
    whose records all lie at or behind the annotated stop codon of a coding transcript."""
    reps = repeats(ctx, case, memo)
    for p in peps:
        flick = False
        ents = []
        for outs in reps:
            have = [o is not None and p in o for o in outs]
            if any(have) and not all(have):
                flick = True
            for o in outs:
                if o and p in o:
                    ents += o[p]
        for ev in evs_pair:
            ents += ev.got.get(p, [])
        if not flick or not ents:
            return False
        if not all(any(utr_only_entry(case, ev, e) for ev in evs_pair) for e in set(ents)):
            return False
    return True

# ------------------------------------------------------------------ driver
def corpus_cases():
    out = []
    for f in sorted(glob.glob(os.path.join(ROOT, 'corpus', 'C05', '*.json'))):
        o = json.load(open(f))
        c = o['case']
        c['stream'] = 'corpus:' + os.path.basename(f) if not c.get('stream') else c['stream']
        out.append(c)
    return out

def dedup(violations):
    seen, out = set(), []
    for v in violations:
        k = (v.get('finding'), json.dumps(v['replay_obj'], sort_keys=True, default=str))
        if k not in seen:
            seen.add(k); out.append(v)
    return out

def run(ctx):
    stats = collections.Counter()
    violations = []
    corp = corpus_cases()
    if corp:
        judge(ctx, corp, evaluate(ctx, corp, tag='c05c'), violations, stats)
        for k in list(stats):
            stats['corpus:' + k] = stats.pop(k)
    cases = gen_cases(ctx)
    small = [c for c in cases if c['stream'] != 'large']
    large = [c for c in cases if c['stream'] == 'large']
    B = 400
    for i in range(0, len(small), B):
        chunk = small[i:i + B]
        judge(ctx, chunk, evaluate(ctx, chunk, tag='c05'), violations, stats)
    # large inputs: one case per worker slot at a time
    for i in range(0, len(large), ctx.jobs):
        chunk = large[i:i + ctx.jobs]
        judge(ctx, chunk, evaluate(ctx, chunk, tag='c05L'), violations, stats)
    violations = dedup(violations)
    keep, cnt = [], collections.Counter()
    for v in violations:
        if v.get('finding'):
            cnt[v['finding']] += 1
            if cnt[v['finding']] > 25:
                continue
        keep.append(v)
    n_pairs = sum(v for k, v in stats.items() if k.startswith('pairs:'))
    n_nontriv = sum(v for k, v in stats.items() if k.startswith('pairs_nontrivial:'))
    n_pairs_small = sum(v for k, v in stats.items() if k.startswith('pairs:') and not k.startswith('pairs:large'))
    n_pairs_large = sum(v for k, v in stats.items() if k.startswith('pairs:large'))
    samples = [dict(CK.strip_case(c), world='<omitted>', files='<omitted>', gvf='<omitted>') for c in cases[:2]]
    dist = CK.dist_of([c for c in cases])
    dist.update({'stream:' + k: v for k, v in collections.Counter(c['stream'] for c in cases).items()})
    removed_total = sum(v for k, v in stats.items() if k.startswith('removed_canonical_under_relaxed:'))
    return dict(evaluations=n_pairs, distinct_nontrivial=n_nontriv, timing_s={k: round(v, 1) for k, v in TIMES.items()},
                rule='one evaluation = one ordered pair (strict run, relaxed run) of real callVariant runs on the same generated input; '
                     'non-trivial = the relaxed run reports at least one peptide the strict run does not (the relaxation bites)',
                samples=samples, distribution=dist, stats=dict(sorted(stats.items())),
                halves={'specification_compared (small inputs; haplotype enumeration)': n_pairs_small,
                        'metamorphic test of the implementation (large inputs, 30-40 records, complexity limits -1; subset + header attribution only)': n_pairs_large},
                canonical_under_relaxed={'pairs_hit': sum(v for k, v in stats.items() if k.startswith('pairs_with_canonical_removal:')),
                                         'peptides': removed_total, 'of_pairs': n_pairs},
                known_finding_counts=dict(cnt), engine_tied_by='correspondence',
                violations=keep,
                assumptions=['records are SNV / MNV / INDEL on linear transcripts plus whole-exon circRNA backbones; fusion and alternative-splicing records are not generated (property partial for them: the AS branch of --noncanonical-transcripts is not exercised)',
                             'gene -> transcript coordinates come from the generator\'s own ground truth (harness/lib/gen_reference.py)',
                             'mass thresholds are placed off the 1e-4 grid so float rounding cannot matter',
                             'attribution of a peptide added by a larger k: more than k_strict cleavage sites inside the peptide itself (oracle api sites on the peptide) or, small inputs only, not realizable under k_strict',
                             'complexity limits are disabled (-1 / -1); with binding limits monotonicity in the record set is not claimed by the statement',
                             'runs that exceed the per-transcript timeout given to callVariant (60 s large stream, 20 s circRNA stream) abort with ValueError (complexity limits are -1, nothing to reduce); their pairs are skipped and counted (timeouts:*)'],
                trusted_base=['glue coq/Extract/Api_C05.v and coq/Extract/Api_Spec.v (decoding of protocol values)',
                              'case generator harness/lib/cvgen.py, signatures harness/lib/cvsig.py / cvcheck.py, header parsing in harness/props/c05.py',
                              'the large-input half has no oracle: it is a metamorphic test of the implementation against itself'])

def model_find_mnvs(recs, K):
    """Mnv.find_mnvs of coq/Model/Mnv.v transcribed: levels by iterated extension, every chain of 2 .. K records"""
    cls = {'SNV': 0, 'RNAEditingSite': 0, 'INDEL': 1}
    def extend(c0, comb):
        it = comb[-1]
        out = []
        if it >= len(recs) - 1:
            return out
        end_t = recs[it][1]
        for j in range(it + 1, len(recs)):
            s, t = recs[j][0], recs[j][4]
            if t not in cls or s < end_t:
                continue
            if s > end_t:
                break
            if cls[t] == c0:
                out.append(comb + [j])
        return out
    res = []
    for i, r in enumerate(recs):
        if r[4] not in cls:
            continue
        level = [[i]]
        for _ in range(max(0, K - 1)):
            level = [c for comb in level for c in extend(cls[r[4]], comb)]
            for c in level:
                m = [recs[x] for x in c]
                res.append([m[0][0], m[-1][1], ''.join(x[2] for x in m), ''.join(x[3] for x in m), [x[5] for x in m]])
    return res

def mnv_disagreement(rng, n=3000):
    """find_mnvs_from_adjacent_variants of the checked-out source against Model/Mnv.v on small dense record lists
    (mostly sorted by start as callVariant passes them, some not)"""
    cases = []
    for _ in range(n):
        recs = []
        for q in range(rng.randint(2, 6)):
            t = rng.choice(['SNV', 'SNV', 'SNV', 'RNAEditingSite', 'INDEL', 'INDEL', 'MNV', 'Deletion'])
            s = rng.randint(0, 6)
            if t in ('SNV', 'RNAEditingSite'):
                ref, alt = rng.choice('ACGT'), rng.choice('ACGT')
            elif t == 'INDEL':
                ref = ''.join(rng.choice('ACGT') for _ in range(rng.choice([1, 1, 2, 3])))
                alt = ref[0] + ''.join(rng.choice('ACGT') for _ in range(rng.randint(1, 2))) if len(ref) == 1 else ref[0]
            else:
                ref = ''.join(rng.choice('ACGT') for _ in range(2)); alt = ''.join(rng.choice('ACGT') for _ in range(2))
            recs.append([s, s + len(ref), ref, alt, t, 'v%d' % q])
        if rng.random() < 0.8:
            recs.sort(key=lambda r: r[0])
        cases.append({'records': recs, 'K': rng.choice([1, 2, 2, 3, 3, 4])})
    cases.sort(key=lambda c: len(c['records']))
    for c, a in zip(cases, I.run_cases('py2coq_mnv', cases, jobs=4, tag='c05m')):
        want = model_find_mnvs(c['records'], c['K'])
        if a != want:
            return {'kind': 'mnv', 'case': c, 'impl': a, 'model': want,
                    'what': 'find_mnvs_from_adjacent_variants(max_adjacent_as_mnv=%d) on %s: implementation %s, model %s' % (
                        c['K'], c['records'], str(a)[:300], str(want)[:300])}
    return None

def search_failing_input(ctx, broken):
    """a theorem of Props/C05.v no longer checks (e.g. a regenerated rule table changed the computed
    witnesses): look for a concrete pair of runs on which the implementation violates the property"""
    global sizes
    if 'mnv' in str(broken.get('theorem') or '') + str(broken.get('why') or ''):
        import random
        # docs/py2coq.md target 27: first the two functions themselves on bare records against the model
        r = mnv_disagreement(random.Random(ctx.seed * 1000003 + 27))
        if r:
            return r
    old = sizes
    sizes = lambda ctx: dict(small=30, dense=20, nested=30, allkinds=10, excon=0, circ=10, large=0, adjacent=30)
    try:
        res = run(ctx)
    finally:
        sizes = old
    for v in res['violations']:
        if not v.get('finding') and not v.get('no_input'):
            return dict(v['replay_obj'], what=v['what'])
    return None

def replay(ctx, obj):
    if obj.get('kind') == 'mnv':
        a = I.run_cases('py2coq_mnv', [obj['case']], jobs=1, tag='c05m')[0]
        ok = a == model_find_mnvs(obj['case']['records'], obj['case']['K'])
        return dict(violations=[] if ok else [{'what': obj.get('what', ''), 'replay_obj': obj}])
    c = obj['case']
    c.setdefault('stream', 'replay')
    if 'files' not in c:
        c['files'] = [{'kind': 'var', 'rows': c['gvf']}]
    c.setdefault('pairs', [])
    stats = collections.Counter(); violations = []
    n = int(obj.get('repeat', 1))
    cases = [json.loads(json.dumps(c)) for _ in range(n)]
    judge(ctx, cases, evaluate(ctx, cases, tag='c05r'), violations, stats)
    seen = set(); out = []
    for v in violations:
        k = (v.get('finding'), v['what'])
        if k not in seen:
            seen.add(k); out.append(v)
    return dict(violations=out, stats=dict(stats))
