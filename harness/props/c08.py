"""C08 correspondence: callNovelORF (the real CLI function call_novel_orf_peptide(args)) against the
proved specification Model/NovelOrf.v.

For every generated case (reference world x cleavage settings x callNovelORF options):
  * selection      : transcripts present in the ORF FASTA  ==  transcripts the rule selects that have an ATG
  * ORF FASTA      : per transcript, ids ORF1..n, coordinates and sequences  ==  orf_listing (exact);
                     independently (Python, generator's own codon table): start is an ATG, the stated
                     coordinates translate to the listed sequence, it ends at a stop or at the transcript end
  * peptides       : novel_must  ⊆  FASTA sequences  ⊆  novel_may
  * attribution    : every header entry names a selected transcript and a listed ORF of it, and the peptide
                     (or a W>F pre-image) lies inside that ORF's listed sequence
The comparison IS the property (Level S), so a disagreement is directly a failing input.
Two defects were found with this check and are fixed in /repo; their former failing cases run first on every
check (corpus/C08/fixed_D5.json, fixed_D15.json) and a recurrence is an ordinary VIOLATION:
  D5  (af7e433): `pass` where `continue` is meant - coding transcripts processed without --coding-novel-orf
  D15 (f044be3): the graph ignored --cleavage-exception (name never resolved in
                 AminoAcidSeqRecord.get_enzymatic_cleave_exception_sites) while the pool honoured it
A failure that is explained by the unrepaired selection is labelled as such in the message (no finding tag).
"""
import json, os, copy
from harness.lib import oracle as O, impl as I, rules as R, gen_reference as G

PROPERTY = 'C08'
ROOT = os.path.dirname(os.path.dirname(os.path.dirname(os.path.abspath(__file__))))
BIOTYPES = ['lncRNA', 'processed_pseudogene', 'protein_coding', 'miRNA', 'TEC']

# ------------------------------------------------------------------ generation
def gen_opts(rng, names, force=None):
    rule = 'trypsin' if rng.random() < 0.45 else rng.choice(names)
    exc = None
    if rule == 'trypsin' and rng.random() < 0.3:
        exc = 'trypsin_exception'
    mw4 = rng.choice([0, 3000000, 5000000, 5000000, 8000000]) + rng.randrange(0, 10000)
    o = dict(rule=rule, exc=exc, k=rng.choice([0, 1, 2, 2]), mw4=mw4, min_mw=mw4 / 10000.0 + 0.00005,
             min_len=rng.choice([4, 5, 7, 7]), max_len=rng.choice([12, 25, 25, 40]),
             min_tx_length=rng.choice([21, 21, 21, 60, 120, 200, 1]),
             orf_assignment=rng.choice(['max', 'min']),
             coding_novel_orf=rng.random() < 0.5, w2f=rng.random() < 0.4,
             inclusion=None, exclusion=None)
    x = rng.random()
    if x < 0.25:
        o['inclusion'] = rng.sample(BIOTYPES, rng.randint(0, 3))
    x = rng.random()
    if x < 0.45:
        o['exclusion'] = rng.sample(BIOTYPES, rng.randint(0, 2))
    if force:
        o.update(force)
    return o

def gen_case(rng, names, quick=True):
    w = G.gen_world(rng, small=True, coding_p=rng.choice([0.3, 0.5, 0.7]), bias='KRKRPMWWDEFLC')
    o = gen_opts(rng, names)
    if rng.random() < 0.3:
        # put --min-tx-length on (or next to) the length of an actual transcript: boundary of the length filter
        lens = [G.tx_len(t) for g in w['genes'] for t in g['transcripts'] if not t.get('cds')] or \
               [G.tx_len(t) for g in w['genes'] for t in g['transcripts']]
        o['min_tx_length'] = rng.choice(lens) + rng.choice([0, 0, 1, -1])
    return dict(world=w, opts=o)

# ------------------------------------------------------------------ canonical-collision stream
# Non-coding transcripts of random DNA almost never produce a peptide that is also canonical, so the clause
# "minus the canonical pool" would go untested.  This stream adds to each world lncRNA genes whose ORFs (one per
# reading frame) are assembled from fragments COPIED from the canonical pool of the same world: whole canonical
# peptides (Met-initial ones first, so that M+X is canonical while X need not be), canonical peptides behind a new
# initiator Met (so that the Met-removed form is canonical), canonical peptides extended / truncated by one residue,
# I/L-swapped copies.  Canonical peptides must then be absent and their non-canonical neighbours present.
AA20 = 'ACDEFGHIKLMNPQRSTVWY'

def _variant(rng, P):
    x = rng.random()
    if x < 0.40 or len(P) < 4:
        return P
    if x < 0.50:
        return P[:-1] + rng.choice(AA20) + P[-1]           # extended by one residue before the C-terminal site
    if x < 0.60:
        return P[:-2] + P[-1]                              # truncated by one residue
    if x < 0.70:
        return rng.choice(AA20) + P                        # extended at the N-terminus
    if x < 0.80:
        return P[1:]                                       # truncated at the N-terminus
    if x < 0.95 and ('I' in P or 'L' in P):                # I/L swapped (the pool holds the I->L image)
        i = rng.choice([k for k, ch in enumerate(P) if ch in 'IL'])
        return P[:i] + ('L' if P[i] == 'I' else 'I') + P[i + 1:]
    return P

def seeded_orf(rng, canon):
    met = [p for p in canon if p.startswith('M') and len(p) > 3]
    met_x = [p for p in met if p[1:] not in canon]         # M+X canonical, X not canonical
    first = rng.random()
    if met_x and first < 0.45:
        orf = rng.choice(met_x)
    elif met and first < 0.65:
        orf = rng.choice(met)
    else:
        orf = 'M' + rng.choice(canon)                      # Met-removed form is the canonical peptide
    for _ in range(rng.randint(1, 3)):
        orf += _variant(rng, rng.choice(canon))
    if rng.random() < 0.5:
        orf += G.rand_protein(rng, rng.randint(1, 6))
    return orf.replace('U', 'C').replace('X', 'A').replace('*', '')

def add_lnc_gene(w, rng, tx_dna, n):
    """append a lncRNA gene with transcript sequence tx_dna on a chromosome of its own (1-2 exons, either strand)"""
    strand = rng.choice([1, -1])
    L = len(tx_dna)
    pad5, pad3 = rng.randint(5, 20), rng.randint(5, 20)
    if L > 30 and rng.random() < 0.6:
        cut = rng.randint(10, L - 10)
        intron = G.rand_dna(rng, rng.randint(3, 25))
        pieces = [tx_dna[:cut], tx_dna[cut:]]
    else:
        intron, pieces = '', [tx_dna]
    plus = G.rand_dna(rng, pad5)
    exons = []
    for i, pc in enumerate(pieces):
        exons.append([len(plus), len(plus) + len(pc)])
        plus += pc
        if i < len(pieces) - 1:
            plus += intron
    plus += G.rand_dna(rng, pad3)
    if strand == -1:
        tot = len(plus)
        plus = G.revcomp(plus)
        exons = sorted([[tot - e, tot - s_] for s_, e in exons])
    cname = 'chr9%d' % n      # must look like a GENCODE chromosome name to the tool's source inferrer
    w['chroms'][cname] = plus
    tx = {'id': 'ENST%011d.1' % (9000000 + n * 10), 'protein_id': None, 'exons': exons, 'cds': None, 'frame': 0, 'tags': [],
          'sec': [], 'utr': False, 'biotype': 'lncRNA'}
    g = {'id': 'ENSG%011d.1' % (9000000 + n), 'name': 'SEED%d' % n, 'chrom': cname, 'strand': strand, 'biotype': 'lncRNA',
         'transcripts': [tx], 'start': exons[0][0], 'end': exons[-1][1]}
    w['genes'].append(g)
    assert G.tx_seq(w, g, tx) == tx_dna

def gen_seeded_cases(rng, names, n):
    """two phases: worlds + options, one oracle call for the canonical pools, then the seeded genes"""
    base = []
    for _ in range(n):
        w = G.gen_world(rng, small=True, coding_p=rng.choice([0.7, 1.0]), bias='KRKRPMMWDEFLCI', max_genes=3)
        o = gen_opts(rng, names)
        o['rule'] = rng.choice(['trypsin'] * 6 + ['lysc', 'arg-c', 'lysn', 'glutamyl endopeptidase', 'chymotrypsin high specificity'])
        o['exc'] = 'trypsin_exception' if (o['rule'] == 'trypsin' and rng.random() < 0.3) else None
        o.update(inclusion=None, exclusion=None, min_tx_length=21, min_len=rng.choice([4, 5, 7]), max_len=rng.choice([25, 40]),
                 mw4=rng.choice([0, 3000000]) + rng.randrange(0, 10000))
        o['min_mw'] = o['mw4'] / 10000.0 + 0.00005
        base.append(dict(world=w, opts=o))
    pools = O.call_parallel([('pool', [c['opts']['rule'], c['opts']['exc'],
                                       [c['opts']['k'], c['opts']['mw4'], c['opts']['min_len'], c['opts']['max_len']],
                                       prot_rows(c['world'])]) for c in base], jobs=8)
    out = []
    for c, pl in zip(base, pools):
        if isinstance(pl, str) or pl[0] == 1:
            continue
        canon = sorted(set(O.U(p) for p in pl[1]))
        canon = [p for p in canon if 'U' not in p]
        if not canon:
            continue
        for gi in range(rng.choice([1, 1, 2])):
            parts = [G.rand_dna(rng, rng.randint(0, 8))]
            for f in range(3):
                parts.append(G.backtranslate(rng, seeded_orf(rng, canon)) + rng.choice(['TAA', 'TAG', 'TGA']) + rng.choice('ACGT'))
            add_lnc_gene(c['world'], rng, ''.join(parts), gi + 1)
        c['seeded'] = True
        out.append(c)
    return out

# ------------------------------------------------------------------ ATG / stop position-class stream
# lncRNA transcripts designed so that start and stop codons sit at every position class: ATG as the first / the last
# three bases, ATG directly followed by a stop (empty ORF), ATG-ATG, a nested in-frame ATG directly after a cleavage
# residue, ORFs running off the 3' end with 0 / 1 / 2 trailing bases in each frame, stop codon as the last codon.
def design_position_tx(rng):
    cls = []
    parts = []
    if rng.random() < 0.5:
        cls.append('atg_at_0')
    else:
        parts.append(G.rand_dna(rng, rng.randint(1, 7)))
    def orf(n):
        p = 'M' + G.rand_protein(rng, n, bias='KRKRPMWDEFLC')
        return p
    x = rng.random()
    if x < 0.25:
        cls.append('empty_orf'); parts.append('ATG' + rng.choice(['TAA', 'TAG', 'TGA']) + rng.choice('ACGT'))
    elif x < 0.5:
        cls.append('atg_atg'); parts.append('ATGATG')
    p1 = orf(rng.randint(4, 18))
    if rng.random() < 0.5:
        i = rng.randint(2, len(p1) - 1)
        p1 = p1[:i] + rng.choice('KR') + 'M' + p1[i:]
        cls.append('nested_atg_after_site')
    parts.append(G.backtranslate(rng, p1))
    y = rng.random()
    if y < 0.35:
        cls.append('stop_is_last_codon'); parts.append(rng.choice(['TAA', 'TAG', 'TGA']))
    elif y < 0.8:
        k = rng.choice([0, 1, 2]); cls.append('runoff_tail%d' % k); parts.append(G.rand_dna(rng, k).replace('ATG', 'ACG'))
    else:
        cls.append('atg_last_3nt'); parts.append(rng.choice(['TAA', 'TAG']) + rng.choice(['', 'C', 'CA']) + 'ATG')
    return ''.join(parts), cls

def gen_position_cases(rng, names, n):
    out = []
    for _ in range(n):
        w = G.gen_world(rng, small=True, coding_p=0.6, max_genes=2)
        o = gen_opts(rng, names)
        o.update(inclusion=None, exclusion=None, min_tx_length=rng.choice([1, 21]), min_len=rng.choice([3, 5, 7]))
        cls = []
        for gi in range(rng.choice([1, 2])):
            dna, c = design_position_tx(rng)
            add_lnc_gene(w, rng, dna, gi + 1)
            cls += c
        out.append(dict(world=w, opts=o, pos_classes=cls))
    return out

# ------------------------------------------------------------------ reference FASTA case (generator dimension)
# The statement is case-insensitive: a soft-masked (lower-case) genome FASTA denotes the same reference.  The case is
# applied by the implementation-side script to the written FASTA only; all ground truth stays upper-case.
def gen_genome_case(rng, w, p_any=0.4):
    x = rng.random()
    if x > p_any:
        return None
    if x < 0.25 * p_any:
        return {'all': True}
    masks = {}
    def add(ch, a, b):
        n = len(w['chroms'][ch])
        masks.setdefault(ch, []).append([max(0, a), min(n, b)])
    if x < 0.5 * p_any:                                    # whole gene loci inside a masked repeat
        for g in w['genes']:
            if rng.random() < 0.7:
                add(g['chrom'], g['start'] - rng.randint(0, 5), g['end'] + rng.randint(0, 5))
        return {'all': False, 'masks': masks}
    for g in w['genes']:                                   # stretches over start / Sec / random codons of the transcripts
        for t in g['transcripts']:
            pts = []
            if t.get('cds'):
                pts.append(t['cds'][0]); pts.append(max(t['cds'][0], t['cds'][1] - 3))
            pts += list(t.get('sec', []))
            L = G.tx_len(t)
            pts += [rng.randrange(0, L) for _ in range(rng.randint(0, 2))]
            for q in pts:
                if rng.random() < 0.6 and 0 <= q < L:
                    gp = G.tx2g(g, t, q)
                    add(g['chrom'], gp - rng.randint(0, 6), gp + rng.randint(1, 8))
    return {'all': False, 'masks': masks}

# ------------------------------------------------------------------ model side
def tx_rows(w):
    rows, ids = [], []
    for g in w['genes']:
        for t in g['transcripts']:
            coding = bool(t.get('cds'))
            rows.append([coding, g['biotype'], coding, G.tx_len(t), G.tx_seq(w, g, t)])
            ids.append((t['id'], g['id']))
    return rows, ids

def prot_rows(w):
    out = []
    for g in w['genes']:
        for t in g['transcripts']:
            if t.get('cds'):
                out.append([G.protein_of(w, g, t), 'cds_start_NF' in t['tags']])
    return out

def optl(x):
    return [] if x is None else [list(x)]

def model_req(c, mode, orf_exc_override=None):
    w, o = c['world'], c['opts']
    rows, _ = tx_rows(w)
    return ('c08_novel', [o['rule'], o['exc'], [o['k'], o['mw4'], o['min_len'], o['max_len']],
                          [o['coding_novel_orf'], optl(o['inclusion']), optl(o['exclusion']), o['min_tx_length']],
                          o['w2f'], prot_rows(w), rows, mode, [] if orf_exc_override is None else orf_exc_override])

def decode_model(c, m):
    if isinstance(m, str) or m[0] == 1:
        return None
    _, flags, must, may, listings = m
    _, ids = tx_rows(c['world'])
    sel_ids = [ids[i] for i, f in enumerate(flags) if f]
    listing = {}
    for (tid, gid), ents in zip(sel_ids, listings):
        if ents:
            listing[tid] = [[a, b, O.U(s)] for a, b, s in ents]
    return dict(selected=[t for t, _ in sel_ids], must=set(O.U(p) for p in must), may=set(O.U(p) for p in may),
                listing=listing)

# ------------------------------------------------------------------ declarative checks on the implementation's output
def parse_impl(r):
    if isinstance(r, dict) and '__exc__' in r:
        return None
    listing, bad = {}, []
    for h, s in r['orf'] or []:
        f = h.split('|')
        try:
            tid, gid, oid, co = f
            a, b = co.split('-')
            listing.setdefault(tid, {})[oid] = [int(a), int(b), s]
        except Exception:
            bad.append(h)
    peps = {}
    dup = []
    for h, s in r['pep'] or []:
        if s in peps:
            dup.append(s)
        peps.setdefault(s, []).extend(h.split(' '))
    return dict(listing=listing, peps=peps, bad_headers=bad, dup=dup)

def in_orf(q, orf, w2f):
    n = len(q)
    for i in range(len(orf) - n + 1):
        if all(orf[i + j] == q[j] or (w2f and orf[i + j] == 'W' and q[j] == 'F') for j in range(n)):
            return True
    return False

def check_against(c, impl, mod):
    """returns list of problem strings (empty = the property's statement holds for this output w.r.t. mod)"""
    probs = []
    w, o = c['world'], c['opts']
    txs = {t['id']: (g, t) for g in w['genes'] for t in g['transcripts']}
    # ORF FASTA == listing (ids in ascending start order)
    want = {tid: {'ORF%d' % (i + 1): e for i, e in enumerate(ents)} for tid, ents in mod['listing'].items()}
    if impl['bad_headers']:
        probs.append('unparsable ORF headers %s' % impl['bad_headers'][:2])
    if impl['listing'] != want:
        extra_tx = sorted(set(impl['listing']) - set(want))
        miss_tx = sorted(set(want) - set(impl['listing']))
        if extra_tx:
            probs.append('ORF FASTA lists transcripts the selection rule excludes: %s' % extra_tx[:3])
        if miss_tx:
            probs.append('ORF FASTA lacks selected transcripts: %s' % miss_tx[:3])
        for tid in set(want) & set(impl['listing']):
            if want[tid] != impl['listing'][tid]:
                probs.append('ORF entries of %s differ: impl %s vs spec %s' % (tid, str(impl['listing'][tid])[:150], str(want[tid])[:150]))
                break
    # independent reading of the ORF FASTA sentence
    for tid, d in impl['listing'].items():
        if tid not in txs:
            probs.append('ORF FASTA names unknown transcript %s' % tid); continue
        g, t = txs[tid]
        s = G.tx_seq(w, g, t)
        for oid, (a, b, aa) in d.items():
            ok = s[a:a + 3] == 'ATG' and (b - a) == 3 * len(aa) and G.translate(s[a:b] + 'TAA') == aa \
                 and '*' not in aa and (G.CODON.get(s[b:b + 3], None) == '*' or b + 3 > len(s))
            if not ok:
                probs.append('ORF %s|%s %d-%d does not translate to the listed sequence / is not ATG..stop' % (tid, oid, a, b))
    got = set(impl['peps'])
    miss = mod['must'] - got
    extra = got - mod['may']
    if miss:
        probs.append('obliged peptides missing: %s' % sorted(miss)[:4])
    if extra:
        probs.append('peptides that are no novel-ORF digestion product: %s' % sorted(extra)[:4])
    # attribution
    for q, labs in impl['peps'].items():
        for lab in labs:
            f = lab.split('|')       # tx | gene | [W2F-i | ...] ORFn | counter
            if len(f) < 4 or f[0] not in impl['listing'] or f[-2] not in impl['listing'][f[0]]:
                probs.append('peptide %s attributed to an ORF that is not listed: %s' % (q, lab)); break
            ev = f[2:-2]
            if any(not e.startswith('W2F-') for e in ev) or (ev and not o['w2f']):
                probs.append('peptide %s: unexpected event in header %s' % (q, lab)); break
            orf = impl['listing'][f[0]][f[-2]][2]
            if not in_orf(q, orf, bool(ev)):
                probs.append('peptide %s does not lie in the ORF it is attributed to: %s' % (q, lab)); break
    return probs

# ------------------------------------------------------------------ evaluation
def evaluate(ctx, cases, tag='c08'):
    impl = I.run_cases('c08', cases, jobs=ctx.jobs, tag=tag)
    reqs = []
    for c in cases:
        reqs.append(model_req(c, 1))
        reqs.append(model_req(c, 0))
    model = O.call_parallel(reqs, jobs=8)
    out = []
    recheck = []
    for i, c in enumerate(cases):
        res = dict(case=c, probs=[], finding=None, stats={})
        im = parse_impl(impl[i])
        spec = decode_model(c, model[2 * i])
        src = decode_model(c, model[2 * i + 1])
        if spec is None:
            res['skip'] = 'model: pool raises'
            out.append(res); continue
        if im is None:
            res['probs'] = ['callNovelORF raised %s: %s' % (impl[i]['__exc__'], impl[i].get('msg', '')[:200])]
            res['impl_exc'] = impl[i]['__exc__']
            recheck.append((i, res, None, spec, src))
            out.append(res); continue
        res['probs'] = check_against(c, im, spec)
        got = set(im['peps'])
        res['stats'] = dict(n_sel=len(spec['selected']), n_listed=sum(len(v) for v in im['listing'].values()),
                            n_pep=len(got), n_must=len(spec['must']), n_may=len(spec['may']),
                            slack_low=len(got - spec['must']), slack_high=len(spec['may'] - got),
                            d5_trigger=(not c['opts']['coding_novel_orf']) and any(t.get('cds') for g in c['world']['genes'] for t in g['transcripts']))
        if res['probs']:
            recheck.append((i, res, im, spec, src))
        out.append(res)
    # classification of failures by mechanism
    if recheck:
        reqs2 = []
        for i, res, im, spec, src in recheck:
            c = res['case']
            reqs2.append(model_req(c, 2))                 # unrepaired selection
        m2 = O.call_many(reqs2)
        for j, (i, res, im, spec, src) in enumerate(recheck):
            c = res['case']
            if im is None:
                continue
            alt = decode_model(c, m2[j])
            # D5 signature: the repaired and the unrepaired selection differ on this input (a coding transcript
            # without --coding-novel-orf) and the output satisfies the whole statement under the unrepaired one
            if alt is not None and alt['selected'] != spec['selected'] and not check_against(c, im, alt):
                res['mechanism'] = 'selection behaves like the unrepaired loop (coding transcripts processed without --coding-novel-orf)'
    return out

def measure_collisions(cases):
    """on seeded cases: candidates removed by the canonical pool, and obliged Met-removed forms X whose M+X is canonical"""
    if not cases:
        return {}
    reqs = []
    for c in cases:
        reqs.append(model_req(c, 1))
        r2 = list(model_req(c, 1)[1]); r2[5] = []          # same specification with an EMPTY pool
        reqs.append(('c08_novel', r2))
    ms = O.call_parallel(reqs, jobs=8)
    st = dict(cases=len(cases), cases_with_pool_hit=0, candidates_removed_by_pool=0, obliged_X_with_canonical_MX=0, cases_with_such_X=0)
    for i, c in enumerate(cases):
        a, b = decode_model(c, ms[2 * i]), decode_model(c, ms[2 * i + 1])
        if a is None or b is None:
            continue
        removed = b['may'] - a['may']
        st['candidates_removed_by_pool'] += len(removed)
        st['cases_with_pool_hit'] += 1 if removed else 0
        mx = [x for x in a['must'] if ('M' + x) in removed]
        st['obliged_X_with_canonical_MX'] += len(mx)
        st['cases_with_such_X'] += 1 if mx else 0
    return st

def violations_of(results, limit=12):
    v = []
    for r in results:
        if r['probs']:
            d = {'what': 'C08: ' + (('[%s] ' % r['mechanism']) if r.get('mechanism') else '') + '; '.join(r['probs'])[:360] +
                         ' | opts=' + json.dumps(r['case']['opts'])[:200],
                 'replay_obj': {'kind': 'case', 'case': r['case'], 'problems': r['probs'], 'mechanism': r.get('mechanism')},
                 'no_input': False}
            if r.get('finding'):
                d['finding'] = r['finding']
            v.append(d)
    # keep every untagged violation first, then a few of each finding
    untagged = [x for x in v if 'finding' not in x]
    tagged = [x for x in v if 'finding' in x]
    return untagged[:limit] + tagged[:6]

# ------------------------------------------------------------------ shrinking
def shrink(ctx, case, same_class):
    """greedy removal of genes / transcripts while the failure (same finding class) persists"""
    cur = case
    for _round in range(3):
        cands = []
        w = cur['world']
        for gi, g in enumerate(w['genes']):
            if len(w['genes']) > 1:
                w2 = copy.deepcopy(w); del w2['genes'][gi]
                cands.append(dict(cur, world=w2))
            for ti in range(len(g['transcripts'])):
                if len(g['transcripts']) > 1:
                    w2 = copy.deepcopy(w); del w2['genes'][gi]['transcripts'][ti]
                    cands.append(dict(cur, world=w2))
        for key, val in (('w2f', False), ('inclusion', None), ('exclusion', None), ('k', 0)):
            if cur['opts'].get(key) != val:
                o2 = dict(cur['opts']); o2[key] = val
                cands.append(dict(cur, opts=o2))
        if not cands:
            break
        rs = evaluate(ctx, cands, tag='c08s')
        nxt = None
        for r in rs:
            if r['probs'] and same_class(r):
                if nxt is None or len(json.dumps(r['case'])) < len(json.dumps(nxt)):
                    nxt = r['case']
        if nxt is None:
            break
        cur = nxt
    return cur

# ------------------------------------------------------------------ entry points
def _hist(xs):
    h = {}
    for x in xs:
        h[x] = h.get(x, 0) + 1
    return h

def corpus_cases():
    d = os.path.join(ROOT, 'corpus', PROPERTY)
    out = []
    if os.path.isdir(d):
        for f in sorted(os.listdir(d)):
            if f.endswith('.json'):
                obj = json.load(open(os.path.join(d, f)))
                if 'case' in obj:
                    out.append((f, obj['case']))
    return out

def run(ctx):
    rng = ctx.rng
    names = R.rule_names()
    n = 600 if ctx.quick else 30000
    corp = corpus_cases()
    cases = [c for _, c in corp] + [gen_case(rng, names, ctx.quick) for _ in range(n)]
    # a small stream forcing the interesting option corners
    for force in ({'coding_novel_orf': False, 'exc': None}, {'w2f': True}, {'exclusion': []}, {'inclusion': ['lncRNA']},
                  {'min_tx_length': 150}, {'rule': 'pepsin ph1.3', 'exc': None}, {'rule': 'lysn', 'exc': None}):
        for _ in range(6 if ctx.quick else 60):
            c = gen_case(rng, names)
            c['opts'].update(force)
            if c['opts']['rule'] != 'trypsin':
                c['opts']['exc'] = None
            cases.append(c)
    seeded = gen_seeded_cases(rng, names, 250 if ctx.quick else 8000)
    cases += seeded
    posc = gen_position_cases(rng, names, 200 if ctx.quick else 5000)
    cases += posc
    for c in cases[len(corp):]:
        if 'genome_case' not in c:
            c['genome_case'] = gen_genome_case(rng, c['world'])
    results = evaluate(ctx, cases)
    # how much work the clause "minus the canonical pool" does on the collision stream (measured, for the evidence)
    collide = measure_collisions(seeded[:200 if ctx.quick else 1500])
    # shrink the first untagged failure and the first of each finding class
    seen = set()
    for r in results:
        if r['probs']:
            cls = r.get('mechanism') or 'untagged'
            if cls in seen:
                continue
            seen.add(cls)
            try:
                small = shrink(ctx, r['case'], lambda x, cls=cls: (x.get('mechanism') or 'untagged') == cls)
                rr = evaluate(ctx, [small], tag='c08s')[0]
                if rr['probs'] and (rr.get('mechanism') or 'untagged') == cls:
                    r['case'], r['probs'] = rr['case'], rr['probs']
            except Exception:
                pass
    dist = {}
    nontriv = set()
    slack_low = slack_high = tot_out = tot_must = tot_may = 0
    for r in results:
        o = r['case']['opts']
        st = r.get('stats') or {}
        for key in ('rule:' + o['rule'], 'exc:%s' % o['exc'], 'k:%d' % o['k'], 'orf_assignment:' + o['orf_assignment'],
                    'coding_novel_orf:%s' % o['coding_novel_orf'], 'w2f:%s' % o['w2f'],
                    'inclusion:%s' % ('given' if o['inclusion'] is not None else 'absent'),
                    'exclusion:%s' % ('given' if o['exclusion'] is not None else 'default'),
                    'min_tx_length:%s' % (o['min_tx_length'] if o['min_tx_length'] in (1, 21, 60, 120, 150, 200) else 'at-a-transcript-length')):
            dist[key] = dist.get(key, 0) + 1
        if st:
            dist['coding_tx_present_and_flag_off'] = dist.get('coding_tx_present_and_flag_off', 0) + (1 if st.get('d5_trigger') else 0)
            dist['selected_tx=%s' % min(st['n_sel'], 5)] = dist.get('selected_tx=%s' % min(st['n_sel'], 5), 0) + 1
            slack_low += st['slack_low']; slack_high += st['slack_high']
            tot_out += st['n_pep']; tot_must += st['n_must']; tot_may += st['n_may']
            if st['n_must'] > 0 and st['n_listed'] > 0:
                nontriv.add(json.dumps(r['case'], sort_keys=True))
        if r.get('skip'):
            dist['skipped'] = dist.get('skipped', 0) + 1
    v = violations_of(results)
    return dict(evaluations=len(cases), distinct_nontrivial=len(nontriv),
                rule='generated reference worlds (1-2 chromosomes, both strands, 1-6 exons, coding + non-coding biotypes, '
                     'cds_start_NF/mRNA_end_NF, K/R/P/M/W-biased CDS) x 35 cleavage rules (trypsin 45%, explicit exception or none) '
                     'x miscleavage 0-2 x limits x orf-assignment x w2f x coding-novel-orf x inclusion/exclusion lists x min-tx-length, '
                     'through call_novel_orf_peptide(args) with the Namespace from the real sub-parser; non-trivial = at least one '
                     'ORF listed and a non-empty obliged (MUST) peptide set; distinct by full case',
                samples=[dict(opts=c['opts'], n_genes=len(c['world']['genes'])) for c in cases[:3]],
                distribution=dist, failures=sum(1 for r in results if r['probs']),
                streams={'random_worlds+option_corners': len(cases) - len(seeded) - len(posc), 'canonical_collision': len(seeded),
                         'atg_stop_position_classes': len(posc)},
                genome_case=_hist(['upper' if not c.get('genome_case') else ('all_lower' if c['genome_case'].get('all') else 'soft_masked_stretches') for c in cases]),
                position_classes=_hist([k for c in posc for k in c.get('pos_classes', [])]),
                canonical_collision_stream=collide,
                bracket_slack={'output_minus_MUST': slack_low, 'MAY_minus_output': slack_high, 'total_output': tot_out,
                               'total_MUST': tot_must, 'total_MAY': tot_may},
                corpus=[f for f, _ in corp], violations=v, engine_tied_by='correspondence',
                assumptions=['DNA over A/C/G/T (a codon outside the standard table would be X)',
                             'mass thresholds are placed off the 1e-4 grid so the float comparison cannot differ from the exact one',
                             'ADOPTED CONVENTION (tool rule, logged in docs/C08.md): digestion of a novel ORF includes the N-terminal-Met-removed '
                             'form of every product that starts at the ORF start, as for canonical proteins (C10); these forms are OBLIGED',
                             'the in-frame reading of the cleavage context and W>F images of canonical products are conventions the property '
                             'text is silent about: they are in MAY only',
                             'the ORF FASTA is compared with the listing of EVERY ATG-initiated ORF of every processed transcript '
                             '(the tool also lists ORFs no surviving peptide is attributed to; attributed ORFs must be listed)'],
                trusted_base=['harness/lib/gen_reference.py (world generator and its own codon table, used for the independent ORF check)',
                              'harness/translate/novelorf.py (defaults + shape of the coding branch read with ast)',
                              'glue coq/Extract/Api_C08.v'])

def search_failing_input(ctx, broken):
    """A theorem of Props/C08.v no longer checks (typically code_selects_by_rule / cfg_wellformed after the source of
    call_novel_orf.py changed): look for a concrete input on which the implementation violates the statement."""
    names = R.rule_names()
    cases = [c for _, c in corpus_cases()]
    for _ in range(40):
        c = gen_case(ctx.rng, names)
        c['opts'].update({'coding_novel_orf': False, 'rule': 'trypsin', 'exc': None, 'w2f': False})
        cases.append(c)
    rs = evaluate(ctx, cases, tag='c08o')
    for r in rs:
        if r['probs']:
            small = r['case']
            try:
                small = shrink(ctx, r['case'], lambda x: True)
            except Exception:
                pass
            rr = evaluate(ctx, [small], tag='c08o')[0]
            if not rr['probs']:
                rr = r
            return {'kind': 'case', 'case': rr['case'], 'problems': rr['probs'], 'what': '; '.join(rr['probs'])[:300],
                    'theorem': broken.get('theorem')}
    return None

def replay(ctx, obj):
    c = obj['case']
    rs = evaluate(ctx, [c], tag='c08r')
    v = violations_of(rs)
    return dict(violations=v)
