"""C18 correspondence: Split.v (extracted) vs the repo's real split_fasta / summarize_fasta / merge_fasta /
encode_fasta CLI functions.

Per case: a generated reference world (real generateIndex), up to three FASTAs (variant / novel ORF /
alt-translation) with multi-entry headers of every label kind, small GVF files giving every variant id a
source, and an option grid (order incl. combinations and wildcards, groups, max groups, additional split).
  (a) model vs implementation: databases as sets of (key, sequence, sorted entries); error classes;
      summary rows; merged pools; encoded headers + dictionary (ids taken from the run);
  (b) the property's own statement on the implementation's output, from the generator's ground truth:
      partition (every sequence in exactly one database, unchanged), entries preserved as a multiset,
      database = best source set (cases without wildcards), entries ordered by priority, summary totals add
      up, summary agrees with the split sizes, decode(dict, encoded) = original;
No finding signatures. The three former findings (incl. summary exclusive row, /repo 934a3a9) are regressions; the two former findings (wildcard expansion, summary last-GVF-wins) are fixed in /repo
and kept as corpus regressions (see docs/C18.md).
"""
import json, os, glob, copy, itertools
from harness.lib import oracle as O, impl as I, rules as R, gen_reference as G, gen_headers as H

PROPERTY = 'C18'
ROOT = os.path.dirname(os.path.dirname(os.path.dirname(os.path.abspath(__file__))))
ERR = {1: 'ValueError', 2: 'IndexError', 3: 'KeyError', 4: 'TypeError', 5: 'VariantSourceNotFoundError', 6: 'Fuel'}
INTERNAL = ['NovelORF', 'SECT', 'CodonReassign']

# ------------------------------------------------------------------ generation
def gen_world(rng):
    for _ in range(20):
        w = G.gen_world(rng, n_chrom=1, max_genes=3, coding_p=0.6, small=True, sec_p=0.0, nf_p=0.0)
        if len(H.world_txs(w)) >= 2:
            return w
    return w

def var_class(v):
    t = v.split('-')[0].split('_')[0]
    if t in ('SNV',):
        return 'snv'
    if t in ('INDEL', 'MNV'):
        return 'indel'
    if t == 'RES':
        return 'res'
    if t in H.SPLICE_TYPES:
        return 'splice'
    if t == 'FUSION':
        return 'fusion'
    if t in ('CIRC', 'CI'):
        return 'circ'
    return None      # W2F / SECT: internal sources

def gen_case(rng, world, stream):
    txs = H.world_txs(world)
    tx2gene = {t: g for t, g, _ in txs}
    enzyme = 'trypsin'
    n = rng.randint(2, 9)
    seqs = []
    while len(seqs) < n:
        s = R.gen_protein(rng, enzyme, rng.randint(6, 25))
        if s not in seqs:
            seqs.append(s)
    files = {'variant': [], 'novel': None, 'alt': None}
    if rng.random() < 0.5:
        files['novel'] = []
    if rng.random() < 0.35:
        files['alt'] = []
    entries_all = []
    for s in seqs:
        ents = H.gen_header(rng, txs, orf_order='emitted' if stream != 'orf_first' else 'mixed',
                            kinds=['base', 'base', 'base', 'base_orf', 'circ', 'fusion'])
        files['variant'].append(dict(seq=s, entries=ents))
        entries_all += ents
        if files['novel'] is not None and rng.random() < 0.25:
            # the same sequence in a later FASTA with an entry textually related to one already held
            ents2 = [H.near_duplicate(rng, rng.choice(ents))]
            files['novel'].append(dict(seq=s, entries=ents2)); entries_all += ents2
        elif files['novel'] is not None and rng.random() < 0.4:
            ents2 = H.gen_header(rng, txs, n=rng.choice([1, 1, 2]), kinds=['novel'])
            files['novel'].append(dict(seq=s, entries=ents2)); entries_all += ents2
        if files['alt'] is not None and rng.random() < 0.4:
            ents3 = H.gen_header(rng, txs, n=1, kinds=['alt'])
            files['alt'].append(dict(seq=s, entries=ents3)); entries_all += ents3
    for key in ('novel', 'alt'):
        if files[key] is not None:
            for _ in range(rng.randint(0, 2)):
                s = R.gen_protein(rng, enzyme, rng.randint(6, 25))
                if s in seqs:
                    continue
                seqs.append(s)
                ents = H.gen_header(rng, txs, n=1, kinds=['novel' if key == 'novel' else 'alt'])
                files[key].append(dict(seq=s, entries=ents)); entries_all += ents
    if stream == 'wild_all':
        # only SNV / alt-translation / ORF entries: after grouping there are 2-3 known sources in all
        files = {'variant': [], 'novel': None, 'alt': None}
        entries_all = []
        for sq in seqs:
            ents = H.gen_header(rng, txs, kinds=['base', 'base_orf', 'base_orf', 'alt', 'novel'], var_kinds=['SNV'],
                                allow_alt=True)
            files['variant'].append(dict(seq=sq, entries=ents)); entries_all += ents
    # GVF source assignment
    names = {'snv': rng.choice(['gSNP', 'sSNV']), 'indel': rng.choice(['gINDEL', 'sINDEL']), 'res': 'RNAEdit',
             'splice': 'rMATS', 'fusion': 'Fusion', 'circ': 'circRNA'}
    if rng.random() < 0.3:
        names['indel'] = names['snv']           # one VEP GVF for both
    parsers = {'snv': 'parseVEP', 'indel': 'parseVEP', 'res': 'parseREDItools', 'splice': 'parseRMATS',
               'fusion': 'parseSTARFusion', 'circ': 'parseCIRCexplorer'}
    gvfs = {}
    for e in entries_all:
        for gene, v in e['vars']:
            cl = var_class(v)
            if cl is None:
                continue
            src = names[cl]
            g = gvfs.setdefault(src, dict(source=src, parser=parsers[cl], records=[]))
            tx = e['txs'][0]
            if [gene, v, tx] not in g['records']:
                g['records'].append([gene, v, tx])
    gvf_list = list(gvfs.values())
    rng.shuffle(gvf_list)
    if gvf_list and rng.random() < 0.2:
        # the same variant id also listed by a later GVF: the first GVF wins
        g0 = rng.choice(gvf_list)
        if g0['records'] and g0['parser'] != 'parseCIRCexplorer':
            extra = dict(source='Other', parser='parseVEP', records=[list(rng.choice(g0['records']))])
            gvf_list.append(extra)
    srcs = [g['source'] for g in gvf_list]
    c = dict(kind='both', stream=stream, world=world, enzyme=enzyme, files=files, gvfs=gvf_list)
    # groups
    group = {}
    if rng.random() < 0.35 and len(srcs) >= 2:
        members = rng.sample(srcs, 2)
        for m in members:
            group[m] = 'Grp'
    if rng.random() < 0.15:
        group[rng.choice(INTERNAL)] = rng.choice(['Grp', 'Alt'])
    if stream == 'wild_all':
        group = {}
        alt = rng.choice(['Alt', 'Alt', 'NovelORF'])
        for m in INTERNAL:
            if rng.random() < 0.8:
                group[m] = alt
        if rng.random() < 0.7:
            for sname in srcs:
                group[sname] = 'Variant'
    c['group'] = group
    eff = []
    for s in srcs + INTERNAL:
        g = group.get(s, s)
        if g not in eff:
            eff.append(g)
    # order
    r = rng.random()
    order = None
    if r < 0.7:
        k = rng.randint(1, len(eff))
        order = rng.sample(eff, k)
        if rng.random() < 0.35 and len(eff) >= 2:
            a, b = rng.sample(eff, 2)
            order.insert(rng.randint(0, len(order)), a + '-' + b)
        if stream == 'wild_all' and eff:
            w = rng.choice(['+', '*', '*'])
            order = [x for x in order if rng.random() < 0.5]
            order.insert(rng.randint(0, len(order)), rng.choice(eff) + '-' + w)
        if stream == 'wild' and eff:
            w = rng.choice(['+', '*'])
            a = rng.choice(eff)
            order.insert(rng.randint(0, len(order)), rng.choice([a + '-' + w, w if w == '*' else a + '-' + w]))
    c['order'] = order
    c['max_groups'] = rng.choice([1, 1, 2, 3, 8])
    add = None
    if rng.random() < 0.4 and len(eff) >= 2:
        add = []
        for _ in range(rng.randint(1, 2)):
            k = rng.choice([1, 2, 2])
            add.append('-'.join(rng.sample(eff, min(k, len(eff)))))
    c['additional'] = add
    c['ignore_missing_source'] = rng.random() < 0.2
    if stream == 'malformed':
        m = rng.choice(['no_source', 'unknown_tx', 'bad_additional', 'both_wild', 'ungrouped_order'])
        c['malformed'] = m
        if m == 'no_source' and gvf_list:
            g = rng.choice(gvf_list)
            if g['records']:
                g['records'].pop(rng.randrange(len(g['records'])))
        elif m == 'unknown_tx':
            files['variant'][0]['entries'].append(dict(text='ENST99999999999.1|SNV-5-A-T|1', kind='base', txs=['ENST99999999999.1'],
                                                       gene=None, vars=[], splice=False, orf=None, emitted_form=True))
        elif m == 'bad_additional':
            c['additional'] = ['Nope']
        elif m == 'both_wild':
            c['order'] = (order or []) + [eff[0] + '-+-*']
        elif m == 'ungrouped_order' and group:
            c['order'] = [k for k in group][:1] + [x for x in (order or []) if x not in group.values()]
    return c

def to_impl(c):
    d = dict(kind=c['kind'], world=c['world'], enzyme=c['enzyme'], gvfs=c['gvfs'], max_groups=c['max_groups'],
             ignore_missing_source=c['ignore_missing_source'])
    for key in ('variant', 'novel', 'alt'):
        f = c['files'][key]
        d[key] = None if f is None else [[' '.join(e['text'] for e in p['entries']), p['seq']] for p in f]
    d['order_source'] = ','.join(c['order']) if c['order'] else None
    if c['group']:
        inv = {}
        for k, v in c['group'].items():
            inv.setdefault(v, []).append(k)
        d['group_source'] = ['%s:%s' % (g, ','.join(ms)) for g, ms in inv.items()]
    else:
        d['group_source'] = None
    d['additional_split'] = c['additional']
    return d

# ------------------------------------------------------------------ model side
def order_keys(c):
    out = []
    for val in (c['order'] or []):
        if '-' in val:
            out.append([1, sorted(set(val.split('-')))])
        else:
            out.append([0, val])
    return out

def files_of(c):
    fs = []
    for key in ('variant', 'novel', 'alt'):
        f = c['files'][key]
        if f is not None:
            fs.append([[p['seq'], ' '.join(e['text'] for e in p['entries'])] for p in f])
    return fs

def oracle_args(c):
    txs = H.world_txs(c['world'])
    labels = []
    for g in c['gvfs']:
        for gene, v, tx in g['records']:
            labels.append([gene, v, g['source']])
    group = [[k, v] for k, v in c['group'].items()]
    add = [sorted(set(a.split('-'))) for a in (c['additional'] or [])]
    return [order_keys(c), group, [g['source'] for g in c['gvfs']], [[t, g] for t, g, _ in txs], labels,
            c['max_groups'], add, files_of(c)]

def model_split(m):
    """-> {'error': [...]} or {'dbs': {key: {seq: sorted entries}}, 'ranks': {seq: [(label, rank)]}}"""
    if m[0] == 1:
        return {'error': [ERR[m[1]]]}
    errs = sorted(set(ERR[r[1]] for r in m[1] if r[0] == 1))
    if errs:
        return {'error': errs}
    dbs, ranks = {}, {}
    for r in m[1]:
        key, s, lz = O.U(r[1]), O.U(r[2]), r[3]
        labels = [O.U(x[0]) for x in lz]
        dbs.setdefault(key, {})[s] = sorted(labels)
        ranks[s] = [(O.U(x[0]), x[1]) for x in lz]
    return {'dbs': dbs, 'ranks': ranks}

def impl_split(r):
    if isinstance(r, dict) and '__exc__' in r:
        return {'error': [r['__exc__']]}
    dbs, order = {}, {}
    for key, recs in r.items():
        for h, s in recs:
            dbs.setdefault(key, {})[s] = sorted(h.split(' '))
            order[s] = h.split(' ')
    return {'dbs': dbs, 'order': order, 'raw': r}

def agree_err(a, b):
    return 'error' in a and 'error' in b and bool(set(a['error']) & set(b['error']))

# ------------------------------------------------------------------ the statement, from ground truth
def merged_truth(c):
    """{seq: [entry dicts]} : union over the input files"""
    out = {}
    for key in ('variant', 'novel', 'alt'):
        f = c['files'][key]
        if f is None:
            continue
        seen = set()
        for p in f:
            if p['seq'] in seen:
                continue
            seen.add(p['seq'])
            out.setdefault(p['seq'], [])
            out[p['seq']] += p['entries']
    return out

def fields_multiset(t):
    return sorted(t.split('|'))

def entry_sources(c, e):
    """source set of one entry from the generator's ground truth (None: not determined)"""
    first = {}
    for g in c['gvfs']:
        for gene, v, tx in g['records']:
            first.setdefault((gene, v), g['source'])
    S = set()
    if e['orf']:
        S.add(c['group'].get('NovelORF', 'NovelORF'))
    for gene, v in e['vars']:
        t = v.split('-')[0]
        if t == 'SECT':
            S.add(c['group'].get('SECT', 'SECT'))
        elif t == 'W2F':
            S.add(c['group'].get('CodonReassign', 'CodonReassign'))
        else:
            if (gene, v) not in first:
                return None
            s = first[(gene, v)]
            S.add(c['group'].get(s, s))
    return frozenset(S)

def plain_levels(c):
    """the order as the documentation describes it: listed names first, then GVF sources in file order,
    then the internal sources; None when a key holds both wildcards"""
    lv = {}
    for val in (c['order'] or []):
        if '+' in val.split('-') and '*' in val.split('-'):
            return None
        key = frozenset(val.split('-')) if '-' in val else val
        lv[key] = len(lv)
    def app(s):
        if s in lv:
            return
        s = c['group'].get(s, s)
        if s in lv:
            return
        lv[s] = (max(lv.values()) + 1) if lv else 0
    for g in c['gvfs']:
        app(g['source'])
    for s in INTERNAL:
        app(s)
    return lv

def rank(lv, S):
    if S in lv:
        return (1, [lv[S]])
    if len(S) == 1 and not any(isinstance(k, frozenset) and k == S for k in lv) and list(S)[0] in lv:
        return (1, [lv[list(S)[0]]])
    z = sorted(lv[x] for x in S)
    return (len(z), z)

def spec_wild(lv, S):
    """--order-source help text: "SNV-*" matches every peptide with SNV with or without other sources,
    "SNV-+" every peptide with SNV and at least one other source; first key in the order wins"""
    for k in sorted(lv, key=lambda k: lv[k]):
        ks = set(k) if isinstance(k, frozenset) else {k}
        wild = ks & {'+', '*'}
        if not wild:
            if ks == set(S):
                return frozenset(ks)
            continue
        base = ks - wild
        extra = set(S) - base
        if base <= set(S) and len(extra) >= (0 if '*' in ks else 1):
            return frozenset(ks)
    return S

def dup_variant(c):
    """a (gene, variant id) named by two GVF files with different sources"""
    seen = {}
    for g in c['gvfs']:
        for gene, v, tx in g['records']:
            if seen.setdefault((gene, v), g['source']) != g['source']:
                return True
    return False

EXCLUSIVE_PARSERS = {'parseSTARFusion', 'parseFusionCatcher', 'parseArriba', 'parseCIRCexplorer', 'parseRMATS'}

def exclusive_row(c, names):
    """PeptidePoolSummarizer.contains_exclusive_sources for a row: two of its (group) names have only
    mutually exclusive parsers (internal sources inside a group are ignored by the code)"""
    rev = {}
    for k, v in c['group'].items():
        rev.setdefault(v, []).append(k)
    src_parser = {g['source']: g['parser'] for g in c['gvfs']}
    def parsers(s):
        return {src_parser[m] for m in rev.get(s, [s]) if m not in INTERNAL and m in src_parser}
    for a in names:
        pa = parsers(a)
        if not pa:
            continue
        for b in names:
            pb = parsers(b)
            if pb and all(x in EXCLUSIVE_PARSERS for x in pa) and all(y in EXCLUSIVE_PARSERS for y in pb) \
                    and all(x != y for x in pa for y in pb):
                return True
    return False

def has_wild(c):
    return bool(c['order']) and any(('+' in v.split('-') or '*' in v.split('-')) for v in c['order'])

def expected_key(c, lv, S):
    names = [k for k in sorted((k for k in lv if isinstance(k, str)), key=lambda k: lv[k]) if k in S and k not in ('+', '*')]
    if '*' in S:
        names.append('ALL')
    elif '+' in S:
        names.append('PLUS')
    if len(S) <= c['max_groups']:
        return '-'.join(names)
    for a in (c['additional'] or []):
        aset = set(a.split('-'))
        if aset <= S:
            anames = [k for k in sorted((k for k in lv if isinstance(k, str)), key=lambda k: lv[k]) if k in aset]
            return '-'.join(anames) + '-additional'
    return 'Remaining'

def check_split_statement(c, a):
    """returns list of (finding or None, text)"""
    probs = []
    truth = merged_truth(c)
    seen = {}
    for key, recs in a['raw'].items():
        for h, s in recs:
            seen.setdefault(s, []).append((key, h))
    for s in truth:
        if s not in seen:
            probs.append((None, 'peptide %s is in no database' % s))
        elif len(seen[s]) > 1:
            probs.append((None, 'peptide %s is in %d databases' % (s, len(seen[s]))))
    for s in seen:
        if s not in truth:
            probs.append((None, 'database sequence %s is not an input sequence' % s))
    lv = plain_levels(c)
    for s, lst in seen.items():
        if s not in truth:
            continue
        key, h = lst[0]
        out_entries = h.split(' ')
        in_texts = [e['text'] for e in truth[s]]
        if sorted(out_entries) != sorted(in_texts):
            # signature of C18-orf-reorder: only emitted-form circRNA/fusion entries with ORF id + variants differ,
            # and only by the position of the ORF field
            rest_out = list(out_entries)
            bad = False
            reordered = []
            for e in truth[s]:
                if e['text'] in rest_out:
                    rest_out.remove(e['text'])
                    continue
                cands = [t for t in rest_out if fields_multiset(t) == fields_multiset(e['text'])]
                if cands and e['kind'] in ('circ', 'fusion') and e['orf']:
                    rest_out.remove(cands[0])
                    if e['emitted_form']:
                        reordered.append((e['text'], cands[0]))
                else:
                    bad = True
            if bad or rest_out:
                probs.append((None, 'peptide %s: header entries %s, input entries %s' % (s, sorted(out_entries), sorted(in_texts))))
            elif reordered:
                probs.append((None, 'entry %s rewritten as %s' % reordered[0]))
        if lv is not None and not c.get('malformed'):
            srcs = [entry_sources(c, e) for e in truth[s]]
            if all(x is not None for x in srcs) and all(all((y in lv) for y in x) for x in srcs):
                best = min([spec_wild(lv, S) for S in srcs], key=lambda S: rank(lv, S))
                exp = expected_key(c, lv, best)
                if key != exp:
                    probs.append((None, 'peptide %s is in database %s, the best source set %s requires %s' % (s, key, sorted(best), exp)))
    return probs

# ------------------------------------------------------------------ driver
def build_cases(ctx):
    rng = ctx.rng
    n = 1600 if ctx.quick else 20000
    worlds = [gen_world(rng) for _ in range(32 if ctx.quick else 200)]
    cases = []
    for i in range(n):
        st = ['main', 'main', 'wild_all', 'wild', 'main', 'wild', 'orf_first', 'malformed', 'main', 'wild_all'][i % 10]
        cases.append(gen_case(rng, rng.choice(worlds), st))
    # merge / encode
    for i in range(400 if ctx.quick else 5000):
        w = rng.choice(worlds)
        txs = H.world_txs(w)
        files, held = [], {}
        pool = [R.gen_protein(rng, 'trypsin', rng.randint(6, 20)) for _ in range(rng.randint(2, 8))]
        for _ in range(rng.randint(1, 4)):
            recs, used = [], set()
            for _ in range(rng.randint(0, 6)):
                s = rng.choice(pool)
                if s in used and rng.random() < 0.8:
                    continue
                used.add(s)
                ents = H.gen_header(rng, txs, orf_order='emitted')
                prev = held.get(s)
                if prev and rng.random() < 0.5:
                    # an entry textually related to one an earlier file holds for the same sequence
                    ents = [H.near_duplicate(rng, rng.choice(prev))] + ents[:rng.randint(0, 1)]
                held.setdefault(s, [])
                held[s] += ents
                recs.append([' '.join(e['text'] for e in ents), s])
            files.append(recs)
        cases.append(dict(kind='merge', stream='merge', files=files))
    # encode: prefix AND suffix decoy strings of several shapes over headers ending in every character class
    # (digit, letter - also letters of the decoy string -, '_', '|', '-'); every decoy string holds a character
    # outside [0-9a-f-] so that a uuid4 can never carry it (the hypothesis of encode_roundtrip)
    decoys = ['DECOY_', '_DECOY', 'rev_', '_rev', 'REV', '###', 'XXX_', '_X', 'DECOY', 'Y', '_', 'decoy|', '|D']
    for i in range(400 if ctx.quick else 5000):
        w = rng.choice(worlds)
        txs = H.world_txs(w)
        decoy = rng.choice(decoys)
        pos = rng.choice(['prefix', 'suffix'])
        recs = []
        def end_variant(h):
            r = rng.random()
            if r < 0.4:
                return h                                     # ends in the peptide index (digit)
            base = h.rsplit('|', 1)[0]                       # no trailing index: ends in a nucleotide / digit
            if r < 0.6:
                return base
            tail = rng.choice(list(decoy) + list('CDEOY_|-Xr') + [decoy[:-1], decoy[1:], decoy + decoy[-1]])
            return base + rng.choice(['', '|']) + tail
        hdrs = [end_variant(' '.join(e['text'] for e in H.gen_header(rng, txs, orf_order='emitted'))) for _ in range(rng.randint(1, 6))]
        hdrs = [h for h in hdrs if h.strip() == h and h] or ['sp|P1|X']
        for _ in range(rng.randint(1, 10)):
            h = rng.choice(hdrs)
            s_ = R.gen_protein(rng, 'trypsin', rng.randint(6, 20))
            if rng.random() < 0.45:
                h = (decoy + h) if pos == 'prefix' else (h + decoy)
            recs.append([h, s_])
        cases.append(dict(kind='encode', stream='encode', fasta=recs, decoy_string=decoy, decoy_string_position=pos))
    return cases

def load_corpus():
    out = []
    for f in sorted(glob.glob(os.path.join(ROOT, 'corpus', PROPERTY, '*.json'))):
        try:
            obj = json.load(open(f))
            if 'case' in obj:
                c = obj['case']; c['corpus'] = os.path.basename(f)
                out.append(c)
        except Exception:
            pass
    return out

def drop_explosions(cases):
    """create_wildcard_map enumerates all subsets of self.sources (polluted with the single characters of the
    names given in --order-source on the unchanged tree): cases with more than 14 such sources are not run"""
    reqs = [('c18_order', oracle_args(c)) for c in cases if c['kind'] == 'both' and has_wild(c)]
    res = iter(O.call_parallel(reqs, jobs=8))
    keep, dropped = [], 0
    for c in cases:
        if c['kind'] == 'both' and has_wild(c):
            lv, allsrc = next(res)
            if len(allsrc) > 14:
                dropped += 1
                continue
        keep.append(c)
    return keep, dropped

def evaluate(ctx, cases):
    impl_in = []
    for c in cases:
        impl_in.append(to_impl(c) if c['kind'] in ('both', 'split', 'summarize') else c)
    impl = I.run_cases('c18', impl_in, jobs=ctx.jobs, tag='c18')
    reqs, idx = [], []
    for i, c in enumerate(cases):
        if c['kind'] in ('both', 'split', 'summarize'):
            args = oracle_args(c)
            idx.append((i, 'split', len(reqs))); reqs.append(('c18_split', args))
            idx.append((i, 'summary', len(reqs))); reqs.append(('c18_summary', args))
        elif c['kind'] == 'merge':
            fs = [[[s, h] for h, s in f] for f in c['files']]
            idx.append((i, 'merge', len(reqs))); reqs.append(('c18_merge', fs))
    model = O.call_parallel(reqs, jobs=8)
    mres = {}
    for i, what, k in idx:
        mres[(i, what)] = model[k]
    # cleavage sites for the miscleavage columns of the summary
    seqs = sorted(set(p['seq'] for c in cases if c['kind'] == 'both' for f in c['files'].values() if f for p in f))
    sres = O.call_parallel([('sites', ['trypsin', 'trypsin_exception', s]) for s in seqs], jobs=8)
    nsites = {s: len(r) for s, r in zip(seqs, sres)}
    viol = []
    st = dict(dist={}, nontrivial=set(), findings={}, disagreements=0, split_errors=0, db_counts={}, n_peptides=0,
              multi_db_cases=0, summary_checked=0, match_checked=0, wild_mapped=0)
    def add(c, fid, what, extra=None, no_input=False):
        v = {'what': what, 'replay_obj': {'kind': 'case', 'case': c, 'detail': extra}, 'no_input': no_input}
        if no_input:
            v['replay_obj'] = {'kind': 'correspondence', 'name': 'corr:C18/%s' % c['kind'], 'example': c, 'detail': extra}
        if fid:
            v['finding'] = fid
            st['findings'][fid] = st['findings'].get(fid, 0) + 1
        viol.append(v)
    enc_reqs, enc_idx = [], []
    for i, (c, r) in enumerate(zip(cases, impl)):
        st['dist'][c['stream']] = st['dist'].get(c['stream'], 0) + 1
        if isinstance(r, dict) and '__exc__' in r and c['kind'] != 'both':
            add(c, None, 'C18 %s: implementation raised %s' % (c['kind'], r['__exc__']), r)
            continue
        if c['kind'] == 'both':
            # ---- split
            a = impl_split(r['split'])
            b = model_split(mres[(i, 'split')])
            probs = []
            if 'error' in a or 'error' in b:
                st['split_errors'] += 1
                if not agree_err(a, b):
                    st['disagreements'] += 1
                    add(c, None, 'C18 split: implementation %s vs model %s' % (json.dumps(a.get('error', 'ok')), json.dumps(b.get('error', 'ok'))),
                        {'impl': {k: v for k, v in a.items() if k != 'raw'}, 'model': b})
            else:
                probs = check_split_statement(c, a)
                same = a['dbs'] == b['dbs']
                if not same:
                    st['disagreements'] += 1
                seen_f = set()
                for fid, text in probs:
                    if fid in seen_f:
                        continue
                    seen_f.add(fid)
                    add(c, fid, 'C18 statement fails on the splitFasta output: ' + text, {'impl': a['dbs']})
                if not same and not probs:
                    add(c, None, 'C18 split: model/implementation disagree (statement holds on this input): impl %s vs model %s' % (
                        json.dumps(a['dbs'])[:200], json.dumps(b['dbs'])[:200]), {'impl': a['dbs'], 'model': b['dbs']}, no_input=True)
                # entries ordered by priority (ranks from the model)
                if same:
                    for s, order in a['order'].items():
                        rk = dict((l, (len(z), z)) for l, z in b['ranks'][s])
                        rs = [rk.get(l) for l in order]
                        if None not in rs and any(rs[j] > rs[j + 1] for j in range(len(rs) - 1)):
                            add(c, None, 'C18 split: entries of %s are not ordered by source priority: %s' % (s, order), {'ranks': b['ranks'][s]})
                n_db = len(a['dbs'])
                st['db_counts'][n_db] = st['db_counts'].get(n_db, 0) + 1
                st['n_peptides'] += sum(len(v) for v in a['dbs'].values())
                if n_db >= 2:
                    st['multi_db_cases'] += 1
                    st['nontrivial'].add(json.dumps([to_impl(c)[k] for k in ('variant', 'novel', 'alt', 'gvfs', 'order_source', 'group_source',
                                                                             'max_groups', 'additional_split')], sort_keys=True))
            # ---- summary
            sm = r['summary']
            ms = mres[(i, 'summary')]
            m_errs = sorted(set(ERR[x[1]] for x in ms if x[0] == 1))
            if isinstance(sm, dict) and '__exc__' in sm:
                if not m_errs or sm['__exc__'] not in m_errs:
                    if not (c['order'] and any(('+' in v.split('-') or '*' in v.split('-')) for v in c['order'])):
                        add(c, None, 'C18 summarize: implementation raised %s, model %s' % (sm['__exc__'], m_errs or 'ok'), sm)
            elif m_errs:
                add(c, None, 'C18 summarize: model raises %s, implementation returns a table' % m_errs, {'table': sm})
            else:
                st['summary_checked'] += 1
                hdr, rows = sm[0], sm[1:]
                table = {row[0]: [int(x) for x in row[1:]] for row in rows}
                exp = {}
                # per-peptide keys in the order of the de-duplicated merged pool
                names = [O.U(x[2]) for x in ms]
                pool_seqs = list(merged_truth(c).keys())
                # model returns peptides in merged-pool order == insertion order of merged_truth
                for name, s in zip(names, pool_seqs):
                    e = exp.setdefault(name, {})
                    e['total'] = e.get('total', 0) + 1
                    k = nsites.get(s, 0)
                    e[k] = e.get(k, 0) + 1
                n_pep = len(pool_seqs)
                tot = sum(v[0] for v in table.values())
                # signature of C18-summary-exclusive-row: every counted key that has no row is one that
                # contains_exclusive_sources() rejects, and the total is short by exactly those peptides
                missing = [n for n in exp if n not in table]
                excl = bool(missing) and all(exclusive_row(c, n.split('-')) for n in missing)
                short = sum(exp[n]['total'] for n in missing)
                if tot != n_pep:
                    add(c, None,
                        'C18 summarize: n_total column adds up to %d, the pool has %d peptides (rows %s, expected keys %s)' % (
                        tot, n_pep, {k: v[0] for k, v in table.items() if v[0]}, {k: v['total'] for k, v in exp.items()}), {'table': sm})
                if tot == n_pep:
                    for name, e in exp.items():
                        if excl and name in missing:
                            continue
                        row = table.get(name)
                        if row is None or row[0] != e['total'] or any(row[1 + k] != e.get(k, 0) for k in range(len(row) - 1)):
                            add(c, None, 'C18 summarize: row %s is %s, expected %s' % (name, row, e), {'table': sm})
                            break
                    for name, row in table.items():
                        if name not in exp and any(row):
                            add(c, None, 'C18 summarize: unexpected non-zero row %s %s' % (name, row), {'table': sm})
                            break
                # summary agrees with split under the precondition: no wildcard key, every chosen set within max groups
                if 'dbs' in a and not (c['order'] and any(('+' in v.split('-') or '*' in v.split('-')) for v in c['order'])):
                    sizes = {k: len(v) for k, v in a['dbs'].items()}
                    if all(not k.endswith('additional') and k != 'Remaining' for k in sizes):
                        st['match_checked'] += 1
                        nz = {k: v[0] for k, v in table.items() if v[0]}
                        nz2 = dict(nz)
                        if excl:
                            for n in missing:
                                nz2[n] = exp[n]['total']
                        if nz != sizes:
                            add(c, None, 'C18: summary totals %s differ from the split database sizes %s' % (nz, sizes), {'table': sm})
        elif c['kind'] == 'merge':
            a = {}
            for h, s in r['merged']:
                a[s] = sorted(h.split(' '))
            b = {}
            for s, h in mres[(i, 'merge')]:
                b[O.U(s)] = sorted(O.U(h).split(' '))
            exp = {}
            for f in c['files']:
                seen = set()
                for h, s in f:
                    if s in seen:
                        continue
                    seen.add(s)
                    exp.setdefault(s, [])
                    exp[s] += h.split(' ')
            exp = {s: sorted(v) for s, v in exp.items()}
            if len(r['merged']) != len(a):
                add(c, None, 'C18 merge: a sequence occurs twice in the merged FASTA', r)
            if a != exp:
                add(c, None, 'C18 merge: merged pool is not the union of sequences with the union of entries: %s vs %s' % (
                    json.dumps(a)[:200], json.dumps(exp)[:200]), {'impl': a, 'expected': exp})
            elif a != b:
                add(c, None, 'C18 merge: model/implementation disagree', {'impl': a, 'model': b}, no_input=True)
            if len(a) >= 2:
                st['nontrivial'].add(json.dumps(c['files']))
        elif c['kind'] == 'encode':
            ids = [x[0] for x in r['dict']]
            enc_idx.append((i, len(enc_reqs)))
            enc_reqs.append(('c18_encode', [c['decoy_string'], c['decoy_string_position'] == 'suffix', [h for h, s in c['fasta']], ids]))
    enc_model = O.call_parallel(enc_reqs, jobs=8)
    dec_reqs, dec_idx = [], []
    for (i, k) in enc_idx:
        c, r = cases[i], impl[i]
        newh, d = enc_model[k]
        a_h = [h for h, s in r['encoded']]
        b_h = [O.U(x) for x in newh]
        a_d = [tuple(x) for x in r['dict']]
        b_d = [(O.U(x[0]), O.U(x[1])) for x in d]
        def add(c, fid, what, extra=None, no_input=False):
            viol.append({'what': what, 'replay_obj': {'kind': 'case', 'case': c, 'detail': extra}, 'no_input': no_input})
        if [s for h, s in r['encoded']] != [s for h, s in c['fasta']]:
            add(c, None, 'C18 encode: sequences changed', r)
        if len(set(x[0] for x in a_d)) != len(a_d):
            add(c, None, 'C18 encode: identifiers are not distinct', r)
        if a_h != b_h or a_d != b_d:
            add(c, None, 'C18 encode: implementation %s / %s vs model %s / %s' % (a_h[:3], a_d[:2], b_h[:3], b_d[:2]), r)
        for (h, s), e in zip(c['fasta'], a_h):
            dec_idx.append((i, h))
            dec_reqs.append(('c18_decode', [c['decoy_string'], c['decoy_string_position'] == 'suffix', [list(x) for x in a_d], e]))
        st['nontrivial'].add(json.dumps(c['fasta']))
    dec = O.call_parallel(dec_reqs, jobs=8)
    bad_dec = set()
    for (i, h), r in zip(dec_idx, dec):
        got = O.U(r[0]) if r else None
        if got != h and i not in bad_dec:
            bad_dec.add(i)
            viol.append({'what': 'C18 encode: the dictionary restores %r, the original header is %r' % (got, h),
                         'replay_obj': {'kind': 'case', 'case': cases[i]}, 'no_input': False})
    return viol, st

def run(ctx):
    corpus = load_corpus()
    cases, dropped = drop_explosions(corpus + build_cases(ctx))
    viol, st = evaluate(ctx, cases)
    st['dist']['wild_not_run_subset_explosion'] = dropped
    out_v, seen = [], {}
    for v in viol:
        fid = v.get('finding')
        if fid:
            seen[fid] = seen.get(fid, 0) + 1
            if seen[fid] > 3:
                continue
        out_v.append(v)
    unl = [v for v in out_v if not v.get('finding')]
    out_v = [v for v in out_v if v.get('finding')] + unl[:10]
    def strip(c):
        c = dict(c); c.pop('world', None); return c
    samples = [strip(cases[len(corpus)]), strip(cases[-201 if len(cases) > 201 else 0]), strip(cases[-1])]
    return dict(evaluations=len(cases), distinct_nontrivial=len(st['nontrivial']),
                rule='split/summarize case = reference world (real generateIndex) + variant/novel-ORF/alt-translation FASTAs (2-11 peptides, '
                     '1-4 entries each, every label kind) + 1-7 GVF files + order (names, combinations, wildcards) + groups + max groups + '
                     'additional split, through split_fasta(args) and summarize_fasta(args); non-trivial = the peptides went to >= 2 databases; '
                     'merge case non-trivial = >= 2 merged sequences; encode cases all count; distinct by full input',
                samples=samples, distribution=st['dist'], databases_per_case=st['db_counts'], peptides_split=st['n_peptides'],
                split_error_cases=st['split_errors'], summary_tables_checked=st['summary_checked'],
                summary_vs_split_checked=st['match_checked'], disagreements=st['disagreements'], findings_hit=st['findings'],
                violations=out_v,
                assumptions=['transcript/gene/source names contain no "-", " ", "|", ","; header fields are ASCII',
                             'order of entries whose source sets are equal is not compared (input-order dependent in the implementation)',
                             'uuid4 identifiers: the model is run with the identifiers the implementation drew; their distinctness is checked per run',
                             'summary rows: non-zero rows, totals and miscleavage columns are compared; WHICH all-zero rows are listed is not'],
                trusted_base=['Biopython FASTA reader/writer', 'harness/lib/gen_headers.py ground truth', 'GVF writer in harness/impl/c18.py',
                              'CLI glue of split_fasta/summarize_fasta (--order-source / --group-source / --additional-split string parsing) re-stated in harness/props/c18.py'])

def replay(ctx, obj):
    c = obj.get('case') or obj.get('example')
    viol, st = evaluate(ctx, [c])
    return dict(violations=viol)


def search_failing_input(ctx, broken):
    """An obligation of Props/C18.v no longer checks (a table or code shape read from the source differs from the
    hand-written reference): look for a concrete failing input -- corpus first, then the streams that reach the
    code shapes the obligations pin (wildcard keys with entries carrying every known source, variant ids named
    by two GVF files, merged near-duplicate entries)."""
    rng = ctx.rng
    cases = load_corpus()
    worlds = [gen_world(rng) for _ in range(6)]
    for i in range(240):
        cases.append(gen_case(rng, rng.choice(worlds), ['wild_all', 'wild', 'main'][i % 3]))
    cases, _ = drop_explosions(cases)
    viol, st = evaluate(ctx, cases)
    for v in viol:
        if not v.get('finding') and not v.get('no_input'):
            obj = dict(v['replay_obj'])
            obj['what'] = v['what']
            return obj
    return None
