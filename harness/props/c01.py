"""C01 correspondence: completeness of callVariant against the proved specification (Model/Spec.v).

  must_set(x)  <=  FASTA sequences          (complexity limits disabled: -1 / -1)
  metamorphic: varying --min-nodes-to-collapse / --naa-to-collapse never changes the set

Streams (all on generated worlds: both strands, 1-6 exons, coding / non-coding, cds_start_NF,
mRNA_end_NF, Sec; 1-7 SNV / MNV / INDEL records clustered at K/R/P codons, start / stop / Sec codons,
exon junctions, each other; records are written in GENE coordinates for every isoform containing them):
  core     exception OFF, trypsin (60 %) + every rule whose alternatives all have look-ahead
  collapse core cases re-run with other collapse knobs (set must be identical)
  excon    trypsin with trypsin_exception        (known finding D14 is classified by its signature)
  nola     rules having an alternative without look-ahead (the engine used to abort on them: fixed db08c8d)
  wide     pepsin (look-behind 2 + look-ahead 2; known finding D14b)
  fusion   1-2 fusion records of one donor (exonic / intronic breakpoints, retained intron pieces with records inside /
           abutting / straddling, all NF tag combinations) + records on both partners: must_fusion_set_g (SpecFusion.v)
  fuscirc  a fusion and a circRNA on the same transcript
  flags    trypsin with --selenocysteine-termination and / or --w2f-reassignment (must_set_fl, SpecAlt.v)
A missing obliged peptide that matches no signature is a VIOLATION with the input as replay.
"""
import json, os, glob, collections
from harness.lib import oracle as O, cvgen as CG, cvcheck as CK
from harness.lib import cvgen_fus as CF
from harness.lib import cvgen2 as CG2, cvcheck2 as CK2      # alternative-splicing / circRNA streams

PROPERTY = 'C01'
ROOT = os.path.dirname(os.path.dirname(os.path.dirname(os.path.abspath(__file__))))

def sizes(ctx):
    if ctx.quick:
        return dict(core=700, excon=260, nola=100, wide=50, flags=90, fusion=110, fuscirc=25, altsplice=150, circ=90)
    return dict(core=17000, excon=6000, nola=1200, wide=800, flags=4000, fusion=4000, fuscirc=600, altsplice=4000, circ=3000)

def gen_cases(ctx):
    rng = ctx.rng
    rc = CK.rule_classes()
    n = sizes(ctx)
    cases = []
    la_other = [r for r in rc['la'] if r != 'trypsin']
    for i in range(n['core']):
        # 8 %: two SNVs on adjacent bases with further alleles / an indel starting on the first base (seeded C05-4)
        c = CG.gen_adjpair_case(rng) if rng.random() < 0.08 else CG.gen_case(rng, coding_p=0.75)
        rule = 'trypsin' if rng.random() < 0.6 else la_other[i % len(la_other)]
        base = CG.gen_run(rng, rule=rule, exc_on=False)
        runs = [base]
        if rng.random() < 0.5:
            alt = dict(base, mnc=rng.choice([2, 5, 30, 100]), naa=rng.choice([1, 3, 5, 8]))
            if (alt['mnc'], alt['naa']) != (base['mnc'], base['naa']):
                runs.append(alt)
        c['runs'] = runs
        c['stream'] = 'core'
        cases.append(c)
    for i in range(n['excon']):
        c = CG.gen_case(rng, coding_p=0.8)
        c['runs'] = [CG.gen_run(rng, rule='trypsin', exc_on=True)]
        c['stream'] = 'excon'
        cases.append(c)
    for i in range(n['nola']):
        c = CG.gen_case(rng, coding_p=0.75)
        c['runs'] = [CG.gen_run(rng, rule=rc['nola'][i % len(rc['nola'])], exc_on=False)]
        c['stream'] = 'nola'
        cases.append(c)
    for i in range(n['wide']):
        c = CG.gen_case(rng, coding_p=0.75)
        c['runs'] = [CG.gen_run(rng, rule=rc['wide'][i % len(rc['wide'])], exc_on=False)]
        c['stream'] = 'wide'
        cases.append(c)
    # alt-translation flags (Model/SpecAlt.v)
    for i in range(n.get('flags', 0)):
        sect, w2f = rng.choice([(True, False), (False, True), (True, True)])
        # with the Sec flag on, 40 % of the cases carry two Sec codons in one uncleaved stretch + an in-frame indel
        c = CG.gen_twosec_case(rng) if (sect and rng.random() < 0.4) else CG.gen_case(rng, coding_p=0.85)
        c['runs'] = [CG.gen_run(rng, rule='trypsin', exc_on=False, sect=sect, w2f=w2f)]
        if w2f and CK.max_w_run(c, c['runs'][0], c['runs'][0]['max_len']) > 6:
            c['runs'][0].update(w2f=False, extra=[e for e in c['runs'][0]['extra'] if e != '--w2f-reassignment'])   # 2^w images: keep w <= 6
            if not c['runs'][0]['sect']:
                c['runs'][0].update(sect=True, extra=['--selenocysteine-termination'])
        c['stream'] = 'flags'
        cases.append(c)
    # fusion transcripts: must_fusion_set (Model/SpecFusion.v) must be in the FASTA as well
    for i in range(n.get('fusion', 0)):
        c = CF.gen_fusion_case2(rng)
        c['runs'] = [dict(CG.gen_run(rng, rule='trypsin', exc_on=False), fusion_must=True)]
        c['stream'] = 'fusion'
        cases.append(c)
    # a fusion and a circRNA on the same transcript (the callers share one record series per transcript)
    for i in range(n.get('fuscirc', 0)):
        c = CF.gen_fusion_circ_case(rng)
        c['runs'] = [dict(CG.gen_run(rng, rule='trypsin', exc_on=False), fusion_must=True, circ_must=True)]
        c['stream'] = 'fuscirc'
        cases.append(c)
    cases += altsplice_cases(ctx, n.get('altsplice', 0))
    cases += circ_cases(ctx, n.get('circ', 0))
    return cases

def corpus_cases():
    out = []
    for f in sorted(glob.glob(os.path.join(ROOT, 'corpus', 'C01', '*.json'))):
        o = json.load(open(f))
        c = o['case']
        c['stream'] = 'corpus:' + os.path.basename(f)
        c['repeat'] = o.get('repeat', 1)
        if o.get('expect'):
            c['expect'] = o['expect']       # positive regression: these peptides must be in the FASTA
        out.append(c)
    return out

def judge(evs, violations, stats, reps=None):
    """C01 verdicts for a list of evaluations (one per (case, run))"""
    by_case = collections.defaultdict(list)
    for ev in evs:
        by_case[ev.ci].append(ev)
        st = ev.case.get('stream', '?').split(':')[0]
        stats['runs:' + st] += 1
        if ev.exc and CK.is_fusion_align_crash(ev):
            stats['fusion_align_crash'] += 1
            violations.append({'what': 'callVariant aborts while fitting the fusion graph into codons (IndexError in align_variants): nothing is reported',
                               'replay_obj': CK.replay_obj(ev, 'crash'), 'no_input': False, 'finding': CK.F_FUSALIGN})
            continue
        if ev.exc and CK.is_nola_crash(ev):
            stats['nola_crash'] += 1
            violations.append({'what': 'callVariant aborts in create_cleavage_graph (IndexError in move_downstreams, rule %s): nothing is reported' % ev.run['rule'],
                               'replay_obj': CK.replay_obj(ev, 'crash'), 'no_input': False, 'finding': CK.F_NOLACRASH})
            continue
        if ev.exc and CK.is_fusion_crash(ev):
            stats['fusion_crash'] += 1
            violations.append({'what': 'callVariant aborts while building the fusion graph (ValueError in expand_alignments): nothing is reported',
                               'replay_obj': CK.replay_obj(ev, 'crash'), 'no_input': False, 'finding': CK.F_FUSCRASH})
            continue
        if ev.exc:
            violations.append({'what': 'callVariant aborted with %s: nothing is reported (%s; rule %s)' % (
                                   ev.exc['__exc__'], ev.exc.get('msg', '')[:120], ev.run['rule']),
                               'replay_obj': CK.replay_obj(ev, 'crash'), 'no_input': False})
            continue
        lost = [p for p in ev.case.get('expect', []) if p not in ev.got]
        if lost:
            violations.append({'what': 'regression case %s: peptide(s) %s that the unchanged tool reports are no longer in the FASTA' % (
                                   ev.case.get('stream'), lost),
                               'replay_obj': dict(CK.replay_obj(ev, 'regress'), expect=ev.case['expect']), 'no_input': False})
        stats['must_peptides'] += len(ev.must)
        stats['out_peptides'] += len(ev.got)
        stats['slack_out_minus_must'] += len(set(ev.got) - ev.must)
        stats['slack_may_minus_out'] += len(ev.may_novel - set(ev.got))
        if ev.must:
            stats['nontrivial'] += 1
        groups = collections.defaultdict(list)
        for p, tag in ev.missing.items():
            groups[tag].append(p)
        for tag, ps in groups.items():
            stats['missing:%s' % (tag or 'UNEXPLAINED')] += len(ps)
            v = {'what': 'obliged peptide(s) %s not in the callVariant FASTA (%s, rule %s, exception %s, k=%d)' % (
                     sorted(ps)[:4], ev.case.get('stream'), ev.run['rule'], ev.run['exc'], ev.run['k']),
                 'replay_obj': CK.replay_obj(ev, 'missing', {'missing': sorted(ps)}), 'no_input': False}
            if tag:
                v['finding'] = tag
            violations.append(v)
    # metamorphic: collapse knobs
    for ci, es in by_case.items():
        if len(es) < 2 or any(e.exc for e in es) or es[0].case.get('stream') != 'core':
            continue
        a, b = es[0], es[1]
        stats['collapse_pairs'] += 1
        diff = set(a.got) ^ set(b.got)
        if not diff:
            continue
        unexplained = []
        for p in diff:
            tag = a.missing.get(p) or b.missing.get(p) or explain_diff(a, p)
            if not tag:
                unexplained.append(p)
        if unexplained:
            violations.append({'what': 'collapse knobs change the peptide set: %s differ between (mnc=%d,naa=%d) and (mnc=%d,naa=%d)' % (
                                   sorted(unexplained)[:4], a.run['mnc'], a.run['naa'], b.run['mnc'], b.run['naa']),
                               'replay_obj': {'kind': 'case', 'what': 'collapse', 'case': dict(CK.strip_case(a.case), runs=[a.run, b.run])},
                               'no_input': False})
        else:
            stats['collapse_diff_known'] += 1

def explain_diff(ev, p):
    """a peptide that appears in only one of two runs of the same input and is not obliged: is it one of
    the order / knob dependent products of a known finding?"""
    from harness.lib import cvsig as SG
    exc_on = ev.run['exc'] != 'None'
    for tx_id, x in ev.xs.items():
        recs = ev.recs[tx_id]
        ws = SG.decode_wits(O.call('cv_may_witnesses', [x, p]), recs)
        ce = CK._cds_end(ev.case, tx_id)
        if ws and any(SG.stoploss_witness(w, ce) for w in ws):
            return CK.F_STOPLOSS
        if ws and not CK.run_flags(ev.run) and SG.explained_by_softsite_missing(x, ws, recs):
            return CK.F_PEPSIN
        if not ws:
            # not a product at all under the exact semantics: produced by a relaxed reading of the sites?
            if exc_on and O.call('cv_realizable_relaxed', [x, [p]])[0]:
                return CK.F_D14
            if not CK.run_flags(ev.run) and O.call('cv_realizable_relaxed2', [x, [p]])[0]:
                return CK.F_PEPSIN
    return None

def run(ctx):
    stats = collections.Counter()
    violations = []
    corp = corpus_cases()
    if corp:
        rep = []
        for c in corp:
            rep += [c] * c.get('repeat', 1)
        judge(CK2.run_batch(ctx, rep, tag='c01c'), violations, stats)
        # the same finding hit several times by the repeats of one corpus case counts once
        seen = set(); uniq = []
        for v in violations:
            k = (v.get('finding'), json.dumps(v['replay_obj'], sort_keys=True))
            if k not in seen:
                seen.add(k); uniq.append(v)
        violations = uniq
    cases = gen_cases(ctx)
    stream_wall = CK2.run_streams(ctx, cases, judge, violations, stats, want_may=True, tag='c01')
    # one representative per (finding, stream) is enough for known findings; all unexplained are kept
    keep, cnt = [], collections.Counter()
    for v in violations:
        if v.get('finding'):
            cnt[v['finding']] += 1
            if cnt[v['finding']] > 40:
                continue
        keep.append(v)
    CK.annotate_stability(ctx, [v for v in keep if not CK2.is_ext(v.get('replay_obj', {}).get('case', {}))], judge, want_may=True)
    samples = [dict(CK.strip_case(c), world='<omitted>') for c in cases[:3]]
    return dict(evaluations=sum(v for k, v in stats.items() if k.startswith('runs:')),
                distinct_nontrivial=stats['nontrivial'],
                rule='one evaluation = one callVariant run on a generated world + GVF compared with must_set of every '
                     'transcript carrying records; non-trivial = the obliged set of that run is non-empty',
                samples=samples, distribution=CK.dist_of(cases), distribution_ext=CK2.dist_of([c for c in cases if CK2.is_ext(c)]), stats=dict(stats),
                slack={'out_minus_must': stats['slack_out_minus_must'], 'may_novel_minus_out': stats['slack_may_minus_out'],
                       'out_peptides': stats['out_peptides'], 'must_peptides': stats['must_peptides']},
                known_finding_counts=dict(cnt), engine_tied_by='correspondence', stream_wall_s=stream_wall,
                violations=keep,
                assumptions=['records are SNV / MNV / INDEL on linear transcripts, fusions with exonic breakpoints, alternative-splicing <DEL>/<INS>/<SUB> records whose donor segments carry no small records (stream altsplice: must_as_set, exactly one AS record per obliged haplotype) and circRNA records (stream circ: must_circ_set); fusion with intronic breakpoints, AS donor records, AS combined with fusion / circRNA are not obliged (property partial for them)',
                             'gene -> transcript coordinates are computed by the generator\'s own ground truth (harness/lib/gen_reference.py), not by the repo',
                             'mass thresholds are placed off the 1e-4 grid so float rounding cannot matter',
                             'worlds whose Sec codon spans an exon junction are not generated (the shared generator would annotate them wrongly)',
                             '<= 7 records per cluster (the oracle enumerates 2^n haplotypes)'],
                trusted_base=['glue coq/Extract/Api_Spec.v (decoding of protocol values, canonical pool via the C10 model)',
                              'case generators harness/lib/cvgen.py, cvgen2.py and signature predicates harness/lib/cvsig.py, cvsig2.py', 'glue coq/Extract/Api_SpecAS.v, Api_SpecCirc.v'])

def replay(ctx, obj):
    c = obj['case']
    c['stream'] = 'core' if obj.get('what') == 'collapse' else obj.get('what', 'replay')
    if obj.get('expect'):
        c['expect'] = obj['expect']
    n = int(obj.get('repeat', 4))      # the engine is order dependent on some inputs: repeat
    stats = collections.Counter(); violations = []
    judge(CK2.run_batch(ctx, [json.loads(json.dumps(c)) for _ in range(n)], tag='c01r'), violations, stats)
    seen = set(); out = []
    for v in violations:
        k = (v.get('finding'), v['what'])
        if k not in seen:
            seen.add(k); out.append(v)
    return dict(violations=out)


# ------------------------------------------------------------------ appended: alternative splicing / circRNA
def altsplice_cases(ctx, n):
    """stream 'altsplice' (Model/SpecAS.v must_as_set): 1-3 <DEL>/<INS>/<SUB> records on one transcript + small records at
    the event boundaries, donor segments kept FREE of small records (with donor records the engine is defective:
    C02-as-donor-record); obliged = products of the transcript carrying exactly one AS record and an obliged,
    possibly empty, set of small records that keep one base clear of the event and of its anchor base"""
    rng = ctx.rng
    out = []
    for i in range(n):
        # 55 % random events with donor segments free of small records; 45 % designed (round-3 seed C01-7): ONE <INS>/<SUB>
        # with a frameshifting record strictly inside the donor segment + a record behind the event read in the shifted
        # frame (+ sometimes one in front); a record straddling / abutting an end of the donor window
        x = rng.random()
        if x < 0.55:
            c = CG2.gen_as_case(rng, donor_records=False, nvar=rng.choice([0, 1, 2, 2, 3, 3, 4] if ctx.quick else [0, 1, 2, 3, 3, 4, 5]))
        else:
            c = CG2.gen_as_design_case(rng, 'shift' if x < 0.82 else ('straddle' if x < 0.93 else 'abut'))
        c['runs'] = [dict(CG.gen_run(rng, rule='trypsin', exc_on=False), as_must=True)]
        c['stream'] = 'altsplice'
        out.append(c)
    return out

def circ_cases(ctx, n):
    """stream 'circ' (Model/SpecCirc.v must_circ_set): circRNA records + small records; obliged = closed products of the
    circle (four turns, starts in the first turn) carrying the empty or an obliged set of records strictly inside a
    fragment, minus everything the linear transcript yields with or without its records, minus the pool"""
    rng = ctx.rng
    out = []
    def heavy(c):
        # complexity limits are disabled in C01: a tiny circle with several frameshifting records makes the engine's
        # four-copy graph explode (one 23-nt circle with 3 indels: 126 s); such inputs stay in C02 (binding limits)
        nindel = len(set(r[2] for r in c['gvf'] if len(r[3]) != len(r[4])))
        return nindel >= 2 and any(sum(b - a for a, b in r['frags']) < 60 for r in c['circ_records'])
    for i in range(n):
        # 1/2 random circles; 1/2 designed (round-3 seeds C05-6, C02-7): SNVs on the bases of start codons incl. the only
        # ATG, start codon directly behind a cleavage site, two alleles at one site, ORFs passing the site in every turn
        x = rng.random()
        gen = (lambda: CG2.gen_circ_case(rng)) if x < 0.5 else (lambda: CG2.gen_circ_design_case(rng, 'starts' if x < 0.7 else 'onlyatg'))
        c = gen()
        for _ in range(5):
            if not heavy(c):
                break
            c = gen()
        c['runs'] = [dict(CG.gen_run(rng, rule='trypsin', exc_on=False), circ_must=True)]
        c['stream'] = 'circ'
        out.append(c)
    return out
