"""C07, parser stream: --skip-failed of parseSTARFusion / parseFusionCatcher / parseArriba / parseVEP.

A case = generated world + one tool + 3..8 table rows, each of one designed kind:
   ok             a convertible record (fusion: exonic / boundary / intronic breakpoints; VEP: SNV / small deletion)
   unknown_gene   gene id not in the annotation            (documented skip reason: counted, never an error)
   low_evidence   below the tool's evidence thresholds      (documented skip reason)
   antisense      Arriba transcript strand '.' / opposite   (documented skip reason)
   outside        breakpoint / variant outside the gene or transcript
   chrom_missing  the row names the chromosome the way the genome FASTA does not ('1' for 'chr1')
   unknown_tx     (VEP) transcript id not in the annotation
Phase 1 converts every row alone at the library level (record.convert_to_variant_record[s], i.e. WITHOUT the
CLI loop under test): the row FAILS iff that raises an exception that is not one of the tool's documented
skip exceptions (GeneNotFoundError for the fusion parsers; TranscriptionStart/StopSiteMutationError for VEP).
Phase 2 runs the real CLI function on every subset of the failing rows (<= 3 per case, all other rows kept, original
order) x --skip-failed on/off.

SPEC (hand-written statement, evaluated on the implementation's exit / GVF / summary):
   no flag and a failing row present : exception, no GVF at the output path, no summary
   otherwise                         : no exception; GVF body = the records of the ok rows (multiset), = the body of
                                       the run on the same table without the failing rows; summary: read = rows,
                                       processed = ok rows, skipped/failed per reason = the designed / documented
                                       reasons, failing rows counted under 'Invalid position' (fusion) / 'failed' (VEP)
                                       (the summary is demanded also when nothing is saved)
MODEL  Model/ParserLoop.v run with the handler table the translator read from the source (Gen/ParserShape.v).
"""
import itertools, collections, json
from harness.lib import oracle as O, impl as I, gen_reference as G

TOOLS = ['star', 'fc', 'arriba', 'vep']
TCODE = {'star': 0, 'fc': 1, 'arriba': 2, 'vep': 3}
DOC_EXC = {'star': {'GeneNotFoundError': 0}, 'fc': {'GeneNotFoundError': 0}, 'arriba': {'GeneNotFoundError': 0},
           'vep': {'TranscriptionStopSiteMutationError': 5, 'TranscriptionStartSiteMutationError': 4}}
REASON = {'unknown_gene': 0, 'low_evidence': 2, 'antisense': 3}
FAIL_REASON = {'star': 1, 'fc': 1, 'arriba': 1, 'vep': 6}
CLS = {'GeneNotFoundError': 1, 'TranscriptionStopSiteMutationError': 2, 'TranscriptionStartSiteMutationError': 3,
       'KeyError': 10, 'ValueError': 11, 'IndexError': 12, 'LookupError': 14, 'Exception': 20, 'BaseException': 21}
CONF = ['low', 'medium', 'high']

def pick_pos(rng, tx, mode):
    ex = tx['exons']
    if mode == 'intronic' and len(ex) >= 2:
        i = rng.randrange(len(ex) - 1)
        if ex[i + 1][0] - ex[i][1] >= 1:
            return rng.randint(ex[i][1], ex[i + 1][0] - 1)
    e = rng.choice(ex)
    return rng.randint(e[0], e[1] - 1)

def gen_opts(rng, tool):
    if tool == 'star':
        return {'min_est_j': rng.choice([0, 1, 5, 5])}
    if tool == 'fc':
        return {'max_common': rng.choice([0, 0, 2]), 'min_unique': rng.choice([0, 1, 5])}
    if tool == 'arriba':
        return {'min_sr1': rng.choice([0, 1, 3]), 'min_sr2': rng.choice([0, 1, 3]), 'min_conf': rng.choice(CONF)}
    return {}

def evidence(rng, tool, o, ok):
    if tool == 'star':
        v = o['min_est_j'] + rng.choice([0, 1, 3]) if ok else o['min_est_j'] - 1
        return {'est_j': '%d.00' % v}
    if tool == 'fc':
        if ok:
            return {'common': rng.randint(0, o['max_common']), 'unique': o['min_unique'] + rng.choice([0, 2])}
        return {'common': o['max_common'] + 1, 'unique': o['min_unique'] + 1}
    mc = CONF.index(o['min_conf'])
    e = {'sr1': o['min_sr1'] + rng.choice([0, 2]), 'sr2': o['min_sr2'] + rng.choice([0, 2]), 'conf': CONF[rng.randint(mc, 2)]}
    if not ok:
        if o['min_sr1'] > 0:
            e['sr1'] = o['min_sr1'] - 1
        elif o['min_sr2'] > 0:
            e['sr2'] = o['min_sr2'] - 1
        elif mc > 0:
            e['conf'] = CONF[mc - 1]
        else:
            return None
    return e

def bad_chrom(c):
    return c[3:] if c.startswith('chr') else 'chr' + c

def gen_case(rng, tool=None):
    while True:
        w = G.gen_world(rng, n_chrom=rng.choice([1, 2]), max_genes=4, small=True, multi_iso_p=0.6)
        if len(w['genes']) >= 2:
            break
    tool = tool or rng.choice(TOOLS)
    o = gen_opts(rng, tool)
    kinds_fail = ['outside', 'chrom_missing'] + (['unknown_tx'] if tool == 'vep' else [])
    kinds_doc = (['unknown_gene', 'low_evidence'] + (['antisense'] if tool == 'arriba' else [])) if tool != 'vep' else []
    n = rng.randint(3, 8)
    n_fail = rng.choice([0, 1, 1, 2, 2, 3])
    plan = [rng.choice(kinds_fail) for _ in range(n_fail)] + [rng.choice(kinds_doc) for _ in range(rng.choice([0, 1, 1, 2])) if kinds_doc]
    plan += ['ok'] * max(1, n - len(plan)) if rng.random() < 0.9 else []
    rng.shuffle(plan)
    rows = []
    for kind in plan:
        r = vep_row(rng, w, kind) if tool == 'vep' else fusion_row(rng, w, tool, o, kind)
        if r:
            rows.append(r)
    return dict(world=w, tool=tool, opts=o, rows=rows)

def fusion_row(rng, w, tool, o, kind):
    gd, ga = rng.choice(w['genes']), rng.choice(w['genes'])
    td, ta = rng.choice(gd['transcripts']), rng.choice(ga['transcripts'])
    p = pick_pos(rng, td, rng.choice(['exonic', 'exonic', 'intronic']))
    q = pick_pos(rng, ta, rng.choice(['exonic', 'exonic', 'intronic']))
    r = dict(dgid=gd['id'], agid=ga['id'], dsym=gd['name'], asym=ga['name'], dchrom=gd['chrom'], achrom=ga['chrom'],
             dstrand='+' if gd['strand'] == 1 else '-', astrand='+' if ga['strand'] == 1 else '-', kind=kind)
    r['tstrand1'], r['tstrand2'] = r['dstrand'], r['astrand']
    ok_ev = True
    if kind == 'unknown_gene':
        bad = 'ENSG%011d.%d' % (rng.randint(900, 999), rng.randint(1, 9))
        if rng.random() < 0.5:
            r['dgid'] = bad
        else:
            r['agid'] = bad
    elif kind == 'low_evidence':
        ok_ev = False
    elif kind == 'antisense':
        if rng.random() < 0.5:
            r['tstrand1'] = rng.choice(['.', '-' if r['dstrand'] == '+' else '+'])
        else:
            r['tstrand2'] = rng.choice(['.', '-' if r['astrand'] == '+' else '+'])
    elif kind == 'outside':
        if rng.random() < 0.5:
            p = rng.choice([gd['start'] - rng.randint(1, 4), gd['end'] + rng.randint(0, 3)])
        else:
            q = rng.choice([ga['start'] - rng.randint(1, 4), ga['end'] + rng.randint(0, 3)])
    elif kind == 'chrom_missing':
        side = rng.choice(['d', 'a', 'both'])
        if side in ('d', 'both'):
            r['dchrom'] = bad_chrom(r['dchrom'])
        if side in ('a', 'both'):
            r['achrom'] = bad_chrom(r['achrom'])
    ev = evidence(rng, tool, o, ok_ev)
    if ev is None or p + 1 < 1 or q + 1 < 1:
        return None
    r.update(L=p + 1, R=q + 1, ev=ev)
    return r

def vep_row(rng, w, kind):
    g = rng.choice(w['genes'])
    tx = rng.choice(g['transcripts'])
    chrom = w['chroms'][g['chrom']]
    p = pick_pos(rng, tx, 'exonic')
    cname, tid = g['chrom'], tx['id']
    if kind == 'outside':
        others = [x for x in w['genes'] if x['chrom'] == g['chrom'] and x['id'] != g['id']]
        if others and rng.random() < 0.6:
            og = rng.choice(others)
            p = rng.randint(og['start'], og['end'] - 1)
        else:
            p = rng.choice([max(0, g['start'] - rng.randint(2, 5)), min(len(chrom) - 1, g['end'] + rng.randint(1, 4))])
    elif kind == 'chrom_missing':
        cname = bad_chrom(cname)
    elif kind == 'unknown_tx':
        tid = 'ENST%011d.%d' % (rng.randint(9000, 9999), rng.randint(1, 9))
    ref = chrom[p]
    if rng.random() < 0.25 and p + 3 < len(chrom):
        loc, allele = '%s:%d-%d' % (cname, p + 1, p + 2), '-'
    else:
        loc, allele = '%s:%d' % (cname, p + 1), rng.choice([b for b in 'ACGT' if b != ref])
    return dict(gene=g['id'], tx=tid, loc=loc, allele=allele, kind=kind, uv='v%d' % rng.randint(1, 10 ** 6))

# ------------------------------------------------------------------------------------ classification
def status_of(tool, row, lib):
    """('ok', lines) | ('skip', reason) | ('fail', exception class)"""
    if row['kind'] in REASON and tool != 'vep':
        return ('skip', REASON[row['kind']])
    if 'exc' in lib:
        for cls in lib['mro']:
            if cls in DOC_EXC[tool]:
                return ('skip', DOC_EXC[tool][cls])
        return ('fail', lib['exc'])
    return ('ok', lib['lines'])

def subsets(xs):
    for r in range(len(xs) + 1):
        for c in itertools.combinations(xs, r):
            yield list(c)

def build_runs(case, stats):
    fails = [i for i, s in enumerate(stats) if s[0] == 'fail'][:3]
    allf = [i for i, s in enumerate(stats) if s[0] == 'fail']
    runs = []
    for keep in subsets(fails):
        rows = [i for i in range(len(case['rows'])) if i not in allf or i in keep]
        for skip in (False, True):
            runs.append({'rows': rows, 'skip': skip})
    return runs

def spec_eval(case, stats, run, o, base_body):
    tool = case['tool']
    S = run['rows']
    bad = []
    fails = [i for i in S if stats[i][0] == 'fail']
    if fails and not run['skip']:
        if o['exc'] is None:
            bad.append('no exception although row %d fails (%s at the library level) without --skip-failed' % (fails[0], stats[fails[0]][1]))
        if o['gvf'] is not None:
            bad.append('GVF written although the command must abort')
        if o['tally'] is not None and o['exc'] is None:
            bad.append('summary logged although the command must abort')
        return bad
    if o['exc'] is not None:
        bad.append('command aborted with %s although %s' % (o['exc'], '--skip-failed is given' if fails else 'no row fails'))
        return bad
    exp = sorted(l for i in S if stats[i][0] == 'ok' for l in stats[i][1])
    got = o['gvf'] or []
    if got != exp:
        bad.append('GVF body differs from the records of the non-failing rows: missing %d extra %d' % (
            len(set(exp) - set(got)) or max(0, len(exp) - len(got)), len(set(got) - set(exp)) or max(0, len(got) - len(exp))))
    if base_body is not None and got != (base_body or []):
        bad.append('GVF body differs from the run on the table without the failing rows')
    tl = o['tally']
    if tl is None:
        bad.append('no summary logged' + (' (nothing saved, %d failing row(s) skipped: the failures are reported nowhere)' % len(fails)
                                          if fails and not exp else ''))
        return bad
    n_ok = sum(1 for i in S if stats[i][0] == 'ok')
    reasons = collections.Counter(stats[i][1] for i in S if stats[i][0] == 'skip')
    if tool == 'vep':
        expt = {'total': len(S), 'succeed': n_ok, 'failed': len(S) - n_ok}
        if len(S) - n_ok > 0:
            expt.update({'start_site': reasons[4], 'stop_site': reasons[5]})
    else:
        expt = {'total': len(S), 'succeed': n_ok, 'skipped': len(S) - n_ok}
        if len(S) - n_ok > 0:
            expt.update({'invalid_gene_id': reasons[0], 'invalid_position': len(fails), 'insufficient_evidence': reasons[2]})
            if tool == 'arriba':
                expt['antisense_strand'] = reasons[3]
    for k, v in expt.items():
        if tl.get(k) != v:
            bad.append('summary %s = %r, expected %r' % (k, tl.get(k), v))
    if '_dup' in tl:
        bad.append('summary line %s logged twice' % tl['_dup'])
    return bad

# ------------------------------------------------------------------------------------ model
def model_rows(case, stats, S, ids):
    out = []
    for i in S:
        st = stats[i]
        row = case['rows'][i]
        if st[0] == 'skip' and row['kind'] in REASON and case['tool'] != 'vep':
            out.append([0, st[1]])                                   # decided before the try
        elif st[0] == 'ok':
            out.append([1, [ids.setdefault(l, len(ids)) for l in st[1]]])
        else:
            out.append([2, [CLS.get(c, 98) for c in case['_lib'][i]['mro']], 1 if row['kind'] == 'unknown_tx' else 0])
    return out

def model_eval(case, stats, runs):
    ids = {}
    reqs = [('c07_parser_run', [0, TCODE[case['tool']], 1 if r['skip'] else 0, model_rows(case, stats, r['rows'], ids)]) for r in runs]
    return O.call_many(reqs), ids

def same_as_model(case, m, o, ids):
    """m = [exception code, [] | [[record ids]], [] | [[read, processed, [skip reasons in order]]]]"""
    exc, gvf, tl = m
    if (exc != 0) != (o['exc'] is not None):
        return False
    inv = {v: k for k, v in ids.items()}
    if not gvf:
        if o['gvf'] is not None:
            return False
    elif o['gvf'] is None or sorted(inv[x] for x in gvf[0]) != o['gvf']:
        return False
    t = o['tally']
    if not tl:
        return t is None
    if t is None:
        return False
    total, succ, reasons = tl[0]
    cnt = collections.Counter(reasons)
    if t.get('total') != total or t.get('succeed') != succ:
        return False
    if case['tool'] == 'vep':
        return t.get('failed') == len(reasons) and t.get('start_site', 0) == cnt[4] and t.get('stop_site', 0) == cnt[5]
    return t.get('skipped') == len(reasons) and t.get('invalid_gene_id', 0) == cnt[0] and t.get('invalid_position', 0) == cnt[1] \
        and t.get('insufficient_evidence', 0) == cnt[2] and t.get('antisense_strand', 0) == cnt[3]

def shapes_info():
    r = O.call('c07_parser_shapes', [])
    return {t: {'documented': bool(x[0]), 'modelled': bool(x[1])} for t, x in zip(TOOLS, r)}

# ------------------------------------------------------------------------------------ stream
def evaluate_cases(ctx, cases, tag='c07p'):
    """returns (violations, stats Counter, per-kind distribution)"""
    st = collections.Counter()
    dist = collections.Counter()
    viol = []
    libs = I.run_cases('c07p', [dict(world=c['world'], tool=c['tool'], opts=c['opts'], rows=c['rows'], runs=[]) for c in cases],
                       jobs=ctx.jobs, tag=tag + 'a')
    jobs = []
    for c, l in zip(cases, libs):
        if not isinstance(l, dict) or 'lib' not in l:
            c['_lib'] = None
            continue
        c['_lib'] = l['lib']
        c['_stats'] = [status_of(c['tool'], r, x) for r, x in zip(c['rows'], l['lib'])]
        c['_runs'] = build_runs(c, c['_stats'])
        jobs.append(dict(world=c['world'], tool=c['tool'], opts=c['opts'], rows=c['rows'], runs=c['_runs']))
    outs = I.run_cases('c07p', jobs, jobs=ctx.jobs, tag=tag + 'b')
    k = 0
    for c in cases:
        if c['_lib'] is None:
            viol.append({'what': 'parser stream: implementation worker failed', 'no_input': True,
                         'replay_obj': {'kind': 'correspondence', 'name': 'corr:C07/parser-worker'}})
            continue
        o = outs[k]; k += 1
        if not isinstance(o, dict) or 'runs' not in o:
            viol.append({'what': 'parser stream: implementation worker failed: %r' % (o,), 'no_input': True,
                         'replay_obj': {'kind': 'correspondence', 'name': 'corr:C07/parser-worker', 'example': str(o)[:400]}})
            continue
        stats, runs = c['_stats'], c['_runs']
        for r, s in zip(c['rows'], stats):
            dist['%s/%s->%s' % (c['tool'], r['kind'], s[0] if s[0] != 'fail' else 'fail:' + s[1])] += 1
        ms, ids = model_eval(c, stats, runs)
        base = {}
        for r, x in zip(runs, o['runs']):
            if not [i for i in r['rows'] if stats[i][0] == 'fail'] and not r['skip']:
                base['b'] = x['gvf'] if x['exc'] is None else None
        for r, x, m in zip(runs, o['runs'], ms):
            st['parser_runs'] += 1
            nf = sum(1 for i in r['rows'] if stats[i][0] == 'fail')
            if nf and any(stats[i][0] == 'ok' and stats[i][1] for i in r['rows']):
                st['parser_nontrivial'] += 1
            bad = spec_eval(c, stats, r, x, base.get('b') if 'b' in base else None)
            agree = not isinstance(m, str) and same_as_model(c, m, x, ids)
            st['parser_agree' if agree else 'parser_disagree'] += 1
            if not bad and agree:
                continue
            robj = {'kind': 'c07parser', 'case': {k2: v for k2, v in c.items() if not k2.startswith('_')},
                    'focus': r, 'observed': {k2: x.get(k2) for k2 in ('exc', 'where', 'tally')},
                    'row_status': [[s[0], s[1] if s[0] != 'ok' else len(s[1])] for s in stats]}
            kinds = [c['rows'][i]['kind'] for i in r['rows']]
            if bad:
                viol.append({'what': 'parser %s rows=%s skip=%s: %s' % (CMD_NAME[c['tool']], kinds, r['skip'], '; '.join(bad)[:300]),
                             'replay_obj': robj, 'no_input': False, '_size': (len(c['rows']), len(r['rows']), 0)})
            else:
                viol.append({'what': 'parser %s differs from Model/ParserLoop.v (handler table read from the source) although the '
                                     'statement holds: rows=%s skip=%s impl exc=%s tally=%s model=%s' % (
                                         CMD_NAME[c['tool']], kinds, r['skip'], x['exc'], x['tally'], m),
                             'replay_obj': {'kind': 'correspondence', 'name': 'corr:C07/parser_loop', 'example': robj},
                             'no_input': True, '_harmless': True})
    return viol, st, dist

CMD_NAME = {'star': 'parseSTARFusion', 'fc': 'parseFusionCatcher', 'arriba': 'parseArriba', 'vep': 'parseVEP'}

def run_stream(ctx, n):
    cases = []
    for i in range(n):
        cases.append(gen_case(ctx.rng, TOOLS[i % 4]))
    return evaluate_cases(ctx, cases)

def replay(ctx, obj):
    c = dict(obj['case'])
    v, st, dist = evaluate_cases(ctx, [c], tag='c07pr')
    f = obj.get('focus')
    if f:
        v = [x for x in v if x.get('no_input') or x['replay_obj'].get('focus') == f]
    return v
