"""C17 correspondence: parseCIRCexplorer vs the proved model (coq/Model/Circ.v).

One case = one generated reference world + a CIRCexplorer table (format 2 or 3) + read/FPB/score thresholds +
intron start/end tolerance ranges.  Rows: circRNA rows from exon subsets of every transcript (contiguous runs,
non-contiguous subsets, exons of sister isoforms, borders shifted by one base, wrong order), ciRNA rows from every
intron with start/end shifted inside and outside the tolerances, read numbers / FPBcirc / circscore at the
thresholds +-1, plus a malformed stream (block outside the gene, unsupported type, missing offset).
Compared: CIRCexplorerParser.parse -> is_valid -> convert_to_circ_rna (fragments, intron list, id, GVF line, error
class), CircRNAModel.get_circ_rna_sequence on the real gene sequence, and moPepGen.cli.parse_circexplorer (GVF
lines in order, records parsed back with circ.io.parse and their sequence, tally from the log).
Every accepted row is additionally checked against the property's own statement computed in Python without the
model (strand-corrected blocks, concatenation of the genomic blocks in transcript orientation, back-splice id,
skip conditions).
"""
import json, os, glob
from fractions import Fraction
from harness.lib import oracle as O, impl as I, gen_reference as G

PROPERTY = 'C17'
ROOT = os.path.dirname(os.path.dirname(os.path.dirname(os.path.abspath(__file__))))
ERR = {1: 'ValueError', 2: 'ExonNotFoundError', 3: 'IntronNotFoundError', 4: 'IndexError'}
TYPES = {'circRNA': 0, 'ciRNA': 1}

def find_tx(world, tid):
    for g in world['genes']:
        for t in g['transcripts']:
            if t['id'] == tid:
                return g, t
    return None, None

def scaled(x):
    """decimal string -> integer x 1000"""
    return int(Fraction(x) * 1000)

# ------------------------------------------------------------------ generation
def edit_exons(rng, world, stats):
    """edits on top of gen_world: abutting exons (zero-length intron), 1-nt introns and 1-nt exons on transcripts of
    either strand.  An edited transcript loses its CDS (the exon structure no longer carries the designed ORF);
    parseCIRCexplorer does not read it.  Gene spans are recomputed."""
    for gene in world['genes']:
        for tx in gene['transcripts']:
            if len(tx['exons']) < 2 or rng.random() < 0.35:
                continue
            ex = [list(e) for e in tx['exons']]       # edit a copy; commit only a well-formed result
            done = []
            for _ in range(rng.choice([1, 1, 2, 3])):
                kind = rng.choice(['abut', 'abut', 'intron1', 'exon1'])
                k = rng.randrange(len(ex) - 1)
                if kind == 'abut':
                    if rng.random() < 0.5:
                        ex[k][1] = ex[k + 1][0]
                    else:
                        ex[k + 1][0] = ex[k][1]
                elif kind == 'intron1':
                    if rng.random() < 0.5:
                        ex[k][1] = ex[k + 1][0] - 1
                    else:
                        ex[k + 1][0] = ex[k][1] + 1
                else:
                    j = rng.randrange(len(ex))
                    if rng.random() < 0.5:
                        ex[j][1] = ex[j][0] + 1
                    else:
                        ex[j][0] = ex[j][1] - 1
                done.append(kind)
            if all(a < b for a, b in ex) and all(ex[i][1] <= ex[i + 1][0] for i in range(len(ex) - 1)):
                for kind in done:
                    stats[kind] = stats.get(kind, 0) + 1
                tx['exons'] = ex
                tx['edited'] = sorted(set(done))
                tx['cds'] = None
                tx['protein_id'] = None
                tx['sec'] = []
                tx['tags'] = [t for t in tx['tags'] if t not in ('cds_start_NF', 'mRNA_end_NF')]
                tx['biotype'] = 'processed_transcript'
            else:       # the combination of edits emptied or crossed an exon: leave the transcript as it was
                stats['rejected_edit'] = stats.get('rejected_edit', 0) + 1
        gene['start'] = min(t['exons'][0][0] for t in gene['transcripts'])
        gene['end'] = max(t['exons'][-1][1] for t in gene['transcripts'])
    return world

def mk_row(gene, tx, start, end, sizes, offsets, typ='circRNA', reads=5, fpb='1.500', score='0.500', kind=''):
    return {'chrom': gene['chrom'], 'start': start, 'end': end, 'strand': '+' if gene['strand'] == 1 else '-',
            'sizes': sizes, 'offsets': offsets, 'reads': reads, 'type': typ, 'gene_name': gene['name'], 'tx': tx['id'],
            'fpb': fpb, 'score': score, 'kind': kind}

def row_from_blocks(gene, tx, blocks, **kw):
    start = blocks[0][0]
    end = max(b[1] for b in blocks)
    return mk_row(gene, tx, start, end, [b[1] - b[0] for b in blocks], [b[0] - start for b in blocks], **kw)

def gen_rows(rng, world, thr, sr, er, malformed):
    rows = []
    def rd():
        return rng.choice([thr['reads'] - 1, thr['reads'], thr['reads'] + 1, thr['reads'] + 5, thr['reads'] + 5])
    def dec(base):
        if base is None:
            return rng.choice(['0.000', '0.250', '1.500', '3.125'])
        b = Fraction(base)
        return '%.3f' % float(rng.choice([b - Fraction(1, 1000), b, b + Fraction(1, 1000), b + 1, b + 1, b + 1]))
    def kw(kind):
        return dict(reads=rd(), fpb=dec(thr.get('fpb')), score=dec(thr.get('score')), kind=kind)
    for gene in world['genes']:
        chrom_len = len(world['chroms'][gene['chrom']])
        for tx in gene['transcripts']:
            ex = [tuple(e) for e in tx['exons']]
            n = len(ex)
            # contiguous runs
            runs = [(i, j) for i in range(n) for j in range(i, n)]
            rng.shuffle(runs)
            for i, j in (runs if tx.get('edited') else runs[:6]):
                rows.append(row_from_blocks(gene, tx, ex[i:j + 1], **kw('run')))
            if tx.get('edited'):
                # every exon subset of a transcript with abutting exons / 1-nt introns / 1-nt exons
                import itertools
                subsets = [c for m in range(2, n + 1) for c in itertools.combinations(range(n), m) if c[-1] - c[0] + 1 != m]
                if len(subsets) > 40:
                    subsets = rng.sample(subsets, 40)
                for sub in subsets:
                    rows.append(row_from_blocks(gene, tx, [ex[k] for k in sub], **kw('subset_edited')))
            # non-contiguous subsets
            for _ in range(2):
                if n >= 3:
                    sub = sorted(rng.sample(range(n), rng.randint(2, n)))
                    rows.append(row_from_blocks(gene, tx, [ex[k] for k in sub], **kw('subset')))
            # one border shifted by one base -> unknown exon
            for _ in range(3):
                i = rng.randrange(n)
                j = rng.randrange(i, n)
                bl = [list(b) for b in ex[i:j + 1]]
                k = rng.randrange(len(bl))
                side = rng.randrange(2)
                bl[k][side] += rng.choice([-1, 1])
                if bl[k][0] < bl[k][1] and all(bl[q][1] <= bl[q + 1][0] for q in range(len(bl) - 1)):
                    rows.append(row_from_blocks(gene, tx, [tuple(b) for b in bl], **kw('shifted')))
            # exons of a sister isoform
            for other in gene['transcripts']:
                if other is not tx and rng.random() < 0.5:
                    oex = [tuple(e) for e in other['exons']]
                    i = rng.randrange(len(oex))
                    j = rng.randrange(i, len(oex))
                    rows.append(row_from_blocks(gene, tx, oex[i:j + 1], **kw('sister')))
            # blocks in the wrong order
            if n >= 2 and rng.random() < 0.5:
                i = rng.randrange(n - 1)
                r = row_from_blocks(gene, tx, [ex[i], ex[i + 1]], **kw('unordered'))
                r['sizes'].reverse(); r['offsets'].reverse()
                rows.append(r)
            # ciRNA: every intron, start/end moved around the tolerances
            for k in range(n - 1):
                a, b = ex[k][1], ex[k + 1][0]          # intron [a, b)  (may be empty: abutting exons)
                shifts = [(0, 0)]
                for _ in range(5):
                    shifts.append((rng.randint(sr[0] - 2, sr[1] + 2), rng.randint(er[0] - 2 if er[0] > -20 else -6, er[1] + 2)))
                shifts.append((rng.choice([sr[0], sr[1]]), rng.choice([max(er[0], -(b - a) + 1), er[1]])))
                for ds, de in shifts:
                    # shifts are in transcript orientation: ds moves the intron start, de the intron end
                    if gene['strand'] == 1:
                        s, e = a + ds, b + de
                    else:
                        s, e = a - de, b - ds
                    if s < e:
                        rows.append(mk_row(gene, tx, s, e, [e - s], [0], typ='ciRNA', **kw('ciRNA')))
            if n >= 2 and rng.random() < 0.3:
                # an exon reported as ciRNA / an intron reported as circRNA
                rows.append(mk_row(gene, tx, ex[0][0], ex[0][1], [ex[0][1] - ex[0][0]], [0], typ='ciRNA', **kw('exon_as_ciRNA')))
                rows.append(mk_row(gene, tx, ex[0][1], ex[1][0], [ex[1][0] - ex[0][1]], [0], typ='circRNA', **kw('intron_as_circRNA')))
            if malformed:
                c = rng.random()
                if c < 0.35:
                    bl = [ex[-1], (gene['end'] + 1, min(chrom_len, gene['end'] + 4))]
                    if bl[1][0] < bl[1][1]:
                        rows.append(row_from_blocks(gene, tx, bl, **kw('outside_gene')))
                elif c < 0.6:
                    rows.append(row_from_blocks(gene, tx, ex[:1], typ='novel', **kw('bad_type')))
                elif c < 0.8 and n >= 2:
                    r = row_from_blocks(gene, tx, ex[:2], **kw('missing_offset'))
                    r['offsets'] = r['offsets'][:1]
                    rows.append(r)
                else:
                    r = row_from_blocks(gene, tx, ex[:1], **kw('end_outside'))
                    r['end'] = gene['end'] + 3
                    rows.append(r)
    # one back-splice junction reported for two or more isoforms (same chrom/start/end/strand, other isoformName and, where the
    # isoforms differ inside, other blocks)
    for gene in world['genes']:
        txs = gene['transcripts']
        for a in range(len(txs)):
            for b in range(a + 1, len(txs)):
                ea, eb = [tuple(e) for e in txs[a]['exons']], [tuple(e) for e in txs[b]['exons']]
                starts = sorted({e[0] for e in ea} & {e[0] for e in eb})
                ends = sorted({e[1] for e in ea} & {e[1] for e in eb})
                pairs = [(s, e) for s in starts for e in ends if s < e]
                rng.shuffle(pairs)
                for s, e in pairs[:2]:
                    for t, ex in ((txs[a], ea), (txs[b], eb)):
                        bl = [x for x in ex if s <= x[0] and x[1] <= e]
                        if bl and bl[0][0] == s and bl[-1][1] == e:
                            rows.append(row_from_blocks(gene, t, bl, **kw('shared_junction')))
    if not malformed:
        # rows that abort the whole run (a block outside the gene) belong to the malformed stream
        def inside(r):
            g, _ = find_tx(world, r['tx'])
            return all(g['start'] <= r['start'] + o and r['start'] + o + s <= g['end'] for s, o in zip(r['sizes'], r['offsets'])) \
                and g['start'] <= r['start'] and r['end'] <= g['end']
        rows = [r for r in rows if inside(r)]
    rng.shuffle(rows)
    for k, r in enumerate(rows):
        r['name'] = 'circular_RNA/%d' % (k + 1)          # row tag (read back through the record's name)
    # rows repeated verbatim (merged result tables)
    for _ in range(rng.choice([0, 1, 2])):
        if rows:
            r = dict(rng.choice(rows)); r['kind'] = r['kind'] if r['kind'].endswith('/repeat') else r['kind'] + '/repeat'
            rows.insert(rng.randrange(len(rows) + 1), r)
    return rows

def gen_case(rng, world, malformed=False, ce3=None):
    ce3 = (rng.random() < 0.5) if ce3 is None else ce3
    thr = {'reads': rng.choice([1, 1, 2, 5])}
    if ce3:
        thr['fpb'] = rng.choice([None, '0', '0.500', '1.500', '2.250'])
        thr['score'] = rng.choice([None, '0', '0.250', '1.500'])
    sr = rng.choice([(0, 0), (-2, 0), (-2, 0), (-1, 1), (0, 3)])
    er = rng.choice([(0, 0), (-100, 5), (-100, 5), (-3, 3), (-4, 0)])
    rows = gen_rows(rng, world, thr, sr, er, malformed)
    return {'world': world, 'rows': rows, 'ce3': ce3, 'thr': thr, 'sr': list(sr), 'er': list(er), 'cli': True,
            'malformed': malformed}

# ------------------------------------------------------------------ model side
def anno_val(world, tid):
    g, t = find_tx(world, tid)
    return [[g['strand'], g['start'], g['end']], [list(e) for e in t['exons']]]

def rec_val(r, ce3):
    return [r['start'], r['end'], r['sizes'], r['offsets'], r['reads'], TYPES.get(r['type'], 2),
            scaled(r['fpb']) if ce3 else 0, scaled(r['score']) if ce3 else 0]

def thr_val(c):
    th = c['thr']
    o = lambda x: [] if x is None else [scaled(x)]
    return [c['ce3'], th['reads'], o(th.get('fpb')), o(th.get('score'))]

def expected_record(world, row, m):
    """model circ value -> record tuple as the implementation should report it"""
    g, t = find_tx(world, row['tx'])
    frags, intron, ids, ide, pos, offs, lens = m
    cid = 'CIRC-%s-%d:%d' % (row['tx'], ids, ide)
    gp = '%s:%d:%d' % (row['chrom'], row['start'], row['end'])
    info = 'OFFSET=%s;LENGTH=%s;INTRON=%s;TRANSCRIPT_ID=%s;GENE_SYMBOL=%s;GENOMIC_POSITION=%s' % (
        ','.join(map(str, offs)), ','.join(map(str, lens)), ','.join(map(str, intron)), row['tx'], g['name'], gp)
    return {'gene': g['id'], 'tx': row['tx'], 'id': cid, 'frags': [list(f) for f in frags], 'intron': list(intron),
            'genomic_position': gp, 'gvf': '\t'.join([g['id'], str(pos), cid, '.', '.', '.', '.', info])}

# ------------------------------------------------------------------ declarative checks (no model)
def tx_order_exons(g, t):
    ex = [tuple(e) for e in t['exons']]
    return ex if g['strand'] == 1 else list(reversed(ex))

def decl_blocks(row):
    return [(row['start'] + o, row['start'] + o + s) for s, o in zip(row['sizes'], row['offsets'])]

def decl_should_accept(world, c, row):
    """skip conditions of the statement: True / False / None (statement silent: run aborts or ill-formed row)"""
    g, t = find_tx(world, row['tx'])
    if row['type'] not in TYPES or len(row['offsets']) < len(row['sizes']):
        return None
    blocks = decl_blocks(row)
    if any(not (g['start'] <= b[0] and b[1] <= g['end'] and b[0] < b[1]) for b in blocks):
        return None
    if not (g['start'] <= row['start'] and row['end'] <= g['end'] and row['start'] < row['end']):
        return None
    ex = [tuple(e) for e in t['exons']]
    if row['type'] == 'circRNA':
        return all(b in ex for b in blocks)
    sr, er = c['sr'], c['er']
    txe = tx_order_exons(g, t)
    for b in blocks:
        ok = False
        for k in range(len(txe) - 1):
            up, down = txe[k], txe[k + 1]
            if g['strand'] == 1:
                so, eo, gap = b[0] - up[1], b[1] - down[0], down[0] >= b[1]
            else:
                so, eo, gap = -(b[1] - up[0]), -(b[0] - down[1]), down[1] <= b[0]
            if sr[0] <= so <= sr[1]:
                ok = (er[0] <= eo <= er[1]) or gap
                break          # the first exon whose end matches the start tolerance decides
        if not ok:
            return False
    return True

def decl_valid(c, row):
    th = c['thr']
    if c['ce3']:
        for key, val in (('fpb', row['fpb']), ('score', row['score'])):
            m = th.get(key)
            if m is not None and Fraction(m) != 0 and Fraction(val) < Fraction(m):
                return False
    return row['reads'] >= th['reads']

def decl_record(world, row, rec):
    """statement on one emitted record; returns None or a reason"""
    g, t = find_tx(world, row['tx'])
    chrom = world['chroms'][g['chrom']]
    blocks = decl_blocks(row)
    want = [[G.g2gene(g, b[0]), G.g2gene(g, b[1] - 1) + 1] if g['strand'] == 1 else
            [G.g2gene(g, b[1] - 1), G.g2gene(g, b[0]) + 1] for b in blocks]
    if rec['frags'] != want:
        return 'fragments %s are not the strand-corrected reported blocks %s' % (rec['frags'], want)
    sb = sorted(blocks)          # transcript orientation = ascending genomic order on +, descending on -
    asc = all(sb[i][1] <= sb[i + 1][0] for i in range(len(sb) - 1))
    if asc and 'seq' in rec:
        parts = [chrom[b[0]:b[1]] for b in sb]
        wseq = ''.join(parts) if g['strand'] == 1 else ''.join(G.revcomp(p) for p in reversed(parts))
        if rec['seq'] != wseq:
            return 'circular sequence differs from the concatenation of the reported blocks in transcript orientation'
    lo, hi = (G.g2gene(g, row['start']), G.g2gene(g, row['end'] - 1) + 1) if g['strand'] == 1 else \
             (G.g2gene(g, row['end'] - 1), G.g2gene(g, row['start']) + 1)
    if rec['id'] != 'CIRC-%s-%d:%d' % (row['tx'], lo, hi):
        return 'id %s does not encode the back-splice coordinates %d:%d' % (rec['id'], lo, hi)
    return None

# ------------------------------------------------------------------ evaluation
def canon(r):
    if isinstance(r, dict) and '__exc__' in r:
        return r['__exc__']
    return r

def evaluate(ctx, cases):
    impl = I.run_cases('c17', cases, jobs=ctx.jobs, tag='c17')
    reqs, idx = [], []
    for ci, c in enumerate(cases):
        w = c['world']
        for ri, r in enumerate(c['rows']):
            reqs.append(('c17_convert', [anno_val(w, r['tx']), rec_val(r, c['ce3']), c['sr'], c['er']]))
            idx.append((ci, ri))
        reqs.append(('c17_cli', [thr_val(c), c['sr'], c['er'], [[anno_val(w, r['tx']), rec_val(r, c['ce3'])] for r in c['rows']]]))
        idx.append((ci, 'cli'))
    model = O.call_parallel(reqs, jobs=8)
    # second round: sequences of the fragments the model accepts
    seq_reqs, seq_idx = [], []
    for (ci, ri), m in zip(idx, model):
        if ri != 'cli' and m[0] == 0:
            c = cases[ci]
            g, t = find_tx(c['world'], c['rows'][ri]['tx'])
            seq_reqs.append(('c17_circ_seq', [G.gene_seq(c['world'], g), m[1][0]]))
            seq_idx.append((ci, ri))
    seqs = dict(zip(seq_idx, (O.U(s) for s in O.call_parallel(seq_reqs, jobs=8))))
    st = {'evaluations': 0, 'nontrivial': set(), 'dist': {}, 'disagreements': 0, 'declarative_checked': 0}
    viol, seen_corr = [], {}
    def bump(k):
        st['dist'][k] = st['dist'].get(k, 0) + 1
    def report(what, c, ri, no_input=False):
        small = dict(c, rows=[c['rows'][ri]]) if isinstance(ri, int) else c
        if no_input:
            name = 'corr:C17/convert_to_circ_rna'
            if name in seen_corr:
                seen_corr[name] += 1
                return
            seen_corr[name] = 1
            viol.append({'what': what, 'no_input': True, 'replay_obj': {'kind': 'correspondence', 'name': name, 'example': small}})
            return
        if sum(1 for v in viol if not v['no_input']) >= 10:
            return
        viol.append({'what': what, 'no_input': False, 'replay_obj': {'kind': 'case', 'case': small}})
    exp_by_case = {}
    for (ci, ri), m in zip(idx, model):
        c, r = cases[ci], impl[ci]
        w = c['world']
        if isinstance(r, dict) and '__exc__' in r:
            if ri == 'cli':
                report('implementation worker failed on a generated case: %s %s' % (r['__exc__'], r.get('msg')), c, None, no_input=True)
            continue
        if ri == 'cli':
            continue
        row = c['rows'][ri]
        st['evaluations'] += 1
        g, t = find_tx(w, row['tx'])
        got = canon(r['lib'][ri]) if ri < len(r['lib']) else {'__missing__': True}
        if isinstance(got, dict) and got.get('__missing__'):
            # the reader did not yield this row: neither emitted nor counted
            same = [k for k in range(ri) if (c['rows'][k]['chrom'], c['rows'][k]['start'], c['rows'][k]['end'], c['rows'][k]['strand']) ==
                    (row['chrom'], row['start'], row['end'], row['strand'])]
            small = dict(c, rows=[c['rows'][k] for k in same[:1]] + [row])
            bump('missing_row/%s' % row['kind'])
            if sum(1 for v in viol if not v['no_input']) < 10:
                viol.append({'what': 'parseCIRCexplorer: the row %s:%d-%d %s of isoform %s (%s) is not read by CIRCexplorerParser.parse - it is neither '
                                     'converted nor counted%s' % (row['chrom'], row['start'], row['end'], row['strand'], row['tx'], row['kind'],
                                     '; an earlier row reports the same junction for isoform %s' % c['rows'][same[0]]['tx'] if same else ''),
                             'no_input': False, 'replay_obj': {'kind': 'case', 'case': small}})
            continue
        if m[0] == 0:
            exp = expected_record(w, row, m[1])
            exp['seq'] = seqs[(ci, ri)]
        else:
            exp = ERR[m[0]]
        exp_by_case.setdefault(ci, {})[ri] = exp
        if t.get('edited'):
            bump('edited_tx/%s/%s/%s' % ('+'.join(t['edited']), '+' if g['strand'] == 1 else '-', 'accepted' if isinstance(got, dict) else got))
        bump('%s/%s/%s/%s' % (row['type'], row['kind'], '+' if g['strand'] == 1 else '-', 'accepted' if isinstance(got, dict) else got))
        if isinstance(got, dict):
            st['nontrivial'].add((ci, ri))
        # validity
        v_impl, v_decl = r['valid'][ri], decl_valid(c, row)
        reason = None
        if v_impl != v_decl:
            reason = 'is_valid = %s but the thresholds %s on reads=%s fpb=%s score=%s give %s' % (
                v_impl, json.dumps(c['thr']), row['reads'], row['fpb'], row['score'], v_decl)
        # the property's own statement on the implementation's output
        should = decl_should_accept(w, c, row)
        st['declarative_checked'] += 1
        if reason is None and isinstance(got, dict):
            reason = decl_record(w, row, got)
            if reason is None and should is False:
                reason = 'the row does not match the transcript (exons / intron within tolerance) but a record is produced'
        elif reason is None and should is True:
            reason = 'the row matches the transcript but is rejected with %s' % got
        if reason:
            report('parseCIRCexplorer %s %s:%d-%d sizes %s offsets %s on %s (%s strand, sr=%s er=%s): %s' % (
                row['type'], row['chrom'], row['start'], row['end'], row['sizes'], row['offsets'], row['tx'], g['strand'],
                c['sr'], c['er'], reason[:300]), c, ri)
        elif got != exp:
            st['disagreements'] += 1
            report('convert_to_circ_rna differs from the proved model on %s %s:%d-%d (%s): implementation %s, model %s; the '
                   'declarative statement holds on this output' % (row['type'], row['chrom'], row['start'], row['end'], row['tx'],
                   json.dumps(got)[:200], json.dumps(exp)[:200]), c, ri, no_input=True)
    # CLI
    for (ci, ri), m in zip(idx, model):
        if ri != 'cli':
            continue
        c, r = cases[ci], impl[ci]
        if isinstance(r, dict) and '__exc__' in r or 'cli' not in r:
            continue
        st['evaluations'] += 1
        w = c['world']
        cli = r['cli']
        if m == []:
            ok = isinstance(cli, dict) and '__exc__' in cli
            why = 'the model run aborts (an error other than Exon/IntronNotFound) but the CLI returned %s' % json.dumps(cli)[:200]
        elif isinstance(cli, dict) and '__exc__' in cli:
            ok, why = False, 'the CLI raised %s where the model run completes' % cli['__exc__']
        else:
            emitted, total, insuff, invalid = m
            # order: genes by rank (order of the GTF), records of one gene in input order
            rank = {g['id']: i for i, g in enumerate(w['genes'])}
            exp_recs = []
            for k, cv in emitted:
                row = c['rows'][k]
                e = expected_record(w, row, cv)
                e['seq'] = O.U(O.call('c17_circ_seq', [G.gene_seq(w, find_tx(w, row['tx'])[0]), cv[0]])) if False else None
                exp_recs.append((rank[e['gene']], k, e))
            exp_recs.sort(key=lambda x: (x[0], x[1]))
            want_lines = [e['gvf'] for _, _, e in exp_recs]
            got_recs = cli['records'] or []
            got_lines = [x['line'] for x in got_recs]
            ok = want_lines == got_lines
            why = 'GVF lines differ: got %s want %s' % (json.dumps(got_lines)[:300], json.dumps(want_lines)[:300])
            if ok:
                # records parsed back from the GVF denote the same fragments and the same circular sequence
                for (_, k, e), x in zip(exp_recs, got_recs):
                    lib = exp_by_case.get(ci, {}).get(k)
                    if x['frags'] != e['frags'] or (isinstance(lib, dict) and x.get('seq') != lib.get('seq')):
                        ok, why = False, 'record read back from the GVF differs: %s vs %s' % (json.dumps(x)[:200], json.dumps(e)[:200])
                        break
            if ok:
                ta = cli['tally']
                want_t = {'total': total, 'skipped': insuff + invalid}
                if insuff + invalid > 0:
                    want_t.update({'invalid': invalid, 'insufficient': insuff})
                got_t = {k: ta.get(k) for k in want_t}
                if got_t != want_t:
                    ok, why = False, 'tally %s differs from %s' % (json.dumps(ta), json.dumps(want_t))
        bump('cli/%s' % ('ok' if ok else 'diff'))
        if not ok:
            st['disagreements'] += 1
            report('moPepGen.cli.parse_circexplorer: ' + why, c, None)
    # real argument parser vs hand-built Namespace: same GVF (or the same exception class)
    st['argv_route_runs'] = 0
    for c, r in zip(cases, impl):
        if not (isinstance(r, dict) and 'cli_argv' in r):
            continue
        st['argv_route_runs'] += 1
        av, hv = r['cli_argv'], r.get('cli_hand')
        av = {'__exc__': av['__exc__']} if isinstance(av, dict) else av
        hv = {'__exc__': hv['__exc__']} if isinstance(hv, dict) else hv
        if av != hv:
            report('parseCIRCexplorer through the real argument parser (%s%s%s) gives %s, the entry function called with the same '
                   'options gives %s' % ('--circexplorer3 ' if c['ce3'] else '', '--index-dir' if c.get('argv_index') else 'reference files',
                                          ' --skip-failed' if c.get('skip_failed') else '', str(r['cli_argv'])[:200], str(hv)[:200]), c, None)
    st['correspondence_breaks'] = seen_corr
    viol.sort(key=lambda v: v['no_input'])
    return viol, st

# ------------------------------------------------------------------ driver
EDIT_STATS = {}

def gen_cases(ctx):
    rng = ctx.rng
    EDIT_STATS.clear()
    n_world = 200 if ctx.quick else 1500
    cases = []
    for wi in range(n_world):
        w = G.gen_world(rng, small=True, n_chrom=1, max_genes=3)
        if wi % 2 == 1:
            edit_exons(rng, w, EDIT_STATS)
        # both CIRCexplorer formats on every world
        cases.append(gen_case(rng, w, ce3=False))
        cases.append(gen_case(rng, w, ce3=True))
        if wi % 4 == 0:
            cases.append(gen_case(rng, w, malformed=True))
    return cases

def run(ctx):
    cases = []
    for f in sorted(glob.glob(os.path.join(ROOT, 'corpus', 'C17', '*.json'))):
        try:
            obj = json.load(open(f))
            if obj.get('kind') == 'case':
                cases.append(obj['case'])
        except Exception:   # noqa
            pass
    n_corpus = len(cases)
    cases += gen_cases(ctx)
    # a small stream through the REAL argument parser (harness/impl/_argv_route.py): CE2 and CE3 layouts, every option
    # on the command line (thresholds, ranges, --source, --reference-source / --index-dir, --skip-failed)
    k = 0
    for i, c in enumerate(cases[n_corpus:]):
        if i % 8 == 0:
            c['argv'] = True
            c['skip_failed'] = (k % 2 == 1)
            if k in (0, 1, 2):
                c['argv_index'] = True
            k += 1
    viol, st = evaluate(ctx, cases)
    samples = [{k: r[k] for k in ('tx', 'start', 'end', 'sizes', 'offsets', 'type', 'reads', 'kind')} for r in cases[n_corpus]['rows'][:4]]
    return dict(
        evaluations=st['evaluations'], distinct_nontrivial=len(st['nontrivial']),
        rule='one evaluation = one CIRCexplorer row through parse/is_valid/convert_to_circ_rna (plus one per CLI run); non-trivial = '
             'the implementation produced a CircRNAModel for the row; rows are distinct by (world, transcript, blocks, thresholds)',
        samples=samples, distribution=dict(sorted(st['dist'].items())), disagreements=st['disagreements'],
        declarative_checked=st['declarative_checked'], argv_route_runs=st.get('argv_route_runs', 0), corpus_cases=n_corpus, cases=len(cases),
        correspondence_breaks=st['correspondence_breaks'], exon_edits=dict(EDIT_STATS), violations=viol,
        assumptions=['transcript strand = gene strand (FeatureLocation comparisons are modelled at equal strand)',
                     'FPBcirc / circscore and their thresholds are decimal numbers with at most 3 decimals (modelled as integers x1000)',
                     'isoformName exists in the annotation (an unknown transcript raises KeyError and aborts the run)'],
        trusted_base=['harness/lib/gen_reference.py ground truth (gene_seq, g2gene) used by the declarative checks',
                      'rendering of rows as CIRCexplorer table lines in harness/impl/c17.py; tally read from the log messages'])

def replay(ctx, obj):
    c = obj['case'] if 'case' in obj else obj['example']
    viol, st = evaluate(ctx, [c])
    return dict(violations=viol)

def search_failing_input(ctx, broken):
    viol, st = evaluate(ctx, gen_cases(ctx)[:40])
    for v in viol:
        if not v.get('no_input'):
            return dict(v['replay_obj'], what=v['what'])
    return None
