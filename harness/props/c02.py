"""C02 correspondence: soundness of callVariant against the proved specification (Model/Spec.v).

  every FASTA sequence p satisfies  realizable x p  for a transcript x carrying records
  (realizable is proved equivalent to the property's existential statement: realizable_iff)

The runs use BINDING complexity limits (max-variants-per-node in {1,2,3,7}, additional-variants-per-misc
in {0,1,2}) and varied collapse knobs; each case is also run with the limits disabled and the limited
output must be a subset of the unlimited one (limits only remove peptides).
Streams as in C01 (core / excon / nola / wide).  Known findings are classified by signature:
  D14   (exception ON) the peptide is realizable under the relaxed semantics in which every
        exception-suppressed site may or may not count as a cleavage site (realizable_relaxed)
  D14b  (pepsin) the peptide is a contiguous part of a permitted haplotype translation
Any other unrealizable peptide is a VIOLATION with the input as replay.
"""
import json, os, glob, collections
from harness.lib import oracle as O, cvgen as CG, cvcheck as CK
from harness.lib import cvgen2 as CG2, cvcheck2 as CK2      # alternative-splicing / circRNA streams
from harness.props import c01 as C01
from harness.lib import cvgen_fus as CF

PROPERTY = 'C02'
ROOT = os.path.dirname(os.path.dirname(os.path.dirname(os.path.abspath(__file__))))

def sizes(ctx):
    if ctx.quick:
        return dict(core=260, excon=110, nola=30, wide=24, retry=90, flags=50, fusion=70, altsplice=400, circ=250, graph=300, fuscirc=20)
    return dict(core=15000, excon=6000, nola=800, wide=800, retry=3000, flags=3000, fusion=3000, altsplice=4000, circ=3000, graph=6000, fuscirc=600)

def limited(rng, base):
    return dict(base, mvpn=rng.choice([1, 2, 3, 7]), avpm=rng.choice([0, 1, 2]),
                mnc=rng.choice([2, 5, 30]), naa=rng.choice([1, 3, 5]))

def gen_cases(ctx):
    rng = ctx.rng
    rc = CK.rule_classes()
    n = sizes(ctx)
    la_other = [r for r in rc['la'] if r != 'trypsin']
    cases = []
    nvars = [2, 3, 3, 4, 4, 5] if ctx.quick else [2, 3, 4, 5, 6, 7, 7]      # quick: at most 5 records per cluster
    def add(stream, rule, exc_on, coding_p, pair):
        c = CG.gen_case(rng, coding_p=coding_p, nvar=rng.choice(nvars))
        base = CG.gen_run(rng, rule=rule, exc_on=exc_on)
        lim = limited(rng, base)
        c['runs'] = [lim, dict(base, skip_oracle=True)] if pair else [lim]
        c['stream'] = stream
        cases.append(c)
    for i in range(n['core']):
        add('core', 'trypsin' if rng.random() < 0.6 else la_other[i % len(la_other)], False, 0.75, rng.random() < 0.6)
    for i in range(n['excon']):
        add('excon', 'trypsin', True, 0.8, False)
    for i in range(n['nola']):
        add('nola', rc['nola'][i % len(rc['nola'])], False, 0.75, False)
    for i in range(n['wide']):
        add('wide', rc['wide'][i % len(rc['wide'])], False, 0.75, False)
    for i in range(n.get('flags', 0)):
        sect, w2f = rng.choice([(True, False), (False, True), (True, True)])
        c = CG.gen_twosec_case(rng) if (sect and rng.random() < 0.4) else CG.gen_case(rng, coding_p=0.85, nvar=rng.choice([2, 3, 4, 5, 6]))
        c['runs'] = [limited(rng, CG.gen_run(rng, rule='trypsin', exc_on=False, sect=sect, w2f=w2f))]
        if w2f and CK.max_w_run(c, c['runs'][0], c['runs'][0]['max_len']) > 6:
            c['runs'][0].update(w2f=False, extra=[e for e in c['runs'][0]['extra'] if e != '--w2f-reassignment'])   # 2^w images: keep w <= 6
            if not c['runs'][0]['sect']:
                c['runs'][0].update(sect=True, extra=['--selenocysteine-termination'])
        c['stream'] = 'flags'
        cases.append(c)
    # fusion transcripts (Model/SpecFusion.v): donor[:bp] ++ acceptor[bp':], exonic breakpoints
    for i in range(n.get('fusion', 0)):
        c = CF.gen_fusion_case2(rng)
        c['runs'] = [limited(rng, CG.gen_run(rng, rule='trypsin' if rng.random() < 0.7 else la_other[i % len(la_other)], exc_on=False))]
        c['stream'] = 'fusion'
        cases.append(c)
    for i in range(n.get('fuscirc', 0)):
        c = CF.gen_fusion_circ_case(rng)
        c['runs'] = [limited(rng, CG.gen_run(rng, rule='trypsin', exc_on=False))]
        c['stream'] = 'fuscirc'
        cases.append(c)
    # retry clause: the first n attempts of every transcript are made to time out (inside the worker only)
    for i in range(n.get('retry', 0)):
        c = CG.gen_case(rng, coding_p=0.75, nvar=rng.choice([2, 3, 4, 5, 6]))
        base = CG.gen_run(rng, rule='trypsin', exc_on=False)
        kind = rng.choice(['sorted', 'sorted', 'sorted', 'unsorted', 'single', 'disabled'])
        if kind == 'single':
            mvs, avs = [rng.choice([1, 2, 3, 7])], [rng.choice([0, 1, 2])]
        elif kind == 'disabled':
            mvs, avs = [-1], [rng.choice([-1, 2])]
        else:
            mvs = rng.sample([7, 5, 4, 3, 2, 1], rng.choice([2, 3]))
            avs = rng.sample([2, 1, 0], rng.choice([1, 2, 3]))
            if kind == 'sorted':
                mvs.sort(reverse=True); avs.sort(reverse=True)
        nto = rng.choice([0, 1, 1, 2, 2, 3, 4, 8])
        first_only = rng.random() < 0.4
        knobs = dict(mnc=rng.choice([2, 5, 30]), naa=rng.choice([1, 3, 5]))
        c['runs'] = [dict(base, mvpn=mvs, avpm=avs, force_timeouts=nto, force_first_only=first_only, **knobs),
                     dict(base, mvpn=mvs[0], avpm=avs[0], skip_oracle=True, **knobs)]
        c['stream'] = 'retry'
        c['tuple_kind'] = kind
        cases.append(c)
    cases += altsplice_cases(ctx, n.get('altsplice', 0), la_other)
    cases += circ_cases(ctx, n.get('circ', 0), la_other)
    return cases

def corpus_cases():
    out = []
    for f in sorted(glob.glob(os.path.join(ROOT, 'corpus', 'C02', '*.json'))):
        o = json.load(open(f))
        c = o['case']
        c['stream'] = 'corpus:' + os.path.basename(f)
        c['repeat'] = o.get('repeat', 1)
        out.append(c)
    return out

def judge(evs, violations, stats):
    by_case = collections.defaultdict(list)
    for ev in evs:
        by_case[ev.ci].append(ev)
        st = ev.case.get('stream', '?').split(':')[0]
        stats['runs:' + st] += 1
        if ev.exc:
            if st == 'retry' and ev.run.get('force_timeouts') is not None and ev.exc['__exc__'] == 'ValueError':
                pass                                 # judged against the model of caller_reducer in judge_retry
            elif CK.is_fusion_align_crash(ev):
                # nothing is emitted (soundness holds vacuously) but the abort is reported as the known finding it
                # is, so that a replay of such a case shows a known hit instead of passing silently
                stats['fusion_align_crash'] += 1
                violations.append({'what': 'callVariant aborts while fitting the fusion graph into codons (IndexError in align_variants): nothing is emitted',
                                   'replay_obj': CK.replay_obj(ev, 'crash'), 'no_input': False, 'finding': CK.F_FUSALIGN})
            elif CK.is_nola_crash(ev):
                stats['nola_crash'] += 1
                violations.append({'what': 'callVariant aborts in create_cleavage_graph (IndexError in move_downstreams, rule %s): nothing is emitted' % ev.run['rule'],
                                   'replay_obj': CK.replay_obj(ev, 'crash'), 'no_input': False, 'finding': CK.F_NOLACRASH})
            elif CK.is_fusion_crash(ev):
                stats['fusion_crash'] += 1
                violations.append({'what': 'callVariant aborts while building the fusion graph (ValueError in expand_alignments): nothing is emitted',
                                   'replay_obj': CK.replay_obj(ev, 'crash'), 'no_input': False, 'finding': CK.F_FUSCRASH})
            else:
                violations.append({'what': 'callVariant aborted with %s (%s)' % (ev.exc['__exc__'], ev.exc.get('msg', '')[:120]),
                                   'replay_obj': CK.replay_obj(ev, 'crash'), 'no_input': False})
            continue
        if ev.run.get('skip_oracle'):
            continue
        stats['out_peptides'] += len(ev.got)
        stats['checked_peptides'] += len(ev.got)
        stats['slack_may_minus_out'] += len(ev.may_novel - set(ev.got))
        stats['slack_out_minus_must'] += len(set(ev.got) - ev.must)
        if ev.got:
            stats['nontrivial'] += 1
        groups = collections.defaultdict(list)
        for p, tag in ev.extra.items():
            groups[tag].append(p)
        for tag, ps in groups.items():
            stats['unrealizable:%s' % (tag or 'UNEXPLAINED')] += len(ps)
            v = {'what': 'FASTA sequence(s) %s not realizable by any compatible combination of the supplied records (%s, rule %s, exception %s, k=%d, mvpn=%s, avpm=%s)' % (
                     sorted(ps)[:4], ev.case.get('stream'), ev.run['rule'], ev.run['exc'], ev.run['k'], ev.run['mvpn'], ev.run['avpm']),
                 'replay_obj': CK.replay_obj(ev, 'unrealizable', {'unrealizable': sorted(ps)}), 'no_input': False}
            if tag:
                v['finding'] = tag
            violations.append(v)
    # retry clause (caller_reducer): limits per attempt = model, result subset of the un-timed-out run
    for ci, es in by_case.items():
        if es[0].case.get('stream') != 'retry':
            continue
        judge_retry(es, violations, stats)
    # limits only remove peptides (exception off, deterministic part)
    for ci, es in by_case.items():
        if len(es) < 2 or any(e.exc for e in es) or es[0].case.get('stream') == 'retry':
            continue
        lim, unl = es[0], es[1]
        stats['limit_pairs'] += 1
        if set(lim.got) != set(unl.got):
            stats['limit_pairs_binding'] += 1
        added = set(lim.got) - set(unl.got)
        unexplained = [p for p in added if not C01.explain_diff(lim, p)]
        if unexplained:
            violations.append({'what': 'binding complexity limits ADD peptides %s (mvpn=%s, avpm=%s vs disabled)' % (
                                   sorted(unexplained)[:4], lim.run['mvpn'], lim.run['avpm']),
                               'replay_obj': {'kind': 'case', 'what': 'limits', 'case': dict(CK.strip_case(lim.case), runs=[lim.run, unl.run])},
                               'no_input': False})
        elif added:
            stats['limit_added_known'] += 1

def _tight(a, b):
    return b < 0 or (0 <= a <= b)

def judge_retry(es, violations, stats):
    a = es[0]
    run = a.run
    pairs, failed = O.call('c02_retry', [run['mvpn'], run['avpm'], run['force_timeouts']])
    pairs = [list(p) for p in pairs]
    stats['retry_cases'] += 1
    stats['retry_failed_expected'] += bool(failed)
    log = a.raw.get('attempts', [])
    by_tx = collections.OrderedDict()
    for tx, mv, av in log:
        by_tx.setdefault(tx, []).append([mv, av])
    def viol(what):
        violations.append({'what': 'retry (caller_reducer) %s; tuples mvpn=%s avpm=%s, %d forced timeouts' % (
                               what, run['mvpn'], run['avpm'], run['force_timeouts']),
                           'replay_obj': {'kind': 'case', 'what': 'retry', 'case': dict(CK.strip_case(a.case), runs=[e.run for e in es])},
                           'no_input': False})
    if not log and not a.exc:
        stats['retry_nothing_dispatched'] += 1        # no transcript reached caller_reducer (all records dropped)
        return
    if failed:
        if not a.exc or a.exc.get('__exc__') != 'ValueError':
            viol('should end in ValueError after %d attempts but %s' % (len(pairs), 'raised ' + a.exc['__exc__'] if a.exc else 'returned normally'))
        elif by_tx and list(by_tx.values())[0] != pairs:
            viol('limits per attempt %s differ from the model %s' % (list(by_tx.values())[0], pairs))
        return
    if a.exc:
        if a.exc.get('__exc__') == 'ValueError':
            viol('raised ValueError although the model expects the attempt with limits %s to run' % pairs[-1])
        return            # other classes are reported by the generic part
    first_only = bool(run.get('force_first_only'))
    for n_tx, (tx, seq) in enumerate(by_tx.items()):
        stats['retry_sequences'] += 1
        expect = pairs if (n_tx == 0 or not first_only) else pairs[:1]
        if seq != expect:
            viol('limits per attempt for %s are %s, model says %s%s' % (
                     tx, seq, expect, ' (a LATER transcript: the limits reduced for the first one leaked)' if n_tx and first_only else ''))
            return
    if first_only and len(by_tx) >= 2 and len(es) > 1 and not es[1].exc:
        # only the first transcript timed out: every later transcript must give what it gives without any timeout
        stats['retry_later_tx_checked'] += 1
        def per_tx(ev):
            d = collections.defaultdict(set)
            for sq, ents in ev.got.items():
                for e in ents:
                    d[e.split('|')[0]].add(sq)
            return d
        da, db = per_tx(a), per_tx(es[1])
        for tx in list(by_tx)[1:]:
            diff = [p for p in (da[tx] ^ db[tx]) if not C01.explain_diff(a, p)]
            if diff:
                viol('transcript %s (not timed out) yields %s differently after an EARLIER transcript was retried' % (tx, sorted(diff)[:4]))
                return
    if len(es) > 1 and not es[1].exc:
        b = es[1]
        sorted_tuples = all(_tight(y, x) for x, y in zip(run['mvpn'], run['mvpn'][1:])) and \
                        all(_tight(y, x) for x, y in zip(run['avpm'], run['avpm'][1:]))
        if sorted_tuples or run['force_timeouts'] == 0:
            stats['retry_subset_checked'] += 1
            added = [p for p in set(a.got) - set(b.got) if not C01.explain_diff(a, p)]
            if added:
                viol('after %d timeouts the output has peptides %s that the un-timed-out run with the initial limits lacks' % (
                         run['force_timeouts'], sorted(added)[:4]))

def run(ctx):
    stats = collections.Counter()
    violations = []
    corp = corpus_cases()
    if corp:
        rep = []
        for c in corp:
            rep += [c] * c.get('repeat', 1)
        judge(CK2.run_batch(ctx, rep, tag='c02c'), violations, stats)
        seen = set(); uniq = []
        for v in violations:
            k = (v.get('finding'), json.dumps(v['replay_obj'], sort_keys=True))
            if k not in seen:
                seen.add(k); uniq.append(v)
        violations = uniq
    cases = gen_cases(ctx)
    stream_wall = CK2.run_streams(ctx, cases, judge, violations, stats, want_may=True, tag='c02')
    keep, cnt = [], collections.Counter()
    for v in violations:
        if v.get('finding'):
            cnt[v['finding']] += 1
            if cnt[v['finding']] > 40:
                continue
        keep.append(v)
    CK.annotate_stability(ctx, [v for v in keep if not CK2.is_ext(v.get('replay_obj', {}).get('case', {}))], judge, want_may=True)
    graph_ev = graph_stream(ctx, sizes(ctx).get('graph', 0), keep, stats, stream_wall, cnt)      # stream 'graph' (appended below)
    samples = [dict(CK.strip_case(c), world='<omitted>') for c in cases[:3]]
    return dict(graph_stage=graph_ev, evaluations=sum(v for k, v in stats.items() if k.startswith('runs:')),
                distinct_nontrivial=stats['nontrivial'],
                rule='one evaluation = one callVariant run with binding complexity limits; every emitted sequence is tested '
                     'with the proved decider realizable; non-trivial = the run emitted at least one peptide',
                samples=samples, distribution=CK.dist_of(cases), distribution_ext=CK2.dist_of([c for c in cases if CK2.is_ext(c)]), stats=dict(stats),
                slack={'may_novel_minus_out': stats['slack_may_minus_out'], 'out_minus_must': stats['slack_out_minus_must'],
                       'out_peptides': stats['out_peptides']},
                known_finding_counts=dict(cnt), engine_tied_by='correspondence', stream_wall_s=stream_wall,
                violations=keep,
                assumptions=['records are SNV / MNV / INDEL on linear transcripts, fusions with exonic breakpoints, alternative-splicing <DEL>/<INS>/<SUB> records (stream altsplice) and circRNA records (stream circ); fusion with intronic breakpoints and AS combined with fusion / circRNA are not generated: property partial for them',
                             'timeouts are forced inside the worker process (monkeypatched call_variant_peptides_wrapper), real SIGALRM timeouts are not exercised',
                             'gene -> transcript coordinates by the generator\'s ground truth; mass thresholds off the 1e-4 grid',
                             '<= 7 records per cluster'],
                trusted_base=['glue coq/Extract/Api_Spec.v, Api_SpecAS.v, Api_SpecCirc.v', 'case generators harness/lib/cvgen.py, cvgen2.py (gene -> transcript / donor / fragment coordinates by ground truth) and signature predicates harness/lib/cvsig.py, cvsig2.py'])

def replay(ctx, obj):
    if obj.get('what') == 'graph':
        return graph_replay(ctx, obj)
    c = obj['case']
    c['stream'] = 'core' if obj.get('what') == 'limits' else obj.get('what', 'replay')
    if obj.get('what') == 'retry' and len(c['runs']) > 1:
        c['runs'][1]['skip_oracle'] = True
    if obj.get('what') == 'limits' and len(c['runs']) > 1:
        c['runs'][1]['skip_oracle'] = True
    n = int(obj.get('repeat', 4))
    stats = collections.Counter(); violations = []
    judge(CK2.run_batch(ctx, [json.loads(json.dumps(c)) for _ in range(n)], tag='c02r'), violations, stats)
    seen = set(); out = []
    for v in violations:
        k = (v.get('finding'), v['what'])
        if k not in seen:
            seen.add(k); out.append(v)
    return dict(violations=out)


# ------------------------------------------------------------------ appended: alternative splicing / circRNA
def altsplice_cases(ctx, n, la_other):
    """stream 'altsplice' (Model/SpecAS.v): 1-3 <DEL>/<INS>/<SUB> records on one transcript + small records at the
    event boundaries; in half of the cases also inside the donor segments (known finding C02-as-donor-record).
    Every FASTA sequence must be realizable on a transcript (linear oracle) or on the transcript carrying a
    compatible combination of the AS records (realizable_as)."""
    rng = ctx.rng
    out = []
    for i in range(n):
        # 3/4 random geometry; 1/4 designed (round-3 seeds C02-8, C01-7): a record straddling / abutting an end of the
        # donor window (it cannot be applied to the inserted piece), a frameshift inside the donor + a record behind the event
        x = rng.random()
        if x < 0.75:
            c = CG2.gen_as_case(rng, nvar=rng.choice([0, 1, 2, 2, 3, 3, 4] if ctx.quick else [0, 1, 2, 3, 3, 4, 5]))
        else:
            c = CG2.gen_as_design_case(rng, 'straddle' if x < 0.9 else ('abut' if x < 0.95 else 'shift'))
        c['runs'] = [limited(rng, CG.gen_run(rng, rule='trypsin' if rng.random() < 0.7 else la_other[i % len(la_other)], exc_on=False))]
        c['stream'] = 'altsplice'
        out.append(c)
    return out

def circ_cases(ctx, n, la_other):
    """stream 'circ' (Model/SpecCirc.v): circRNA records (exon / retained-intron fragments) + small records"""
    rng = ctx.rng
    out = []
    for i in range(n):
        # 3/5 random circles; 2/5 designed (round-3 seeds C02-7, C05-6): the only ATG of the circle behind a K/R codon
        # with an SNV on one of its bases, two alleles at one site, ORFs that pass the site in every turn
        x = rng.random()
        c = CG2.gen_circ_case(rng) if x < 0.6 else CG2.gen_circ_design_case(rng, 'onlyatg' if x < 0.9 else 'starts')
        c['runs'] = [limited(rng, CG.gen_run(rng, rule='trypsin' if rng.random() < 0.7 else la_other[i % len(la_other)], exc_on=False))]
        c['stream'] = 'circ'
        out.append(c)
    return out


# ------------------------------------------------------------------ appended: graph-stage correspondence (docs/absgraph.md)
from harness.lib import cvgraph as GR

def graph_stream(ctx, n, violations, stats, stream_wall, cnt):
    """stream 'graph': callVariant is run with --graph-output-dir; the dumped TVG / PVG of every transcript (and the
    snapshots between the stages) are converted to the encoding of Model/AbsGraph.v and checked by the extracted
    Coq functions against Spec.apply_hap / must_haps (bubbles), the codon-wise translation, and Digest.sites
    (cleavage).  A failure names the stage; known findings D14 / D14b are recognised by the boundary verdict."""
    if not n:
        return {}
    vs = []
    gstats = collections.Counter()
    cases, wall = GR.run_stream(ctx, n, vs, gstats)
    stream_wall['graph'] = wall
    for v in vs:
        if v.get('finding'):
            cnt[v['finding']] += 1
            if cnt[v['finding']] > 40:
                continue
        violations.append(v)
    stats['runs:graph'] += gstats['runs:graph']
    stats['nontrivial'] += gstats['nontrivial']
    return {'stats': dict(gstats), 'wall_s': wall, 'max_paths_per_graph': GR.MAX_PATHS,
            'skipped_graphs_too_many_paths': gstats['skipped_too_many_paths'],
            'stages': list(GR.STAGES),
            'not_checkable_from_dump': 'PVG node flags truncated / cleavage / npop_collapsed and the stop sink are not part of jsonfy(): '
                                       'with node collapsing active the boundary check is "every site is a boundary" only'}

def graph_replay(ctx, obj):
    return GR.replay(ctx, obj, reps=int(obj.get('repeat', 2)))
