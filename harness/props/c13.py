"""C13 correspondence: GVF codec (VariantRecord.to_string / seqvar.io.line_to_variant_record, circRNA
codec), indexGVF, GVFIndex.iterate_pointer, VariantRecordPoolOnDisk  vs  Model/Gvf.v (extracted).

Streams
  wpw        well-formed records of every kind x attribute combinations: write -> parse -> write
  wpw_bad    ill-formed records (empty attrs, quotes, '=' / ';' in a value, missing END, ...): behaviour only
  parse      raw (mutated) lines through line_to_variant_record / line_to_circ_model: record or error class
  circ       circRNA models: write -> parse -> write                       (D6 lives here)
  pool       1-4 files (variant or circRNA), interleaved transcript ids, with/without .idx (real indexGVF
             entry point), edit-after-index histories (append / reorder / one byte / drop / none), absent keys

Every disagreement between model and implementation is decided with the property's own statement
evaluated on the implementation's outputs (declarative Python checks below, independent of the model):
  T  second write is byte-identical to the first;  K  per key: records through pointers == records of a
  linear scan;  S  an .idx whose checksum does not belong to the file content is rejected with an error.
"""
import json, hashlib, copy
from harness.lib import oracle as O, impl as I

PROPERTY = 'C13'
ERR = {1: 'ValueError', 2: 'KeyError', 3: 'IndexError', 4: 'TypeError', 5: 'UnicodeDecodeError'}
POS_KEYS = ['START', 'DONOR_START', 'ACCEPTER_START', 'ACCEPTER_POSITION']   # only used to bias generation

# ------------------------------------------------------------------ encoding
def enc_aval(v):
    if isinstance(v, bool):
        return [0, str(v)]
    if isinstance(v, int):
        return [1, v]
    if isinstance(v, list):
        return [2, [str(x) for x in v]]
    return [0, v]

def enc_rec(r):
    # attrs is a Python dict on the implementation side: a repeated key keeps its first position and
    # takes the last value; the model receives the same dict, as an association list
    d = {}
    for k, v in r['attrs']:
        d[k] = v
    return [r['seqname'], r['start'], r['end'], r['ref'], r['alt'], r['type'], r['id'],
            [[k, enc_aval(v)] for k, v in d.items()]]

def dec_aval(a):
    t, p = a
    if t == 1:
        return p
    if t == 2:
        return [O.U(x) for x in p]
    return O.U(p)

def dec_rec(v):
    return {'seqname': O.U(v[0]), 'start': v[1], 'end': v[2], 'ref': O.U(v[3]), 'alt': O.U(v[4]),
            'type': O.U(v[5]), 'id': O.U(v[6]), 'attrs': [[O.U(k), dec_aval(a)] for k, a in v[7]]}

def enc_circ(c):
    return [c['tx'], [list(f) for f in c['frags']], list(c['intron']), c['id'], c['gene_id'], c['gene_name'], c['genomic']]

def dec_circ(v):
    return {'tx': O.U(v[0]), 'frags': [list(f) for f in v[1]], 'intron': list(v[2]), 'id': O.U(v[3]),
            'gene_id': O.U(v[4]), 'gene_name': O.U(v[5]), 'genomic': O.U(v[6])}

def dec_res(v, f):
    code, payload = v
    if code != 0:
        return {'__exc__': ERR.get(code, '?')}
    return f(payload)

def dec_any(v):
    return ['circ', dec_circ(v[1])] if v[0] == 1 else ['var', dec_rec(v[1])]

def canon_exc(x):
    if isinstance(x, dict) and '__exc__' in x:
        return {'__exc__': x['__exc__']}
    return x

# ------------------------------------------------------------------ generators
import os, re, glob as _glob
_REPO = os.environ.get('VERIF_REPO', '/repo')
_KEYS = None

def key_pools():
    """(shifted, real, synthetic): attribute keys harvested from the CURRENT source text of the repo.
    shifted  = constant.ATTRS_POSITION (only used to decide which generated values must be integers)
    real     = every upper-case key the code reads or writes in an attrs dict (attrs['K'], attrs.get('K'), 'K': ...)
    synthetic= prefix / suffix / near-miss variations of the shifted keys and of END / POSITION / START"""
    global _KEYS
    if _KEYS is not None:
        return _KEYS
    shifted = ['START', 'DONOR_START', 'ACCEPTER_START', 'ACCEPTER_POSITION']
    try:
        src = open(os.path.join(_REPO, 'moPepGen', 'constant.py')).read()
        m = re.search(r'ATTRS_POSITION\s*=\s*\[([^\]]*)\]', src)
        if m:
            shifted = re.findall(r"['\"]([^'\"]+)['\"]", m.group(1)) or shifted
    except OSError:
        pass
    real = set()
    for f in _glob.glob(os.path.join(_REPO, 'moPepGen', '**', '*.py'), recursive=True):
        try:
            src = open(f).read()
        except OSError:
            continue
        real.update(re.findall(r"attrs\[\s*['\"]([A-Z][A-Z_0-9]+)['\"]\s*\]", src))
        real.update(re.findall(r"attrs\.get\(\s*['\"]([A-Z][A-Z_0-9]+)['\"]", src))
        real.update(re.findall(r"['\"]([A-Z][A-Z_0-9]{3,})['\"]\s*:", src))
    real.update(['LEFT_INSERT_START', 'LEFT_INSERT_END', 'RIGHT_INSERT_START', 'RIGHT_INSERT_END', 'ACCEPTER_GENE_ID',
                 'ACCEPTER_TRANSCRIPT_ID', 'ACCEPTER_SYMBOL', 'ACCEPTER_POSITION', 'ACCEPTER_GENOMIC_POSITION', 'DONOR_START',
                 'DONOR_END', 'DONOR_GENE_ID', 'GENOMIC_POSITION', 'GENE_SYMBOL', 'COORDINATE', 'START', 'END'])
    real -= {'TRANSCRIPT_ID'}
    syn = set()
    for b in list(shifted) + ['END', 'DONOR_END', 'POSITION', 'START', 'ACCEPTER_END', 'LENGTH', 'OFFSET']:
        syn.update(['X_' + b, b + '_X', b + '2', b + 'S', b[:-1], b[1:], 'LEFT_INSERT_' + b, 'INSERT' + b, b + '_POSITION',
                    b + '_START', b + '_END', 'MY' + b, b.replace('_', '') or 'Q', b + '_', '_' + b])
    syn = {k for k in syn if re.fullmatch(r'[A-Z_0-9]+', k)} - {'TRANSCRIPT_ID'}
    _KEYS = (list(shifted), sorted(real), sorted(syn))
    return _KEYS

UNI = 'éüñßøΩжλ中文日本🧬\u2028'        # 2-, 3- and 4-byte UTF-8 letters (and one non-ASCII separator)
# code points that str.splitlines() treats as line boundaries but that are ordinary field content for the GVF
# reader (only LF ends a record; CR cases as modelled): each is used, in rotation, in every stream
LINE_BREAK_LIKE = '\u2028\u2029\x85\x0c\x0b\x1c\x1d\x1e'
_LB = [0]

LB_BYTES = [ch.encode('utf-8').decode('latin-1') for ch in LINE_BREAK_LIKE]

def lbword(rng):
    """a word with one line-break-like code point strictly inside (never leading or trailing)"""
    ch = LINE_BREAK_LIKE[_LB[0] % len(LINE_BREAK_LIKE)]
    _LB[0] += 1
    return word(rng, 1, 4) + ch + word(rng, 1, 4)

def uword(rng, lo=1, hi=8):
    """a word with non-ASCII letters"""
    return ''.join(rng.choice(UNI[:-1]) if rng.random() < 0.4 else rng.choice(ALNUM) for _ in range(rng.randint(lo, hi)))

def adversarial_attr(rng):
    shifted, real, syn = key_pools()
    k = rng.choice(real) if rng.random() < 0.5 else rng.choice(syn)
    if k in shifted or rng.random() < 0.6:
        z = rng.randint(0, 10 ** rng.randint(0, 7))
        v = z if rng.random() < 0.5 else str(z)
    else:
        v = rng.choice([word(rng), uword(rng), 'chr1:%d-%d' % (rng.randint(1, 999), rng.randint(1, 999)), '', '1.5', '-', 'NA'])
    return [k, v]

ALNUM = 'ABCDEFGHIJKLMNOPQRSTUVWXYZabcdefghijklmnopqrstuvwxyz0123456789'
SAFE = ALNUM + '._-:|,/+()[] <>*'

def word(rng, lo=1, hi=8, alpha=ALNUM):
    return ''.join(rng.choice(alpha) for _ in range(rng.randint(lo, hi)))

def value(rng):
    """a well-formed attribute value: no tab/newline/;/=, no surrounding quote, no trailing white space"""
    r = rng.random()
    if r < 0.1:
        return ''
    if r < 0.2:
        return rng.randint(-5, 10 ** rng.randint(0, 12))
    if r < 0.3:
        return [word(rng) for _ in range(rng.randint(1, 3))]
    if r < 0.35:
        return rng.random() < 0.5
    if r < 0.5:
        return uword(rng, 1, 10)
    if r < 0.58:
        return lbword(rng)
    s = word(rng, 1, 12, SAFE).strip()
    return s if s else 'x'

def dna(rng, n):
    return ''.join(rng.choice('ACGT') for _ in range(n))

KINDS = ['SNV', 'INS', 'DEL', 'MNV', 'RNAEditingSite', 'Fusion', 'Insertion', 'Deletion', 'Substitution']

def gen_record(rng, tx=None, kind=None):
    kind = kind or rng.choice(KINDS)
    start = rng.choice([0, 1, 9, 99, rng.randint(0, 10 ** rng.randint(1, 7))])
    if rng.random() < 0.03:
        start = -1                      # POS 0 in the text
    gene = 'ENSG%05d.%d' % (rng.randint(1, 99999), rng.randint(1, 9))
    tx = tx or 'ENST%05d.%d' % (rng.randint(1, 99999), rng.randint(1, 9))
    posval = lambda z: z if rng.random() < 0.6 else str(z)
    attrs = []
    ref, alt, typ, end = 'A', 'T', 'SNV', start + 1
    if kind in ('SNV', 'RNAEditingSite'):
        ref, alt = dna(rng, 1), dna(rng, 1)
        typ = kind
    elif kind == 'INS':
        ref, alt, typ = dna(rng, 1), dna(rng, rng.randint(2, 6)), 'INDEL'
    elif kind == 'DEL':
        ref, alt, typ = dna(rng, rng.randint(2, 6)), dna(rng, 1), 'INDEL'
    elif kind == 'MNV':
        ref, alt, typ = dna(rng, rng.randint(2, 5)), dna(rng, rng.randint(2, 5)), 'MNV'
        if rng.random() < 0.5:
            attrs += [['INDIVIDUAL_VARIANT_IDS', [word(rng) for _ in range(2)]], ['MERGED_MNV', True]]
    elif kind == 'Fusion':
        ref, alt, typ = dna(rng, 1), rng.choice(['<FUSION>', '<FUSION>', 'N']), 'Fusion'
        attrs += [['ACCEPTER_GENE_ID', 'ENSG%05d' % rng.randint(1, 99999)],
                  ['ACCEPTER_TRANSCRIPT_ID', 'ENST%05d' % rng.randint(1, 99999)],
                  ['ACCEPTER_SYMBOL', word(rng)],
                  ['ACCEPTER_POSITION', posval(rng.randint(0, 10 ** 6))]]
        if rng.random() < 0.3:
            attrs.append(['ACCEPTER_START', posval(rng.randint(0, 999))])
    elif kind == 'Insertion':
        ref, alt, typ = dna(rng, 1), '<INS>', 'Insertion'
        ds = rng.randint(0, 10 ** 5)
        attrs += [['DONOR_GENE_ID', gene], ['DONOR_START', posval(ds)], ['DONOR_END', posval(ds + rng.randint(1, 500))],
                  ['COORDINATE', 'gene']]
    elif kind == 'Deletion':
        n = rng.randint(1, 400)
        ref, alt, typ = dna(rng, rng.choice([1, 1, n])), '<DEL>', 'Deletion'
        end = start + n
        attrs += [['START', posval(start)], ['END', posval(end)]]
    elif kind == 'Substitution':
        n = rng.randint(1, 400)
        ref, alt, typ = dna(rng, 1), '<SUB>', 'Substitution'
        end = start + n
        ds = rng.randint(0, 10 ** 5)
        attrs += [['START', posval(start)], ['END', posval(end)], ['DONOR_START', posval(ds)],
                  ['DONOR_END', posval(ds + rng.randint(1, 300))], ['DONOR_GENE_ID', gene], ['COORDINATE', 'gene']]
    if typ in ('SNV', 'RNAEditingSite', 'INDEL', 'MNV'):
        end = start + len(ref)
    elif typ in ('Fusion', 'Insertion'):
        end = start + 1
    base = []
    seqname = gene
    if rng.random() < 0.85:
        base.append(['TRANSCRIPT_ID', tx])
    else:                               # transcript coordinates: the key is the seqname
        seqname = tx
        base.append(['GENE_ID', gene])
    if rng.random() < 0.7:
        base.append(['GENE_SYMBOL', uword(rng) if rng.random() < 0.3 else lbword(rng) if rng.random() < 0.1 else word(rng)])
    if rng.random() < 0.7:
        base.append(['GENOMIC_POSITION', 'chr%d:%d-%d' % (rng.randint(1, 22), rng.randint(1, 10 ** 8), rng.randint(1, 10 ** 8))])
    shifted_, real_, syn_ = key_pools()
    reserved = set(shifted_) | set(real_) | set(syn_) | {'TRANSCRIPT_ID', 'GENE_ID'}
    for _ in range(rng.choice([0, 0, 1, 2, 3])):
        k = word(rng, 2, 10, 'ABCDEFGHIJKLMNOPQRSTUVWXYZ_0123456789')
        while k in reserved:            # keys with a meaning (END, START, ...) only enter through adversarial_attr,
            k = k + 'Q'                 # which keeps their values inside the statement's domain
        base.append([k, value(rng)])
    attrs = base + attrs
    # adversarial keys: real keys of the code base and near-misses of the shifted ones (existing keys keep their value)
    if rng.random() < 0.6:
        have = {k for k, _ in attrs}
        for _ in range(rng.randint(1, 3)):
            kv = adversarial_attr(rng)
            if kv[0] not in have and not (kv[0] == 'END' and typ in ('Deletion', 'Substitution')):
                have.add(kv[0])
                attrs.append(kv)
    if rng.random() < 0.5:
        rng.shuffle(attrs)
    seen, uniq = set(), []
    for k, v in attrs:
        if k not in seen:
            seen.add(k)
            uniq.append([k, v])
    _id = '%s-%d-%s-%s' % (typ, start + 1, ref[:3], alt.strip('<>')[:3]) if rng.random() < 0.8 else word(rng, 1, 20, SAFE).strip() or 'id'
    if rng.random() < 0.1:
        _id = _id + '-' + uword(rng, 1, 4)
    elif rng.random() < 0.06:
        _id = _id + '-' + lbword(rng)
    return {'seqname': seqname, 'start': start, 'end': end, 'ref': ref, 'alt': alt, 'type': typ, 'id': _id, 'attrs': uniq}

def rec_key(r):
    for k, v in r['attrs']:
        if k == 'TRANSCRIPT_ID':
            return v
    return r['seqname']

def gen_bad_record(rng):
    """one ill-formedness injected into a well-formed record"""
    r = gen_record(rng)
    m = rng.choice(['empty_attrs', 'quote', 'eq', 'semi', 'trail_ws', 'lower_key', 'no_end', 'end_lt', 'tab', 'nl',
                    'sect', 'w2f', 'circ', 'empty_ref', 'bad_pos_val', 'alt_lt', 'dup_key', 'list_pos', 'empty_value_last',
                    'ws_value', 'plus_pos'])
    r['_mut'] = m
    a = r['attrs']
    if m == 'empty_attrs':
        r['attrs'] = []
    elif m == 'quote':
        a[rng.randrange(len(a))][1] = rng.choice(['"q"', '"q', 'q"', '""', '"'])
    elif m == 'eq':
        a[rng.randrange(len(a))][1] = 'a=b'
    elif m == 'semi':
        a[rng.randrange(len(a))][1] = rng.choice(['a;b', 'a;', ';'])
    elif m == 'trail_ws':
        a[-1][1] = rng.choice(['x ', 'x\t', ' ', 'x\x0b', 'x\u00a0', 'x\u2003', 'x\x1f', 'x\x85', 'é\u3000'])
    elif m == 'ws_value':
        a[rng.randrange(len(a))][1] = rng.choice([' x', 'x y', 'x '])
    elif m == 'lower_key':
        a.append([rng.choice(['start', 'note', 'Donor_Start']), rng.choice(['7', 'abc', 12])])
    elif m == 'no_end':
        r.update(gen_record(rng, kind=rng.choice(['Deletion', 'Substitution'])))
        r['attrs'] = [kv for kv in r['attrs'] if kv[0] != 'END']
    elif m == 'end_lt':
        r.update(gen_record(rng, kind=rng.choice(['Deletion', 'Substitution'])))
        r['start'] = max(r['start'], 5)
        for kv in r['attrs']:
            if kv[0] == 'END':
                kv[1] = r['start'] - rng.randint(1, 5)
    elif m == 'tab':
        r['id'] = 'a\tb'
    elif m == 'nl':
        r['id'] = 'a\nb'
    elif m == 'sect':
        r.update({'type': 'SECT', 'ref': 'TGA', 'alt': '<SECT>', 'end': r['start'] + 3})
    elif m == 'w2f':
        r.update({'type': 'W2F', 'ref': 'W', 'alt': 'F', 'end': r['start'] + 1})
    elif m == 'circ':
        r.update({'type': 'circRNA', 'ref': 'A', 'alt': '<circRNA>'})
    elif m == 'empty_ref':
        r.update({'ref': '', 'end': r['start']})
    elif m == 'bad_pos_val':
        a.append(['START', rng.choice(['x', '', '1.5', '--1'])])
        r['attrs'] = [kv for i, kv in enumerate(a) if kv[0] != 'START' or i == len(a) - 1]
    elif m == 'alt_lt':
        r.update({'type': 'SNV', 'ref': 'A', 'alt': rng.choice(['<X>', '<', '<DEL>', '<INS>']), 'end': r['start'] + 1})
    elif m == 'dup_key':
        a.append([a[0][0].lower(), 'zz'])
    elif m == 'list_pos':
        a.append(['ACCEPTER_START', ['1', '2']])
        r['attrs'] = [kv for i, kv in enumerate(a) if kv[0] != 'ACCEPTER_START' or i == len(a) - 1]
    elif m == 'empty_value_last':
        a.append(['NOTE', ''])
    elif m == 'plus_pos':
        a.append(['DONOR_START', rng.choice(['+5', ' 7', '7 ', '-0', '007'])])
        r['attrs'] = [kv for i, kv in enumerate(a) if kv[0] != 'DONOR_START' or i == len(a) - 1]
    return r

def gen_circ(rng, tx=None):
    n = rng.randint(1, 6)
    start = rng.randint(0, 10 ** rng.randint(1, 6))
    frags, cur = [], start
    for _ in range(n):
        l = rng.randint(0 if rng.random() < 0.05 else 1, 300)
        frags.append([cur, cur + l])
        cur += l + rng.randint(0, 200)
    if rng.random() < 0.1:
        rng.shuffle(frags)              # first fragment need not be the left-most: offsets become negative
    intron = sorted(rng.sample(range(1, n + 1), rng.randint(0, n))) if rng.random() < 0.5 else []
    gene = 'ENSG%05d.%d' % (rng.randint(1, 99999), rng.randint(1, 9))
    tx = tx or 'ENST%05d.%d' % (rng.randint(1, 99999), rng.randint(1, 9))
    genomic = rng.choice(['', 'chr%d:%d-%d' % (rng.randint(1, 22), rng.randint(1, 10 ** 8), rng.randint(1, 10 ** 8)),
                          'chrX:%d' % rng.randint(1, 10 ** 7)])
    cid = 'CIRC-%s-%s' % (tx, '-'.join('E%d' % (i + 1) for i in range(n)))
    gname = uword(rng) if rng.random() < 0.3 else lbword(rng) if rng.random() < 0.15 else word(rng)
    if rng.random() < 0.05:
        cid = cid + '-' + lbword(rng)
    return {'tx': tx, 'frags': frags, 'intron': intron, 'id': cid, 'gene_id': gene, 'gene_name': gname, 'genomic': genomic}

def mutate_line(rng, line):
    ops = rng.randint(1, 2)
    s = line
    for _ in range(ops):
        r = rng.random()
        if not s:
            break
        i = rng.randrange(len(s))
        if r < 0.4:
            s = s[:i] + rng.choice('\t;=<>"0 9A#,-+x') + s[i + 1:]
        elif r < 0.6:
            s = s[:i] + s[i + 1:]
        elif r < 0.8:
            s = s[:i] + rng.choice('\t;=<"0 ,') + s[i:]
        else:
            f = s.split('\t')
            j = rng.randrange(len(f))
            if rng.random() < 0.5:
                del f[j]
            else:
                f[j] = rng.choice(['', '<DEL>', '<INS>', '<SUB>', '<FUSION>', '<DUP>', '0', '-3', 'END=5', 'x'])
            s = '\t'.join(f)
    return s

# ------------------------------------------------------------------ model-independent rendering (for checks T/K)
def same_length_variant(rng, rec, circ):
    """a record with the same byte layout (every field keeps its length) but different content"""
    r = copy.deepcopy(rec)
    def flip(sv):
        idx = [i for i, ch in enumerate(sv) if ch in ALNUM]
        if not idx:
            return None
        i = rng.choice(idx)
        ch = rng.choice([x for x in ('ACGT' if sv[i] in 'ACGT' else ALNUM) if x != sv[i]])
        return sv[:i] + ch + sv[i + 1:]
    if circ:
        for field in rng.sample(['gene_name', 'id', 'genomic'], 3):
            v = flip(r[field])
            if v is not None:
                r[field] = v
                return r
        return r
    cands = ['id']
    if r['type'] in ('SNV', 'RNAEditingSite', 'INDEL', 'MNV'):
        cands += ['alt', 'alt', 'ref']
    attr_i = [i for i, (k, v) in enumerate(r['attrs'])
              if isinstance(v, str) and k not in ('TRANSCRIPT_ID', 'GENE_ID') and k not in key_pools()[0]
              and k != 'END' and any(ch in ALNUM for ch in v)]
    cands += [('attr', i) for i in attr_i]
    rng.shuffle(cands)
    for cnd in cands:
        if isinstance(cnd, tuple):
            v = flip(r['attrs'][cnd[1]][1])
            if v is not None:
                r['attrs'][cnd[1]][1] = v
                return r
        else:
            v = flip(r[cnd])
            if v is not None:
                r[cnd] = v
                return r
    return r

def twin_file(rng, f):
    """a second file with a byte-identical layout (same header length, same line lengths, hence the same
    pointers key/start/end) and different content, for a prefix of the records or for all of them"""
    g = copy.deepcopy(f)
    n = len(g['records'])
    keep = n if rng.random() < 0.5 else rng.randint(1, max(1, n))
    g['records'] = [same_length_variant(rng, r, f['circ']) for r in f['records'][:keep]]
    if keep < n or rng.random() < 0.3:
        # after the common prefix the twin continues on its own
        for r in f['records'][keep:][:rng.randint(0, 3)]:
            g['records'].append(gen_circ(rng, r['tx']) if f['circ'] else gen_record(rng, rec_key(r)))
    if 'source' in g and g['source'] and g['source'][-1] in ALNUM:
        g['source'] = g['source'][:-1] + rng.choice([x for x in ALNUM if x != g['source'][-1]])   # gSNP vs gSNQ
    g['edits'] = []
    g['idx'] = rng.random() < 0.4
    return g

def gen_pool_case(rng, quick):
    nfiles = rng.choice([1, 1, 2, 2, 3, 4])
    txs = ['ENST%03d.1' % i for i in range(rng.randint(1, 5))]
    files = []
    for fi in range(nfiles):
        circ = rng.random() < 0.25
        n = rng.choice([0, 1, 2, 3, 5, 8, 12]) if rng.random() < 0.9 else rng.randint(13, 40)
        recs = []
        # grouping: sorted runs, or interleaved
        order = [rng.choice(txs) for _ in range(n)]
        mode = rng.choice(['grouped', 'interleaved', 'interleaved', 'runs'])
        if mode == 'grouped':
            order.sort()
        elif mode == 'runs':
            order = [t for t in order for _ in range(rng.randint(1, 3))][:max(n, 1)] if n else []
        for t in order:
            recs.append(gen_circ(rng, t) if circ else gen_record(rng, t))
        f = {'circ': circ, 'records': recs, 'idx': rng.random() < 0.55, 'edits': []}
        if rng.random() < 0.5:
            home = '/home/' + (uword(rng, 2, 6) if rng.random() < 0.6 else word(rng))
            f.update({'reference_index': home + '/idx', 'genome_fasta': home + '/g.fa', 'annotation_gtf': home + '/a.gtf',
                      'source': uword(rng) if rng.random() < 0.4 else word(rng)})
            if not circ:
                f['parser'] = rng.choice(['parseVEP', 'parseREDItools', 'parseSTARFusion', 'parseRMATS'])
        f['pre_edits'] = []
        if rng.random() < 0.15:
            f['pre_edits'].append({'type': 'crlf'})          # a CRLF file, indexed (or opened) as such
        r = rng.random()
        if r < 0.45 and (f['idx'] or rng.random() < 0.5):
            t = rng.choice(['append', 'reorder', 'byte', 'drop_last', 'touch', 'rewrite_identical',
                            'crlf', 'crlf', 'lf', 'trail_ws', 'trail_ws', 'bom', 'final_newline', 'lone_cr'])
            if t == 'bom' and not f['idx']:
                t = 'crlf'                                   # without .idx a BOM only hits the (unmodelled) metadata parser
            if t == 'append':
                new = gen_circ(rng, rng.choice(txs)) if circ else gen_record(rng, rng.choice(txs))
                f['edits'].append({'type': 'append', 'rec': new})
            elif t == 'reorder':
                f['edits'].append({'type': 'reorder', 'a': rng.randrange(100), 'b': rng.randrange(100)})
            elif t == 'byte':
                f['edits'].append({'type': 'byte', 'pos': rng.randrange(10 ** 6),
                                   'char': rng.choice('ACGT0123456789;=\t.#x<>\n ')})
            elif t == 'lone_cr':
                f['edits'].append({'type': t, 'a': rng.randrange(100)})
            elif t == 'trail_ws':
                f['edits'].append({'type': t, 'a': rng.randrange(100), 'ws': rng.choice([' ', '\t', '  ', ' \t'])})
            else:
                f['edits'].append({'type': t})
        files.append(f)
    # byte-identical layouts: a twin of one file (same offsets and lengths of the runs, other content)
    twins = 0
    if rng.random() < 0.3:
        src = [f for f in files if f['records'] and not f['edits']]
        if src:
            f = rng.choice(src)
            for _ in range(rng.choice([1, 1, 2])):
                files.insert(rng.randrange(len(files) + 1), twin_file(rng, f))     # any file order
                twins += 1
    return {'kind': 'pool', 'files': files, 'absent_keys': ['ENST999.9'], 'getitem': all(f['circ'] for f in files),
            'twins': twins}

def gen_cases(ctx):
    rng = ctx.rng
    q = ctx.quick
    cases = []
    for i in range(6000 if q else 60000):
        cases.append({'kind': 'wpw', 'rec': gen_record(rng, kind=KINDS[i % len(KINDS)]), 'wf': True})
    for i in range(2000 if q else 16000):
        cases.append({'kind': 'wpw', 'rec': gen_bad_record(rng), 'wf': False})
    for i in range(1500 if q else 12000):
        cases.append({'kind': 'circ_wpw', 'circ': gen_circ(rng), 'wf': True})
    for i in range(1000 if q else 14000):
        cases.append({'kind': 'pool', **{k: v for k, v in gen_pool_case(rng, q).items() if k != 'kind'}})
    return cases

# ------------------------------------------------------------------ the comparison
def is_d6(s1, s2):
    """signature of D6: the two texts differ exactly in that every GENOMIC_POSITION value was emptied"""
    if not isinstance(s1, str) or not isinstance(s2, str) or s1 == s2:
        return False
    l1, l2 = s1.split('\n'), s2.split('\n')
    if len(l1) != len(l2):
        return False
    hit = False
    for a, b in zip(l1, l2):
        if a == b:
            continue
        i = a.find('GENOMIC_POSITION=')
        if i < 0 or a.startswith('#'):
            return False
        if b != a[:i] + 'GENOMIC_POSITION=':
            return False
        hit = True
    return hit

class Acc:
    def __init__(self):
        self.violations = []
        self.n = {}
        self.nontriv = set()
    def count(self, k, d=1):
        self.n[k] = self.n.get(k, 0) + d
    def viol(self, what, case, extra=None, finding=None, no_input=False):
        v = {'what': what, 'replay_obj': {'kind': 'case', 'case': case, 'detail': extra}, 'no_input': no_input}
        if finding:
            v['finding'] = finding
        self.violations.append(v)

def check_wpw(acc, c, r, m, fixed=None):
    """r = impl [s1,s2] ; m = model [res s1, res s2]"""
    kind = c['kind']
    if isinstance(r, dict) and 'ctor' in r:
        acc.count('ctor_refused')
        if c.get('wf'):
            acc.viol('generator produced a record the constructor refuses (%s)' % r['ctor'], c, no_input=True)
        return
    if isinstance(r, dict) and '__exc__' in r:
        acc.viol('impl worker error %s' % r, c, no_input=True)
        return
    s1, s2 = canon_exc(r[0]), canon_exc(r[1])
    m1, m2 = dec_res(m[0], O.U), dec_res(m[1], O.U)
    prop_ok = isinstance(s1, str) and s1 == s2
    if c.get('wf'):
        acc.count(kind + '/wf')
        if kind == 'wpw':
            shifted, real, syn = key_pools()
            ks = [k for k, _ in c['rec']['attrs']]
            if any(k in syn for k in ks):
                acc.count('wpw/wf_with_synthetic_near_miss_key')
            if any(k in real and k not in shifted for k in ks):
                acc.count('wpw/wf_with_real_unshifted_key')
            if any(k.endswith(('_START', '_END', '_POSITION')) and k not in shifted for k in ks):
                acc.count('wpw/wf_with_START_END_POSITION-like_unshifted_key')
        if isinstance(s1, str) and any(ord(ch) > 127 for ch in s1):
            acc.count(kind + '/wf_with_non_ascii')
        if isinstance(s1, str) and any(ch in LINE_BREAK_LIKE for ch in s1):
            acc.count(kind + '/wf_with_line_break_like_char')
        if isinstance(s1, str):
            acc.nontriv.add(s1)
        if not prop_ok:
            d6 = kind == 'circ_wpw' and is_d6(s1, s2)
            acc.viol('write(parse(write r)) differs from write r: %r -> %r' % (s1, s2), c,
                     finding='D6' if d6 else None)
            if d6:
                acc.count('D6_hits')
                # model of the unchanged code must show the same loss; model of the fixed code must not
                if (m1, m2) != (s1, s2):
                    acc.viol('D6 case: model %r/%r vs impl %r/%r' % (m1, m2, s1, s2), c, no_input=True)
                return
    else:
        acc.count(kind + '/illformed:' + c.get('rec', {}).get('_mut', '?'))
        acc.count(kind + '/illformed_roundtrips' if prop_ok else kind + '/illformed_breaks')
    if (m1, m2) != (s1, s2):
        # behavioural difference between model and code
        if c.get('wf') and not prop_ok:
            return   # already reported with the failing input
        acc.viol('corr:C13/%s model %r / %r vs impl %r / %r' % (kind, m1, m2, s1, s2), c,
                 extra={'name': 'corr:C13/' + kind}, no_input=True)

def split_lines(text):
    """lines as `for line in <binary handle>` yields them (terminators kept); text: one char per byte"""
    out = text.split('\n')
    res = [l + '\n' for l in out[:-1]]
    if out[-1] != '':
        res.append(out[-1])
    return res

def idx_spec(idx_text):
    """glue for validate_gvf_index's scan for the CHECKSUM line -> [recorded, has_checksum, lines]"""
    lines = split_lines(idx_text)
    rec, has = '', False
    for l in lines:
        if l.startswith('#'):
            t = l.rstrip().lstrip('# ')
            if t.startswith('CHECKSUM='):
                rec, has = t.split('=')[1], True
                break
        else:
            break
    return [rec, has, lines]

def pool_requests(c, r):
    """oracle requests for one pool case, built from the files the implementation actually produced"""
    reqs = []
    for f, fo in zip(c['files'], r['files']):
        ic = fo.get('is_circ', f['circ'])
        lines = split_lines(fo['final'])
        reqs.append(('c13_iterate_pointer', [ic, lines]))
        reqs.append(('c13_index_lines', [ic, split_lines(fo['indexed'])]))
        idx = [idx_spec(fo['idx_text'])] if isinstance(fo.get('idx_text'), str) else []
        reqs.append(('c13_open', [ic, lines, hashlib.sha512(fo['final'].encode('latin-1')).hexdigest(), idx]))
        for rec in f['records']:
            if f['circ']:
                reqs.append(('c13_circ_wpw', [enc_circ(rec)]))
                reqs.append(('c13_circ_wf', [enc_circ(rec)]))
            else:
                reqs.append(('c13_wpw', [enc_rec(rec)]))
                reqs.append(('c13_wf', [enc_rec(rec)]))
    return reqs

def check_pool(acc, c, r, ms, second):
    """ms: replies to pool_requests; second(reqs) -> replies for the follow-up requests"""
    if isinstance(r, dict) and '__exc__' in r:
        acc.viol('impl worker error %s' % r, c, no_input=True)
        return
    if 'write_error' in r:
        acc.viol('writer raised %s on well-formed records' % r['write_error'], c)
        return
    files = r['files']
    stale_expected = False
    fresh_idx = 0
    model_ptrs = []
    model_open_err = None
    pos = 0
    for i, (f, fo) in enumerate(zip(c['files'], files)):
        ic = fo.get('is_circ', f['circ'])
        m_iter, m_idx, m_open = ms[pos], ms[pos + 1], ms[pos + 2]
        nrec = len(f['records'])
        m_recs = [(ms[pos + 3 + 2 * j], ms[pos + 4 + 2 * j]) for j in range(nrec)]
        pos += 3 + 2 * nrec
        body = fo['final'].split('#CHROM')[0] if '#CHROM' in fo['final'] else ''
        if any(ord(ch) > 127 for ch in body):
            acc.count('pool/files_with_multibyte_char_in_header')
        if any(ord(ch) > 127 for ch in fo['final']):
            acc.count('pool/files_with_multibyte_char')
        if '\r\n' in fo['final']:
            acc.count('pool/files_crlf')
        if any(x in fo['final'] for x in LB_BYTES):
            acc.count('pool/files_with_line_break_like_char')
        for e in f['edits']:
            acc.count('pool/edit:%s%s' % (e['type'], '+idx' if f.get('idx') else ''))
        # T: byte-identical second write -- claimed for files all of whose records lie inside the hypothesis of the
        # round-trip theorems (wf_rec / wf_circ, evaluated by the extracted model); note that this comparison is made
        # on the file as written, BEFORE any edit of the history is applied
        outside = [j for j, (_, w) in enumerate(m_recs) if w != 1]
        if not outside:
            if fo['text2'] != fo['text1']:
                d6 = f['circ'] and is_d6(fo['text1'], fo['text2'])
                acc.viol('file %d: second write differs from first: %r vs %r' % (i, fo['text1'][-300:], str(fo['text2'])[-300:]), c,
                         finding='D6' if d6 else None)
                if d6:
                    acc.count('D6_hits_file')
        else:
            # a record outside the statement's domain slipped into this stream: behaviour only -- the re-read
            # fails exactly when the model's re-read of some record fails, with that error class
            acc.count('pool/files_with_record_outside_hypothesis')
            exp = None
            for wp, _ in m_recs:
                s2 = dec_res(wp[1], O.U)
                if isinstance(s2, dict):
                    exp = s2
                    break
            got = canon_exc(fo['text2']) if isinstance(fo['text2'], dict) else None
            if exp != got:
                acc.viol('corr:C13/rewrite file %d: model re-read %s vs impl %s' % (i, exp, got), c,
                         extra={'name': 'corr:C13/rewrite'}, no_input=True)
        # iterate_pointer
        mi = dec_res(m_iter, lambda ps: [[O.U(k), s, e] for k, s, e in ps])
        ii = canon_exc(fo['iter'])
        if mi != ii:
            acc.viol('corr:C13/iterate_pointer file %d: model %s vs impl %s' % (i, str(mi)[:200], str(ii)[:200]), c,
                     extra={'name': 'corr:C13/iterate_pointer'}, no_input=True)
        # indexGVF text
        if f.get('idx'):
            sha1 = hashlib.sha512(fo['indexed'].encode('latin-1')).hexdigest()
            mx = dec_res(m_idx, lambda ls: '# CHECKSUM=%s\n' % sha1 + ''.join(O.U(l) for l in ls))
            if mx != canon_exc(fo['idx_text']):
                acc.viol('corr:C13/index_gvf file %d: model %r vs impl %r' % (i, str(mx)[-200:], str(fo['idx_text'])[-200:]), c,
                         extra={'name': 'corr:C13/index_gvf'}, no_input=True)
            if fo['final'] != fo['indexed']:
                stale_expected = True
            else:
                fresh_idx += 1
        mo = dec_res(m_open, lambda ps: [[O.U(k), s, e] for k, s, e in ps])
        if isinstance(mo, dict) and model_open_err is None:
            model_open_err = mo
        model_ptrs.append(mo)
    # S: stale index must be rejected
    if stale_expected:
        acc.count('pool/stale_idx')
        if 'open_error' not in r:
            acc.viol('an .idx that does not belong to the file content was accepted', c)
            return
    elif fresh_idx and all((not f.get('idx')) or fo['final'] == fo['indexed'] for f, fo in zip(c['files'], files)) \
            and all(not f['edits'] or f.get('idx') for f in c['files']):
        # every .idx belongs to exactly the bytes of its file (and no un-indexed file was edited): must be accepted
        acc.count('pool/fresh_idx')
        if 'open_error' in r:
            acc.viol('an .idx written for exactly these bytes was rejected (%s)' % r['open_error'], c)
            return
    # opening: same outcome
    if 'open_error' in r or model_open_err is not None:
        a = canon_exc(r.get('open_error'))
        if a != model_open_err:
            acc.viol('corr:C13/open model %s vs impl %s' % (model_open_err, a), c, extra={'name': 'corr:C13/open'}, no_input=True)
        acc.count('pool/open_rejected')
        return
    acc.count('pool/opened')
    # pointers per file
    impl_ptrs = [[] for _ in files]
    for k, ps in r['pointers'].items():
        for fi, s, e in ps:
            impl_ptrs[fi].append([k, s, e])
    for i in range(len(files)):
        if sorted(impl_ptrs[i], key=lambda p: p[1]) != sorted(model_ptrs[i], key=lambda p: p[1]):
            acc.viol('corr:C13/pointers file %d: model %s vs impl %s' % (i, str(model_ptrs[i])[:200], str(impl_ptrs[i])[:200]), c,
                     extra={'name': 'corr:C13/pointers'}, no_input=True)
    # measured: the same (key, start, end) occurring in two different files (byte-identical layouts)
    seen_ptr = {}
    for i in range(len(files)):
        for p_ in model_ptrs[i]:
            seen_ptr.setdefault(tuple(p_), set()).add(i)
    if any(len(v) > 1 for v in seen_ptr.values()):
        acc.count('pool/same_key_start_end_in_two_files')
        if any(not f.get('idx') for f in c['files']):
            acc.count('pool/same_key_start_end_in_two_files_without_idx')
    # K: per key, pointer route == scan route (on the implementation's own outputs)
    scan_ok = all(isinstance(fo['scan'], list) for fo in files)
    # signature of finding C13-loneCR: a carriage return that is not part of CRLF -- a line break for the text-mode
    # readers (seqvar.io.parse / circ.io.parse on an open(..., 'r') handle) but not for the binary index
    lone_cr = any(re.search('\r(?!\n)', fo['final']) for fo in files)
    keys = list(r['loads'].keys())
    scan_keys = []
    if scan_ok:
        for fo in files:
            for kk, _ in fo['scan']:
                if kk not in r['loads'] and kk not in scan_keys:
                    scan_keys.append(kk)
    for k in scan_keys:
        acc.viol('key %s: found by the linear scan but the pool has no pointer for it' % k, c,
                 finding='C13-loneCR' if lone_cr else None)
    for k in keys:
        via_ptr = canon_exc(r['loads'][k])
        if scan_ok:
            via_scan = [rec for fo in files for kk, rec in fo['scan'] if kk == k]
            present = any(kk == k for fo in files for kk, _ in fo['scan'])
            if present:
                if isinstance(via_ptr, dict) or sorted(map(json.dumps, via_ptr)) != sorted(map(json.dumps, via_scan)):
                    acc.viol('key %s: records through pointers %s differ from the linear scan %s' % (k, str(via_ptr)[:300], str(via_scan)[:300]), c,
                             finding='C13-loneCR' if lone_cr else None)
                    if lone_cr:
                        acc.count('C13-loneCR_hits')
                else:
                    acc.nontriv.add(json.dumps([k, via_scan], sort_keys=True)[:4000])
                    if sum(1 for ps in impl_ptrs for p in ps if p[0] == k) > 1:
                        acc.count('pool/keys_with_several_pointers')
            elif not (isinstance(via_ptr, dict) and via_ptr['__exc__'] == 'KeyError'):
                acc.viol('key %s absent from every file but lookup gave %s' % (k, str(via_ptr)[:200]), c,
                         finding='C13-loneCR' if lone_cr else None)
    # model: pool_get / scan_get per key
    mfiles_ptr = [[fo.get('is_circ', f['circ']), split_lines(fo['final']), model_ptrs[i]]
                  for i, (f, fo) in enumerate(zip(c['files'], files))]
    mfiles_scan = [[fo.get('is_circ', f['circ']), split_lines(fo['final'])] for f, fo in zip(c['files'], files)]
    reqs = []
    for k in keys:
        reqs.append(('c13_pool_get', [mfiles_ptr, k]))
        reqs.append(('c13_scan_get', [mfiles_scan, k]))
    rep = second(reqs)
    for j, k in enumerate(keys):
        mp = dec_res(rep[2 * j], lambda rs: [dec_any(x) for x in rs])
        msn = dec_res(rep[2 * j + 1], lambda rs: [dec_any(x) for x in rs])
        ip = canon_exc(r['loads'][k])
        if mp != ip:
            acc.viol('corr:C13/pool_get key %s: model %s vs impl %s' % (k, str(mp)[:300], str(ip)[:300]), c,
                     extra={'name': 'corr:C13/pool_get'}, no_input=True)
        if scan_ok:
            isn = [rec for fo in files for kk, rec in fo['scan'] if kk == k]
            if msn != isn:
                acc.viol('corr:C13/scan key %s: model %s vs impl %s' % (k, str(msn)[:300], str(isn)[:300]), c,
                         extra={'name': 'corr:C13/scan'}, no_input=True)
    # the real __getitem__ on circRNA-only pools: set(records) of the gathered list
    if 'getitem' in r:
        for k, g in r['getitem'].items():
            lp = r['loads'].get(k)
            if isinstance(g, dict) and 'circ' in g and isinstance(lp, list):
                acc.count('pool/getitem_checked')
                a = sorted(json.dumps(x, sort_keys=True) for x in g['circ'])
                b = sorted(json.dumps(x[1], sort_keys=True) for x in lp)
                if a != b or g['other'] != 0:
                    acc.viol('__getitem__(%s) returned %s, gathered pointers give %s' % (k, a[:3], b[:3]), c)

def prepare(case):
    """expand 'append' edits (a record -> its line needs the writer: done by the implementation side)"""
    return case

def run_cases(ctx, cases):
    acc = Acc()
    # 'append' edits carry a record; the line text is produced by the model-independent real writer:
    # ask the implementation for it first (wpw of that record), then put the line into the edit.
    pre = []
    for c in cases:
        if c['kind'] == 'pool':
            for f in c['files']:
                for e in f['edits']:
                    if e['type'] == 'append' and 'line' not in e:
                        pre.append((e, {'kind': 'circ_wpw', 'circ': e['rec']} if f['circ'] else {'kind': 'wpw', 'rec': e['rec']}))
    if pre:
        rs = I.run_cases('c13', [p[1] for p in pre], jobs=ctx.jobs, tag='c13pre')
        for (e, _), r in zip(pre, rs):
            e['line'] = r[0] if isinstance(r, list) and isinstance(r[0], str) else 'BROKEN'
    impl = I.run_cases('c13', cases, jobs=ctx.jobs, tag='c13')
    reqs, spans = [], []
    for c, r in zip(cases, impl):
        a = len(reqs)
        if c['kind'] == 'wpw':
            reqs.append(('c13_wpw', [enc_rec(c['rec'])]))
            reqs.append(('c13_wf', [enc_rec(c['rec'])]))
        elif c['kind'] == 'circ_wpw':
            reqs.append(('c13_circ_wpw', [enc_circ(c['circ'])]))
            reqs.append(('c13_circ_wf', [enc_circ(c['circ'])]))
        elif c['kind'] == 'parse_line':
            reqs.append(('c13_parse_line', [c['line']]))
        elif c['kind'] == 'circ_parse_line':
            reqs.append(('c13_circ_parse', [c['line']]))
        elif c['kind'] == 'pool' and isinstance(r, dict) and 'files' in r and 'write_error' not in r:
            reqs += pool_requests(c, r)
        spans.append((a, len(reqs)))
    model = O.call_parallel(reqs, jobs=8)
    # the pool cases need a second round (per-key lookups with the model's own pointers): collect all
    # follow-up requests with a dry run, answer them in one batch, then do the real comparison
    class _Stop(Exception):
        pass
    follow = {}
    for i, (c, r, (a, b)) in enumerate(zip(cases, impl, spans)):
        if c['kind'] == 'pool':
            def rec(rq, i=i):
                follow[i] = rq
                raise _Stop()
            try:
                check_pool(Acc(), c, r, model[a:b], rec)
            except _Stop:
                pass
    order = sorted(follow)
    flat = [rq for i in order for rq in follow[i]]
    ans = O.call_parallel(flat, jobs=8) if flat else []
    answers, pos = {}, 0
    for i in order:
        answers[i] = ans[pos:pos + len(follow[i])]
        pos += len(follow[i])
    for i, (c, r, (a, b)) in enumerate(zip(cases, impl, spans)):
        ms = model[a:b]
        if c['kind'] in ('wpw', 'circ_wpw'):
            # is the case inside the hypothesis (wf_rec / wf_circ) of the round-trip theorems?
            inside = ms[1] == 1
            acc.count('%s/%s/%s' % (c['kind'], 'generated_wf' if c.get('wf') else 'generated_illformed',
                                    'inside_theorem_hypothesis' if inside else 'outside_theorem_hypothesis'))
            # the theorem's hypothesis decides what is claimed: inside => the property must hold on the code;
            # outside (whatever the generator intended) => behaviour equality with the model only
            c = dict(c, wf=inside)
            check_wpw(acc, c, r, ms[0])
        elif c['kind'] in ('parse_line', 'circ_parse_line'):
            acc.count(c['kind'])
            mm = dec_res(ms[0], dec_rec if c['kind'] == 'parse_line' else dec_circ)
            rr = canon_exc(r)
            acc.count(c['kind'] + ('/error' if isinstance(rr, dict) and '__exc__' in rr else '/ok'))
            if mm != rr:
                acc.viol('corr:C13/%s on %r: model %s vs impl %s' % (c['kind'], c['line'], str(mm)[:300], str(rr)[:300]), c,
                         extra={'name': 'corr:C13/' + c['kind']}, no_input=True)
        elif c['kind'] == 'pool':
            acc.count('pool')
            check_pool(acc, c, r, ms, lambda rq, i=i: answers.get(i) if i in answers else O.call_many(rq))
    return acc, impl

def add_line_cases(ctx, cases):
    """mutated lines: needs real lines first -> derive from the model-independent writer output of wpw cases"""
    rng = ctx.rng
    n = 4000 if ctx.quick else 50000
    src = [c for c in cases if c['kind'] in ('wpw', 'circ_wpw') and c.get('wf')]
    pick = [rng.choice(src) for _ in range(n)]
    rs = I.run_cases('c13', pick, jobs=ctx.jobs, tag='c13lines')
    out = []
    for c, r in zip(pick, rs):
        if isinstance(r, list) and isinstance(r[0], str):
            line = r[0] + '\n'
            if rng.random() < 0.85:
                line = mutate_line(rng, r[0]) + rng.choice(['\n', '\n', '', '\r\n', ' \n'])
            out.append({'kind': 'parse_line' if c['kind'] == 'wpw' else 'circ_parse_line', 'line': line})
    return out

def decide(violations):
    """Section 5 of DESIGN: violations with a concrete failing input win; behavioural differences on
    inputs where the property itself still holds are reported only when no failing input was found,
    and then as ONE violation naming the correspondences.  Duplicates of one message head collapse."""
    concrete = [v for v in violations if not v.get('no_input')]
    corr = [v for v in violations if v.get('no_input')]
    out, seen = [], {}
    for v in concrete:
        key = (v.get('finding'), v['what'][:40])
        seen[key] = seen.get(key, 0) + 1
        if seen[key] <= (3 if not v.get('finding') else 2):
            out.append(v)
    real = [v for v in concrete if not v.get('finding')]
    if corr and not real:
        names = sorted({(v['replay_obj'].get('detail') or {}).get('name', 'corr:C13') if isinstance(v['replay_obj'].get('detail'), dict)
                        else 'corr:C13' for v in corr})
        first = corr[0]
        out.append({'what': '%d disagreement(s) between model and code where the property itself still holds (%s); first: %s'
                            % (len(corr), ', '.join(names), first['what'][:250]),
                    'replay_obj': {'kind': 'correspondence', 'name': names[0], 'all': names,
                                   'example': first['replay_obj']},
                    'no_input': True})
    return out, len(violations) - len(out)

def load_corpus():
    import os, glob
    d = os.path.join(os.path.dirname(os.path.dirname(os.path.dirname(os.path.abspath(__file__)))), 'corpus', 'C13')
    out = []
    for f in sorted(glob.glob(os.path.join(d, '*.json'))):
        o = json.load(open(f))
        out.append(o['case'] if 'case' in o else o)
    return out

def run(ctx):
    cases = load_corpus()
    ncorpus = len(cases)
    cases += gen_cases(ctx)
    cases += add_line_cases(ctx, cases)
    acc, impl = run_cases(ctx, cases)
    vs, suppressed = decide(acc.violations)
    samples = [cases[ncorpus], cases[ncorpus + len(cases) // 2 % max(1, len(cases) - ncorpus)], cases[-1]]
    return dict(
        evaluations=len(cases), distinct_nontrivial=len(acc.nontriv),
        rule='non-trivial = a well-formed record whose first write succeeded (distinct by written text) or a '
             '(key, record list) pair retrieved through pointers that equals the scan and is non-empty (distinct by content)',
        samples=[json.loads(json.dumps(s))for s in samples], distribution=dict(sorted(acc.n.items())),
        corpus_cases=ncorpus, violations=vs, suppressed_duplicates=suppressed,
        assumptions=['text is ASCII (byte offsets = character offsets)',
                     'int() is exercised on [ws][+-]digits[ws] only (no "_" separators, no non-ASCII digits)',
                     'SHA-512 is computed by hashlib on both sides; the theorems assume the digest is injective'],
        trusted_base=['encoding of records/lines into oracle values (harness/props/c13.py, coq/Extract/Api_C13.v)',
                      'idx_spec(): the harness re-implements the 6-line scan for the "# CHECKSUM=" line of validate_gvf_index',
                      'GVFMetadata text (## lines) is covered by the byte-equality check of the second write only, not modelled'])

def search_failing_input(ctx, broken):
    """A theorem of Props/C13.v no longer checks (typically: a regenerated table in Gen/GvfConst.v fails the
    reflective consistency check).  Look for a record on which the real code violates the round trip."""
    import random, sys
    from harness.lib import py2coq_search
    if py2coq_search.is_code_obligation(broken):
        # code_iterate_pointer_is_model (docs/py2coq.md): the index streams of the correspondence compare exactly
        # the translated function with the model; run them on the quick budget and return the first disagreement
        r = py2coq_search.first_disagreement(sys.modules[__name__], ctx, broken)
        if r:
            return r
    rng = random.Random(ctx.seed + 1)
    cases = [{'kind': 'wpw', 'rec': gen_record(rng, kind=KINDS[i % len(KINDS)]), 'wf': True} for i in range(450)]
    cases += [{'kind': 'circ_wpw', 'circ': gen_circ(rng), 'wf': True} for _ in range(100)]
    rs = I.run_cases('c13', cases, jobs=ctx.jobs, tag='c13search')
    d6 = None
    for c, r in zip(cases, rs):
        if isinstance(r, list) and isinstance(r[0], str) and r[0] != r[1]:
            if c['kind'] == 'circ_wpw' and is_d6(r[0], r[1]):
                d6 = d6 or (c, r)
                continue
            return {'kind': 'case', 'case': c, 'what': 'second write %r differs from first %r' % (str(r[1])[:120], r[0][:120])}
    return None

def replay(ctx, obj):
    c = obj.get('case', obj)
    if obj.get('kind') == 'correspondence' and 'example' in obj:
        c = obj['example'].get('case', c)
    acc, _ = run_cases(ctx, [copy.deepcopy(c)])
    return dict(violations=decide(acc.violations)[0])
