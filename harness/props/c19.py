"""C19 correspondence: Filter.v (extracted) vs the repo's real `filter_fasta(args)`.

Every case = a generated reference world (real generateIndex index dir, or --annotation-gtf),
a FASTA with multi-entry headers of every label kind, an expression table, cutoff, flags,
denylist, miscleavage range, enzyme.  Three comparisons per case:
  (a) model vs implementation: the kept (sequence -> ordered entry list) map, or the error class;
  (b) the property's own statement evaluated on the implementation's output from the GENERATOR's
      ground truth (kind / transcripts / splice-altering of each entry), independent of the model;
  (c) paired runs on the implementation: idempotence (filter the output again), monotonicity in the
      cutoff and in the miscleavage range (second run with a stricter option).
Finding recognised by signature (see docs/C19.md): C19-gtf-coding (runs without an index dir only).
"""
import json, re, os, glob, copy
from harness.lib import oracle as O, impl as I, rules as R, gen_reference as G, gen_headers as H

PROPERTY = 'C19'
ROOT = os.path.dirname(os.path.dirname(os.path.dirname(os.path.abspath(__file__))))
ERR = {1: 'ValueError', 2: 'IndexError', 3: 'KeyError', 4: 'TypeError', 5: 'VariantSourceNotFoundError', 6: 'Fuel'}
SCALE = 1000

def dec(x):
    """decimal string with <= 3 decimals -> scaled int"""
    neg = x.startswith('-')
    if neg:
        x = x[1:]
    a, _, b = x.partition('.')
    v = int(a or '0') * SCALE + int((b + '000')[:3])
    return -v if neg else v

def fmt(v):
    """scaled int -> decimal string"""
    s = '-' if v < 0 else ''
    v = abs(v)
    return '%s%d.%03d' % (s, v // SCALE, v % SCALE) if v % SCALE else '%s%d' % (s, v // SCALE)

# ------------------------------------------------------------------ generation
def gen_world(rng):
    for _ in range(20):
        w = G.gen_world(rng, n_chrom=1, max_genes=3, coding_p=0.6, small=True, sec_p=0.0, nf_p=0.0)
        txs = H.world_txs(w)
        if len(txs) >= 2:
            return w
    return w

VALS = ['0', '0.5', '1', '1.5', '2', '2.125', '3', '5', '10', '12.5', '100']

def gen_table(rng, c, vals):
    """The expression table as a FILE: 2-5 columns (optional row-name column whose header cell is EMPTY, as
    pandas / R write it, or named; transcript column; optional extra column; one or two quantification columns
    with different values), delimiter tab / comma / semicolon / space, transcript and quantification column each
    selected by NAME or by 1-based NUMBER (all four combinations), header cell with a leading blank, skipped
    comment lines.  c['exprs'] stays the intended (transcript, value) rows: the ground truth."""
    delim = rng.choice(['\t', '\t', '\t', ',', ';', ' '])
    cols = []            # (header cell, kind)
    if rng.random() < 0.45:
        cols.append((rng.choice(['', '', 'id']), 'rowname'))
    txname = rng.choice(['tx', 'Name', 'target_id', 'transcript_id'])
    if not cols and delim != ' ' and rng.random() < 0.15:
        txname = ' ' + txname                      # leading blank in the first header cell
    cols.append((txname, 'tx'))
    if rng.random() < 0.3:
        cols.append((rng.choice(['length', 'gene']), 'extra'))
    qnames = rng.choice([['TPM', 'FPKM'], ['FPKM', 'TPM'], ['tpm'], ['NumReads', 'TPM'], ['TPM', 'NumReads', 'FPKM']])
    want = rng.choice(qnames)
    for q in qnames:
        cols.append((q, 'quant' if q == want else 'other'))
    if rng.random() < 0.3:
        rng.shuffle(cols)
        if delim == ' ' or any(h.startswith(' ') for h, _ in cols[1:]):
            cols.sort(key=lambda x: 0 if x[1] == 'rowname' else 1)
    # a leading EMPTY header cell only makes sense in the first position
    cols.sort(key=lambda x: 0 if x[0] == '' else 1)
    lines = []
    for k, (tx, v) in enumerate(c['exprs']):
        cells = []
        for h, kind in cols:
            if kind == 'rowname':
                cells.append(str(k + 1))
            elif kind == 'tx':
                cells.append(tx)
            elif kind == 'extra':
                cells.append(str(rng.randint(100, 5000)))
            elif kind == 'quant':
                cells.append(v)
            else:
                cells.append(rng.choice([x for x in vals if x != v]))
        lines.append(delim.join(cells))
    tx_pos = [i for i, (h, k) in enumerate(cols) if k == 'tx'][0]
    q_pos = [i for i, (h, k) in enumerate(cols) if k == 'quant'][0]
    tx_by_name, q_by_name = rng.choice([(False, False), (False, False), (True, True), (True, False), (False, True)])
    header_line = delim.join(h for h, _ in cols)
    skipped = ['# comment %d' % i for i in range(rng.choice([0, 0, 0, 1, 2]))]
    if tx_by_name or q_by_name:
        pre = skipped + [header_line]
    elif rng.random() < 0.4:
        skipped = skipped + [header_line]          # all columns by number: the header is the user's --skip-lines business
        pre = skipped
    else:
        pre = skipped
    c['table'] = dict(lines=pre + lines, delimiter=delim, skip_lines=len(skipped),
                      tx_id_col=cols[tx_pos][0] if tx_by_name else str(tx_pos + 1),
                      quant_col=cols[q_pos][0] if q_by_name else str(q_pos + 1),
                      header=[h for h, _ in cols])

def gen_case(rng, world, enzymes, stream):
    txs = H.world_txs(world)
    enzyme = 'trypsin' if rng.random() < 0.6 else rng.choice(enzymes)
    n = rng.randint(1, 8)
    peps, seen = [], set()
    while len(peps) < n:
        s = R.gen_protein(rng, enzyme, rng.randint(5, 30))
        if s in seen and rng.random() < 0.8:
            continue
        seen.add(s)
        orf_order = 'mixed' if stream == 'orf_first' else 'emitted'
        var_kinds = ['SNV', 'SNV', 'INDEL', 'MNV', 'RES', 'SE', 'RI', 'A5SS', 'MXE']
        entries = H.gen_header(rng, txs, orf_order=orf_order, allow_alt=(stream != 'main' or rng.random() < 0.15),
                               var_kinds=var_kinds)
        peps.append(dict(seq=s, entries=entries))
    if stream == 'dup' and peps:
        # the same sequence twice (VariantPeptidePool.load keeps the first record)
        p = copy.deepcopy(rng.choice(peps))
        p['entries'] = H.gen_header(rng, txs, orf_order='emitted')
        peps.insert(rng.randint(0, len(peps)), p)
    c = dict(kind='filter', stream=stream, world=world, enzyme=enzyme, peps=peps, ref='index')
    # expression table
    if rng.random() < 0.8:
        rows = []
        vals = ['0', '0.5', '1', '1.5', '2', '2.125', '3', '5', '10', '12.5', '100']
        for tx, _, _ in txs:
            rows.append([tx, rng.choice(vals)])
        if rng.random() < 0.3:          # a later row overwrites an earlier one
            tx, _, _ = rng.choice(txs)
            rows.append([tx, rng.choice(vals)])
        if rng.random() < 0.3:
            rows.append(['ENST99999999999.1', rng.choice(vals)])
        rng.shuffle(rows)
        c['exprs'] = rows
        c['cutoff'] = float(rng.choice(['0', '0.5', '1', '1.5', '2', '2.125', '3', '5', '10', '50']))
        gen_table(rng, c, vals)
    else:
        c['exprs'] = None
        c['cutoff'] = None if rng.random() < 0.5 else 1.0
    c['kan'] = rng.random() < 0.3
    c['kac'] = rng.random() < 0.3
    c['keep_canonical'] = rng.random() < 0.4
    if rng.random() < 0.45:
        dl = [p['seq'] for p in peps if rng.random() < 0.5]
        dl += [R.gen_protein(rng, enzyme, rng.randint(5, 12)) for _ in range(rng.randint(0, 2))]
        c['denylist'] = dl
    else:
        c['denylist'] = None
    if rng.random() < 0.5:
        lo = rng.choice([0, 0, 1, 2]); hi = lo + rng.choice([0, 1, 2, 3])
        c['miscleavages'] = '%d:%d' % (lo, hi)
    else:
        c['miscleavages'] = None
    if stream == 'malformed':
        m = rng.choice(['missing_tx', 'no_cutoff', 'misc_half', 'misc_nocolon', 'bad_fusion', 'bad_circ', 'late_fusion'])
        c['malformed'] = m
        if m == 'missing_tx' and c['exprs'] is not None:
            tx = rng.choice(txs)[0]
            c['exprs'] = [r for r in c['exprs'] if r[0] != tx]
            gen_table(rng, c, VALS)
        elif m == 'no_cutoff':
            c['cutoff'] = None
        elif m == 'misc_half':
            c['miscleavages'] = rng.choice(['1:', ':2'])
        elif m == 'misc_nocolon':
            c['miscleavages'] = '2'
        elif m == 'bad_fusion':
            tx = rng.choice(txs)[0]
            peps[0]['entries'].append(dict(text='FUSION-%s:10|1' % tx, kind='fusion', txs=[tx], gene=None, vars=[], splice=False,
                                           orf=None, emitted_form=True, bad=True))
        elif m == 'bad_circ':
            peps[0]['entries'].append(dict(text='CIRCxyz|1', kind='circ', txs=[], gene=None, vars=[], splice=False, orf=None,
                                           emitted_form=True, bad=True))
        elif m == 'late_fusion':
            tx = rng.choice(txs)[0]
            peps[0]['entries'].append(dict(text='%s|FUSION-%s:1-%s:2|1' % (tx, tx, tx), kind='base', txs=[tx], gene=None, vars=[],
                                           splice=False, orf=None, emitted_form=True, bad=True))
    return c

OPT_KEYS = ['exprs', 'table', 'cutoff', 'kan', 'kac', 'keep_canonical', 'denylist', 'miscleavages', 'enzyme']

def gen_passes_case(rng, world, enzymes, mode):
    """one pool, 2-3 successive filtering passes with DIFFERENT criteria (first passes tend to be strict, later
    ones lenient, so that an entry removed earlier would satisfy a later pass)"""
    base = gen_case(rng, world, enzymes, 'main')
    passes = []
    for k in range(rng.choice([2, 2, 3])):
        o = gen_case(rng, world, enzymes, 'main')
        opts = {key: o.get(key) for key in OPT_KEYS}
        opts['enzyme'] = base['enzyme'] if rng.random() < 0.7 else o['enzyme']
        if rng.random() < 0.45:
            opts['denylist'] = [p['seq'] for p in base['peps'] if rng.random() < 0.4]
        else:
            opts['denylist'] = None
        if k == 0 and opts.get('exprs') is not None and rng.random() < 0.5:
            opts['cutoff'] = float(rng.choice(['3', '5', '10', '50']))          # strict first
        if k > 0 and rng.random() < 0.5:
            if opts.get('exprs') is not None:
                opts['cutoff'] = 0.0                                             # lenient later
            opts['miscleavages'] = None
            opts['denylist'] = None
        if mode == 'api' and opts.get('exprs') is not None and opts.get('cutoff') is None:
            opts['cutoff'] = 1.0
        passes.append(opts)
    return dict(kind='passes', stream='passes_' + mode, mode=mode, world=world, peps=base['peps'], passes=passes, ref='index',
                enzyme=base['enzyme'])

def eval_passes(ctx, cases, add, stats):
    """each pass is judged against the MODEL applied to the previous pass's MODEL output, and against the
    statement evaluated from the ground truth of the entries that survived so far; independently: the output of
    pass k must be a sub-collection of the output of pass k-1"""
    if not cases:
        return
    impl = I.run_cases('c19', [dict(c, fasta=[[' '.join(e['text'] for e in p['entries']), p['seq']] for p in c['peps']])
                               for c in cases], jobs=ctx.jobs, tag='c19p')
    cur = [c['peps'] for c in cases]                 # model-side pool before the next pass
    alive = [True] * len(cases)
    prev_impl = [None] * len(cases)
    site_keys = sorted(set((o.get('enzyme', 'trypsin'), p['seq']) for c in cases for o in c['passes'] for p in c['peps']))
    site_res = O.call_parallel([('sites', [e, 'trypsin_exception' if e == 'trypsin' else None, s]) for e, s in site_keys], jobs=8)
    sites_cache = dict(zip(site_keys, site_res))
    for k in range(3):
        idx = [i for i, c in enumerate(cases) if alive[i] and k < len(c['passes'])]
        if not idx:
            break
        cks = []
        for i in idx:
            ck = dict(cases[i]); ck.update(cases[i]['passes'][k]); ck['peps'] = cur[i]; ck['kind'] = 'filter'
            cks.append(ck)
        model = O.call_parallel([oracle_req(ck) for ck in cks], jobs=8)
        for i, ck, m in zip(idx, cks, model):
            c, r = cases[i], impl[i]
            stats['passes'] = stats.get('passes', 0) + 1
            if isinstance(r, dict) and '__exc__' in r:
                add(c, None, 'C19 passes: implementation raised %s' % r['__exc__'], r); alive[i] = False; continue
            if k >= len(r['passes']):
                alive[i] = False; continue
            rk = r['passes'][k]
            a = {'error': [rk['__exc__']]} if isinstance(rk, dict) else {'out': canon_impl_out(rk)}
            b = canon_model(ck, m)
            if not agree(a, b):
                expect = declarative(ck, sites_cache)
                probs = classify(ck, a['out'], expect) if ('out' in a and expect is not None) else []
                add(c, None, 'C19 pass %d of %d (%s, different criteria on one pool): implementation %s vs model applied to the previous pass %s%s' % (
                    k + 1, len(c['passes']), c['mode'], json.dumps(a)[:150], json.dumps(b)[:150],
                    ('; statement: ' + probs[0][1]) if probs else ''), {'pass': k, 'impl': a, 'model': b})
                alive[i] = False
                continue
            if 'out' in a and prev_impl[i] is not None and not sub_collection(a['out'], prev_impl[i]):
                add(c, None, 'C19 pass %d: output is not a sub-collection of the previous pass output' % (k + 1), {'impl': a})
            if 'error' in a:
                alive[i] = False; continue
            prev_impl[i] = a['out']
            if k > 0 and sum(len(v) for v in a['out'].values()) > 0:
                stats['passes_nontrivial'] = stats.get('passes_nontrivial', 0) + 1
            by_text = {}
            for p in cases[i]['peps']:
                for e in p['entries']:
                    by_text.setdefault((p['seq'], e['text']), e)
            cur[i] = [dict(seq=s, entries=[by_text[(s, t)] for t in ents if (s, t) in by_text]) for s, ents in b['out'].items()]
        # the FASTA finally written (api mode) carries the filtered headers
    for c, r in zip(cases, impl):
        if isinstance(r, dict) and 'written' in r and r['passes'] and not isinstance(r['passes'][-1], dict):
            if canon_impl_out(r['written']) != canon_impl_out(r['passes'][-1]):
                add(c, None, 'C19 passes: the FASTA written after the last pass differs from the pool', r)

def with_fasta(c):
    c = dict(c)
    c['fasta'] = [[' '.join(e['text'] for e in p['entries']), p['seq']] for p in c['peps']]
    return c

def stricter(rng, c):
    """a paired case: same input, stricter cutoff or narrower miscleavage range"""
    d = copy.deepcopy(c)
    d.pop('twice', None)
    which = []
    if c.get('exprs') is not None and c.get('cutoff') is not None:
        which.append('cutoff')
    if c.get('miscleavages'):
        which.append('misc')
    if not which:
        return None, None
    w = rng.choice(which)
    if w == 'cutoff':
        d['cutoff'] = c['cutoff'] + rng.choice([0.5, 1.0, 2.0, 10.0])
    else:
        lo, hi = [int(x) for x in c['miscleavages'].split(':')]
        lo2 = lo + rng.choice([0, 1]); hi2 = hi - rng.choice([0, 1])
        if (lo2, hi2) == (lo, hi):
            lo2 += 1
        d['miscleavages'] = '%d:%d' % (lo2, hi2)
    return d, w

# ------------------------------------------------------------------ model side
def coding_truth(world):
    return sorted(tx for tx, _, cod in H.world_txs(world) if cod)

def oracle_req(c, coding=None):
    lohi = c.get('miscleavages')
    lo = hi = None
    if lohi and not cli_level_error(c):
        lo, hi = [int(x) for x in lohi.split(':', 1)]
    rows = None
    if c.get('exprs') is not None:
        rows = [[[r[0], dec(r[1])] for r in c['exprs']]]
    cutoff = None if c.get('cutoff') is None else [int(round(c['cutoff'] * SCALE))]
    opts = [c['enzyme'], [] if lo is None else [lo], [] if hi is None else [hi], rows if rows is not None else [],
            cutoff if cutoff is not None else [], coding if coding is not None else coding_truth(c['world']),
            bool(c.get('kan')), bool(c.get('kac')), bool(c.get('keep_canonical')),
            [c['denylist']] if c.get('denylist') is not None else []]
    pool = [[p['seq'], ' '.join(e['text'] for e in p['entries'])] for p in c['peps']]
    return ('c19_filter', [opts, pool])

def cli_level_error(c):
    """the part of filter_fasta(args) above VariantPeptidePool.filter that is not in the Coq model"""
    m = c.get('miscleavages')
    if m is not None:
        if ':' not in m:
            return 'ValueError'
        for x in m.split(':', 1):
            if not re.fullmatch(r'[+-]?\d+', x):
                return 'ValueError'
    return None

def canon_model(c, m):
    e = cli_level_error(c)
    if e:
        return {'error': [e]}
    errs = sorted(set(ERR[r[1]] for r in m if r[0] == 1))
    if errs:
        return {'error': errs}
    out = {}
    for r in m:
        if r[1]:
            s, ls = r[1]
            out[O.U(s)] = [O.U(l) for l in ls]
    return {'out': out}

def canon_impl_out(recs):
    out = {}
    for h, s in recs:
        out[s] = h.split(' ')
    return out

def canon_impl(c, r, key='out'):
    if isinstance(r, dict) and '__exc__' in r:
        return {'error': [r['__exc__']]}
    return {'out': canon_impl_out(r[key])}

def agree(a, b):
    if 'error' in a or 'error' in b:
        return 'error' in a and 'error' in b and (set(a['error']) & set(b['error']))
    return a['out'] == b['out']

# ------------------------------------------------------------------ the property's own statement
def misc_sites(c, seq, sites_cache):
    return sites_cache[(c['enzyme'], seq)]

def declarative(c, sites_cache, coding=None):
    """expected output {seq: [entry text]} from the generator's ground truth, or None when the
    statement does not fix the outcome (malformed input)"""
    if c.get('malformed') or cli_level_error(c):
        return None
    if c.get('exprs') is not None and c.get('cutoff') is None:
        return None
    coding = set(coding_truth(c['world']) if coding is None else coding)
    exprs = None
    if c.get('exprs') is not None:
        exprs = {}
        for tx, v in c['exprs']:
            exprs[tx] = dec(v)
    cutoff = None if c.get('cutoff') is None else int(round(c['cutoff'] * SCALE))
    lo = hi = None
    if c.get('miscleavages'):
        lo, hi = [int(x) for x in c['miscleavages'].split(':')]
    deny = set(c['denylist']) if c.get('denylist') is not None else None
    out, seen = {}, set()
    for p in c['peps']:
        if p['seq'] in seen:
            continue
        seen.add(p['seq'])
        if lo is not None:
            n = len(sites_cache[(c['enzyme'], p['seq'])])
            if not (lo <= n <= hi):
                continue
        keep = []
        for e in p['entries']:
            txs = e['txs']
            canonical = e['kind'] != 'circ' and txs[0] in coding
            if deny is not None and p['seq'] in deny and not (c.get('keep_canonical') and canonical):
                continue
            exempt = (c.get('kan') and all(t not in coding for t in txs)) or (c.get('kac') and all(t in coding for t in txs))
            if not exempt and exprs is not None:
                exempt = e['kind'] in ('fusion', 'circ') or e['splice']
                if not exempt:
                    if any(t not in exprs for t in txs):
                        return None
                    if not all(exprs[t] >= cutoff for t in txs):
                        continue
            keep.append(e['text'])
        if keep:
            out[p['seq']] = keep
    return out

def fields_multiset(t):
    return sorted(t.split('|'))

def classify(c, impl_out, expect):
    """compare the implementation's output with the statement; returns list of (finding_id or None, text)"""
    probs = []
    inp = {}
    for p in c['peps']:
        inp.setdefault(p['seq'], p)
    for s, ents in impl_out.items():
        if s not in inp:
            probs.append((None, 'output sequence %s is not an input sequence' % s))
            continue
        in_texts = [e['text'] for e in inp[s]['entries']]
        exp = expect.get(s, [])
        # map re-ordered entries back
        back = []
        for t in ents:
            if t in in_texts:
                back.append(t)
                continue
            cands = [e for e in inp[s]['entries'] if fields_multiset(e['text']) == fields_multiset(t)
                     and e['kind'] == 'fusion' and e['orf'] and not e['emitted_form']]
            if cands:
                # foreign field order (ORF id first: a form the callers never emit): only parse-equivalence is expected
                back.append(cands[0]['text'])
            else:
                probs.append((None, 'output entry %s of %s is not an input entry' % (t, s)))
                back.append(t)
        if back != exp:
            extra = [t for t in back if t not in exp]
            missing = [t for t in exp if t not in back]
            probs.append((None, 'peptide %s: kept entries %s, the statement requires %s' % (s, back, exp)))
    for s in expect:
        if s not in impl_out:
            probs.append((None, 'peptide %s dropped, the statement keeps entries %s' % (s, expect[s])))
    return probs

def sub_collection(small, big):
    """every peptide of `small` is in `big` with its entries a subsequence of big's"""
    for s, ents in small.items():
        if s not in big:
            return False
        it = iter(big[s])
        if not all(any(x == y for y in it) for x in ents):
            return False
    return True

# ------------------------------------------------------------------ driver
def build_cases(ctx):
    rng = ctx.rng
    enzymes = R.rule_names()
    n_main = 3000 if ctx.quick else 40000
    n_other = 1000 if ctx.quick else 12000
    cases = []
    worlds = [gen_world(rng) for _ in range(48 if ctx.quick else 300)]
    for i in range(n_main):
        c = gen_case(rng, rng.choice(worlds), enzymes, 'main')
        c['twice'] = rng.random() < 0.5
        cases.append(c)
        if rng.random() < 0.5:
            d, w = stricter(rng, c)
            if d:
                c['id'] = 'm%d' % i
                d['pair_of'] = c['id']
                d['pair_kind'] = w
                cases.append(d)
    for i in range(n_other):
        st = ['orf_first', 'dup', 'malformed', 'gtf'][i % 4]
        c = gen_case(rng, rng.choice(worlds), enzymes, st)
        if st == 'gtf':
            c['ref'] = 'gtf'
        c['twice'] = st in ('orf_first', 'dup')
        cases.append(c)
    # successive passes with different criteria on one pool (API) / on the FASTA of the previous run (CLI)
    for i in range(240 if ctx.quick else 3000):
        cases.append(gen_passes_case(rng, rng.choice(worlds), enzymes, 'api' if i % 3 else 'cli'))
    return cases

def load_corpus():
    out = []
    for f in sorted(glob.glob(os.path.join(ROOT, 'corpus', PROPERTY, '*.json'))):
        try:
            obj = json.load(open(f))
            if 'case' in obj:
                c = obj['case']
                c['corpus'] = os.path.basename(f)
                out.append(c)
        except Exception:
            pass
    return out

def evaluate(ctx, cases):
    """returns (violations, stats)"""
    pcases = [c for c in cases if c.get('kind') == 'passes']
    cases = [c for c in cases if c.get('kind') != 'passes']
    impl = I.run_cases('c19', [with_fasta(c) for c in cases], jobs=ctx.jobs, tag='c19')
    # model, with the true coding set; for the gtf stream additionally with the empty set
    reqs = [oracle_req(c) for c in cases]
    model = O.call_parallel(reqs, jobs=8)
    # cleavage sites for the declarative check come from the C10-proved model
    site_keys = sorted(set((c['enzyme'], p['seq']) for c in cases for p in c['peps']))
    site_res = O.call_parallel([('sites', [e, 'trypsin_exception' if e == 'trypsin' else None, s]) for e, s in site_keys], jobs=8)
    sites_cache = dict(zip(site_keys, site_res))
    viol, stats = [], dict(nontrivial=set(), dist={}, disagreements=0, findings={}, pairs=0, idem=0,
                           entries_kind={}, dropped_entries=0, kept_entries=0, errors=0)
    def add(c, fid, what, extra=None):
        v = {'what': what, 'replay_obj': {'kind': 'case', 'case': c, 'detail': extra}, 'no_input': False}
        if fid:
            v['finding'] = fid
            stats['findings'][fid] = stats['findings'].get(fid, 0) + 1
        viol.append(v)
    for c in pcases:
        stats['dist'][c['stream']] = stats['dist'].get(c['stream'], 0) + 1
    eval_passes(ctx, pcases, add, stats)
    outs = []
    for c, r, m in zip(cases, impl, model):
        stats['dist'][c['stream']] = stats['dist'].get(c['stream'], 0) + 1
        a = canon_impl(c, r)
        b = canon_model(c, m)
        outs.append(a)
        for p in c['peps']:
            for e in p['entries']:
                stats['entries_kind'][e['kind']] = stats['entries_kind'].get(e['kind'], 0) + 1
        if 'error' in a:
            stats['errors'] += 1
        expect = declarative(c, sites_cache)
        ok_model = agree(a, b)
        gtf_signature = False
        if not ok_model and c.get('ref') == 'gtf' and 'out' in a:
            # finding C19-gtf-coding: without --index-dir every transcript is treated as non-coding
            m0 = O.call_many([oracle_req(c, coding=[])])[0]
            gtf_signature = agree(a, canon_model(c, m0))
        if not ok_model:
            stats['disagreements'] += 1
        if 'out' in a and expect is not None:
            n_in = sum(len(p['entries']) for p in c['peps'])
            n_out = sum(len(v) for v in a['out'].values())
            stats['kept_entries'] += n_out
            stats['dropped_entries'] += n_in - n_out
            if 0 < n_out < n_in:
                stats['nontrivial'].add(json.dumps([c['fasta'] if 'fasta' in c else [[e['text'] for e in p['entries']] for p in c['peps']],
                                                    c.get('exprs'), c.get('cutoff'), c.get('kan'), c.get('kac'), c.get('keep_canonical'),
                                                    c.get('denylist'), c.get('miscleavages'), c['enzyme']], sort_keys=True))
            probs = classify(c, a['out'], expect)
            if gtf_signature and probs:
                add(c, 'C19-gtf-coding', 'with --annotation-gtf (no index dir) filterFasta treats every transcript as non-coding: ' + probs[0][1],
                    {'impl': a, 'expected': expect})
            else:
                seen_f = set()
                for fid, text in probs:
                    if fid in seen_f:
                        continue
                    seen_f.add(fid)
                    add(c, fid, 'C19 statement fails on the implementation output: ' + text, {'impl': a, 'expected': expect})
                if not ok_model and not probs and gtf_signature:
                    add(c, 'C19-gtf-coding', 'with --annotation-gtf (no index dir) filterFasta treats every transcript as non-coding '
                        '(output differs from the model run with the true coding set, equals the model run with an empty one)',
                        {'impl': a, 'model': b})
                elif not ok_model and not probs:
                    add(c, None, 'C19 model/implementation disagree (statement holds on this input): impl %s vs model %s' % (
                        json.dumps(a)[:160], json.dumps(b)[:160]), {'impl': a, 'model': b})
                    viol[-1]['no_input'] = True
                    viol[-1]['replay_obj'] = {'kind': 'correspondence', 'name': 'corr:C19/filter', 'example': c, 'impl': a, 'model': b}
        elif not ok_model:
            add(c, None, 'C19 model/implementation disagree: impl %s vs model %s' % (json.dumps(a)[:160], json.dumps(b)[:160]),
                {'impl': a, 'model': b})
        # idempotence on the real code
        if c.get('twice') and isinstance(r, dict) and 'out2' in r:
            stats['idem'] += 1
            a2 = canon_impl(c, r, 'out2')
            if a2 != a:
                reorder_only = all(fields_multiset(x) == fields_multiset(y)
                                   for s in a['out'] for x, y in zip(a['out'][s], a2['out'].get(s, []))) and \
                    set(a['out']) == set(a2['out']) and all(len(a['out'][s]) == len(a2['out'][s]) for s in a['out'])
                add(c, None, 'filtering twice differs from filtering once: %s vs %s' % (json.dumps(a)[:150], json.dumps(a2)[:150]),
                    {'once': a, 'twice': a2})
    # monotonicity on the real code
    by_id = {c['id']: k for k, c in enumerate(cases) if 'id' in c}
    for i, c in enumerate(cases):
        if 'pair_of' in c and c['pair_of'] in by_id:
            j = by_id[c['pair_of']]
            a1, a2 = outs[j], outs[i]
            if 'out' in a1 and 'out' in a2:
                stats['pairs'] += 1
                if not sub_collection(a2['out'], a1['out']):
                    add(c, None, 'stricter %s keeps more: %s not within %s' % (c['pair_kind'], json.dumps(a2)[:150], json.dumps(a1)[:150]),
                        {'loose_case': cases[j], 'loose': a1, 'strict': a2})
    return viol, stats

def run(ctx):
    corpus = load_corpus()
    cases = corpus + build_cases(ctx)
    viol, st = evaluate(ctx, cases)
    # keep one example per finding + every unlisted violation (capped)
    out_v, seen = [], {}
    for v in viol:
        fid = v.get('finding')
        if fid:
            seen[fid] = seen.get(fid, 0) + 1
            if seen[fid] > 3:
                continue
        out_v.append(v)
    unl = [v for v in out_v if not v.get('finding')]
    out_v = [v for v in out_v if v.get('finding')] + unl[:10]
    def strip(c):
        c = dict(c); c.pop('world', None); return c
    samples = [strip(cases[len(corpus)]), strip(cases[len(cases) // 2]), strip(cases[-1])]
    return dict(evaluations=len(cases), distinct_nontrivial=len(st['nontrivial']),
                rule='one case = reference world (real generateIndex) + FASTA (1-8 peptides, 1-4 entries each, every label kind) + '
                     'expression table + cutoff + keep flags + denylist + miscleavage range + enzyme through filter_fasta(args); '
                     'non-trivial = the implementation dropped at least one entry and kept at least one; distinct by full input',
                samples=samples, distribution=st['dist'], entries_by_kind=st['entries_kind'],
                kept_entries=st['kept_entries'], dropped_entries=st['dropped_entries'], error_cases=st['errors'],
                disagreements=st['disagreements'], findings_hit=st['findings'], idempotence_pairs=st['idem'], successive_passes_judged=st.get('passes', 0), later_passes_nonempty=st.get('passes_nontrivial', 0),
                monotonicity_pairs=st['pairs'], violations=out_v,
                assumptions=['expression values and cutoffs have at most 3 decimals (compared exactly as integers x1000; doubles order identically)',
                             'transcript ids contain no "-", " " or "|"; header fields are ASCII; int() is modelled on [+-]?digits',
                             'the implementation iterates a Python set: when several peptides raise different exception classes only membership of the raised class is compared'],
                trusted_base=['Biopython FASTA reader/writer (SeqIO.parse, FastaWriter)', 'harness/lib/gen_headers.py ground truth (kind, transcripts, splice flag of each generated entry)',
                              'CLI argument glue above VariantPeptidePool.filter (column selection, --miscleavages parsing) re-stated in harness/props/c19.py'])

def replay(ctx, obj):
    c = obj.get('case') or obj.get('example')
    viol, st = evaluate(ctx, [c])
    return dict(violations=viol)

def search_failing_input(ctx, broken):
    """An obligation of Props/C19.v no longer checks (e.g. the splice test or a prefix table read from the
    source differs from the hand-written reference): look for a concrete input on which the implementation
    violates the statement -- the corpus first, then a stream rich in alt-translation / splicing ids."""
    cases = load_corpus()
    rng = ctx.rng
    enzymes = R.rule_names()
    worlds = [gen_world(rng) for _ in range(6)]
    for _ in range(300):
        c = gen_case(rng, rng.choice(worlds), enzymes, 'alt_rich')
        cases.append(c)
    viol, st = evaluate(ctx, cases)
    for v in viol:
        if not v.get('finding') and not v.get('no_input'):
            obj = dict(v['replay_obj'])
            obj['what'] = v['what']
            return obj
    return None
