"""C15 (parser half) correspondence: STAR-Fusion / FusionCatcher / Arriba parsers and CLI entry functions vs Model/Fusion.v,
plus the declarative check from the generator's ground truth.

A case = reference world (gen_reference.gen_world, >= 2 genes) + one tool + rows rendered in that tool's table format
from true fusions: donor gene/transcript cut after genomic base p (exonic, last base of an exon, or intronic), accepter
gene/transcript entered at genomic base q; the row carries the 1-based positions L = p + 1 and R = q + 1 (the documented
convention of all three tools: last donor base / first accepter base).  Streams: unknown gene ids, breakpoints outside
the gene, evidence around the thresholds, Arriba antisense / '.' strands, --skip-failed on and off.

Compared exactly: GVF lines per row (library level) and per CLI run, exception classes, the tally table.
Declarative (python only): every emitted record, read with the documented semantics (POS = first base after the donor
breakpoint, ACCEPTER_POSITION = first accepter base, gene coordinates), must denote donor-transcript-up-to-p (+ retained
intron) ++ (retained intron +) accepter-transcript-from-q for exactly the eligible transcript pairs.
"""
import json, copy
from harness.lib import oracle as O, impl as I, gen_reference as G

PROPERTY = 'C15'
TOOLS = ['star', 'fc', 'arriba']
TCODE = {'star': 0, 'fc': 1, 'arriba': 2}
ERRS = {1: 'GeneNotFoundError', 2: 'ValueError', 3: 'IndexError'}
CONF = {'low': 0, 'medium': 1, 'high': 2}

# ------------------------------------------------------------------------------------------ generator
def pick_breakpoint(rng, g, tx, side):
    """0-based genomic position inside the span of tx: exonic, exon boundary or intronic"""
    ex = tx['exons']
    mode = rng.choice(['exonic', 'boundary', 'boundary', 'intronic', 'intronic'])
    if mode == 'intronic' and len(ex) >= 2:
        i = rng.randrange(len(ex) - 1)
        return rng.randint(ex[i][1], ex[i + 1][0] - 1), 'intronic'
    e = rng.choice(ex)
    if mode == 'boundary':
        # the splice-site case: donor keeps an exon up to its last base, accepter starts at an exon's first base
        last = (side == 'donor') == (g['strand'] == 1)
        return (e[1] - 1 if last else e[0]), 'boundary'
    return rng.randint(e[0], e[1] - 1), 'exonic'

def evidence(rng, tool, opts, ok=True):
    if tool == 'star':
        m = opts['min_est_j100']
        v = rng.choice([m, m + 1, m + 250]) if ok else rng.choice([m - 1, max(0, m - 300)])
        v = max(v, 0)
        return {'est_j': '%d.%02d' % (v // 100, v % 100), 'est_j100': v}
    if tool == 'fc':
        if ok:
            return {'common': rng.randint(0, opts['max_common']), 'unique': opts['min_unique'] + rng.choice([0, 1, 7])}
        if rng.random() < 0.5:
            return {'common': opts['max_common'] + rng.choice([1, 3]), 'unique': opts['min_unique'] + 2}
        return {'common': 0, 'unique': max(0, opts['min_unique'] - rng.choice([1, 2]))}
    lv = ['low', 'medium', 'high']
    mc = CONF[opts['min_conf']]
    if ok:
        return {'sr1': opts['min_sr1'] + rng.choice([0, 1, 9]), 'sr2': opts['min_sr2'] + rng.choice([0, 1, 9]), 'conf': lv[rng.randint(mc, 2)]}
    k = rng.choice([0, 1, 2])
    e = {'sr1': opts['min_sr1'] + 1, 'sr2': opts['min_sr2'] + 1, 'conf': lv[mc]}
    if k == 0 and opts['min_sr1'] > 0:
        e['sr1'] = opts['min_sr1'] - 1
    elif k == 1 and opts['min_sr2'] > 0:
        e['sr2'] = opts['min_sr2'] - 1
    elif mc > 0:
        e['conf'] = lv[mc - 1]
    else:
        e['sr1'] = opts['min_sr1'] - 1
    return e

def gen_case(rng):
    while True:
        w = G.gen_world(rng, n_chrom=rng.choice([1, 2]), max_genes=4, small=True, multi_iso_p=0.75)
        if len(w['genes']) >= 2:
            break
    tool = rng.choice(TOOLS)
    opts = {'skip_failed': rng.random() < 0.5}
    if tool == 'star':
        opts['min_est_j100'] = rng.choice([0, 100, 500, 500, 725])
        opts['min_est_j'] = opts['min_est_j100'] / 100.0
    elif tool == 'fc':
        opts['max_common'] = rng.choice([0, 0, 2])
        opts['min_unique'] = rng.choice([0, 1, 5, 5])
    else:
        opts['min_sr1'] = rng.choice([0, 1, 1, 3]); opts['min_sr2'] = rng.choice([0, 1, 1, 3])
        opts['min_conf'] = rng.choice(['low', 'medium', 'medium', 'high'])
    rows = []
    for _ in range(rng.randint(3, 9)):
        gd, ga = rng.choice(w['genes']), rng.choice(w['genes'])
        td, ta = rng.choice(gd['transcripts']), rng.choice(ga['transcripts'])
        p, pm = pick_breakpoint(rng, gd, td, 'donor')
        q, qm = pick_breakpoint(rng, ga, ta, 'accepter')
        kind = 'ok'
        r = dict(dgid=gd['id'], agid=ga['id'], dsym=gd['name'], asym=ga['name'], dchrom=gd['chrom'], achrom=ga['chrom'],
                 dstrand='+' if gd['strand'] == 1 else '-', astrand='+' if ga['strand'] == 1 else '-',
                 di=w['genes'].index(gd), ai=w['genes'].index(ga))
        r['tstrand1'], r['tstrand2'] = r['dstrand'], r['astrand']
        x = rng.random()
        ok = True
        if x < 0.10:
            kind = 'unknown_gene'
            bad = 'ENSG%011d.%d' % (rng.randint(900, 999), rng.randint(1, 9))
            if rng.random() < 0.5:
                r['dgid'], r['di'] = bad, -1
            else:
                r['agid'], r['ai'] = bad, -1
        elif x < 0.20:
            kind = 'outside'
            if rng.random() < 0.5:
                p = rng.choice([gd['start'] - rng.randint(1, 4), gd['end'] + rng.randint(0, 3)])
            else:
                q = rng.choice([ga['start'] - rng.randint(1, 4), ga['end'] + rng.randint(0, 3)])
        elif x < 0.35:
            kind = 'low_evidence'
            ok = False
        elif x < 0.47 and tool == 'arriba':
            kind = 'antisense'
            if rng.random() < 0.5:
                r['tstrand1'] = rng.choice(['.', '-' if r['dstrand'] == '+' else '+'])
            else:
                r['tstrand2'] = rng.choice(['.', '-' if r['astrand'] == '+' else '+'])
        if tool == 'fc' and rng.random() < 0.3 and kind != 'unknown_gene':
            r['dgid'] = r['dgid'].split('.')[0]; r['agid'] = r['agid'].split('.')[0]
            kind += '/unversioned'
        r.update(L=p + 1, R=q + 1, ev=evidence(rng, tool, opts, ok), kind=kind, modes=[pm, qm])
        if r['L'] < 1 or r['R'] < 1:
            continue
        rows.append(r)
    return dict(world=w, tool=tool, rows=rows, opts=opts)

# ------------------------------------------------------------------------------------------ model side
def enc_world(w):
    chroms = sorted(w['chroms'])
    genes = [[g['strand'], g['start'], g['end'],
              [[t['exons'][0][0], t['exons'][-1][1], [list(e) for e in t['exons']]] for t in g['transcripts']],
              chroms.index(g['chrom'])] for g in w['genes']]
    return genes, [w['chroms'][c] for c in chroms]

def enc_row(tool, r):
    e = r['ev']
    s = {'+': 1, '-': -1, '.': 0}
    if tool == 'star':
        ev = [e['est_j100'], 0, 0]
    elif tool == 'fc':
        ev = [e['common'], e['unique'], 0]
    else:
        ev = [e['sr1'], e['sr2'], CONF[e['conf']]]
    return [r['di'], r['ai'], r['L'], r['R']] + ev + [s[r['tstrand1']], s[r['tstrand2']]]

def enc_opts(tool, o):
    if tool == 'star':
        return [o['min_est_j100'], 0, 0, o['skip_failed']]
    if tool == 'fc':
        return [o['max_common'], o['min_unique'], 0, o['skip_failed']]
    return [o['min_sr1'], o['min_sr2'], CONF[o['min_conf']], o['skip_failed']]

def render(w, tool, row_ids, di, ai, L, R, fr):
    dtx, atx, pos, apos, ref = fr
    gd, ga = w['genes'][di], w['genes'][ai]
    dt, at = gd['transcripts'][dtx]['id'], ga['transcripts'][atx]['id']
    # CHROM / ACCEPTER_GENE_ID: STAR and Arriba print the id as written in the row, FusionCatcher the annotation's id
    dgid, agid = (gd['id'], ga['id']) if tool == 'fc' else row_ids
    info = ['TRANSCRIPT_ID=' + dt, 'GENE_SYMBOL=' + gd['name'], 'GENOMIC_POSITION=%s:%d:%d' % (gd['chrom'], L, L),
            'ACCEPTER_GENE_ID=' + agid, 'ACCEPTER_TRANSCRIPT_ID=' + at, 'ACCEPTER_SYMBOL=' + ga['name'],
            'ACCEPTER_POSITION=%d' % (apos + 1), 'ACCEPTER_GENOMIC_POSITION=%s:%d:%d' % (ga['chrom'], R, R)]
    return '\t'.join([dgid, str(pos + 1), 'FUSION-%s:%d-%s:%d' % (dt, pos, at, apos), chr(ref), '<FUSION>', '.', '.', ';'.join(info)])

def reorder(case, im):
    if not (isinstance(im, dict) and 'tx_order' in im):
        return case
    c = dict(case)
    c['world'] = copy.deepcopy(case['world'])
    for g in c['world']['genes']:
        order = {t: i for i, t in enumerate(im['tx_order'].get(g['id'], []))}
        g['transcripts'].sort(key=lambda t: order.get(t['id'], 1 << 30))
    return c

def evaluate(ctx, cases):
    impl = I.run_cases('c15', cases, jobs=ctx.jobs, tag='c15')
    cases = [reorder(c, im) for c, im in zip(cases, impl)]
    reqs, spans = [], []
    for c in cases:
        genes, chroms = enc_world(c['world'])
        t = TCODE[c['tool']]
        a = len(reqs)
        for r in c['rows']:
            reqs.append(('c15_convert', [t, genes, chroms, r['di'], r['ai'], r['L'], r['R']]))
        reqs.append(('c15_cli', [t, genes, chroms, enc_opts(c['tool'], c['opts']), [enc_row(c['tool'], r) for r in c['rows']]]))
        spans.append((a, len(reqs)))
    rep = O.call_parallel(reqs, jobs=8)
    return [(c, im, rep[a:b]) for c, im, (a, b) in zip(cases, impl, spans)]

# ------------------------------------------------------------------------------------------ declarative side
def exonic(tx, x):
    return any(s <= x < e for s, e in tx['exons'])

def donor_positions(g, tx, p):
    """genomic positions, in transcript order, of the donor transcript up to p, plus the retained intron"""
    ex = tx['exons']
    if g['strand'] == 1:
        pos = [x for s, e in ex for x in range(s, e) if x <= p]
        if not exonic(tx, p):
            prev = max([e for s, e in ex if e <= p], default=None)
            if prev is None:
                return None
            pos += list(range(prev, p + 1))
        return pos
    pos = [x for s, e in reversed(ex) for x in range(e - 1, s - 1, -1) if x >= p]
    if not exonic(tx, p):
        nxt = min([s for s, e in ex if s > p], default=None)
        if nxt is None:
            return None
        pos += list(range(nxt - 1, p - 1, -1))
    return pos

def accepter_positions(g, tx, q):
    ex = tx['exons']
    if g['strand'] == 1:
        pos = [x for s, e in ex for x in range(s, e) if x >= q]
        if not exonic(tx, q):
            nxt = min([s for s, e in ex if s > q], default=None)
            if nxt is None:
                return None
            pos = list(range(q, nxt)) + pos
        return pos
    pos = [x for s, e in reversed(ex) for x in range(e - 1, s - 1, -1) if x <= q]
    if not exonic(tx, q):
        prev = max([e for s, e in ex if e <= q], default=None)
        if prev is None:
            return None
        pos = list(range(q, prev - 1, -1)) + pos
    return pos

def seq_of(w, g, positions):
    c = w['chroms'][g['chrom']]
    return ''.join(c[x] if g['strand'] == 1 else G.COMP[c[x]] for x in positions)

def truth(w, gd, td, p, ga, ta, q):
    a, b = donor_positions(gd, td, p), accepter_positions(ga, ta, q)
    if a is None or b is None:
        return None
    return seq_of(w, gd, a) + seq_of(w, ga, b)

def parse_line(line):
    f = line.split('\t')
    info = dict(kv.split('=', 1) for kv in f[7].split(';'))
    return dict(chrom=f[0], pos=int(f[1]) - 1, id=f[2], ref=f[3], alt=f[4], info=info)

def declarative(case, r, lines):
    """returns (checked, failures) for the records emitted for one row"""
    w = case['world']
    fails = []
    if r['di'] < 0 or r['ai'] < 0:
        return 0, ([('records emitted for an unknown gene id', lines[0])] if lines else [])
    gd, ga = w['genes'][r['di']], w['genes'][r['ai']]
    p, q = r['L'] - 1, r['R'] - 1
    want_pairs = {(td['id'], ta['id']) for td in gd['transcripts'] if td['exons'][0][0] <= p < td['exons'][-1][1]
                  for ta in ga['transcripts'] if ta['exons'][0][0] <= q < ta['exons'][-1][1]}
    got_pairs = set()
    n = 0
    for line in lines:
        rec = parse_line(line)
        td = {t['id']: t for t in gd['transcripts']}.get(rec['info']['TRANSCRIPT_ID'])
        ta = {t['id']: t for t in ga['transcripts']}.get(rec['info']['ACCEPTER_TRANSCRIPT_ID'])
        if td is None or ta is None or rec['alt'] != '<FUSION>':
            fails.append(('record names a transcript outside the two genes', line)); continue
        got_pairs.add((td['id'], ta['id']))
        # documented semantics: donor kept through gene coordinate POS-1, accepter from ACCEPTER_POSITION (0-based after parsing)
        pp = G.gene2g(gd, rec['pos'] - 1)
        qq = G.gene2g(ga, int(rec['info']['ACCEPTER_POSITION']) - 1)
        got = truth(w, gd, td, pp, ga, ta, qq)
        want = truth(w, gd, td, p, ga, ta, q)
        n += 1
        if got is None or got != want:
            fails.append(('record denotes %s but the breakpoints %s:%d / %s:%d define %s' % (got, gd['chrom'], r['L'], ga['chrom'], r['R'], want), line))
    if lines and got_pairs != want_pairs:
        fails.append(('transcript pairs %s emitted, eligible pairs are %s' % (sorted(got_pairs), sorted(want_pairs)), lines[0]))
    return n, fails

def expected_verdict(case, r):
    """python-only reading of the CLI help: which rows are below the evidence thresholds"""
    o, e, tool = case['opts'], r['ev'], case['tool']
    if tool == 'star':
        return e['est_j100'] >= o['min_est_j100']
    if tool == 'fc':
        return e['common'] <= o['max_common'] and e['unique'] >= o['min_unique']
    return e['sr1'] >= o['min_sr1'] and e['sr2'] >= o['min_sr2'] and CONF[e['conf']] >= CONF[o['min_conf']]

def sense_ok(case, r):
    """Arriba reports gene/fusion strand pairs: the fusion is a sense fusion of both partners iff the two members of each
    pair agree ('.' = unknown never does).  parse_arriba documents that antisense / uninterpretable fusions are skipped."""
    return case['tool'] != 'arriba' or (r['tstrand1'] == r['dstrand'] and r['tstrand2'] == r['astrand'])

def expected_emit(case, r):
    """python-only reading of the statement: the row's records belong in the GVF iff both genes are known, the evidence
    reaches the thresholds and (Arriba) the fusion is sense on both sides"""
    return r['di'] >= 0 and r['ai'] >= 0 and expected_verdict(case, r) and sense_ok(case, r)

# ------------------------------------------------------------------------------------------ driver
def canon(x):
    if isinstance(x, dict) and '__exc__' in x:
        return {'__exc__': x['__exc__']}
    return x

def new_stats():
    return dict(rows=0, dist={}, records=0, checked=0, errors={}, nontrivial=set(), diffs=[], cli=0, tallies=0, strand_combos={})

def analyse(ctx, results, st):
    violations = []
    for case, im, rep in results:
        if isinstance(im, dict) and '__exc__' in im:
            violations.append({'what': 'implementation worker failed: %s' % im.get('msg', ''), 'replay_obj': {'kind': 'case', 'case': case}, 'no_input': False})
            continue
        w, tool = case['world'], case['tool']
        for i, (r, a, m) in enumerate(zip(case['rows'], im['lib'], rep[:-1])):
            a = canon(a)
            st['rows'] += 1
            key = '%s/%s/%s' % (tool, r['kind'], '-'.join(r['modes']))
            st['dist'][key] = st['dist'].get(key, 0) + 1
            code, recs = m
            if code != 0:
                b = {'__exc__': ERRS[code]}
            else:
                b = sorted(render(w, tool, (r['dgid'], r['agid']), r['di'], r['ai'], r['L'], r['R'], fr) for fr in recs)
            lines = a if isinstance(a, list) else []
            if isinstance(a, dict):
                st['errors'][a['__exc__']] = st['errors'].get(a['__exc__'], 0) + 1
            n, fails = declarative(case, r, lines)
            st['records'] += len(lines); st['checked'] += n
            if n:
                st['nontrivial'].add(json.dumps([tool, r['dgid'], r['agid'], r['L'], r['R'], w['genes'][r['di']], w['genes'][r['ai']]], sort_keys=True))
                sc = r['dstrand'] + r['astrand']
                st['strand_combos'][sc] = st['strand_combos'].get(sc, 0) + 1
            sub = dict(case); sub['rows'] = [r]
            if fails:
                violations.append({'what': 'C15 %s row %s:%d -> %s:%d (%s): %s' % (tool, r['dgid'], r['L'], r['agid'], r['R'], r['kind'], fails[0][0][:300]),
                                   'replay_obj': {'kind': 'case', 'case': sub, 'line': fails[0][1]}, 'no_input': False})
            elif a != b:
                st['diffs'].append({'case': sub, 'impl': a, 'model': b, 'level': 'lib'})
        # CLI level
        st['cli'] += 1
        code, recs, tl = rep[-1]
        ac = canon(im['cli'])
        if code != 0:
            mc, mt = {'__exc__': ERRS[code]}, None
        else:
            ids = {(r['di'], r['ai'], r['L'], r['R']): (r['dgid'], r['agid']) for r in case['rows']}
            # rows with equal (genes, breakpoints) may differ in the spelling of the ids (versioned / unversioned): render per row
            mc = []
            k = 0
            per_row = []
            for r in case['rows']:
                per_row.append(r)
            # the model returns records in row order with the row's (dg, ag, L, R); walk rows in order to recover spelling
            ri = 0
            for di, ai, L, R, fr in recs:
                while ri < len(per_row) and (per_row[ri]['di'], per_row[ri]['ai'], per_row[ri]['L'], per_row[ri]['R']) != (di, ai, L, R):
                    ri += 1
                row = per_row[ri] if ri < len(per_row) else None
                spell = (row['dgid'], row['agid']) if row else ids[(di, ai, L, R)]
                mc.append(render(w, tool, spell, di, ai, L, R, fr))
            mc = sorted(mc)
            mt = dict(zip(['total', 'succeed', 'skipped', 'invalid_gene_id', 'invalid_position', 'insufficient_evidence', 'antisense_strand'], tl))
        cli_fail = None
        if 'cli_argv' in im:
            st['argv'] = st.get('argv', 0) + 1
            av = canon(im['cli_argv'])
            if av != ac:
                cli_fail = 'through the real argument parser (%s) the command gives %s, the entry function called with the same options gives %s' % (
                    '--index-dir' if case.get('argv_index') else 'reference files', str(av)[:200], str(ac)[:200])
        if isinstance(ac, list) and not cli_fail:
            # declarative: rows below the thresholds or with unknown genes contribute nothing; counted
            it = im.get('tally')
            if it:
                st['tallies'] += 1
                if it.get('total') != len(case['rows']) or it.get('succeed', 0) + it.get('skipped', 0) != it.get('total'):
                    cli_fail = 'tally does not add up: %s for %d rows' % (it, len(case['rows']))
                low = sum(1 for r in case['rows'] if not expected_verdict(case, r) and not (tool == 'arriba' and (r['di'] < 0 or r['ai'] < 0)))
                if it.get('skipped', 0) and it.get('insufficient_evidence', 0) != low:
                    cli_fail = 'insufficient-evidence count %s, rows below thresholds %d' % (it.get('insufficient_evidence'), low)
                if tool == 'arriba' and it.get('skipped', 0):
                    anti = sum(1 for r in case['rows'] if r['di'] >= 0 and r['ai'] >= 0 and expected_verdict(case, r) and not sense_ok(case, r))
                    if it.get('antisense_strand', 0) != anti:
                        cli_fail = 'antisense count %s, rows with an antisense / unknown fusion strand on either side %d' % (it.get('antisense_strand'), anti)
            allowed = set()
            for r, a in zip(case['rows'], im['lib']):
                if isinstance(a, list) and expected_emit(case, r):
                    allowed.update(a)
            extra = [l for l in ac if l not in allowed]
            if extra:
                bad_rows = [r for r, a in zip(case['rows'], im['lib']) if isinstance(a, list) and extra[0] in a]
                cli_fail = 'CLI wrote a record of a row that is below the thresholds, antisense (%s) or failed: %s' % (
                    ', '.join('%s/%s %s/%s' % (r['dstrand'], r['tstrand1'], r['astrand'], r['tstrand2']) for r in bad_rows[:2]), extra[0][:160])
                fail_rows = bad_rows[:1]
            else:
                # converse: a reported sense fusion with sufficient evidence between known genes must be in the GVF
                have = set(ac)
                for r, a in zip(case['rows'], im['lib']):
                    if isinstance(a, list) and expected_emit(case, r) and any(l not in have for l in a):
                        cli_fail = 'the row %s:%d (%s/%s) -> %s:%d (%s/%s) is a sense fusion with sufficient evidence but its record is missing from the GVF' % (
                            r['dgid'], r['L'], r['dstrand'], r['tstrand1'], r['agid'], r['R'], r['astrand'], r['tstrand2'])
                        fail_rows = [r]
                        break
        if cli_fail:
            sub = dict(case)
            if locals().get('fail_rows'):
                sub['rows'] = fail_rows
            fail_rows = None
            violations.append({'what': 'C15 %s CLI: %s' % (tool, cli_fail), 'replay_obj': {'kind': 'case', 'case': sub}, 'no_input': False})
        elif ac != mc:
            st['diffs'].append({'case': case, 'impl': ac, 'model': mc, 'level': 'cli'})
        elif isinstance(ac, list) and im.get('tally') and mt:
            it = im['tally']
            if any(it[k] != mt[k] for k in it):     # STAR-Fusion / FusionCatcher do not log the antisense line
                st['diffs'].append({'case': case, 'impl': it, 'model': mt, 'level': 'tally'})
    return violations

def semantics_crosscheck(results, limit=4000):
    """the Coq definitions the theorems speak about (fusion_apply = shift_breakpoint_to_closest_exon + fusion branch of
    to_transcript_variant; fused_seq = declarative fusion transcript) against the python ground truth"""
    reqs, wants = [], []
    for case, im, rep in results:
        if not (isinstance(im, dict) and 'lib' in im):
            continue
        w = case['world']
        for r, a in zip(case['rows'], im['lib']):
            if not isinstance(a, list) or r['di'] < 0 or r['ai'] < 0:
                continue
            gd, ga = w['genes'][r['di']], w['genes'][r['ai']]
            for line in a[:2]:
                if len(reqs) >= 2 * limit:
                    break
                rec = parse_line(line)
                td = [t for t in gd['transcripts'] if t['id'] == rec['info']['TRANSCRIPT_ID']][0]
                ta = [t for t in ga['transcripts'] if t['id'] == rec['info']['ACCEPTER_TRANSCRIPT_ID']][0]
                eg = lambda g: [g['strand'], g['start'], g['end'], []]
                fr = [0, 0, rec['pos'], int(rec['info']['ACCEPTER_POSITION']) - 1, ord(rec['ref'])]
                dc, ac = w['chroms'][gd['chrom']], w['chroms'][ga['chrom']]
                reqs.append(('c15_apply', [eg(gd), dc, [list(e) for e in td['exons']], eg(ga), ac, [list(e) for e in ta['exons']], fr]))
                reqs.append(('c15_fused', [gd['strand'], dc, [list(e) for e in td['exons']], r['L'] - 1,
                                           ga['strand'], ac, [list(e) for e in ta['exons']], r['R'] - 1]))
                wants.append((truth(w, gd, td, r['L'] - 1, ga, ta, r['R'] - 1), case, r, line))
    rep = O.call_parallel(reqs, jobs=8)
    bad = []
    for k, (want, case, r, line) in enumerate(wants):
        ap, fu = rep[2 * k], rep[2 * k + 1]
        ap = O.U(ap[0]) if ap else None
        fu = O.U(fu)
        if ap != want or fu != want:
            bad.append({'row': r, 'line': line, 'apply': ap, 'fused': fu, 'truth': want})
    return len(wants), bad

def run(ctx):
    import os, glob
    rng = ctx.rng
    n = 900 if ctx.quick else 9000
    cases = [gen_case(rng) for _ in range(n)]
    k = 0
    for i, c in enumerate(cases):          # small stream through the real argument parser, all options spelled out
        if i % 10 == 0:
            c['argv'] = True
            if k < 3:
                c['argv_index'] = True     # one per tool is likely among the first three
            k += 1
    cdir = os.path.join(os.path.dirname(os.path.dirname(os.path.dirname(os.path.abspath(__file__)))), 'corpus', 'C15')
    corpus = [json.load(open(f))['case'] for f in sorted(glob.glob(os.path.join(cdir, '*.json')))]
    st = new_stats()
    results = evaluate(ctx, corpus + cases)
    violations = analyse(ctx, results, st)
    n_sem, bad_sem = semantics_crosscheck(results)
    if bad_sem:
        violations.append({'what': 'the Coq semantics (fusion_apply / fused_seq) differ from the python ground truth on %d records; first: %s' % (
                               len(bad_sem), json.dumps(bad_sem[0])[:400]),
                           'replay_obj': {'kind': 'correspondence', 'name': 'corr:C15/fusion_apply', 'example': bad_sem[0]}, 'no_input': True})
    if st['diffs']:
        ex = st['diffs'][0]
        violations.append({'what': 'implementation and model disagree on %d rows/runs although the declarative statement holds on the '
                                   'implementation output; first (%s): impl %s vs model %s' % (len(st['diffs']), ex['level'], str(ex['impl'])[:200], str(ex['model'])[:200]),
                           'replay_obj': {'kind': 'correspondence', 'name': 'corr:C15/convert_to_variant_records', 'example': ex}, 'no_input': True})
    samples = []
    for c, im, rep in results[:60]:
        if isinstance(im, dict) and 'lib' in im:
            for r, a in zip(c['rows'], im['lib']):
                if isinstance(a, list) and a and len(samples) < 6:
                    samples.append({'tool': c['tool'], 'row': {k: r[k] for k in ('dgid', 'agid', 'L', 'R', 'dstrand', 'astrand', 'modes')}, 'records': a[:1]})
    return dict(evaluations=st['rows'] + st['cli'], distinct_nontrivial=len(st['nontrivial']),
                rule='one evaluation = one tool row through the real parser + convert_to_variant_records compared with the model (plus one '
                     'per CLI run); non-trivial = the row produced at least one record whose denoted fusion transcript was compared '
                     'with the ground truth; distinct by (tool, genes, breakpoints)',
                samples=samples, distribution=st['dist'], strand_combinations=st['strand_combos'], error_classes=st['errors'],
                records=st['records'], records_reconstructed=st['checked'], coq_semantics_crosschecked=n_sem, cli_runs=st['cli'], argv_route_runs=st.get('argv', 0), tallies_compared=st['tallies'],
                disagreements=len(st['diffs']), violations=violations[:12],
                assumptions=['breakpoint columns are 1-based: last donor base / first accepter base (documented convention of all three tools)',
                             'chromosome names in the rows are those of the annotation; gene strand is +1/-1',
                             'STAR-Fusion est_J values and --min-est-j have at most two decimals (compared as integers x100 in the model)'],
                trusted_base=['GVF text rendering of model records (harness/props/c15.py:render)',
                              'python ground truth (donor_positions / accepter_positions in harness/props/c15.py, gen_reference)',
                              'tally values are read from the log messages of TallyTable.log'])

def replay(ctx, obj):
    if obj.get('kind') == 'exon_lookup':
        c = obj['case']
        a = I.run_cases('py2coq_exon', [c], jobs=1, tag='c15x')[0]
        want = model_exon_lookup(c['fn'], c['strand'], c['exons'], c['pos'])
        got = None if isinstance(a, dict) and a.get('__exc__') in ('ValueError', 'UnboundLocalError') else a
        return dict(violations=[] if got == want else [{'what': obj.get('what', ''), 'replay_obj': obj}])
    if obj.get('kind') != 'case':
        return dict(violations=[{'what': 'correspondence replay: ' + obj.get('name', ''), 'replay_obj': obj, 'no_input': True}])
    st = new_stats()
    v = analyse(ctx, evaluate(ctx, [obj['case']]), st)
    for h in st['diffs']:
        v.append({'what': 'replay: impl %s vs model %s' % (str(h['impl'])[:300], str(h['model'])[:300]), 'replay_obj': obj, 'no_input': False})
    return dict(violations=v)

def search_failing_input(ctx, broken):
    """A theorem of Props/C15.v no longer checks (typically a code_<fn>_is_model equality of docs/py2coq.md: a
    convert_to_variant_records body or a CLI record loop regenerated from the source differs from Model/Fusion.v):
    run the correspondence on the quick budget with a stream of its own and return the first input on which the
    implementation and the model (or the statement) part."""
    import sys, random
    from harness.lib import py2coq_search
    if 'exon_' in str(broken.get('theorem') or '') or 'exon_' in str(broken.get('why') or ''):
        r = exon_lookup_disagreement(random.Random(ctx.seed * 1000003 + 11))
        if r:
            return r
    return py2coq_search.first_disagreement(sys.modules[__name__], ctx, broken)

def model_exon_lookup(fn, strand, ex, pos):
    """Fusion.upstream_exon_end / downstream_exon_start of coq/Model/Fusion.v transcribed (None = the model's None)"""
    ind = None
    if fn == 'get_upstream_exon_end':
        for s, e in (ex if strand == 1 else ex[::-1]):
            if (e > pos) if strand == 1 else (s < pos):
                break
            ind = e - 1 if strand == 1 else s
        return ind
    for s, e in (ex if strand == 1 else ex[::-1]):
        if (s >= pos) if strand == 1 else (e - 1 <= pos):
            return s if strand == 1 else e - 1
    return None

def exon_lookup_disagreement(rng, n=4000):
    """the exon look-ups of shift_breakpoint_to_closest_exon (docs/py2coq.md target 26) on bare exon lists: the functions
    of the checked-out source against the model; exons satisfy 0 <= start < end, the hypothesis of the theorems"""
    cases = []
    for _ in range(n):
        x, ex = rng.randint(0, 6), []
        for _ in range(rng.randint(1, 4)):
            e = x + rng.randint(1, 5)
            ex.append([x, e])
            x = e + rng.randint(1, 5)
        cases.append(dict(fn=rng.choice(['get_upstream_exon_end', 'get_downstream_exon_start']), strand=rng.choice([1, -1]),
                          exons=ex, pos=rng.randint(-1, x + 1)))
    cases.sort(key=lambda c: (len(c['exons']), c['pos']))
    for c, a in zip(cases, I.run_cases('py2coq_exon', cases, jobs=4, tag='c15x')):
        want = model_exon_lookup(c['fn'], c['strand'], c['exons'], c['pos'])
        got = None if isinstance(a, dict) and a.get('__exc__') in ('ValueError', 'UnboundLocalError') else a
        if got != want:
            return {'kind': 'exon_lookup', 'case': c, 'impl': a if not isinstance(a, dict) else a.get('__exc__'), 'model': want,
                    'what': 'TranscriptAnnotationModel.%s(pos=%d) on strand %d exons %s: implementation %s, model %s' % (
                        c['fn'], c['pos'], c['strand'], c['exons'], a if not isinstance(a, dict) else a.get('__exc__'), want)}
    return None
