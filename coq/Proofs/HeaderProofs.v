(* Proofs about Model/Header.v (C18, C19). *)
From Coq Require Import ZArith List Bool Lia ZifyBool Decimal DecimalPos DecimalZ.
From MoPep Require Import Model.Base Gen.HeaderCfg Model.Header Model.HeaderRef.
Import ListNotations.
Open Scope Z_scope.

(* "FUSION-A:1-B:2|1-SNV-6-A-T|ORF1|1" : the field order in which callVariant emits a fusion entry of a
   novel ORF (get_peptide_sequences appends |ORFn after str(identifier)) *)
Definition w_fusion_orf : str :=
  [70;85;83;73;79;78;45;65;58;49;45;66;58;50;124;49;45;83;78;86;45;54;45;65;45;84;124;79;82;70;49;124;49].

(* the regenerated tables and the recognised splice test coincide with the hand-written reference *)
Lemma header_tables_are_spec_l :
  cfg_ctbv_prefixes = ref_ctbv_prefixes /\ cfg_alt_translation_prefixes = ref_alt_translation_prefixes /\
  cfg_alt_splice_types = ref_splice_types /\ cfg_splice_test = 2 /\
  cfg_source_novel_orf = ref_source_novel_orf /\ cfg_source_codon_reassign = ref_source_codon_reassign /\
  cfg_source_sect = ref_source_sect /\ cfg_sect_type = ref_source_sect /\
  cfg_codon_reassign_types = [[87;50;70]] /\ cfg_entry_delim = 32 /\ cfg_key_sep = 45 /\
  cfg_circ_orf_first = false /\ cfg_fusion_orf_first = false.
Proof. repeat split; reflexivity. Qed.

(* hence the flag filterFasta consults is exactly the specified one, for every identifier *)
Lemma splice_flag_is_spec_l : forall i, ident_is_alt_splicing i = spec_is_splice_altering (i_v1 i).
Proof.
  intro i. unfold ident_is_alt_splicing, spec_is_splice_altering, spec_splice_id, splice_match, alt_splice_types.
  destruct header_tables_are_spec_l as [_ [_ [H3 [H4 _]]]]. rewrite H3, H4. reflexivity.
Qed.

Lemma fusion_orf_entry_verbatim_l :
  exists i, parse_entry w_fusion_orf = Ok i /\ print_ident i = w_fusion_orf.
Proof. eexists. split; vm_compute; reflexivity. Qed.
