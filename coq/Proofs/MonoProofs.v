(* C05: monotonicity of the specification (Model/Spec.v, Model/SpecFlags.v) in the limits, the
   permissive switches and the record set, each with its attribution clause.  Level S: these are
   theorems about the SPECIFICATION; the engine is tied by harness/props/c05.py only. *)
From Coq Require Import ZArith List Bool Lia ZifyBool.
From MoPep Require Import Model.Base Model.Rule Model.Digest Model.Spec Model.SpecStmt Model.W2F Model.SpecFlags
                          Gen.Bio Gen.Expasy Proofs.DigestProofs Proofs.SpecProofs Proofs.W2FProofs.
Import ListNotations.
Open Scope Z_scope.

(* ------------------------------------------------------------------ list facts *)
Lemma filter_flat_map {A B} (f : B -> bool) (g : A -> list B) l :
  filter f (flat_map g l) = flat_map (fun x => filter f (g x)) l.
Proof. induction l as [|a l IH]; cbn; auto. rewrite filter_app, IH. reflexivity. Qed.

Lemma flat_map_ext_in {A B} (f g : A -> list B) l :
  (forall a, In a l -> f a = g a) -> flat_map f l = flat_map g l.
Proof.
  induction l as [|a l IH]; cbn; auto. intros H. rewrite (H a) by auto. f_equal. apply IH. auto.
Qed.

Lemma incl_flat_map {A B} (f g : A -> list B) l l' :
  incl l l' -> (forall a, In a l -> incl (f a) (g a)) -> incl (flat_map f l) (flat_map g l').
Proof.
  intros Hl Hf b Hb. apply in_flat_map in Hb as (a & Ha & Hb). apply in_flat_map.
  exists a. split; [apply Hl; auto | apply (Hf a Ha); auto].
Qed.

(* ------------------------------------------------------------------ 1. limits are filters *)
Section Filter.
  Variable wt : weight_table.
  Variable water : Z.

  Lemma emit_is_filter lim s first nf a b :
    emit wt water lim s first nf a b = filter (keep wt water lim) (cands s first nf a b).
  Proof.
    unfold emit, cands, update. rewrite filter_app.
    destruct (first && negb nf && starts_with_M (piece s a b)); cbn [filter];
      destruct (keep wt water lim (piece s a b)); try destruct (keep wt water lim (tl (piece s a b))); reflexivity.
  Qed.

  Lemma cleave_loop_is_filter lim s nf : forall bs first,
    cleave_loop wt water lim s nf first bs = filter (keep wt water lim) (cands_loop lim s nf first bs).
  Proof.
    induction bs as [|a rest IH]; intros first; cbn [cleave_loop cands_loop]; auto.
    rewrite filter_app, IH, filter_flat_map. f_equal.
    apply flat_map_ext_in. intros b _. apply emit_is_filter.
  Qed.
End Filter.

(* the enumeration depends on the limits record through lim_k only *)
Lemma cands_loop_k_only l l' s nf : lim_k l = lim_k l' -> forall bs first,
  cands_loop l s nf first bs = cands_loop l' s nf first bs.
Proof.
  intros Hk. induction bs as [|a rest IH]; intros first; cbn [cands_loop]; auto.
  rewrite Hk, IH. reflexivity.
Qed.

Lemma cands_loop_mono_k l l' s nf : lim_k l <= lim_k l' -> forall bs first,
  incl (cands_loop l s nf first bs) (cands_loop l' s nf first bs).
Proof.
  intros Hk. induction bs as [|a rest IH]; intros first; cbn [cands_loop]; [apply incl_refl|].
  apply incl_app_app; [|apply IH].
  apply incl_flat_map; [|intros; apply incl_refl].
  intros b Hb. apply firstn_incl with (n := Z.to_nat (lim_k l + 1)); [lia | exact Hb].
Qed.

(* products = the limits, applied as a filter, on the candidates *)
Lemma products_is_filter x nf tail tr :
  products x nf tail tr = filter (keep protein_weights4 water4 (in_lim x)) (cand_products x nf tail tr).
Proof. unfold products, cand_products. apply cleave_loop_is_filter. Qed.

Lemma cand_products_with_lim x l nf tail tr :
  cand_products (with_lim x l) nf tail tr =
  cands_loop l (fst tr) nf true (bounds (in_rule x) (in_exc x) (tail || snd tr) (fst tr)).
Proof. reflexivity. Qed.

(* DESIGN section 7 C05 / Appendix B: enumeration_independent_of_limits *)
Theorem enumeration_independent_of_limits_lemma : forall x l l' nf tail tr,
  (products (with_lim x l) nf tail tr =
     filter (keep protein_weights4 water4 l) (cand_products (with_lim x l) nf tail tr)) /\
  (lim_k l = lim_k l' -> cand_products (with_lim x l) nf tail tr = cand_products (with_lim x l') nf tail tr).
Proof.
  intros. split.
  - apply products_is_filter.
  - intros Hk. rewrite !cand_products_with_lim. apply cands_loop_k_only. exact Hk.
Qed.

(* ------------------------------------------------------------------ 2. keep is monotone in the three pure limits *)
Lemma keep_mono l l' p :
  lim_min_mw4 l' <= lim_min_mw4 l -> lim_min_len l' <= lim_min_len l -> lim_max_len l <= lim_max_len l' ->
  keep protein_weights4 water4 l p = true -> keep protein_weights4 water4 l' p = true.
Proof.
  unfold keep. intros H1 H2 H3 H.
  destruct (negb (memZ X_code p)); cbn [andb] in *; [|discriminate]. lia.
Qed.

Lemma products_mono x l l' nf tail tr p : lim_le l l' ->
  In p (products (with_lim x l) nf tail tr) -> In p (products (with_lim x l') nf tail tr).
Proof.
  intros (Hk & H1 & H2 & H3). rewrite !products_is_filter, !filter_In. cbn [in_lim with_lim].
  intros [Hc Hkeep]. split.
  - rewrite cand_products_with_lim in *. eapply cands_loop_mono_k; eauto.
  - eapply keep_mono; eauto.
Qed.

(* may_products / may_set of a configuration *)
Lemma may_products_with_lim x l h :
  may_products (with_lim x l) h =
  flat_map (fun st =>
    flat_map (fun secs => products (with_lim x l) false true (translate_from (apply_hap (in_tx x) h) st secs))
             (may_secs x h))
    (may_starts x h (apply_hap (in_tx x) h)).
Proof. reflexivity. Qed.

Lemma may_products_mono x l l' h p : lim_le l l' ->
  In p (may_products (with_lim x l) h) -> In p (may_products (with_lim x l') h).
Proof.
  intros Hle. rewrite !may_products_with_lim, !in_flat_map.
  intros (st & Hst & H). exists st. split; auto.
  apply in_flat_map in H as (secs & Hs & H). apply in_flat_map. exists secs. split; auto.
  eapply products_mono; eauto.
Qed.

Lemma may_set_with_lim x l :
  may_set (with_lim x l) = flat_map (may_products (with_lim x l)) (haplotypes false (in_vars x)).
Proof. reflexivity. Qed.

(* general form: every component at most as permissive *)
Theorem spec_mono_limits_lemma : forall x l l' p, lim_le l l' ->
  In p (may_set (with_lim x l)) -> In p (may_set (with_lim x l')).
Proof.
  intros x l l' p Hle. rewrite !may_set_with_lim, !in_flat_map.
  intros (h & Hh & H). exists h. split; auto. eapply may_products_mono; eauto.
Qed.

(* attribution for the pure limits: with the same k, a peptide permitted under l' and not under l
   fails l's limits (keep l p = false) *)
Lemma may_set_attrib_keep x l l' p : lim_k l = lim_k l' ->
  In p (may_set (with_lim x l')) -> ~ In p (may_set (with_lim x l)) ->
  keep protein_weights4 water4 l p = false.
Proof.
  intros Hk H Hn. destruct (keep protein_weights4 water4 l p) eqn:E; auto. exfalso. apply Hn.
  rewrite may_set_with_lim, in_flat_map in *. destruct H as (h & Hh & H). exists h. split; auto.
  rewrite may_products_with_lim, in_flat_map in *. destruct H as (st & Hst & H). exists st. split; auto.
  rewrite in_flat_map in *. destruct H as (secs & Hs & H). exists secs. split; auto.
  rewrite products_is_filter, filter_In in *. cbn [in_lim with_lim] in *. destruct H as [Hc _]. split; auto.
  rewrite cand_products_with_lim in *. rewrite (cands_loop_k_only l l') by exact Hk. exact Hc.
Qed.

Lemma keep_true_parts l p : keep protein_weights4 water4 l p = true ->
  memZ X_code p = false /\ lim_min_mw4 l < mass4 protein_weights4 water4 p /\
  lim_min_len l <= Z.of_nat (length p) <= lim_max_len l.
Proof.
  unfold keep. destruct (memZ X_code p); cbn [negb andb]; [discriminate|]. lia.
Qed.

Lemma may_set_keep x p : In p (may_set x) -> keep protein_weights4 water4 (in_lim x) p = true.
Proof.
  unfold may_set. rewrite in_flat_map. intros (h & _ & H).
  unfold may_products in H. apply in_flat_map in H as (st & _ & H). apply in_flat_map in H as (secs & _ & H).
  rewrite products_is_filter, filter_In in H. tauto.
Qed.

(* ---- the four one-dimensional statements ---- *)
Definition set_k (l : limits) (k : Z) := mkLimits k (lim_min_mw4 l) (lim_min_len l) (lim_max_len l).
Definition set_mw (l : limits) (m : Z) := mkLimits (lim_k l) m (lim_min_len l) (lim_max_len l).
Definition set_minlen (l : limits) (n : Z) := mkLimits (lim_k l) (lim_min_mw4 l) n (lim_max_len l).
Definition set_maxlen (l : limits) (n : Z) := mkLimits (lim_k l) (lim_min_mw4 l) (lim_min_len l) n.

Lemma lim_le_k l k k' : k <= k' -> lim_le (set_k l k) (set_k l k').
Proof. unfold lim_le, set_k. cbn. lia. Qed.
Lemma lim_le_mw l m m' : m' <= m -> lim_le (set_mw l m) (set_mw l m').
Proof. unfold lim_le, set_mw. cbn. lia. Qed.
Lemma lim_le_minlen l n n' : n' <= n -> lim_le (set_minlen l n) (set_minlen l n').
Proof. unfold lim_le, set_minlen. cbn. lia. Qed.
Lemma lim_le_maxlen l n n' : n <= n' -> lim_le (set_maxlen l n) (set_maxlen l n').
Proof. unfold lim_le, set_maxlen. cbn. lia. Qed.

(* min length: relaxing adds only, and whatever is added is shorter than the stricter minimum *)
Theorem spec_mono_minlen_lemma : forall x l n n', n' <= n ->
  (forall p, In p (may_set (with_lim x (set_minlen l n))) -> In p (may_set (with_lim x (set_minlen l n')))) /\
  (forall p, In p (may_set (with_lim x (set_minlen l n'))) -> ~ In p (may_set (with_lim x (set_minlen l n))) ->
             Z.of_nat (length p) < n).
Proof.
  intros x l n n' Hn. split.
  - intros p. apply spec_mono_limits_lemma, lim_le_minlen. exact Hn.
  - intros p H Hn'. pose proof (may_set_keep _ _ H) as K'. apply keep_true_parts in K'. cbn in K'.
    pose proof (may_set_attrib_keep x (set_minlen l n) (set_minlen l n') p eq_refl H Hn') as K.
    unfold keep in K. cbn in K. destruct (memZ X_code p); cbn [negb andb] in K; lia.
Qed.

Theorem spec_mono_maxlen_lemma : forall x l n n', n <= n' ->
  (forall p, In p (may_set (with_lim x (set_maxlen l n))) -> In p (may_set (with_lim x (set_maxlen l n')))) /\
  (forall p, In p (may_set (with_lim x (set_maxlen l n'))) -> ~ In p (may_set (with_lim x (set_maxlen l n))) ->
             n < Z.of_nat (length p)).
Proof.
  intros x l n n' Hn. split.
  - intros p. apply spec_mono_limits_lemma, lim_le_maxlen. exact Hn.
  - intros p H Hn'. pose proof (may_set_keep _ _ H) as K'. apply keep_true_parts in K'. cbn in K'.
    pose proof (may_set_attrib_keep x (set_maxlen l n) (set_maxlen l n') p eq_refl H Hn') as K.
    unfold keep in K. cbn in K. destruct (memZ X_code p); cbn [negb andb] in K; lia.
Qed.

(* mass: thresholds are exact integers (mass x 10^4); the filter is  threshold < mass *)
Theorem spec_mono_mass_lemma : forall x l m m', m' <= m ->
  (forall p, In p (may_set (with_lim x (set_mw l m))) -> In p (may_set (with_lim x (set_mw l m')))) /\
  (forall p, In p (may_set (with_lim x (set_mw l m'))) -> ~ In p (may_set (with_lim x (set_mw l m))) ->
             mass4 protein_weights4 water4 p <= m).
Proof.
  intros x l m m' Hm. split.
  - intros p. apply spec_mono_limits_lemma, lim_le_mw. exact Hm.
  - intros p H Hn'. pose proof (may_set_keep _ _ H) as K'. apply keep_true_parts in K'. cbn in K'.
    pose proof (may_set_attrib_keep x (set_mw l m) (set_mw l m') p eq_refl H Hn') as K.
    unfold keep in K. cbn in K. destruct (memZ X_code p); cbn [negb andb] in K; lia.
Qed.

(* ------------------------------------------------------------------ 3. miscleavages *)
(* attribution: every derivation of an added peptide ends beyond the first k+1 boundaries after its
   start, i.e. uses more than k missed cleavages *)
Theorem spec_mono_misc_lemma : forall x l k k', k <= k' ->
  (forall p, In p (may_set (with_lim x (set_k l k))) -> In p (may_set (with_lim x (set_k l k')))) /\
  (forall p, In p (may_set (with_lim x (set_k l k'))) -> ~ In p (may_set (with_lim x (set_k l k))) ->
     forall h st secs pre a rest b,
       In h (haplotypes false (in_vars x)) ->
       In st (may_starts x h (apply_hap (in_tx x) h)) -> In secs (may_secs x h) ->
       let tr := translate_from (apply_hap (in_tx x) h) st secs in
       bounds (in_rule x) (in_exc x) true (fst tr) = pre ++ a :: rest ->
       In b (firstn (Z.to_nat (k' + 1)) rest) ->
       (p = piece (fst tr) a b \/
        (pre = [] /\ starts_with_M (piece (fst tr) a b) = true /\ p = tl (piece (fst tr) a b))) ->
       ~ In b (firstn (Z.to_nat (k + 1)) rest)).
Proof.
  intros x l k k' Hk. split.
  - intros p. apply spec_mono_limits_lemma, lim_le_k. exact Hk.
  - intros p H Hn h st secs pre a rest b Hh Hst Hs tr HB Hb Hp Hb'. apply Hn.
    pose proof (may_set_keep _ _ H) as K. cbn [in_lim with_lim] in K.
    rewrite may_set_with_lim, in_flat_map. exists h. split; auto.
    apply may_products_spec. exists st, secs. cbn [in_tx with_lim]. repeat split; auto.
    exists pre, a, rest, b. cbn [in_rule in_exc in_lim with_lim lim_k set_k orb].
    split; [exact HB|]. split; [exact Hb'|]. split; [exact K|].
    destruct Hp as [->|(-> & HM & ->)]; [left; reflexivity|right; auto].
Qed.

(* ---- the obliged set: NOT monotone in k, because the two subtracted sets grow with k as well ---- *)
Lemma must_products_with_lim x l h :
  must_products (with_lim x l) h =
  flat_map (fun st =>
    products (with_lim x l) (must_nf x) (must_tail x)
             (translate_from (apply_hap (in_tx x) h) st (map (shift h) (in_sec x))))
    (must_starts x (apply_hap (in_tx x) h)).
Proof. reflexivity. Qed.

Lemma must_haps_with_lim_pool x l pl : must_haps (with_lim_pool x l pl) = must_haps x.
Proof. reflexivity. Qed.

(* what IS true: a peptide obliged under l is, under a more permissive l' (any pool pl'), either still
   obliged or has become a product of the unmodified transcript or a member of the pool *)
Theorem spec_mono_must_lemma : forall x l l' pl pl' p, lim_le l l' ->
  In p (must_set (with_lim_pool x l pl)) ->
  In p (must_set (with_lim_pool x l' pl')) \/ In p (ref_products (with_lim x l')) \/ In p pl'.
Proof.
  intros x l l' pl pl' p Hle H. unfold must_set in *. rewrite filter_In in *. destruct H as [H _].
  assert (Hin : In p (flat_map (must_products (with_lim_pool x l' pl')) (must_haps (with_lim_pool x l' pl')))).
  { rewrite must_haps_with_lim_pool in *. rewrite in_flat_map in *. destruct H as (h & Hh & H). exists h. split; auto.
    change (must_products (with_lim_pool x l pl) h) with (must_products (with_lim x l) h) in H.
    change (must_products (with_lim_pool x l' pl') h) with (must_products (with_lim x l') h).
    rewrite must_products_with_lim, in_flat_map in *. destruct H as (st & Hst & H). exists st. split; auto.
    eapply products_mono; eauto. }
  destruct (novel (with_lim_pool x l' pl') p) eqn:E; [left; split; auto|right].
  unfold novel in E. apply andb_false_iff in E as [E|E]; apply negb_false_iff, sp_mem_seq_In in E; auto.
Qed.

(* ------------------------------------------------------------------ 4. record sets *)
Fixpoint mask_comp (m0 m : list bool) : list bool :=
  match m0 with
  | [] => []
  | false :: m0' => false :: mask_comp m0' m
  | true :: m0' => match m with
                   | [] => false :: mask_comp m0' []
                   | b :: m' => b :: mask_comp m0' m'
                   end
  end.

Lemma mask_comp_length m0 : forall m, length (mask_comp m0 m) = length m0.
Proof. induction m0 as [|[|] m0 IH]; intros [|b m]; cbn; auto. Qed.

Lemma select_nil_mask {A} (l : list A) m : (forall b, In b m -> b = false) -> select m l = [].
Proof.
  revert l. induction m as [|b m IH]; intros [|a l] H; cbn; auto.
  rewrite (H b) by (cbn; auto). apply IH. intros; apply H; cbn; auto.
Qed.

Lemma mask_comp_nil_false m0 : forall b, In b (mask_comp m0 []) -> b = false.
Proof. induction m0 as [|[|] m0 IH]; cbn; intros b; [tauto| |]; intros [<-|H]; auto. Qed.

Lemma select_comp {A} : forall m0 (l : list A) m, length m0 = length l ->
  select m (select m0 l) = select (mask_comp m0 m) l.
Proof.
  induction m0 as [|b0 m0 IH]; intros [|a l] m Hl; try discriminate; cbn in Hl.
  - destruct m; reflexivity.
  - injection Hl as Hl. destruct b0; cbn [select mask_comp].
    + destruct m as [|b m].
      * cbn [select]. symmetry. apply select_nil_mask. apply mask_comp_nil_false.
      * cbn [select]. destruct b; rewrite IH by auto; reflexivity.
    + cbn [select]. apply IH. auto.
Qed.

Lemma haplotypes_mono strict vs vs' h : sub_records vs vs' ->
  In h (haplotypes strict vs) -> In h (haplotypes strict vs').
Proof.
  intros (m0 & Hl0 & ->). rewrite !haplotypes_spec. intros (m & Hl & -> & Hne & Hc).
  exists (mask_comp m0 m). rewrite mask_comp_length. rewrite select_comp in * by auto. auto.
Qed.

(* m selects only positions that m0 selects *)
Fixpoint mask_le (m m0 : list bool) : bool :=
  match m, m0 with
  | [], _ => true
  | b :: m', [] => negb b && mask_le m' []
  | b :: m', b0 :: m0' => (negb b || b0) && mask_le m' m0'
  end.

Fixpoint mask_proj (m0 m : list bool) : list bool :=
  match m0, m with
  | b0 :: m0', b :: m' => if b0 then b :: mask_proj m0' m' else mask_proj m0' m'
  | _, _ => []
  end.

Lemma mask_le_nil m : mask_le m [] = true -> forall b, In b m -> b = false.
Proof.
  induction m as [|c m IH]; cbn [mask_le In]; [tauto|].
  rewrite andb_true_iff, negb_true_iff. intros [-> H] x [<-|Hx]; auto.
Qed.

Lemma select_proj {A} : forall m0 m (l : list A), mask_le m m0 = true ->
  select m l = select (mask_proj m0 m) (select m0 l).
Proof.
  induction m0 as [|b0 m0 IH]; intros m l H.
  - replace (select (mask_proj [] m) (select [] l)) with (@nil A) by (destruct m; reflexivity).
    apply select_nil_mask. apply mask_le_nil. destruct m; auto.
  - destruct m as [|b m]; [destruct b0, l; reflexivity|]. cbn [mask_le] in H. apply andb_true_iff in H as [Hb H].
    destruct l as [|a l]; [destruct b0; cbn; destruct (mask_proj m0 m); reflexivity|].
    destruct b0; cbn [mask_proj select].
    + destruct b; rewrite (IH m l H); reflexivity.
    + destruct b; [discriminate|]. apply IH; auto.
Qed.

Lemma mask_le_false_iff : forall m m0, mask_le m m0 = false <->
  exists i, nth i m false = true /\ nth i m0 false = false.
Proof.
  induction m as [|b m IH]; intros m0; cbn [mask_le].
  - split; [discriminate|]. intros (i & H & _). destruct i; discriminate.
  - destruct m0 as [|b0 m0].
    + rewrite andb_false_iff, negb_false_iff, IH. split.
      * intros [->|(i & H1 & H2)]; [exists 0%nat; auto|exists (S i); split; auto; destruct i; auto].
      * intros (i & H1 & H2). destruct i as [|i]; cbn in H1; auto. right. exists i. split; auto. destruct i; auto.
    + rewrite andb_false_iff, orb_false_iff, negb_false_iff, IH. split.
      * intros [[-> ->]|(i & H1 & H2)]; [exists 0%nat; auto|exists (S i); auto].
      * intros (i & H1 & H2). destruct i as [|i]; cbn in H1, H2; auto. right. exists i. auto.
Qed.

Lemma may_products_with_vars x vs h : may_products (with_vars x vs) h = may_products x h.
Proof. reflexivity. Qed.

(* adding records only adds haplotypes, hence only adds permitted peptides; a peptide that is new has
   every witness haplotype (given as a selection mask m over the larger list) using a position outside
   the smaller list (mask m0) *)
Theorem spec_mono_variants_lemma : forall x vs' m0, length m0 = length vs' ->
  let vs := select m0 vs' in
  (forall strict h, In h (haplotypes strict vs) -> In h (haplotypes strict vs')) /\
  (forall p, In p (may_set (with_vars x vs)) -> In p (may_set (with_vars x vs'))) /\
  (forall p, In p (may_set (with_vars x vs')) -> ~ In p (may_set (with_vars x vs)) ->
     forall m, length m = length vs' -> nonempty (select m vs') = true -> pairwise false (select m vs') = true ->
               In p (may_products x (select m vs')) ->
               exists i, nth i m false = true /\ nth i m0 false = false).
Proof.
  intros x vs' m0 Hl0 vs. assert (Hsub : sub_records vs vs') by (exists m0; auto). repeat split.
  - intros strict h. apply haplotypes_mono; auto.
  - intros p. unfold may_set. cbn [in_vars with_vars]. rewrite !in_flat_map.
    intros (h & Hh & H). exists h. split; auto. eapply haplotypes_mono; eauto.
  - intros p H Hn m Hl Hne Hc Hp. apply mask_le_false_iff.
    destruct (mask_le m m0) eqn:E; auto. exfalso. apply Hn.
    unfold may_set. cbn [in_vars with_vars]. rewrite in_flat_map. exists (select m vs'). split; auto.
    apply haplotypes_spec. exists (mask_proj m0 m). subst vs.
    rewrite <- (select_proj m0 m vs' E). repeat split; auto.
    clear -Hl Hl0 E. revert m vs' Hl Hl0 E. induction m0 as [|b0 m0 IH]; intros m vs' Hl Hl0 E.
    + destruct vs'; [|discriminate]. destruct m; [reflexivity|discriminate].
    + destruct vs' as [|v vs']; [discriminate|]. destruct m as [|b m]; [discriminate|].
      cbn in Hl, Hl0. injection Hl as Hl. injection Hl0 as Hl0. cbn [mask_le] in E. apply andb_true_iff in E as [_ E].
      destruct b0; cbn [mask_proj select length]; [f_equal|]; apply IH; auto.
Qed.

(* the obliged set is monotone in the record set as well (the subtracted sets do not depend on it) *)
Lemma must_set_mono_vars x vs vs' p : sub_records vs vs' ->
  In p (must_set (with_vars x vs)) -> In p (must_set (with_vars x vs')).
Proof.
  intros Hsub. unfold must_set. rewrite !filter_In. intros [H Hnov]. split; [|exact Hnov].
  unfold must_haps in *. cbn [in_vars with_vars] in *. rewrite in_flat_map in *.
  destruct H as (h & Hh & H). exists h. split; [|exact H].
  rewrite filter_In in *. destruct Hh as [Hh Hm]. split; [eapply haplotypes_mono; eauto|exact Hm].
Qed.

(* ------------------------------------------------------------------ 5. the permissive switches (Model/SpecFlags.v) *)
Lemma sect_forms_from_spec : forall q pre s,
  In s (sect_forms_from pre q) <-> exists i, nth_error q i = Some U_code /\ s = rev pre ++ firstn i q.
Proof.
  induction q as [|c q IH]; intros pre s; cbn [sect_forms_from].
  - split; [intros []|]. intros (i & H & _). destruct i; discriminate.
  - rewrite in_app_iff, IH. split.
    + intros [H|(i & Hi & ->)].
      * destruct (c =? U_code) eqn:E; [|destruct H]. destruct H as [<-|[]].
        exists 0%nat. cbn. rewrite app_nil_r. split; auto. f_equal. lia.
      * exists (S i). cbn [nth_error firstn rev]. rewrite <- app_assoc. auto.
    + intros (i & Hi & ->). destruct i as [|i]; cbn [nth_error firstn] in *.
      * left. injection Hi as ->. cbn. rewrite app_nil_r. auto.
      * right. exists i. cbn [rev]. rewrite <- app_assoc. auto.
Qed.

(* the SECT forms of q are exactly its prefixes that end right before a U *)
Lemma sect_forms_spec q s :
  In s (sect_forms q) <-> exists i, nth_error q i = Some U_code /\ s = firstn i q.
Proof. unfold sect_forms. rewrite sect_forms_from_spec. cbn. tauto. Qed.

Lemma fl_base_mono fl fl' cs : (f_sect fl = true -> f_sect fl' = true) -> incl (fl_base fl cs) (fl_base fl' cs).
Proof.
  intros H. unfold fl_base. apply incl_app_app; [apply incl_refl|].
  destruct (f_sect fl); [rewrite H by auto; apply incl_refl | intros ? []].
Qed.

Lemma fl_forms_mono fl fl' cs : flags_le fl fl' -> incl (fl_forms fl cs) (fl_forms fl' cs).
Proof.
  intros (Hs & Hw & _). unfold fl_forms. apply incl_app_app; [apply fl_base_mono; auto|].
  destruct (f_w2f fl); [rewrite Hw by auto | intros ? []].
  apply incl_flat_map; [apply fl_base_mono; auto | intros; apply incl_refl].
Qed.

Lemma fl_starts_mono x fl fl' h hs : flags_le fl fl' -> incl (fl_starts x fl h hs) (fl_starts x fl' h hs).
Proof.
  intros (_ & _ & Ho). unfold fl_starts. apply incl_app_app; [apply incl_refl|].
  destruct (in_coding x); cbn [andb]; [|apply incl_refl].
  destruct (f_orf fl); [rewrite Ho by auto; apply incl_refl | intros ? []].
Qed.

(* membership in fl_may_set, unfolded once and for all *)
Lemma fl_may_set_iff x fl p :
  In p (fl_may_set x fl) <->
  exists h st secs,
    In h (haplotypes false (in_vars x)) /\
    In st (fl_starts x fl h (apply_hap (in_tx x) h)) /\ In secs (may_secs x h) /\
    In p (fl_forms fl (cand_products x false true (translate_from (apply_hap (in_tx x) h) st secs))) /\
    keep protein_weights4 water4 (in_lim x) p = true.
Proof.
  unfold fl_may_set, fl_may_products, fl_products. rewrite in_flat_map. split.
  - intros (h & Hh & H). apply in_flat_map in H as (st & Hst & H). apply in_flat_map in H as (secs & Hs & H).
    apply filter_In in H as [H K]. exists h, st, secs. auto.
  - intros (h & st & secs & Hh & Hst & Hs & H & K). exists h. split; auto.
    apply in_flat_map. exists st. split; auto. apply in_flat_map. exists secs. split; auto.
    apply filter_In. auto.
Qed.

Theorem spec_mono_flags_lemma : forall x fl fl' p, flags_le fl fl' ->
  In p (fl_may_set x fl) -> In p (fl_may_set x fl').
Proof.
  intros x fl fl' p Hle. rewrite !fl_may_set_iff.
  intros (h & st & secs & Hh & Hst & Hs & H & K). exists h, st, secs. repeat split; auto.
  - eapply fl_starts_mono; eauto.
  - eapply fl_forms_mono; eauto.
Qed.

(* with every switch off the flag-extended specification IS Model/Spec.v's may_set *)
Lemma fl_may_products_none x h : fl_may_products x no_flags h = may_products x h.
Proof.
  unfold fl_may_products, may_products, fl_starts, fl_products, fl_forms, fl_base, no_flags. cbn [f_sect f_w2f f_orf].
  rewrite andb_false_r, app_nil_r. apply flat_map_ext_in. intros st _. apply flat_map_ext_in. intros secs _.
  rewrite !app_nil_r. symmetry. apply products_is_filter.
Qed.

Theorem fl_none_lemma : forall x p, In p (fl_may_set x no_flags) <-> In p (may_set x).
Proof.
  intros x p. unfold fl_may_set, may_set. rewrite !in_flat_map.
  split; intros (h & Hh & H); exists h; split; auto; [rewrite <- fl_may_products_none | rewrite fl_may_products_none]; auto.
Qed.

(* ---- attribution ---- *)
(* SECT: whatever the switch adds is a prefix, ending right before a U, of a candidate peptide (or,
   with W2F on as well, a W>F image of such a prefix) *)
Theorem spec_mono_sect_lemma : forall x fl p, f_sect fl = false ->
  let fl' := mkFlags true (f_w2f fl) (f_orf fl) in
  (forall q, In q (fl_may_set x fl) -> In q (fl_may_set x fl')) /\
  (In p (fl_may_set x fl') -> ~ In p (fl_may_set x fl) ->
   exists h st secs q s i,
     In h (haplotypes false (in_vars x)) /\
     In st (fl_starts x fl h (apply_hap (in_tx x) h)) /\ In secs (may_secs x h) /\
     In q (cand_products x false true (translate_from (apply_hap (in_tx x) h) st secs)) /\
     nth_error q i = Some U_code /\ s = firstn i q /\
     (p = s \/ (f_w2f fl = true /\ In p (w2f_images s)))).
Proof.
  intros x fl p Hoff fl'. split.
  - intros q. apply spec_mono_flags_lemma. unfold flags_le, fl'. cbn. tauto.
  - rewrite !fl_may_set_iff. intros (h & st & secs & Hh & Hst & Hs & H & K) Hn.
    assert (Hno : ~ In p (fl_forms fl (cand_products x false true (translate_from (apply_hap (in_tx x) h) st secs)))).
    { intros Hc. apply Hn. exists h, st, secs. auto. }
    set (cs := cand_products x false true (translate_from (apply_hap (in_tx x) h) st secs)) in *.
    unfold fl_forms, fl_base, fl' in H, Hno. cbn [f_sect f_w2f f_orf] in H. rewrite Hoff in Hno.
    rewrite app_nil_r in Hno. rewrite !in_app_iff in H. rewrite in_app_iff in Hno.
    destruct H as [[H|H]|H].
    + exfalso. apply Hno. auto.
    + apply in_flat_map in H as (q & Hq & H). apply sect_forms_spec in H as (i & Hi & ->).
      exists h, st, secs, q, (firstn i q), i. repeat split; auto.
    + destruct (f_w2f fl) eqn:Ew; [|destruct H]. apply in_flat_map in H as (s & Hs' & H).
      apply in_app_iff in Hs' as [Hs'|Hs'].
      * exfalso. apply Hno. right. apply in_flat_map. exists s. auto.
      * apply in_flat_map in Hs' as (q & Hq & Hs'). apply sect_forms_spec in Hs' as (i & Hi & ->).
        exists h, st, secs, q, (firstn i q), i. repeat split; auto.
Qed.

(* W2F: whatever the switch adds is the image of a candidate (or SECT form) under a non-empty set of
   W -> F substitutions *)
Theorem spec_mono_w2f_lemma : forall x fl p, f_w2f fl = false ->
  let fl' := mkFlags (f_sect fl) true (f_orf fl) in
  (forall q, In q (fl_may_set x fl) -> In q (fl_may_set x fl')) /\
  (In p (fl_may_set x fl') -> ~ In p (fl_may_set x fl) ->
   exists h st secs q S,
     In h (haplotypes false (in_vars x)) /\
     In st (fl_starts x fl h (apply_hap (in_tx x) h)) /\ In secs (may_secs x h) /\
     In q (fl_base fl (cand_products x false true (translate_from (apply_hap (in_tx x) h) st secs))) /\
     S <> [] /\ sublist S (w_positions q) /\ p = apply_w2f S q).
Proof.
  intros x fl p Hoff fl'. split.
  - intros q. apply spec_mono_flags_lemma. unfold flags_le, fl'. cbn. tauto.
  - rewrite !fl_may_set_iff. intros (h & st & secs & Hh & Hst & Hs & H & K) Hn.
    assert (Hno : ~ In p (fl_forms fl (cand_products x false true (translate_from (apply_hap (in_tx x) h) st secs)))).
    { intros Hc. apply Hn. exists h, st, secs. auto. }
    set (cs := cand_products x false true (translate_from (apply_hap (in_tx x) h) st secs)) in *.
    unfold fl_forms, fl' in H, Hno. cbn [f_w2f] in H. rewrite Hoff in Hno. rewrite app_nil_r in Hno.
    change (fl_base {| f_sect := f_sect fl; f_w2f := true; f_orf := f_orf fl |} cs) with (fl_base fl cs) in H.
    apply in_app_iff in H as [H|H]; [contradiction|].
    apply in_flat_map in H as (q & Hq & H). apply w2f_enum in H as (S & HS & Hsub & ->).
    exists h, st, secs, q, S. repeat split; auto.
Qed.

(* coding novel ORFs: whatever the switch adds comes from a start that is an ATG of the haplotype
   sequence of a CODING transcript and not the annotated start *)
Theorem spec_mono_novel_orf_lemma : forall x fl p, f_orf fl = false ->
  let fl' := mkFlags (f_sect fl) (f_w2f fl) true in
  (forall q, In q (fl_may_set x fl) -> In q (fl_may_set x fl')) /\
  (In p (fl_may_set x fl') -> ~ In p (fl_may_set x fl) ->
   in_coding x = true /\
   exists h st secs,
     In h (haplotypes false (in_vars x)) /\
     In st (atg_positions (apply_hap (in_tx x) h) 0) /\ ~ In st (may_starts x h (apply_hap (in_tx x) h)) /\
     In secs (may_secs x h) /\
     In p (fl_products x fl false true (translate_from (apply_hap (in_tx x) h) st secs))).
Proof.
  intros x fl p Hoff fl'. split.
  - intros q. apply spec_mono_flags_lemma. unfold flags_le, fl'. cbn. tauto.
  - rewrite !fl_may_set_iff. intros (h & st & secs & Hh & Hst & Hs & H & K) Hn.
    change (fl_forms fl') with (fl_forms fl) in H.
    assert (Hst' : ~ In st (fl_starts x fl h (apply_hap (in_tx x) h))).
    { intros Hc. apply Hn. exists h, st, secs. auto. }
    unfold fl_starts, fl' in Hst, Hst'. cbn [f_orf] in Hst. rewrite Hoff, andb_false_r, app_nil_r in Hst'.
    apply in_app_iff in Hst as [Hst|Hst]; [contradiction|].
    destruct (in_coding x); cbn [andb] in Hst; [|destruct Hst]. split; auto.
    exists h, st, secs. repeat split; auto. unfold fl_products. apply filter_In. auto.
Qed.

(* what the tool may REPORT under the flags (permitted minus denylist minus pool) is NOT monotone:
   the denylist grows with SECT / W2F as well.  What is true: *)
Theorem spec_flags_report_lemma : forall x fl fl' p, flags_le fl fl' ->
  In p (fl_report_set x fl) -> In p (fl_report_set x fl') \/ In p (fl_ref_products x fl').
Proof.
  intros x fl fl' p Hle. unfold fl_report_set. rewrite !filter_In. intros [H Hnov].
  pose proof (spec_mono_flags_lemma x fl fl' p Hle H) as H'.
  destruct (fl_novel x fl' p) eqn:E; [left; auto|right].
  unfold fl_novel in *. apply andb_true_iff in Hnov as [_ Hp]. rewrite Hp, andb_true_r in E.
  apply negb_false_iff, sp_mem_seq_In in E. exact E.
Qed.

(* ------------------------------------------------------------------ 6. witnesses: non-vacuity and the refuted naive statements *)
Definition c05_trypsin : rule :=
  match lookup [116; 114; 121; 112; 115; 105; 110] site_rules with Some r => r | None => [] end.

Definition nt (s : list Z) : seq := s.
Notation A_ := 65. Notation C_ := 67. Notation G_ := 71. Notation T_ := 84.

(* ATG GCT AAA GGT TGG CGT TAA = M A K G W R stop;  with the SNV GGT -> GAT at 10 : M A K D W R *)
Definition w1_tx : seq := [A_;T_;G_; G_;C_;T_; A_;A_;A_; G_;G_;T_; T_;G_;G_; C_;G_;T_; T_;A_;A_].
Definition w1 (l : limits) (vs : list variant) : input :=
  mkInput w1_tx true 0 false false [] vs c05_trypsin None l [].
Definition w1_var : variant := mkVar 10 11 [A_] true.
Definition w1_var2 : variant := mkVar 13 14 [T_] true.      (* TGG -> TTG : W -> L *)
Definition MAKDWR : seq := [77;65;75;68;87;82].
Definition DWR : seq := [68;87;82].
Definition DFR : seq := [68;70;82].
Definition DLR : seq := [68;76;82].

Lemma not_in_by_mem x l : mem_seq x l = false -> ~ In x l.
Proof. apply sp_mem_seq_false. Qed.

(* k: MAKDWR needs one missed cleavage *)
Example ex_misc_adds :
  In MAKDWR (may_set (with_lim (w1 (mkLimits 0 0 3 30) [w1_var]) (set_k (mkLimits 0 0 3 30) 1))) /\
  ~ In MAKDWR (may_set (with_lim (w1 (mkLimits 0 0 3 30) [w1_var]) (set_k (mkLimits 0 0 3 30) 0))).
Proof. split; [vm_compute; tauto | apply not_in_by_mem; vm_compute; reflexivity]. Qed.

(* min length 4 -> 3 adds DWR (length 3 < 4) *)
Example ex_minlen_adds :
  In DWR (may_set (with_lim (w1 (mkLimits 0 0 4 30) [w1_var]) (set_minlen (mkLimits 0 0 4 30) 3))) /\
  ~ In DWR (may_set (with_lim (w1 (mkLimits 0 0 4 30) [w1_var]) (set_minlen (mkLimits 0 0 4 30) 4))).
Proof. split; [vm_compute; tauto | apply not_in_by_mem; vm_compute; reflexivity]. Qed.

(* max length 5 -> 6 adds MAKDWR (k = 1) *)
Example ex_maxlen_adds :
  In MAKDWR (may_set (with_lim (w1 (mkLimits 1 0 3 5) [w1_var]) (set_maxlen (mkLimits 1 0 3 5) 6))) /\
  ~ In MAKDWR (may_set (with_lim (w1 (mkLimits 1 0 3 5) [w1_var]) (set_maxlen (mkLimits 1 0 3 5) 5))).
Proof. split; [vm_compute; tauto | apply not_in_by_mem; vm_compute; reflexivity]. Qed.

(* minimum mass 500 Da -> 400 Da adds DWR (475.5 Da) *)
Example ex_mass_adds :
  In DWR (may_set (with_lim (w1 (mkLimits 0 5000000 3 30) [w1_var]) (set_mw (mkLimits 0 5000000 3 30) 4000000))) /\
  ~ In DWR (may_set (with_lim (w1 (mkLimits 0 5000000 3 30) [w1_var]) (set_mw (mkLimits 0 5000000 3 30) 5000000))).
Proof. split; [vm_compute; tauto | apply not_in_by_mem; vm_compute; reflexivity]. Qed.

(* records: adding the second SNV adds DLR *)
Example ex_variants_adds :
  [w1_var] = select [true; false] [w1_var; w1_var2] /\
  In DLR (may_set (with_vars (w1 (mkLimits 0 0 3 30) []) [w1_var; w1_var2])) /\
  ~ In DLR (may_set (with_vars (w1 (mkLimits 0 0 3 30) []) [w1_var])).
Proof. split; [reflexivity|]. split; [vm_compute; tauto | apply not_in_by_mem; vm_compute; reflexivity]. Qed.

(* W2F: DFR is the image of DWR *)
Example ex_w2f_adds :
  In DFR (fl_may_set (w1 (mkLimits 0 0 3 30) [w1_var]) (mkFlags false true false)) /\
  ~ In DFR (fl_may_set (w1 (mkLimits 0 0 3 30) [w1_var]) no_flags).
Proof. split; [vm_compute; tauto | apply not_in_by_mem; vm_compute; reflexivity]. Qed.

(* ---- a selenoprotein:  ATG AAA GGT TGT TGA CAT TGA AAA TAA  =  M K | G C U H U K ;  Sec codons at 12 and 18.
   The SNV 19 G>A turns the second Sec codon into TAA: the variant peptide GCUH. *)
Definition w2_tx : seq :=
  [A_;T_;G_; A_;A_;A_; G_;G_;T_; T_;G_;T_; T_;G_;A_; C_;A_;T_; T_;G_;A_; A_;A_;A_; T_;A_;A_].
Definition w2 (vs : list variant) : input :=
  mkInput w2_tx true 0 false false [12; 18] vs c05_trypsin None (mkLimits 0 0 2 30) [].
Definition w2_var : variant := mkVar 19 20 [A_] true.
Definition w2_var0 : variant := mkVar 9 10 [G_] true.        (* TGT -> GGT : C -> G *)
Definition GCUH : seq := [71;67;85;72].
Definition GG : seq := [71;71].

(* SECT: with the first SNV the prefix GG of GGUHUK (before the first U) is added by the switch *)
Example ex_sect_adds :
  In GG (fl_may_set (w2 [w2_var0]) (mkFlags true false false)) /\
  ~ In GG (fl_may_set (w2 [w2_var0]) no_flags).
Proof. split; [vm_compute; tauto | apply not_in_by_mem; vm_compute; reflexivity]. Qed.

(* the reported set is NOT monotone in --selenocysteine-termination: GCUH is a variant peptide with the
   switch off and a SECT form of the unmodified transcript (GCUHUK cut before its second U) with it on *)
Theorem spec_sect_report_refuted_lemma :
  exists x fl fl' p, flags_le fl fl' /\ In p (fl_report_set x fl) /\ ~ In p (fl_report_set x fl').
Proof.
  exists (w2 [w2_var]), no_flags, (mkFlags true false false), GCUH. split; [|split].
  - unfold flags_le. cbn. intuition discriminate.
  - vm_compute. tauto.
  - apply not_in_by_mem. vm_compute. reflexivity.
Qed.

(* ---- coding novel ORF:  G ATG GCT AAA TGG CGT TAA  with the annotated start at 1 ... use a second ATG in
   another frame:  ATG GAA TGG CTA AAG GTT GGC GTT AA : annotated ORF at 0 (M E W L K V G V), the ATG at 5
   opens  M A K G W R  in frame 2 *)
Definition w3_tx : seq :=
  [A_;T_;G_; G_;A_;A_; T_;G_;G_; C_;T_;A_; A_;A_;G_; G_;T_;T_; G_;G_;C_; G_;T_;T_; A_;A_].
Definition w3 : input :=
  mkInput w3_tx true 0 false false [] [mkVar 15 16 [A_] true] c05_trypsin None (mkLimits 0 0 3 30) [].
(* SNV at 15 G>A : in frame 2 the codon GGT (14..16) becomes GAT: M A K D W R -> product DWR *)
Example ex_novel_orf_adds :
  In DWR (fl_may_set w3 (mkFlags false false true)) /\ ~ In DWR (fl_may_set w3 no_flags).
Proof. split; [vm_compute; tauto | apply not_in_by_mem; vm_compute; reflexivity]. Qed.

(* ---- the obliged set is NOT monotone in k ----
   ATG CGT CCT GCT GCT AAA GGT AAA CGT CTG GCT GCT AAA GGT TAA  =  M R|P A A K|G K|R|L A A K|G
   (trypsin cuts M R|P: alternative (?<=M)R(?=P)).  The SNV 28 T>C (CTG -> CCG, L -> P) makes
   ...K|R P A A K|... : RPAAK is a variant peptide with k = 0.  With k = 1 the unmodified transcript
   yields M R P A A K whose Met-removed form is RPAAK: it is subtracted. *)
Definition w4_tx : seq :=
  [A_;T_;G_; C_;G_;T_; C_;C_;T_; G_;C_;T_; G_;C_;T_; A_;A_;A_; G_;G_;T_; A_;A_;A_;
   C_;G_;T_; C_;T_;G_; G_;C_;T_; G_;C_;T_; A_;A_;A_; G_;G_;T_; T_;A_;A_].
Definition w4_prot : seq := [77;82;80;65;65;75;71;75;82;76;65;65;75;71].
Definition w4 (l : limits) : input :=
  mkInput w4_tx true 0 false false [] [mkVar 28 29 [C_] true] c05_trypsin None l
          (pool protein_weights4 water4 l c05_trypsin None [(w4_prot, false)]).
Definition RPAAK : seq := [82;80;65;65;75].

Theorem spec_mono_misc_must_refuted_lemma :
  exists l k k' p, k <= k' /\
    In p (must_set (w4 (set_k l k))) /\ ~ In p (must_set (w4 (set_k l k'))) /\
    In p (ref_products (w4 (set_k l k'))).
Proof.
  exists (mkLimits 0 0 5 30), 0, 1, RPAAK. split; [lia|]. split; [|split].
  - vm_compute. tauto.
  - apply not_in_by_mem. vm_compute. reflexivity.
  - vm_compute. tauto.
Qed.
