(* C13 -- the facts that depend on the constants regenerated from the repo (Gen/GvfConst.v) *)
From Coq Require Import ZArith List Bool Lia.
Import ListNotations.
From MoPep Require Import Model.Base Model.Gvf Gen.GvfConst Model.GvfGen Proofs.GvfProofs.
Open Scope Z_scope.

Lemma shape_ok_true : shape_ok = true.
Proof. vm_compute. reflexivity. Qed.

Lemma gen_cfg_ok : cfg_ok gen_cfg = true.
Proof. vm_compute. reflexivity. Qed.

Lemma gen_wkeys_ok : keys_ok circ_wkeys = true.
Proof. vm_compute. reflexivity. Qed.

Lemma gvf_roundtrip_gen : forall r, wf_rec gen_cfg r = true ->
  exists s r', to_string gen_cfg r = Ok s /\ line_to_variant_record gen_cfg (s ++ [NL]) = Ok r' /\
               to_string gen_cfg r' = Ok s.
Proof. apply var_roundtrip. apply gen_cfg_ok. Qed.

Lemma list_eqb_eq : forall a b, list_eqb a b = true -> a = b.
Proof.
  induction a; destruct b; simpl; intros; try discriminate; auto.
  apply andb_true_iff in H as [H1 H2]. apply eq_seq_eq in H1. f_equal; auto.
Qed.

Lemma circ_roundtrip_keys : forall wk, keys_ok wk = true -> forall c, wf_circ c = true ->
  circ_wpw wk wk c = circ_to_string wk c /\ exists s, circ_to_string wk c = Ok s.
Proof.
  intros wk Hk c W. destruct (circ_parse_write wk Hk c W) as [s [H1 H2]].
  split; [|exists s; auto]. unfold circ_wpw. rewrite H1. cbn [bind]. rewrite H2. cbn [bind]. exact H1.
Qed.

(* the witness of D6: one exon, a genomic position *)
Definition d6_witness : circ :=
  mkCirc [84; 49] [(10, 20)] [] [67; 49] [71; 49] [83] [99; 104; 114; 49; 58; 53].

Lemma circ_current :
  if list_eqb circ_rkeys circ_wkeys
  then forall c, wf_circ c = true -> circ_wpw circ_wkeys circ_rkeys c = circ_to_string circ_wkeys c
  else exists c, wf_circ c = true /\ circ_wpw circ_wkeys circ_rkeys c <> circ_to_string circ_wkeys c.
Proof.
  destruct (list_eqb circ_rkeys circ_wkeys) eqn:E.
  - first [ exfalso; vm_compute in E; discriminate E
          | intros c W; apply list_eqb_eq in E; rewrite E; apply circ_roundtrip_keys; [apply gen_wkeys_ok | exact W] ].
  - first [ exfalso; vm_compute in E; discriminate E
          | exists d6_witness; split; [reflexivity | vm_compute; intro H; discriminate H] ].
Qed.

Lemma circ_refuted_if_differ : list_eqb circ_rkeys circ_wkeys = false ->
  exists c, wf_circ c = true /\ circ_wpw circ_wkeys circ_rkeys c <> circ_to_string circ_wkeys c.
Proof.
  intro E. pose proof circ_current as H. rewrite E in H. exact H.
Qed.

(* both parsers begin with line.rstrip() *)
Lemma parse2_rstrip : forall C rk ic l, parse2 C rk ic l = parse2 C rk ic (rstrip l).
Proof.
  intros. unfold parse2, line_to_circ, line_to_variant_record.
  unfold rstrip. rewrite rstrip_by_idem. reflexivity.
Qed.
