(* Proofs about circRNA backbones (Model/SpecCirc.v) and the concatenation lemma for apply_hap. *)
From Coq Require Import ZArith List Bool Lia ZifyBool.
From MoPep Require Import Model.Base Model.Rule Model.Digest Model.Spec Model.SpecStmt Model.SpecFusion Model.SpecCirc
                          Gen.Bio Proofs.SpecProofs.
Import ListNotations.
Open Scope Z_scope.

(* ------------------------------------------------------------------ well-formed record lists *)
(* the records of h lie, in order and without overlap, between pos and L *)
Fixpoint chain (pos : Z) (h : list variant) (L : Z) : Prop :=
  match h with
  | [] => pos <= L
  | v :: h' => pos <= v_s v /\ v_s v <= v_e v /\ chain (v_e v) h' L
  end.

Lemma chain_le : forall h pos L, chain pos h L -> pos <= L.
Proof.
  induction h as [|v h IH]; intros pos L H; cbn in H; [lia|].
  destruct H as (H1 & H2 & H3). apply IH in H3. lia.
Qed.

Lemma chain_weaken : forall h pos L L', chain pos h L -> L <= L' -> chain pos h L'.
Proof.
  induction h as [|v h IH]; intros pos L L' H HL; cbn in *; [lia|].
  destruct H as (H1 & H2 & H3). repeat split; auto. eapply IH; eauto.
Qed.

Lemma chain_app : forall h1 h2 p q r, chain p h1 q -> chain q h2 r -> chain p (h1 ++ h2) r.
Proof.
  induction h1 as [|v h1 IH]; intros h2 p q r H1 H2; cbn in *.
  - destruct h2 as [|w h2]; cbn in *; [lia|]. destruct H2 as (A & B & C). repeat split; auto. lia.
  - destruct H1 as (A & B & C). repeat split; auto. eapply IH; eauto.
Qed.

Lemma chain_move : forall h p q d, chain p h q -> chain (p + d) (map (move d) h) (q + d).
Proof.
  induction h as [|v h IH]; intros p q d H; cbn in *; [lia|].
  destruct H as (A & B & C). repeat split; try lia. apply IH; auto.
Qed.

(* ------------------------------------------------------------------ slices of a concatenation *)
Lemma zlen_len : forall {A} (l : list A), zlen l = Z.of_nat (length l).
Proof. induction l as [|x l IH]; cbn [zlen length]; [reflexivity|]. rewrite IH. lia. Qed.

Lemma skipn_app_left : forall (t1 t2 : seq) a, 0 <= a <= zlen t1 ->
  skipn (Z.to_nat a) (t1 ++ t2) = skipn (Z.to_nat a) t1 ++ t2.
Proof.
  intros t1 t2 a H. rewrite skipn_app. f_equal.
  replace (Z.to_nat a - length t1)%nat with 0%nat by (rewrite zlen_len in H; lia). reflexivity.
Qed.

Lemma skipn_app_right : forall (t1 t2 : seq) a, 0 <= a ->
  skipn (Z.to_nat (zlen t1 + a)) (t1 ++ t2) = skipn (Z.to_nat a) t2.
Proof.
  intros t1 t2 a H. rewrite skipn_app. rewrite zlen_len.
  rewrite (skipn_all2 t1) by lia. cbn [app]. f_equal. lia.
Qed.

Lemma slice_app_left : forall (t1 t2 : seq) a b, 0 <= a -> b <= zlen t1 ->
  slice (t1 ++ t2) a b = slice t1 a b.
Proof.
  intros t1 t2 a b Ha Hb. unfold slice.
  destruct (Z_le_gt_dec a (zlen t1)) as [Hle|Hgt].
  - rewrite skipn_app_left by lia. rewrite firstn_app.
    replace (Z.to_nat (b - a) - length (skipn (Z.to_nat a) t1))%nat with 0%nat
      by (rewrite skipn_length; rewrite zlen_len in *; lia).
    cbn [firstn]. apply app_nil_r.
  - replace (Z.to_nat (b - a)) with 0%nat by lia. reflexivity.
Qed.

Lemma slice_app_right : forall (t1 t2 : seq) a b, 0 <= a ->
  slice (t1 ++ t2) (zlen t1 + a) (zlen t1 + b) = slice t2 a b.
Proof.
  intros t1 t2 a b Ha. unfold slice. rewrite skipn_app_right by lia. f_equal. lia.
Qed.

Lemma slice_span : forall (t1 t2 : seq) a b, 0 <= a <= zlen t1 -> 0 <= b ->
  slice (t1 ++ t2) a (zlen t1 + b) = skipn (Z.to_nat a) t1 ++ slice t2 0 b.
Proof.
  intros t1 t2 a b Ha Hb. unfold slice. rewrite skipn_app_left by lia. rewrite firstn_app.
  rewrite skipn_length. rewrite zlen_len in *.
  rewrite firstn_all2 by (rewrite skipn_length; lia). f_equal. cbn [skipn Z.to_nat]. f_equal. lia.
Qed.

(* ------------------------------------------------------------------ apply_hap over a concatenation *)
Lemma build_right : forall h (t1 t2 : seq) e M, 0 <= e -> chain e h M ->
  build (t1 ++ t2) (zlen t1 + e) (map (move (zlen t1)) h) = build t2 e h.
Proof.
  induction h as [|v h IH]; intros t1 t2 e M He H; cbn [map build].
  - apply skipn_app_right; lia.
  - cbn in H. destruct H as (A & B & C). unfold move at 1 2 3. cbn [v_s v_e v_alt].
    replace (v_s v + zlen t1) with (zlen t1 + v_s v) by lia.
    replace (v_e v + zlen t1) with (zlen t1 + v_e v) by lia.
    rewrite slice_app_right by lia. rewrite (IH t1 t2 (v_e v) M) by (auto; lia). reflexivity.
Qed.

Lemma build_app : forall h1 h2 (t1 t2 : seq) pos M, 0 <= pos -> chain pos h1 (zlen t1) -> chain 0 h2 M ->
  build (t1 ++ t2) pos (h1 ++ map (move (zlen t1)) h2) = build t1 pos h1 ++ build t2 0 h2.
Proof.
  induction h1 as [|v h1 IH]; intros h2 t1 t2 pos M Hp H1 H2.
  - cbn [app build]. cbn in H1. destruct h2 as [|w h2]; cbn [map build].
    + rewrite skipn_app_left by lia. cbn [Z.to_nat skipn]. reflexivity.
    + cbn in H2. destruct H2 as (A & B & C). unfold move at 1 2 3. cbn [v_s v_e v_alt].
      replace (v_s w + zlen t1) with (zlen t1 + v_s w) by lia.
      replace (v_e w + zlen t1) with (zlen t1 + v_e w) by lia.
      rewrite slice_span by lia. rewrite (build_right h2 t1 t2 (v_e w) M) by (auto; lia).
      rewrite <- !app_assoc. reflexivity.
  - cbn [app build]. cbn in H1. destruct H1 as (A & B & C).
    pose proof (chain_le _ _ _ C) as Hle.
    rewrite slice_app_left by lia. rewrite (IH h2 t1 t2 (v_e v) M) by (auto; lia).
    rewrite <- !app_assoc. reflexivity.
Qed.

(* records well-formed inside t1 and inside t2: applying them to the concatenation (the second list moved by
   |t1|) is the concatenation of the two applications *)
Lemma apply_hap_app : forall h1 h2 (t1 t2 : seq) M, chain 0 h1 (zlen t1) -> chain 0 h2 M ->
  apply_hap (t1 ++ t2) (h1 ++ map (move (zlen t1)) h2) = apply_hap t1 h1 ++ apply_hap t2 h2.
Proof. intros. unfold apply_hap. eapply build_app; eauto. lia. Qed.

Lemma move_move : forall a b v, move a (move b v) = move (b + a) v.
Proof. intros a b [s e al ok]. unfold move. cbn. f_equal; lia. Qed.

Lemma map_move_move : forall a b h, map (move a) (map (move b) h) = map (move (b + a)) h.
Proof. intros. rewrite map_map. apply map_ext. intros. apply move_move. Qed.

(* the reduction lemma of the circRNA specification: carrying the same records h in each of the four copies is
   the same as four copies of the circle carrying h *)
Lemma circ_copies_lemma : forall (t : seq) h, chain 0 h (zlen t) ->
  apply_hap (four t) (copies4 (zlen t) h) = four (apply_hap t h).
Proof.
  intros t h H. unfold four, copies4. set (L := zlen t).
  assert (E3 : map (move (3 * L)) h = map (move L) (map (move L) (map (move L) h))).
  { rewrite !map_move_move. f_equal. f_equal. lia. }
  assert (E2 : map (move (2 * L)) h = map (move L) (map (move L) h)).
  { rewrite !map_move_move. f_equal. f_equal. lia. }
  rewrite E3, E2. rewrite <- !map_app.
  assert (C1 : chain 0 (h ++ map (move L) h) (L + L)).
  { eapply chain_app; [exact H|]. exact (chain_move h 0 L L H). }
  assert (C2 : chain 0 (h ++ map (move L) (h ++ map (move L) h)) (L + (L + L))).
  { eapply chain_app; [exact H|]. replace (L + (L + L)) with ((L + L) + L) by lia.
    exact (chain_move _ 0 (L + L) L C1). }
  unfold L in *.
  rewrite (apply_hap_app h _ t (t ++ t ++ t) _ H C2).
  rewrite (apply_hap_app h _ t (t ++ t) _ H C1).
  rewrite (apply_hap_app h h t t _ H H). reflexivity.
Qed.

(* ------------------------------------------------------------------ the decider is the statement *)
Definition CircProduct (nf : bool) (c : circ_in) (h : list variant) (p : seq) : Prop :=
  exists st, In st (atg_positions (circ_hap c h) 0) /\
    Product (circ_linear true c) nf false (translate_from (circ_hap c h) st []) p.

Lemma circ_products_spec : forall nf c h p, In p (circ_products nf c h) <-> CircProduct nf c h p.
Proof.
  intros nf c h p. unfold circ_products, CircProduct. rewrite in_flat_map. split.
  - intros (st & Hst & H). exists st. split; auto. apply products_spec; auto.
  - intros (st & Hst & H). exists st. split; auto. apply products_spec; auto.
Qed.

(* C02 for a circRNA record: p is realizable  <->  for the empty set or some non-empty pairwise compatible set h of
   the small records that lie inside a fragment, carried in every one of the four copies, some ATG of the
   haplotype sequence starts a translation of which p is a digestion product (Met-removed form permitted), the
   open last peptide of a translation that runs off the fourth copy excluded *)
Lemma realizable_circ_iff_lemma : forall c p,
  realizable_circ c p = true <->
  exists h, (h = [] \/ exists m, length m = length (circ_vars true c) /\ h = select m (circ_vars true c) /\
                               nonempty h = true /\ pairwise false h = true) /\
            CircProduct false c h p.
Proof.
  intros c p. unfold realizable_circ, circ_set. rewrite sp_mem_seq_In, in_flat_map. split.
  - intros (h & Hh & Hp). exists h. split; [|apply circ_products_spec; auto].
    destruct Hh as [<-|Hh]; [left; reflexivity|right].
    apply haplotypes_spec in Hh as (m & A & B & C & D). exists m. auto.
  - intros (h & Hh & Hp). exists h. split; [|apply circ_products_spec; auto].
    destruct Hh as [->|(m & A & B & C & D)]; [left; reflexivity|right].
    apply haplotypes_spec. exists m. auto.
Qed.

Lemma circ_backbone_lemma : forall l c,
  in_tx (circ_linear l c) = four (circ_turn (c_gene c) (c_frags c)).
Proof. reflexivity. Qed.

(* a record of the circle comes from a supplied record that lies inside one fragment *)
Lemma to_circ_inside : forall frs off v w, In w (to_circ true frs off v) ->
  exists f, In f frs /\ fst f <= v_s v /\ v_e v <= snd f /\ v_alt w = v_alt v /\ v_e w - v_s w = v_e v - v_s v.
Proof.
  induction frs as [|f frs IH]; intros off v w H; cbn [to_circ] in H; [destruct H|].
  destruct ((fst f <=? v_s v) && (v_e v <=? snd f)) eqn:E.
  - destruct H as [<-|[]]. exists f. cbn [In v_alt v_s v_e]. repeat split; auto; lia.
  - apply IH in H as (g & Hg & R). exists g. split; [right; auto|exact R].
Qed.


(* ------------------------------------------------------------------ obliged side: the set is its statement *)
Lemma must_circ_set_iff_lemma : forall c x p,
  In p (must_circ_set c x) <->
  (exists h, (h = [] \/ (In h (haplotypes true (circ_vars false c)) /\ circ_must_hap h = true)) /\
             In p (circ_must_products c h)) /\
  ~ In p (ref_products x) /\ ~ In p (may_set x) /\ ~ In p (c_pool c).
Proof.
  intros c x p. unfold must_circ_set. cbn zeta. rewrite filter_In, in_flat_map, !andb_true_iff, !negb_true_iff, !sp_mem_seq_false.
  split.
  - intros [(h & Hh & Hp) [[A B] C]]. split; auto. exists h. split; auto.
    destruct Hh as [<-|Hh]; [left; reflexivity|right]. apply filter_In in Hh. exact Hh.
  - intros [(h & Hh & Hp) (A & B & C)]. split; auto. exists h. split; auto.
    destruct Hh as [->|Hh]; [left; reflexivity|right]. apply filter_In. exact Hh.
Qed.
