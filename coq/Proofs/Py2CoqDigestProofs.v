(* Equality of the double `while` loop of AminoAcidSeqRecord.enzymatic_cleave, as GENERATED from /repo's
   source by harness/translate/py2coq.py (coq/Gen/Py_AminoAcidSeqRecord.v), with Digest.cleave_loop.
   Fuel sufficiency (S (length bounds) for either loop) is proved inside the equality.  docs/py2coq.md. *)
From Coq Require Import ZArith List Bool Lia ZifyBool.
From MoPep Require Import Model.Base Model.PyRt Model.Rule Model.Digest Gen.Py_AminoAcidSeqRecord.
Import ListNotations.
Open Scope Z_scope.

Lemma skipn_nth_cons : forall A (l : list A) n b,
  nth_error l n = Some b -> skipn n l = b :: skipn (S n) l.
Proof.
  induction l as [|x t IH]; intros [|n] b H; cbn in *; try discriminate.
  - inversion H. reflexivity.
  - apply IH. exact H.
Qed.

Lemma skipn_len_app : forall A (pre l : list A), skipn (length pre) (pre ++ l) = l.
Proof. induction pre as [|x t IH]; intro l; [reflexivity | apply IH]. Qed.

Lemma nth_error_len_app : forall A (pre l : list A) a, nth_error (pre ++ a :: l) (length pre) = Some a.
Proof. induction pre as [|x t IH]; intros l a; [reflexivity | apply IH]. Qed.

Lemma py_index_nonneg : forall A (l : list A) i, 0 <= i -> py_index l i = nth_error l (Z.to_nat i).
Proof. intros A l i H. unfold py_index. destruct (i <? 0) eqn:C; [lia | reflexivity]. Qed.

Lemma nth_error_in_range : forall A (l : list A) n, (n < length l)%nat -> exists b, nth_error l n = Some b.
Proof.
  intros A l n H. destruct (nth_error l n) eqn:E; [eauto|].
  apply nth_error_None in E. lia.
Qed.

Lemma code_enzymatic_cleave_is_model_l : forall wt water lim s nf bounds,
  enzymatic_cleave wt water lim s nf bounds = POk (cleave_loop wt water lim s nf true bounds).
Proof.
  intros wt water lim s nf bounds.
  (* ---- inner loop: from boundary index e it consumes the next n boundaries, n = what the miscleavage
          limit still allows; todo = the boundaries not yet visited ---- *)
  assert (IN : forall a start, 0 <= start -> nth_error bounds (Z.to_nat start) = Some a ->
    forall fuel peps e n todo, start < e -> todo = skipn (Z.to_nat e) bounds ->
      n = Z.to_nat (lim_k lim + 1 - (e - start - 1)) -> (length todo < fuel)%nat ->
      exists e', enzymatic_cleave_loop1 wt water lim s nf bounds start fuel peps e
                 = Continue (peps ++ flat_map (emit wt water lim s (start =? 0) nf a) (firstn n todo), e')).
  { intros a start S0 NA. induction fuel as [|fuel IH]; intros peps e n todo SE T N F; [lia|].
    cbn [enzymatic_cleave_loop1]. cbv zeta.
    match goal with |- context [if ?c then _ else _] => destruct c eqn:C end.
    - (* one more boundary *)
      assert (LT : (Z.to_nat e < length bounds)%nat) by lia.
      destruct (nth_error_in_range _ bounds _ LT) as [b NB].
      rewrite !py_index_nonneg by lia. rewrite NA, NB.
      pose proof (skipn_nth_cons _ _ _ _ NB) as SK. rewrite <- T in SK.
      destruct n as [|n']; [lia|]. subst todo.
      assert (STEP : forall peps' e2, e2 = e + 1 ->
        peps' = peps ++ emit wt water lim s (start =? 0) nf a b ->
        exists e', enzymatic_cleave_loop1 wt water lim s nf bounds start fuel peps' e2
                   = Continue (peps ++ flat_map (emit wt water lim s (start =? 0) nf a)
                                                (firstn (S n') (skipn (Z.to_nat e) bounds)), e')).
      { intros peps' e2 E2 P. rewrite SK. cbn [firstn flat_map]. rewrite app_assoc, <- P.
        apply IH; [lia | subst e2; replace (Z.to_nat (e + 1)) with (S (Z.to_nat e)) by lia; reflexivity | lia |].
        rewrite SK in F. cbn [length] in F. lia. }
      unfold emit in STEP.
      match goal with |- context [if ?c then _ else _] => destruct c eqn:CM end;
        (apply STEP; [lia | cbn [app]; rewrite ?app_assoc; reflexivity]).
    - (* the loop stops: limit reached, or no boundary left *)
      exists e. f_equal. f_equal.
      assert (Z : n = 0%nat \/ todo = []).
      { destruct (e <? Z.of_nat (length bounds)) eqn:C2.
        - left. lia.
        - right. subst todo. apply skipn_all2. lia. }
      destruct Z as [-> | ->]; [|rewrite firstn_nil]; cbn [firstn flat_map]; rewrite app_nil_r; reflexivity. }
  (* ---- outer loop: start walks over the boundaries; rest = the boundaries from start on ---- *)
  assert (OUT : forall fuel pre rest peps start, bounds = pre ++ rest -> start = Z.of_nat (length pre) ->
    (length rest < fuel)%nat ->
    exists st', enzymatic_cleave_loop2 wt water lim s nf bounds fuel peps start
                = Continue (peps ++ cleave_loop wt water lim s nf (start =? 0) rest, st')).
  { induction fuel as [|fuel IH]; intros pre rest peps start E ST F; [lia|].
    cbn [enzymatic_cleave_loop2]. cbv zeta.
    assert (LEN : Z.of_nat (length bounds) = start + Z.of_nat (length rest)) by (rewrite E, app_length; lia).
    match goal with |- context [if ?c then _ else _] => destruct c eqn:C end.
    - destruct rest as [|a rest']; [cbn [length] in LEN; lia|].
      assert (NA : nth_error bounds (Z.to_nat start) = Some a)
        by (rewrite E, ST, Nat2Z.id; apply nth_error_len_app).
      match goal with |- context [enzymatic_cleave_loop1 _ _ _ _ _ _ ?st ?f ?p ?e] =>
        destruct (IN a start ltac:(lia) NA f p e (Z.to_nat (lim_k lim + 1)) rest') as [e' HI];
          [lia
          | replace (Z.to_nat e) with (length (pre ++ [a])) by (rewrite app_length; cbn [length]; lia);
            rewrite E; replace (pre ++ a :: rest') with ((pre ++ [a]) ++ rest') by (rewrite <- app_assoc; reflexivity);
            symmetry; apply skipn_len_app
          | f_equal; lia
          | rewrite E, app_length; cbn [length]; lia
          | rewrite HI ]
      end.
      match goal with |- context [enzymatic_cleave_loop2 _ _ _ _ _ _ ?f ?p ?st] =>
        destruct (IH (pre ++ [a]) rest' p st) as [st' HO];
          [rewrite <- app_assoc; exact E | rewrite app_length; cbn [length]; lia | cbn [length] in F; lia
          | rewrite HO]
      end.
      exists st'. f_equal. f_equal. cbn [cleave_loop]. rewrite <- !app_assoc. f_equal. f_equal.
      match goal with |- cleave_loop _ _ _ _ _ ?b1 _ = cleave_loop _ _ _ _ _ ?b2 _ =>
        replace b1 with false by lia; reflexivity end.
    - exists start. f_equal. f_equal.
      destruct rest as [|a [|b rest']]; cbn [cleave_loop length] in *; try lia;
        rewrite ?firstn_nil; cbn [flat_map app]; rewrite ?app_nil_r; reflexivity. }
  unfold enzymatic_cleave. cbv zeta.
  match goal with |- context [enzymatic_cleave_loop2 _ _ _ _ _ _ ?f ?p ?st] =>
    destruct (OUT f [] bounds p st eq_refl) as [st' H]; [cbn [length]; lia | lia | rewrite H]
  end.
  cbn [app]. reflexivity.
Qed.
