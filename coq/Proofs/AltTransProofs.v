(* Proofs for C09 (Model/AltTrans.v). *)
From Coq Require Import ZArith List Bool Lia Arith.
From MoPep Require Import Model.Base Model.Rule Model.Digest Model.W2F Model.NovelOrf Model.Anno Model.AltTrans
                          Proofs.W2FProofs Proofs.CleaveSpec Proofs.NovelOrfProofs Proofs.AnnoProofs.
Import ListNotations.
Open Scope Z_scope.

(* ---------------------------------------------------------------- F: node-level Sec truncation *)
Definition TmodForm (valid : seq -> bool) (start : bool) (s q : seq) : Prop :=
  valid q = true /\ (q = s \/ (start = true /\ starts_with_M s = true /\ q = tl s)).

Lemma in_tmod_forms valid start s q :
  In q (tmod_forms valid start s) <-> TmodForm valid start s q.
Proof.
  unfold tmod_forms, TmodForm. rewrite in_app_iff.
  destruct (valid s) eqn:Es; destruct start; destruct (starts_with_M s) eqn:Em; simpl;
    try (destruct (valid (tl s)) eqn:Et; simpl); intuition (subst; try congruence).
Qed.

(* the SECT-labelled outputs of translational_modification are exactly the prefixes before an annotated
   Sec of the joined peptide (and their Met-removed forms at a start codon) that pass the validity filter;
   the unlabelled ones are the peptide itself and its Met-removed form *)
Theorem sect_trunc valid start secs s u q :
  In (Some u, q) (node_tmod valid start secs s) <->
  In u secs /\ TmodForm valid start (firstn u s) q.
Proof.
  unfold node_tmod. rewrite in_app_iff, in_map_iff, in_flat_map. split.
  - intros [[x [H _]] | [u' [Hu H]]]; [discriminate|].
    apply in_map_iff in H. destruct H as [q' [E Hq]]. injection E as <- <-.
    split; [exact Hu | apply in_tmod_forms; exact Hq].
  - intros [Hu Hq]. right. exists u. split; [exact Hu|]. apply in_map_iff. exists q.
    split; [reflexivity | apply in_tmod_forms; exact Hq].
Qed.

Theorem sect_trunc_none valid start secs s q :
  In (None, q) (node_tmod valid start secs s) <-> TmodForm valid start s q.
Proof.
  unfold node_tmod. rewrite in_app_iff, in_map_iff, in_flat_map. split.
  - intros [[x [E H]] | [u' [_ H]]].
    + injection E as <-. apply in_tmod_forms. exact H.
    + apply in_map_iff in H. destruct H as [q' [E _]]. discriminate.
  - intros H. left. exists q. split; [reflexivity | apply in_tmod_forms; exact H].
Qed.

(* ---------------------------------------------------------------- U positions *)
Lemma u_positions_from_spec i p j :
  In j (u_positions_from i p) <-> (i <= j)%nat /\ nth_error p (j - i) = Some U_code.
Proof.
  revert i. induction p as [|c r IH]; intro i; simpl.
  - split; [intros [] | intros [_ H]]. destruct (j - i)%nat; discriminate.
  - rewrite in_app_iff, IH. split.
    + intros [H | [H1 H2]].
      * destruct (c =? U_code) eqn:E; [| destruct H]. destruct H as [<- | []].
        rewrite Nat.sub_diag. simpl. apply Z.eqb_eq in E. subst. split; auto.
      * split; [lia|]. replace (j - i)%nat with (S (j - S i)) by lia. simpl. auto.
    + intros [H1 H2]. destruct (Nat.eq_dec i j) as [->|Hne].
      * left. rewrite Nat.sub_diag in H2. simpl in H2. injection H2 as ->.
        rewrite Z.eqb_refl. simpl. auto.
      * right. split; [lia|]. replace (j - i)%nat with (S (j - S i)) in H2 by lia. simpl in H2. auto.
Qed.

Lemma u_positions_spec p j : In j (u_positions p) <-> nth_error p j = Some U_code.
Proof.
  unfold u_positions. rewrite u_positions_from_spec, Nat.sub_0_r. split; [tauto | split; [lia | auto]].
Qed.

(* ---------------------------------------------------------------- "translation stopping at an annotated Sec codon" *)
Definition no_U (tbl : codon_tbl) : Prop := forall a b c, codon_aa tbl a b c <> U_code.

Fixpoint remZ (x : Z) (l : list Z) : list Z :=
  match l with [] => [] | y :: t => if x =? y then remZ x t else y :: remZ x t end.

Lemma memZ_remZ_same x l : memZ x (remZ x l) = false.
Proof. induction l as [|y t IH]; simpl; auto. destruct (x =? y) eqn:E; simpl; [auto | rewrite E; auto]. Qed.

Lemma memZ_remZ_other x y l : x <> y -> memZ y (remZ x l) = memZ y l.
Proof.
  intro H. induction l as [|z t IH]; simpl; auto.
  destruct (x =? z) eqn:E; simpl.
  - apply Z.eqb_eq in E. subst z. rewrite IH. destruct (y =? x) eqn:E2; auto. apply Z.eqb_eq in E2. congruence.
  - rewrite IH. reflexivity.
Qed.

(* if residue u of the annotated translation is the Sec read at transcript position pos + 3u, then not
   reading THAT codon as Sec (all others unchanged) yields exactly the prefix before it *)
Theorem sect_is_stop_at_sec tbl (HU : no_U tbl) dna : forall secs pos u,
  nth_error (translate_cds tbl secs pos dna) u = Some U_code ->
  translate_cds tbl (remZ (pos + 3 * Z.of_nat u) secs) pos dna = firstn u (translate_cds tbl secs pos dna).
Proof.
  induction dna as [| a | a b | a b c r IH] using triple_ind; intros secs pos u H;
    try (simpl in H; destruct u; discriminate).
  cbn [translate_cds] in *.
  destruct (codon_aa tbl a b c =? STAR_code) eqn:Es.
  - destruct (memZ pos secs) eqn:Em; [| destruct u; discriminate].
    destruct u as [|u].
    + change (Z.of_nat 0) with 0. replace (pos + 3 * 0) with pos by lia.
      rewrite memZ_remZ_same. reflexivity.
    + cbn [nth_error] in H. rewrite memZ_remZ_other by lia. rewrite Em. cbn [firstn]. f_equal.
      replace (pos + 3 * Z.of_nat (S u)) with (pos + 3 + 3 * Z.of_nat u) by lia. apply IH. exact H.
  - destruct u as [|u].
    + cbn [nth_error] in H. injection H as H. exfalso. eapply HU. exact H.
    + cbn [nth_error] in H. cbn [firstn]. f_equal.
      replace (pos + 3 * Z.of_nat (S u)) with (pos + 3 + 3 * Z.of_nat u) by lia. apply IH. exact H.
Qed.

(* ---------------------------------------------------------------- F: create_variant_sect position arithmetic *)
(* the id names the 1-based gene coordinate of the first base of the Sec codon: converting it back
   (coordinate_gene_to_transcript, C11 model) gives the codon's transcript position *)
Theorem sect_id_names_codon tst ex gst gs ge pos :
  wf ex = true -> strand_ok tst -> strand_ok gst ->
  0 <= pos -> pos + 2 < tx_len ex ->
  gs <= first_start ex -> last_end ex <= ge ->
  exists n, sect_id tst ex gst gs ge pos = Ok n /\
            1 <= n <= ge - gs /\
            gene2tx gst gs ge true tst ex (n - 1) = Ok pos.
Proof.
  intros W St Sg Hp Hl Hgs Hge.
  destruct (wf_wf_from _ W) as (N & WF & P0).
  destruct (tx2g_g2tx_l tst ex pos W St ltac:(lia)) as (g1 & T1 & X1 & B1).
  destruct (tx2g_g2tx_l tst ex (pos + 2) W St ltac:(lia)) as (g2 & T2 & X2 & B2).
  pose proof (exonic_in_span _ _ _ WF X1) as S1.
  pose proof (exonic_in_span _ _ _ WF X2) as S2.
  destruct (gene_genomic_inv_l gst gs ge Sg) as (GI & _ & _).
  destruct (GI g1 ltac:(lia)) as (i1 & G1 & R1 & I1).
  destruct (GI g2 ltac:(lia)) as (i2 & G2 & R2 & I2).
  exists (i1 + 1). unfold sect_id. rewrite T1, T2, G1, G2. split; [reflexivity|]. split; [lia|].
  replace (i1 + 1 - 1) with i1 by lia. unfold gene2tx. rewrite I1. exact B1.
Qed.

(* ---------------------------------------------------------------- S: the definitional sets *)
Section AltSpec.
  Variable wt : weight_table.
  Variable water : Z.
  Variable lim : limits.
  Variable r : rule.
  Variable exc : option rule.

  Notation keepb := (keep wt water lim).
  Notation Prod := (Product wt water lim r exc).
  Notation POn := (ProductOn wt water lim).

  Definition W2FImg (base q : seq) : Prop :=
    exists S, S <> [] /\ sublist S (w_positions base) /\ q = apply_w2f S base.

  Definition ctx_bounds_full (c : cdsrec) : list nat :=
    0%nat :: full_sites_ctx r exc c ++ [length (cr_prot c)].
  Definition ctx_bounds_sect (c : cdsrec) (u : nat) : list nat :=
    0%nat :: ltb_filter u (full_sites_ctx r exc c) ++ [u].

  (* --- permitted --- *)
  Definition CanonMay (c : cdsrec) (b : seq) : Prop :=
    Prod false (cr_prot c) b \/ POn (ctx_bounds_full c) (cr_prot c) true false b.
  (* translation stopped at an annotated Sec (residue u is U), then digested *)
  Definition SectMay (c : cdsrec) (b : seq) : Prop :=
    exists u, nth_error (cr_prot c) u = Some U_code /\
              (Prod false (firstn u (cr_prot c)) b \/
               POn (ctx_bounds_sect c u) (firstn u (cr_prot c)) true false b).
  Definition TxMay (sect w2f : bool) (c : cdsrec) (q : seq) : Prop :=
    (sect = true /\ SectMay c q) \/
    (w2f = true /\ exists base, (CanonMay c base \/ (sect = true /\ SectMay c base)) /\
                                W2FImg base q /\ keepb q = true).
  Definition AltMay (sect w2f : bool) (pool : list seq) (cs : list cdsrec) (q : seq) : Prop :=
    ~ In q pool /\ exists c, In c cs /\ TxMay sect w2f c q.

  (* --- obliged --- *)
  Definition CanonMust (c : cdsrec) (b : seq) : Prop :=
    if cr_end_nf c then POn (0%nat :: sites r exc (cr_prot c)) (cr_prot c) true (cr_nf c) b
    else Prod (cr_nf c) (cr_prot c) b.
  Definition SectMust (c : cdsrec) (b : seq) : Prop :=
    exists u, nth_error (cr_prot c) u = Some U_code /\
              sect_stable r exc (cr_prot c) u = true /\
              (cr_end_nf c = false \/ has_site_from r exc (cr_prot c) u = true) /\
              Prod (cr_nf c) (firstn u (cr_prot c)) b.
  Definition TxMust (sect w2f : bool) (c : cdsrec) (q : seq) : Prop :=
    tx_stable r exc c = true /\
    ((sect = true /\ SectMust c q) \/
     (w2f = true /\ exists base, (CanonMust c base \/ (sect = true /\ SectMust c base)) /\
                                 W2FImg base q /\ keepb q = true)).
  Definition AltMust (sect w2f : bool) (pool : list seq) (cs : list cdsrec) (q : seq) : Prop :=
    ~ In q pool /\ exists c, In c cs /\ TxMust sect w2f c q.

  Lemma alt_noncanon_iff pool q : alt_noncanon pool q = true <-> ~ In q pool.
  Proof. unfold alt_noncanon. rewrite negb_true_iff. apply mem_seq_false_iff. Qed.

  Lemma in_alt_images ps q :
    In q (alt_images wt water lim ps) <-> exists base, In base ps /\ W2FImg base q /\ keepb q = true.
  Proof.
    unfold alt_images. rewrite filter_In, in_flat_map. split.
    - intros [[base [Hb Hq]] Hk]. exists base. split; [exact Hb|]. split; [apply w2f_enum; exact Hq | exact Hk].
    - intros [base [Hb [Hq Hk]]]. split; [| exact Hk]. exists base. split; [exact Hb | apply w2f_enum; exact Hq].
  Qed.

  Lemma in_may_canon c b : In b (may_canon wt water lim r exc c) <-> CanonMay c b.
  Proof.
    unfold may_canon, CanonMay, canon_ctx. rewrite in_app_iff, cleave_spec, cleave_loop_spec. reflexivity.
  Qed.

  Lemma in_may_sect c b : In b (may_sect wt water lim r exc c) <-> SectMay c b.
  Proof.
    unfold may_sect, SectMay. rewrite in_flat_map. split.
    - intros [u [Hu Hb]]. apply u_positions_spec in Hu. exists u. split; [exact Hu|].
      apply in_app_iff in Hb. destruct Hb as [Hb|Hb].
      + left. apply cleave_spec. exact Hb.
      + right. unfold sect_products_ctx in Hb. apply cleave_loop_spec in Hb. exact Hb.
    - intros [u [Hu Hb]]. exists u. split; [apply u_positions_spec; exact Hu|]. apply in_app_iff.
      destruct Hb as [Hb|Hb].
      + left. apply cleave_spec. exact Hb.
      + right. unfold sect_products_ctx. apply cleave_loop_spec. exact Hb.
  Qed.

  Lemma in_may_tx sect w2f c q : In q (may_tx wt water lim r exc sect w2f c) <-> TxMay sect w2f c q.
  Proof.
    unfold may_tx, TxMay. rewrite in_app_iff. destruct sect, w2f; simpl;
      try rewrite in_alt_images; try rewrite in_may_sect.
    - split.
      + intros [H | [base [Hb Hq]]]; [left; auto | right]. split; [reflexivity|]. exists base. split; [| exact Hq].
        apply in_app_iff in Hb. destruct Hb as [Hb|Hb]; [left; apply in_may_canon; exact Hb | right; split; [reflexivity | apply in_may_sect; exact Hb]].
      + intros [[_ H] | [_ [base [Hb Hq]]]]; [left; exact H | right]. exists base. split; [| exact Hq].
        apply in_app_iff. destruct Hb as [Hb | [_ Hb]]; [left; apply in_may_canon; exact Hb | right; apply in_may_sect; exact Hb].
    - split; [intros [H|[]]; left; auto | intros [[_ H] | [H _]]; [left; exact H | discriminate]].
    - split.
      + intros [[] | [base [Hb Hq]]]. right. split; [reflexivity|]. exists base. split; [| exact Hq].
        rewrite app_nil_r in Hb. left. apply in_may_canon. exact Hb.
      + intros [[H _] | [_ [base [Hb Hq]]]]; [discriminate | right]. exists base. split; [| exact Hq].
        rewrite app_nil_r. destruct Hb as [Hb | [Hb _]]; [apply in_may_canon; exact Hb | discriminate].
    - split; [intros [[]|[]] | intros [[H _] | [H _]]; discriminate].
  Qed.

  Theorem alt_may_iff sect w2f pool cs q :
    In q (alt_may wt water lim r exc sect w2f pool cs) <-> AltMay sect w2f pool cs q.
  Proof.
    unfold alt_may, AltMay. rewrite filter_In, alt_noncanon_iff, in_flat_map. split.
    - intros [[c [Hc Hq]] Hn]. split; [exact Hn|]. exists c. split; [exact Hc | apply in_may_tx; exact Hq].
    - intros [Hn [c [Hc Hq]]]. split; [| exact Hn]. exists c. split; [exact Hc | apply in_may_tx; exact Hq].
  Qed.

  Lemma in_must_canon c b : In b (must_canon wt water lim r exc c) <-> CanonMust c b.
  Proof.
    unfold must_canon, CanonMust, inner_products. destruct (cr_end_nf c).
    - apply cleave_loop_spec.
    - apply cleave_spec.
  Qed.

  Lemma in_must_sect c b : In b (must_sect wt water lim r exc c) <-> SectMust c b.
  Proof.
    unfold must_sect, SectMust. rewrite in_flat_map. split.
    - intros [u [Hu Hb]]. apply u_positions_spec in Hu.
      destruct (sect_stable r exc (cr_prot c) u) eqn:Es; [| destruct Hb].
      destruct (negb (cr_end_nf c) || has_site_from r exc (cr_prot c) u) eqn:Ee; [| destruct Hb].
      simpl in Hb. exists u. split; [exact Hu|]. split; [exact Es|]. split.
      + apply orb_true_iff in Ee. destruct Ee as [Ee|Ee]; [left; apply negb_true_iff; exact Ee | right; exact Ee].
      + apply cleave_spec. exact Hb.
    - intros [u [Hu [Hs [He Hb]]]]. exists u. split; [apply u_positions_spec; exact Hu|].
      rewrite Hs. replace (negb (cr_end_nf c) || has_site_from r exc (cr_prot c) u) with true.
      + simpl. apply cleave_spec. exact Hb.
      + symmetry. apply orb_true_iff. destruct He as [He|He]; [left; rewrite He; reflexivity | right; exact He].
  Qed.

  Lemma in_must_tx sect w2f c q : In q (must_tx wt water lim r exc sect w2f c) <-> TxMust sect w2f c q.
  Proof.
    unfold must_tx, TxMust. destruct (tx_stable r exc c); [| split; [intros [] | intros [H _]; discriminate]].
    rewrite in_app_iff. destruct sect, w2f; simpl;
      try rewrite in_alt_images; try rewrite in_must_sect.
    - split.
      + intros [H | [base [Hb Hq]]]; (split; [reflexivity|]); [left; auto | right]. split; [reflexivity|]. exists base. split; [| exact Hq].
        apply in_app_iff in Hb. destruct Hb as [Hb|Hb]; [left; apply in_must_canon; exact Hb | right; split; [reflexivity | apply in_must_sect; exact Hb]].
      + intros [_ [[_ H] | [_ [base [Hb Hq]]]]]; [left; exact H | right]. exists base. split; [| exact Hq].
        apply in_app_iff. destruct Hb as [Hb | [_ Hb]]; [left; apply in_must_canon; exact Hb | right; apply in_must_sect; exact Hb].
    - split; [intros [H|[]]; split; [reflexivity | left; auto] | intros [_ [[_ H] | [H _]]]; [left; exact H | discriminate]].
    - split.
      + intros [[] | [base [Hb Hq]]]. split; [reflexivity|]. right. split; [reflexivity|]. exists base. split; [| exact Hq].
        rewrite app_nil_r in Hb. left. apply in_must_canon. exact Hb.
      + intros [_ [[H _] | [_ [base [Hb Hq]]]]]; [discriminate | right]. exists base. split; [| exact Hq].
        rewrite app_nil_r. destruct Hb as [Hb | [Hb _]]; [apply in_must_canon; exact Hb | discriminate].
    - split; [intros [[]|[]] | intros [_ [[H _] | [H _]]]; discriminate].
  Qed.

  (* membership in the computed obliged set <-> the property's existential statement *)
  Theorem alt_spec_iff sect w2f pool cs q :
    In q (alt_must wt water lim r exc sect w2f pool cs) <-> AltMust sect w2f pool cs q.
  Proof.
    unfold alt_must, AltMust. rewrite filter_In, alt_noncanon_iff, in_flat_map. split.
    - intros [[c [Hc Hq]] Hn]. split; [exact Hn|]. exists c. split; [exact Hc | apply in_must_tx; exact Hq].
    - intros [Hn [c [Hc Hq]]]. split; [| exact Hn]. exists c. split; [exact Hc | apply in_must_tx; exact Hq].
  Qed.

  (* ---- MUST inside MAY ---- *)
  Lemma Form_nf_weaken s first nf a b q :
    Form wt water lim s first nf a b q -> Form wt water lim s first false a b q.
  Proof.
    intros [[H | (H1 & H2 & H3 & H4)] Hk]; (split; [| exact Hk]); [left; exact H | right; auto].
  Qed.

  Lemma POn_nf_weaken bs s first nf q : POn bs s first nf q -> POn bs s first false q.
  Proof.
    intros (i & j & a & b & Hi & Hj & Hij & Hf). exists i, j, a, b.
    split; [exact Hi|]. split; [exact Hj|]. split; [exact Hij|].
    eapply Form_nf_weaken. exact Hf.
  Qed.

  Lemma nth_error_firstn_le {A} (l : list A) n i x :
    nth_error (firstn n l) i = Some x -> nth_error l i = Some x.
  Proof.
    revert l i. induction n; intros l i H; [destruct i; discriminate|].
    destruct l; [destruct i; discriminate|]. destruct i; simpl in *; auto.
  Qed.

  (* dropping the last boundary only removes products *)
  Lemma POn_drop_last bs x s first nf q : POn bs s first nf q -> POn (bs ++ [x]) s first nf q.
  Proof.
    intros (i & j & a & b & Hi & Hj & Hij & Hf). exists i, j, a, b.
    split; [rewrite nth_error_app1; [exact Hi | apply nth_error_Some; congruence]|].
    split; [rewrite nth_error_app1; [exact Hj | apply nth_error_Some; congruence]|].
    split; [exact Hij | exact Hf].
  Qed.

  Lemma CanonMust_May c b : CanonMust c b -> CanonMay c b.
  Proof.
    unfold CanonMust, CanonMay. destruct (cr_end_nf c); intro H; left.
    - unfold Product, bounds_of. apply POn_nf_weaken with (nf := cr_nf c).
      change (0%nat :: sites r exc (cr_prot c) ++ [length (cr_prot c)])
        with ((0%nat :: sites r exc (cr_prot c)) ++ [length (cr_prot c)]).
      apply POn_drop_last. exact H.
    - apply POn_nf_weaken with (nf := cr_nf c). exact H.
  Qed.

  Lemma SectMust_May c b : SectMust c b -> SectMay c b.
  Proof.
    intros [u [Hu [_ [_ Hb]]]]. exists u. split; [exact Hu|]. left.
    apply POn_nf_weaken with (nf := cr_nf c). exact Hb.
  Qed.

  Theorem alt_must_sub_may sect w2f pool cs q :
    In q (alt_must wt water lim r exc sect w2f pool cs) -> In q (alt_may wt water lim r exc sect w2f pool cs).
  Proof.
    rewrite alt_spec_iff, alt_may_iff. intros [Hn [c [Hc [_ H]]]]. split; [exact Hn|]. exists c. split; [exact Hc|].
    destruct H as [[Hs H] | [Hw [base [Hb Hq]]]].
    - left. split; [exact Hs | apply SectMust_May; exact H].
    - right. split; [exact Hw|]. exists base. split; [| exact Hq].
      destruct Hb as [Hb | [Hs Hb]]; [left; apply CanonMust_May; exact Hb | right; split; [exact Hs | apply SectMust_May; exact Hb]].
  Qed.

  (* ---------------------------------------------------------------- headers *)
  Lemma mem_nat_iff x l : Digest.mem_nat x l = true <-> In x l.
  Proof.
    induction l as [|y t IH]; simpl; [split; [discriminate | tauto]|].
    rewrite orb_true_iff, Nat.eqb_eq, IH. split; intros [H|H]; auto.
  Qed.

  (* the events named in a header suffice: there is a digestion product of the annotated protein (no SECT named)
     or of the translation stopped at the named Sec (SECT named) that carries a W at every named position, and
     substituting F at exactly the named positions gives the peptide *)
  Definition HeaderWitness (c : cdsrec) (sect_at : option nat) (w2f_at : list nat) (q : seq) : Prop :=
    (sect_at <> None \/ w2f_at <> []) /\
    exists base,
      match sect_at with
      | None => CanonMay c base
      | Some u => nth_error (cr_prot c) u = Some U_code /\
                  (Prod false (firstn u (cr_prot c)) base \/
                   POn (ctx_bounds_sect c u) (firstn u (cr_prot c)) true false base)
      end /\
      (forall i, In i (map Nat.pred w2f_at) -> nth_error base i = Some W_code) /\
      q = apply_w2f (map Nat.pred w2f_at) base.

  Lemma in_header_src c so base :
    In base (header_src wt water lim r exc c so) <->
    match so with
    | None => CanonMay c base
    | Some u => nth_error (cr_prot c) u = Some U_code /\
                (Prod false (firstn u (cr_prot c)) base \/
                 POn (ctx_bounds_sect c u) (firstn u (cr_prot c)) true false base)
    end.
  Proof.
    unfold header_src. destruct so as [u|]; [| apply in_may_canon].
    destruct (Digest.mem_nat u (u_positions (cr_prot c))) eqn:E.
    - apply mem_nat_iff, u_positions_spec in E. rewrite in_app_iff.
      unfold sect_products, sect_products_ctx. rewrite cleave_spec, cleave_loop_spec. tauto.
    - split; [intros [] |]. intros [H _]. apply u_positions_spec, mem_nat_iff in H. congruence.
  Qed.

  Theorem alt_header_suffices c so ws q :
    header_ok wt water lim r exc c so ws q = true <-> HeaderWitness c so ws q.
  Proof.
    unfold header_ok, HeaderWitness. rewrite andb_true_iff, existsb_exists. split.
    - intros [He [base [Hb Hx]]]. split.
      + destruct so; [left; discriminate|]. destruct ws; [discriminate | right; discriminate].
      + apply andb_true_iff in Hx. destruct Hx as [Hw Hq]. exists base.
        split; [apply in_header_src; exact Hb|]. split.
        * intros i Hi. rewrite forallb_forall in Hw. apply Hw in Hi. apply mem_nat_iff in Hi.
          apply w_positions_spec. exact Hi.
        * symmetry. apply eq_seq_iff. exact Hq.
    - intros [He [base [Hb [Hw ->]]]]. split.
      + destruct so; [reflexivity|]. destruct ws; [destruct He; congruence | reflexivity].
      + exists base. split; [apply in_header_src; exact Hb|]. apply andb_true_iff. split.
        * apply forallb_forall. intros i Hi. apply mem_nat_iff, w_positions_spec. apply Hw. exact Hi.
        * apply eq_seq_iff. reflexivity.
  Qed.

  Lemma map_pred_S l : map Nat.pred (map S l) = l.
  Proof. induction l; simpl; congruence. Qed.

  (* the checker is not vacuous: every permitted peptide has a header (the specification's own minimal
     label) that the checker accepts *)
  Theorem spec_labels_witness sect w2f pool cs q :
    In q (alt_may wt water lim r exc sect w2f pool cs) ->
    exists c so ws, In c cs /\ header_ok wt water lim r exc c so ws q = true.
  Proof.
    rewrite alt_may_iff. intros [_ [c [Hc H]]]. exists c.
    destruct H as [[_ [u [Hu Hb]]] | [_ [base [Hb [[S [Hne [Hs ->]]] _]]]]].
    - exists (Some u), []. split; [exact Hc|]. apply alt_header_suffices. split; [left; discriminate|].
      exists q. split; [split; [exact Hu | exact Hb]|]. split; [intros i [] | reflexivity].
    - assert (HW : forall i, In i S -> nth_error base i = Some W_code).
      { intros i Hi. apply w_positions_spec. eapply sublist_In; eauto. }
      destruct Hb as [Hb | [_ [u [Hu Hb]]]].
      + exists None, (map Datatypes.S S). split; [exact Hc|]. apply alt_header_suffices. split.
        * right. destruct S; [congruence | discriminate].
        * exists base. rewrite map_pred_S. split; [exact Hb|]. split; [exact HW | reflexivity].
      + exists (Some u), (map Datatypes.S S). split; [exact Hc|]. apply alt_header_suffices. split; [left; discriminate|].
        exists base. rewrite map_pred_S. split; [split; [exact Hu | exact Hb]|]. split; [exact HW | reflexivity].
  Qed.
End AltSpec.

(* ---------------------------------------------------------------- a codon table never yields U *)
Lemma codon_lookup_in tbl c x : codon_lookup tbl c = Some x -> In x (map snd tbl).
Proof.
  induction tbl as [|[k a] t IH]; simpl; [discriminate|].
  destruct (eq_seq c k); [intro H; injection H as ->; left; reflexivity | intro H; right; auto].
Qed.

Lemma no_U_of_check tbl :
  forallb (fun x => negb (x =? U_code)) (map snd tbl) = true -> no_U tbl.
Proof.
  intros H a b c E. unfold codon_aa in E. rewrite forallb_forall in H.
  destruct (codon_lookup tbl [a; b; c]) eqn:L.
  - apply codon_lookup_in in L. apply H in L. subst z. discriminate.
  - discriminate.
Qed.
