(* C07, parsers -- proofs about Model/ParserLoop.v *)
From Coq Require Import ZArith List Bool Lia.
From MoPep Require Import Model.Base Model.ParserLoop.
Import ListNotations.
Open Scope Z_scope.

Definition pcount (f : prow -> bool) (l : list prow) : Z := zlen (filter f l).
Definition gvf_recs (o : pout) : list Z := match o_gvf o with Some l => l | None => [] end.
Definition nonfail (doc : list (Z * Z)) (rows : list prow) : list prow := filter (fun r => negb (row_fails doc r)) rows.
Definition modelled_ok (sh : pshape) : bool := pshape_eqb sh shape_fusion || pshape_eqb sh shape_vep.

Lemma modelled_ok_fields : forall sh, modelled_ok sh = true ->
  ps_guarded sh = true /\ ps_register_early sh = false /\ ps_tally_first sh = true.
Proof.
  intros sh H. unfold modelled_ok in H. apply orb_true_iff in H.
  destruct H as [H|H]; unfold pshape_eqb in H; repeat (apply andb_true_iff in H; destruct H as [H ?]);
    repeat match goal with H : Bool.eqb _ _ = true |- _ => apply Bool.eqb_prop in H end; cbn in *; auto.
Qed.

Lemma pcount_cons : forall f r l, pcount f (r :: l) = (if f r then 1 else 0) + pcount f l.
Proof. intros. unfold pcount. cbn [filter]. destruct (f r); cbn [zlen]; lia. Qed.

(* --skip-failed, guarded bare handler, keys registered after the conversion *)
Lemma ploop_skip : forall sh rows st, ps_guarded sh = true -> ps_register_early sh = false ->
  exists st', ploop sh true rows st = POkR st' /\
    p_recs st' = p_recs st ++ flat_map row_recs rows /\
    p_succeed st' = p_succeed st + pcount row_ok rows /\
    p_reasons st' = p_reasons st ++ flat_map (row_reason (ps_doc sh) (ps_fail_reason sh)) rows /\
    p_badkey st' = p_badkey st /\
    p_anykey st' = p_anykey st || existsb row_ok rows.
Proof.
  intros sh rows. induction rows as [|r rest IH]; intros st G E.
  - exists st. cbn [ploop flat_map existsb]. rewrite !app_nil_r, orb_false_r. unfold pcount. cbn [filter zlen].
    repeat split; lia.
  - destruct r as [x|recs|mro uk]; cbn [ploop].
    + match goal with |- context [ploop _ _ rest ?S] => destruct (IH S G E) as [st' [H [H1 [H2 [H3 [H4 H5]]]]]] end.
      exists st'. split; [exact H|]. rewrite H1, H2, H3, H4, H5, pcount_cons.
      cbn [p_recs p_succeed p_reasons p_badkey p_anykey flat_map row_recs row_reason row_ok existsb app orb].
      rewrite <- app_assoc. cbn [app]. repeat split; lia.
    + match goal with |- context [ploop _ _ rest ?S] => destruct (IH S G E) as [st' [H [H1 [H2 [H3 [H4 H5]]]]]] end.
      exists st'. split; [exact H|]. rewrite H1, H2, H3, H4, H5, pcount_cons.
      cbn [p_recs p_succeed p_reasons p_badkey p_anykey flat_map row_recs row_reason row_ok existsb app orb].
      rewrite <- app_assoc, orb_true_r. repeat split; lia.
    + rewrite E, G. cbn [andb orb]. rewrite !orb_false_r.
      destruct (find_handler (ps_doc sh) mro) as [x|] eqn:F.
      * match goal with |- context [ploop _ _ rest ?S] => destruct (IH S G E) as [st' [H [H1 [H2 [H3 [H4 H5]]]]]] end.
        exists st'. split; [exact H|]. rewrite H1, H2, H3, H4, H5, pcount_cons.
        cbn [p_recs p_succeed p_reasons p_badkey p_anykey flat_map row_recs row_reason row_ok existsb app orb].
        rewrite F, <- app_assoc. cbn [app]. repeat split; lia.
      * match goal with |- context [ploop _ _ rest ?S] => destruct (IH S G E) as [st' [H [H1 [H2 [H3 [H4 H5]]]]]] end.
        exists st'. split; [exact H|]. rewrite H1, H2, H3, H4, H5, pcount_cons.
        cbn [p_recs p_succeed p_reasons p_badkey p_anykey flat_map row_recs row_reason row_ok existsb app orb].
        rewrite F, <- app_assoc. cbn [app]. repeat split; lia.
Qed.

Lemma ploop_noskip_raise : forall sh rows st, existsb (row_fails (ps_doc sh)) rows = true ->
  ploop sh false rows st = PRaise PEConv.
Proof.
  intros sh rows. induction rows as [|r rest IH]; intros st H; cbn [existsb] in H; [discriminate|].
  destruct r as [x|recs|mro uk]; cbn [ploop row_fails orb] in *; try (apply IH; exact H).
  destruct (find_handler (ps_doc sh) mro) eqn:F.
  - cbn [orb] in H. apply IH. exact H.
  - rewrite andb_false_r. reflexivity.
Qed.

Lemma ploop_nofail : forall sh rows st, existsb (row_fails (ps_doc sh)) rows = false ->
  ploop sh false rows st = ploop sh true rows st.
Proof.
  intros sh rows. induction rows as [|r rest IH]; intros st H; [reflexivity|].
  cbn [existsb] in H. apply orb_false_iff in H. destruct H as [Hr H].
  destruct r as [x|recs|mro uk]; cbn [ploop]; try (apply IH; exact H).
  cbn [row_fails] in Hr. destruct (find_handler (ps_doc sh) mro); [apply IH; exact H | discriminate].
Qed.

Lemma flat_map_recs_nonfail : forall doc rows, flat_map row_recs (nonfail doc rows) = flat_map row_recs rows.
Proof.
  intros doc rows. induction rows as [|r rest IH]; [reflexivity|]. unfold nonfail in *. cbn [filter].
  destruct r as [x|recs|mro uk]; cbn [row_fails negb flat_map row_recs app]; try (rewrite IH; reflexivity).
  destruct (find_handler doc mro); cbn [negb flat_map row_recs app]; exact IH.
Qed.

Lemma existsb_fails_nonfail : forall doc rows, existsb (row_fails doc) (nonfail doc rows) = false.
Proof.
  intros doc rows. induction rows as [|r rest IH]; [reflexivity|]. unfold nonfail in *. cbn [filter].
  destruct (row_fails doc r) eqn:F; cbn [negb]; [exact IH|]. cbn [existsb]. rewrite F, IH. reflexivity.
Qed.

Lemma prun_skip : forall sh rows, ps_guarded sh = true -> ps_register_early sh = false ->
  o_exc (prun sh true rows) = None /\
  gvf_recs (prun sh true rows) = flat_map row_recs rows /\
  (forall tl, o_tally (prun sh true rows) = Some tl ->
     tl = (zlen rows, pcount row_ok rows, flat_map (row_reason (ps_doc sh) (ps_fail_reason sh)) rows)) /\
  (o_gvf (prun sh true rows) <> None -> o_tally (prun sh true rows) <> None).
Proof.
  intros sh rows G E. unfold prun.
  destruct (ploop_skip sh rows {| p_recs := []; p_succeed := 0; p_reasons := []; p_badkey := false; p_anykey := false |} G E)
    as [st' [H [H1 [H2 [H3 [H4 H5]]]]]].
  rewrite H. cbn in H1, H2, H3, H4, H5.
  assert (T : (zlen rows, p_succeed st', p_reasons st') =
              (zlen rows, pcount row_ok rows, flat_map (row_reason (ps_doc sh) (ps_fail_reason sh)) rows)).
  { rewrite H2, H3. f_equal. }
  assert (NR : p_anykey st' = false -> flat_map row_recs rows = []).
  { intro A. rewrite H5 in A. clear - A. induction rows as [|r rest IH]; [reflexivity|].
    cbn [existsb] in A. apply orb_false_iff in A. destruct A as [A1 A2].
    destruct r; cbn in *; try discriminate; auto. }
  rewrite H4.
  destruct (ps_empty_on_keys sh).
  - destruct (p_anykey st') eqn:A; cbn [negb]; unfold gvf_recs; cbn [o_exc o_gvf o_tally].
    + split; [reflexivity|]. split; [exact H1|]. split; [intros tl Ht; inversion Ht; exact T | congruence].
    + split; [reflexivity|]. split; [symmetry; apply NR; reflexivity|].
      split; [|congruence]. intros tl Ht. destruct (ps_tally_first sh); [inversion Ht; exact T | discriminate Ht].
  - destruct (p_recs st') eqn:R; unfold gvf_recs; cbn [o_exc o_gvf o_tally].
    + split; [reflexivity|]. split; [exact H1|]. split; [|congruence].
      intros tl Ht. destruct (ps_tally_first sh); [inversion Ht; exact T | discriminate Ht].
    + split; [reflexivity|]. split; [exact H1|]. split; [intros tl Ht; inversion Ht; exact T | congruence].
Qed.

Lemma prun_skip_tally : forall sh rows, ps_guarded sh = true -> ps_register_early sh = false ->
  ps_tally_first sh = true -> o_tally (prun sh true rows) <> None.
Proof.
  intros sh rows G E TF. unfold prun.
  destruct (ploop_skip sh rows {| p_recs := []; p_succeed := 0; p_reasons := []; p_badkey := false; p_anykey := false |} G E)
    as [st' [H [_ [_ [_ [H4 _]]]]]].
  rewrite H, H4, TF. cbn [p_badkey].
  match goal with |- context [if ?c then _ else _] => destruct c end; cbn [o_tally]; congruence.
Qed.

Lemma parser_skip_isolates_l : forall sh rows, modelled_ok sh = true ->
  o_exc (prun sh true rows) = None /\
  gvf_recs (prun sh true rows) = flat_map row_recs rows /\
  (forall tl, o_tally (prun sh true rows) = Some tl ->
     tl = (zlen rows, pcount row_ok rows, flat_map (row_reason (ps_doc sh) (ps_fail_reason sh)) rows)) /\
  o_tally (prun sh true rows) <> None /\
  (forall skip', o_exc (prun sh skip' (nonfail (ps_doc sh) rows)) = None /\
                 gvf_recs (prun sh skip' (nonfail (ps_doc sh) rows)) = gvf_recs (prun sh true rows)).
Proof.
  intros sh rows M. destruct (modelled_ok_fields sh M) as [G [E TF]].
  destruct (prun_skip sh rows G E) as [A [B [C D]]].
  split; [exact A|]. split; [exact B|]. split; [exact C|]. split; [exact (prun_skip_tally sh rows G E TF)|].
  intro skip'. destruct (prun_skip sh (nonfail (ps_doc sh) rows) G E) as [A' [B' _]].
  assert (Q : prun sh skip' (nonfail (ps_doc sh) rows) = prun sh true (nonfail (ps_doc sh) rows)).
  { destruct skip'; [reflexivity|]. unfold prun. rewrite ploop_nofail by apply existsb_fails_nonfail. reflexivity. }
  rewrite Q. split; [exact A'|]. rewrite B', B. apply flat_map_recs_nonfail.
Qed.

Lemma parser_noskip_aborts_l : forall sh rows, existsb (row_fails (ps_doc sh)) rows = true ->
  prun sh false rows = {| o_exc := Some PEConv; o_gvf := None; o_tally := None |}.
Proof. intros. unfold prun. rewrite ploop_noskip_raise by assumption. reflexivity. Qed.

Lemma parser_noskip_clean_l : forall sh rows, existsb (row_fails (ps_doc sh)) rows = false ->
  prun sh false rows = prun sh true rows.
Proof. intros. unfold prun. rewrite ploop_nofail by assumption. reflexivity. Qed.

(* parseVEP before the repair: a skipped record whose transcript id is not in the annotation leaves its key in the
   output dict; ranking the keys raises KeyError after the summary was logged, despite --skip-failed *)
Lemma vep_unknown_tx_refuted_l :
  exists rows, prun shape_vep_orig true rows =
               {| o_exc := Some PERank; o_gvf := None; o_tally := Some (2, 1, [6]) |}.
Proof. exists [POk [7]; PExc [10; 14; 20; 21] true]. vm_compute. reflexivity. Qed.

(* the fusion parsers before the repair: with --skip-failed and every row failing nothing is tallied *)
Lemma fusion_no_tally_refuted_l :
  exists rows, existsb (row_fails doc_fusion) rows = true /\
               prun shape_fusion_orig true rows = {| o_exc := None; o_gvf := None; o_tally := None |}.
Proof. exists [PExc [11; 20; 21] false]. split; vm_compute; reflexivity. Qed.
