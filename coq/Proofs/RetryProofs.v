(* Proofs about the model of caller_reducer (Model/Retry.v). *)
From Coq Require Import ZArith List Bool Lia ZifyBool.
From MoPep Require Import Model.Base Model.Retry.
Import ListNotations.
Open Scope Z_scope.

(* ---- termination: if every attempt times out the loop ends in ValueError ---- *)
Definition next_avs (avs : list Z) : list Z := match tl avs with [] => [0] | _ => tl avs end.

Lemma on_timeout_single : forall x avs mv av,
  on_timeout (mkR [x] avs mv av) =
  if mv - 1 <=? 0 then Fail else Retry (mkR [mv - 1] (next_avs avs) (mv - 1) (hdz (next_avs avs))).
Proof. intros. unfold on_timeout, next_avs. cbn. destruct (mv - 1 <=? 0); reflexivity. Qed.

Lemma on_timeout_multi : forall m a rest avs mv av,
  on_timeout (mkR (m :: a :: rest) avs mv av) = Retry (mkR (a :: rest) (next_avs avs) a (hdz (next_avs avs))).
Proof. intros. unfold on_timeout, next_avs. cbn. reflexivity. Qed.

Lemma fail_from_single : forall n x avs av,
  x - 1 <= Z.of_nat n -> snd (attempts (S n) (mkR [x] avs x av)) = true.
Proof.
  induction n as [|n IH]; intros x avs av Hx; cbn [attempts]; rewrite on_timeout_single.
  - destruct (x - 1 <=? 0) eqn:E; [reflexivity | lia].
  - destruct (x - 1 <=? 0) eqn:E; [reflexivity|].
    cbn [snd]. apply IH. lia.
Qed.

Lemma fail_from_list : forall rest m avs mv av n,
  rest <> [] -> last rest 0 - 1 <= Z.of_nat n ->
  snd (attempts (length rest + S n) (mkR (m :: rest) avs mv av)) = true.
Proof.
  induction rest as [|a rest IH]; intros m avs mv av n Hne Hl; [congruence|].
  cbn [length Nat.add attempts]. rewrite on_timeout_multi. cbn [snd].
  destruct rest as [|b rest'].
  - cbn [length Nat.add]. cbn [last] in Hl. apply fail_from_single. exact Hl.
  - apply IH; [discriminate|]. exact Hl.
Qed.

(* the number of attempts is bounded by len(tuple) + max(0, last - 1) *)
Lemma retry_terminates_lemma : forall mvs avs, mvs <> [] ->
  snd (attempts (length mvs + Z.to_nat (Z.max 0 (last mvs 0 - 1))) (rinit mvs avs)) = true.
Proof.
  intros mvs avs Hne. destruct mvs as [|m rest]; [congruence|]. unfold rinit. cbn [hdz].
  destruct rest as [|a rest'].
  - cbn [length last Nat.add]. apply fail_from_single. lia.
  - set (n := Z.to_nat (Z.max 0 (last (m :: a :: rest') 0 - 1))).
    replace (length (m :: a :: rest') + n)%nat with (length (a :: rest') + S n)%nat by (cbn [length]; lia).
    apply fail_from_list; [discriminate|].
    subst n. change (last (m :: a :: rest') 0) with (last (a :: rest') 0). lia.
Qed.

(* ---- retries only tighten the limits, provided the CLI tuples are non-increasing ---- *)
Definition good (s : rstate) : Prop :=
  r_mvs s <> [] /\ r_avs s <> [] /\ r_mv s = hdz (r_mvs s) /\ r_av s = hdz (r_avs s) /\
  nonincreasing (r_mvs s) = true /\ nonincreasing (r_avs s) = true.

Lemma attempts_head : forall n s, exists t, fst (attempts n s) = (r_mv s, r_av s) :: t.
Proof.
  destruct n as [|n]; intros s; cbn [attempts]; [eexists; reflexivity|].
  destruct (on_timeout s); cbn [fst]; eexists; reflexivity.
Qed.

Lemma tighter_refl_or : forall a, tighter a a = true \/ a < 0.
Proof. intros a. unfold tighter. lia. Qed.

Lemma on_timeout_good : forall s s', good s -> on_timeout s = Retry s' ->
  good s' /\ tighter (r_mv s') (r_mv s) = true /\ tighter (r_av s') (r_av s) = true.
Proof.
  intros [mvs avs mv av] s' (Hm & Ha & Emv & Eav & Nm & Na). cbn [r_mvs r_avs r_mv r_av] in *.
  unfold on_timeout. cbn [r_mvs r_avs r_mv r_av].
  destruct mvs as [|m mvs1]; [congruence|]. destruct avs as [|a avs1]; [congruence|].
  cbn [tl hdz] in *. subst mv av.
  assert (HA: forall avs2, avs2 = match avs1 with [] => [0] | _ => avs1 end ->
              avs2 <> [] /\ nonincreasing avs2 = true /\ tighter (hdz avs2) a = true).
  { intros avs2 ->. destruct avs1 as [|a1 avs1'].
    - repeat split; try discriminate. cbn. unfold tighter. lia.
    - repeat split; try discriminate.
      + cbn [nonincreasing] in Na. apply andb_true_iff in Na. tauto.
      + cbn [nonincreasing] in Na. apply andb_true_iff in Na. cbn [hdz]. tauto. }
  destruct mvs1 as [|m1 mvs1'].
  - cbn [andb hdz]. destruct (m - 1 <=? 0) eqn:E; [discriminate|].
    intros H. injection H as <-. cbn [r_mvs r_avs r_mv r_av].
    destruct (HA _ eq_refl) as (A1 & A2 & A3).
    unfold good. cbn [r_mvs r_avs r_mv r_av hdz nonincreasing].
    repeat split; auto; try discriminate. unfold tighter. lia.
  - cbn [andb]. intros H. injection H as <-. cbn [r_mvs r_avs r_mv r_av].
    destruct (HA _ eq_refl) as (A1 & A2 & A3).
    cbn [nonincreasing] in Nm. apply andb_true_iff in Nm as [N1 N2].
    unfold good. cbn [r_mvs r_avs r_mv r_av hdz].
    repeat split; auto; try discriminate.
Qed.

Lemma attempts_tighten : forall n s, good s -> pairs_tighten (fst (attempts n s)) = true.
Proof.
  induction n as [|n IH]; intros s G; cbn [attempts]; [reflexivity|].
  destruct (on_timeout s) as [s'|] eqn:E; [|reflexivity].
  destruct (on_timeout_good s s' G E) as (G' & T1 & T2).
  cbn [fst]. specialize (IH s' G'). destruct (attempts_head n s') as [t Ht].
  rewrite Ht in *. cbn [pairs_tighten]. rewrite T1, T2. cbn [andb]. exact IH.
Qed.

Lemma retry_limits_decrease_lemma : forall mvs avs n,
  mvs <> [] -> avs <> [] -> nonincreasing mvs = true -> nonincreasing avs = true ->
  pairs_tighten (fst (attempts n (rinit mvs avs))) = true.
Proof.
  intros mvs avs n Hm Ha Nm Na. apply attempts_tighten. unfold good, rinit. cbn [r_mvs r_avs r_mv r_av].
  repeat split; auto.
Qed.

(* once the tuple is used up every retry lowers max-variants-per-node by exactly one and keeps
   additional-variants-per-misc at the next tuple element or 0 *)
Lemma retry_after_exhaustion_lemma : forall x avs av s',
  on_timeout (mkR [x] avs x av) = Retry s' ->
  1 < x /\ r_mv s' = x - 1 /\ r_mvs s' = [x - 1] /\ r_av s' = hdz (next_avs avs).
Proof.
  intros x avs av s'. rewrite on_timeout_single.
  destruct (x - 1 <=? 0) eqn:E; [discriminate|]. intros H. injection H as <-. cbn [r_mvs r_avs r_mv r_av].
  repeat split; lia.
Qed.
