(* Proofs for C08 (Model/NovelOrf.v). *)
From Coq Require Import ZArith List Bool Lia Arith Sorted.
From MoPep Require Import Model.Base Model.Rule Model.Digest Model.W2F Model.NovelOrf
                          Proofs.W2FProofs Proofs.CleaveSpec.
Import ListNotations.
Open Scope Z_scope.

(* ---------------------------------------------------------------- basics *)
Lemma eq_seq_iff a b : eq_seq a b = true <-> a = b.
Proof.
  revert b. induction a as [|x a IH]; intros [|y b]; simpl; try (split; congruence).
  rewrite andb_true_iff, Z.eqb_eq, IH. split; [intros [-> ->]; auto | intros H; injection H; auto].
Qed.

Lemma mem_seq_iff x l : mem_seq x l = true <-> In x l.
Proof.
  induction l as [|y t IH]; simpl; [split; [discriminate | tauto]|].
  rewrite orb_true_iff, eq_seq_iff, IH. split; intros [H|H]; auto.
Qed.

Lemma mem_seq_false_iff x l : mem_seq x l = false <-> ~ In x l.
Proof. rewrite <- mem_seq_iff. destruct (mem_seq x l); split; congruence. Qed.

(* ---------------------------------------------------------------- selection *)
(* the property's rule: non-coding transcripts passing the biotype and length filters;
   coding ones only with --coding-novel-orf *)
Definition SelectRule (o : selopt) (t : txsel) : Prop :=
  (ts_coding t = true /\ so_coding_novel o = true) \/
  (ts_coding t = false /\
   (so_incl o = [] \/ In (ts_biotype t) (so_incl o)) /\
   ~ In (ts_biotype t) (so_excl o) /\
   ts_in_proteome t = false /\
   so_min_len o <= ts_len t).

Lemma incl_cond_iff (bt : seq) (incl : list seq) :
  nonempty incl && negb (mem_seq bt incl) = false <-> (incl = [] \/ In bt incl).
Proof.
  destruct incl as [|x l]; simpl nonempty.
  - simpl. split; auto.
  - rewrite andb_true_l, negb_false_iff, mem_seq_iff. split; [auto | intros [H|H]; [discriminate | exact H]].
Qed.

Lemma excl_cond_iff (bt : seq) (excl : list seq) :
  nonempty excl && mem_seq bt excl = false <-> ~ In bt excl.
Proof.
  destruct excl as [|x l]; simpl nonempty.
  - simpl. split; auto.
  - rewrite andb_true_l. apply mem_seq_false_iff.
Qed.

Lemma noncoding_passes_iff o t :
  noncoding_passes o t = true <->
  (so_incl o = [] \/ In (ts_biotype t) (so_incl o)) /\ ~ In (ts_biotype t) (so_excl o) /\
  ts_in_proteome t = false /\ so_min_len o <= ts_len t.
Proof.
  rewrite <- incl_cond_iff, <- excl_cond_iff. unfold noncoding_passes.
  destruct (nonempty (so_incl o) && negb (mem_seq (ts_biotype t) (so_incl o))).
  { split; [discriminate | intros [H _]; discriminate]. }
  destruct (nonempty (so_excl o) && mem_seq (ts_biotype t) (so_excl o)).
  { split; [discriminate | intros [_ [H _]]; discriminate]. }
  destruct (ts_in_proteome t).
  { split; [discriminate | intros [_ [_ [H _]]]; discriminate]. }
  destruct (Z.ltb_spec (ts_len t) (so_min_len o)).
  { split; [discriminate | intros [_ [_ [_ H0]]]; lia]. }
  split; auto.
Qed.

Theorem select_iff o t : select_tx o t = true <-> SelectRule o t.
Proof.
  unfold select_tx, select_tx_gen, SelectRule.
  destruct (ts_coding t) eqn:Ec.
  - destruct (so_coding_novel o); simpl; split; auto; try discriminate.
    + intros [[_ H] | [H _]]; discriminate.
  - rewrite noncoding_passes_iff. split; [intro H; right; split; auto | intros [[H _] | [_ H]]; [discriminate | exact H]].
Qed.

(* the code as written today (`pass`): a coding transcript is processed although the flag is off *)
Theorem select_iff_refuted :
  exists o t, select_tx_unfixed o t = true /\ ~ SelectRule o t.
Proof.
  exists (mkSelOpt false [] [] 21), (mkTxSel true [] true 100).
  split; [vm_compute; reflexivity |].
  unfold SelectRule; simpl. intros [[_ H] | [H _]]; discriminate.
Qed.

(* the unrepaired loop differs from the rule exactly on coding transcripts without the flag *)
Lemma select_unfixed_char o t :
  select_tx_unfixed o t = true <-> SelectRule o t \/ (ts_coding t = true /\ so_coding_novel o = false).
Proof.
  rewrite <- select_iff. unfold select_tx_unfixed, select_tx, select_tx_gen.
  destruct (ts_coding t), (so_coding_novel o); simpl; intuition congruence.
Qed.

(* ---------------------------------------------------------------- ATG positions *)
Lemma skipn_nil' {A} n : skipn n (@nil A) = [].
Proof. destruct n; reflexivity. Qed.

Lemma atg_from_spec i dna p :
  In p (atg_from i dna) <-> (i <= p)%nat /\ is_atg (skipn (p - i) dna) = true.
Proof.
  revert i. induction dna as [|c r IH]; intro i.
  - simpl. rewrite skipn_nil'. simpl. split; [intros [] | intros [_ H]; discriminate].
  - cbn [atg_from]. rewrite in_app_iff, IH. split.
    + intros [H | [H1 H2]].
      * destruct (is_atg (c :: r)) eqn:E; [| destruct H]. destruct H as [<- | []].
        rewrite Nat.sub_diag. simpl skipn. auto.
      * split; [lia|]. replace (p - i)%nat with (S (p - S i)) by lia. exact H2.
    + intros [H1 H2]. destruct (Nat.eq_dec i p) as [->|Hne].
      * left. rewrite Nat.sub_diag in H2. simpl skipn in H2. rewrite H2. simpl. auto.
      * right. split; [lia|]. replace (p - i)%nat with (S (p - S i)) in H2 by lia. exact H2.
Qed.

Lemma atg_positions_spec dna p : In p (atg_positions dna) <-> is_atg (skipn p dna) = true.
Proof.
  unfold atg_positions. rewrite atg_from_spec, Nat.sub_0_r. split; [tauto | split; [lia | auto]].
Qed.

Lemma atg_from_sorted i dna : StronglySorted lt (atg_from i dna).
Proof.
  revert i. induction dna as [|c r IH]; intro i; cbn [atg_from]; [constructor|].
  destruct (is_atg (c :: r)); simpl; [| apply IH].
  constructor; [apply IH|]. apply Forall_forall. intros p Hp. apply atg_from_spec in Hp. lia.
Qed.

Lemma atg_positions_sorted dna : StronglySorted lt (atg_positions dna).
Proof. apply atg_from_sorted. Qed.

(* ---------------------------------------------------------------- translation *)
Lemma triple_ind (P : seq -> Prop) :
  P [] -> (forall a, P [a]) -> (forall a b, P [a; b]) ->
  (forall a b c r, P r -> P (a :: b :: c :: r)) -> forall l, P l.
Proof.
  intros H0 H1 H2 H3.
  assert (forall n l, (length l <= n)%nat -> P l) as H.
  { induction n; intros l Hl.
    - destruct l; [auto | simpl in Hl; lia].
    - destruct l as [|a [|b [|c r]]]; auto. apply H3. apply IHn. simpl in Hl. lia. }
  intro l. apply (H (length l)). lia.
Qed.

Definition stop_or_len (s : seq) : nat :=
  match find_star s with Some k => k | None => length s end.

Lemma stop_or_len_cons x s :
  stop_or_len (x :: s) = if x =? STAR_code then O else S (stop_or_len s).
Proof.
  unfold stop_or_len. simpl. destruct (x =? STAR_code); auto. destruct (find_star s); auto.
Qed.

Lemma stop_or_len_le s : (stop_or_len s <= length s)%nat.
Proof.
  induction s as [|x s IH]; [unfold stop_or_len; simpl; lia|].
  rewrite stop_or_len_cons. destruct (x =? STAR_code); simpl; lia.
Qed.

Lemma no_star_before_stop s : ~ In STAR_code (firstn (stop_or_len s) s).
Proof.
  induction s as [|x s IH]; [unfold stop_or_len; simpl; tauto|].
  rewrite stop_or_len_cons. destruct (x =? STAR_code) eqn:E; simpl; [tauto|].
  intros [H|H]; [subst; rewrite Z.eqb_refl in E; discriminate | auto].
Qed.

Lemma stop_or_end s :
  nth_error s (stop_or_len s) = Some STAR_code \/ stop_or_len s = length s.
Proof.
  induction s as [|x s IH]; [right; reflexivity|].
  rewrite stop_or_len_cons. destruct (x =? STAR_code) eqn:E.
  - left. apply Z.eqb_eq in E. subst. reflexivity.
  - simpl. destruct IH as [IH|IH]; [left; exact IH | right; lia].
Qed.

(* "to the next stop or the transcript end" *)
Lemma translate_orf_frame tbl dna :
  translate_orf tbl dna =
  firstn (stop_or_len (translate_frame tbl dna)) (translate_frame tbl dna).
Proof.
  induction dna as [| a | a b | a b c r IH] using triple_ind; try reflexivity.
  cbn [translate_orf translate_frame]. rewrite stop_or_len_cons.
  destruct (codon_aa tbl a b c =? STAR_code); [reflexivity|]. simpl. rewrite IH. reflexivity.
Qed.

Lemma skipn_translate_frame tbl k : forall dna,
  skipn k (translate_frame tbl dna) = translate_frame tbl (skipn (3 * k) dna).
Proof.
  induction k as [|k IH]; intro dna; [reflexivity|].
  replace (3 * S k)%nat with (S (S (S (3 * k)))) by lia.
  destruct dna as [|a [|b [|c r]]]; try reflexivity.
  cbn [translate_frame skipn]. apply IH.
Qed.

Lemma firstn_translate_frame tbl n : forall dna,
  firstn n (translate_frame tbl dna) = translate_frame tbl (firstn (3 * n) dna).
Proof.
  induction n as [|n IH]; intro dna; [reflexivity|].
  replace (3 * S n)%nat with (S (S (S (3 * n)))) by lia.
  destruct dna as [|a [|b [|c r]]]; try reflexivity.
  cbn [translate_frame firstn]. f_equal. apply IH.
Qed.

(* ---------------------------------------------------------------- ORF listing *)
Lemma skipn_skipn' {A} (x y : nat) : forall l : list A, skipn x (skipn y l) = skipn (x + y) l.
Proof.
  induction y as [|y IH]; intro l; [rewrite Nat.add_0_r; reflexivity|].
  rewrite Nat.add_succ_r. destruct l; [rewrite !skipn_nil'; reflexivity | apply IH].
Qed.

Lemma frame_tail tbl dna p :
  skipn (Nat.div p 3) (translate_frame tbl (skipn (Nat.modulo p 3) dna)) =
  translate_frame tbl (skipn p dna).
Proof.
  rewrite skipn_translate_frame, skipn_skipn'. f_equal. f_equal.
  pose proof (Nat.div_mod p 3). lia.
Qed.

(* every entry: the listed sequence is the translation from the start to the next stop or the end,
   the coordinates [start, end) translate to exactly that sequence, and it stops at a stop codon
   or at the end of the transcript *)
Definition EntryOk (tbl : codon_tbl) (dna : seq) (p : nat) (e : orf_entry) : Prop :=
  oe_start e = Z.of_nat p /\
  oe_seq e = orf_of tbl dna p /\
  oe_end e = oe_start e + 3 * zlen (oe_seq e) /\
  translate_frame tbl (slice dna (oe_start e) (oe_end e)) = oe_seq e /\
  ~ In STAR_code (oe_seq e) /\
  (nth_error (translate_frame tbl (skipn p dna)) (length (oe_seq e)) = Some STAR_code \/
   length (oe_seq e) = length (translate_frame tbl (skipn p dna))).

Lemma zlen_length {A} (l : list A) : zlen l = Z.of_nat (length l).
Proof. induction l; [reflexivity|]. cbn [zlen length]. rewrite IHl. rewrite Nat2Z.inj_succ. lia. Qed.

Lemma orf_entry_ok tbl dna p : EntryOk tbl dna p (orf_entry_of tbl dna p).
Proof.
  unfold EntryOk, orf_entry_of. cbn [oe_start oe_end oe_seq].
  rewrite frame_tail. set (tail := translate_frame tbl (skipn p dna)).
  fold (stop_or_len tail).
  assert (Hlen : length (firstn (stop_or_len tail) tail) = stop_or_len tail).
  { apply firstn_length_le. apply stop_or_len_le. }
  split; [reflexivity|]. split.
  { unfold orf_of. rewrite translate_orf_frame. reflexivity. }
  split.
  { rewrite zlen_length, Hlen. lia. }
  split.
  { unfold slice. rewrite Nat2Z.id.
    replace (Z.to_nat (Z.of_nat p + Z.of_nat (stop_or_len tail) * 3 - Z.of_nat p))
      with (3 * stop_or_len tail)%nat by lia.
    rewrite <- firstn_translate_frame. reflexivity. }
  split.
  { apply no_star_before_stop. }
  rewrite Hlen. apply stop_or_end.
Qed.

Theorem orf_listing_exact tbl dna :
  (* one entry per ATG of the three frames, in ascending start order (= id order ORF1, ORF2, ...) *)
  map oe_start (orf_listing tbl dna) = map Z.of_nat (atg_positions dna) /\
  StronglySorted lt (atg_positions dna) /\
  (forall p, In p (atg_positions dna) <-> is_atg (skipn p dna) = true) /\
  (* and every entry is right *)
  (forall e, In e (orf_listing tbl dna) ->
     exists p, In p (atg_positions dna) /\ EntryOk tbl dna p e).
Proof.
  split.
  { unfold orf_listing. rewrite map_map. apply map_ext. intro p. reflexivity. }
  split; [apply atg_positions_sorted|]. split; [apply atg_positions_spec|].
  intros e He. unfold orf_listing in He. apply in_map_iff in He. destruct He as [p [<- Hp]].
  exists p. split; [exact Hp | apply orf_entry_ok].
Qed.

(* ---------------------------------------------------------------- the definitional set *)
Section NovelSpec.
  Variable wt : weight_table.
  Variable water : Z.
  Variable lim : limits.
  Variable r : rule.
  Variable exc : option rule.
  Variable tbl : codon_tbl.

  Notation keepb := (keep wt water lim).

  (* q is a W>F image of base: one or more of base's tryptophans replaced *)
  Definition W2FImage (base q : seq) : Prop :=
    exists S, S <> [] /\ sublist S (w_positions base) /\ q = apply_w2f S base.

  Definition ctx_bounds (dna : seq) (p : nat) : list nat :=
    let s := orf_of tbl dna p in
    0%nat :: sites_ctx r exc (ctx_left tbl dna p) s (ctx_right tbl dna p) 0 ++ [length s].

  (* a digestion product of the translation from some ATG of some selected transcript *)
  Definition BaseMust (o : selopt) (txs : list txrec) (base : seq) : Prop :=
    exists t p, In t txs /\ SelectRule o (tr_sel t) /\
                In p (atg_positions (tr_dna t)) /\
                ctx_stable r exc tbl (tr_dna t) p = true /\
                Product wt water lim r exc false (orf_of tbl (tr_dna t) p) base.

  Definition BaseMay (o : selopt) (txs : list txrec) (base : seq) : Prop :=
    exists t p, In t txs /\ SelectRule o (tr_sel t) /\
                In p (atg_positions (tr_dna t)) /\
                (Product wt water lim r exc false (orf_of tbl (tr_dna t) p) base \/
                 ProductOn wt water lim (ctx_bounds (tr_dna t) p) (orf_of tbl (tr_dna t) p) true false base).

  Definition MustReport (o : selopt) (w2f : bool) (pool : list seq) (txs : list txrec) (q : seq) : Prop :=
    ~ In q pool /\
    exists base, BaseMust o txs base /\ ~ In base pool /\
                 (q = base \/ (w2f = true /\ W2FImage base q /\ keepb q = true)).

  Definition MayReport (o : selopt) (w2f : bool) (pool : list seq) (txs : list txrec) (q : seq) : Prop :=
    ~ In q pool /\
    exists base, BaseMay o txs base /\
                 (q = base \/ (w2f = true /\ W2FImage base q /\ keepb q = true)).

  Lemma noncanon_iff pool q : noncanon pool q = true <-> ~ In q pool.
  Proof. unfold noncanon. rewrite negb_true_iff. apply mem_seq_false_iff. Qed.

  Lemma in_selected o txs t :
    In t (selected true o txs) <-> In t txs /\ SelectRule o (tr_sel t).
  Proof. unfold selected. rewrite filter_In. fold (select_tx o (tr_sel t)). rewrite select_iff. tauto. Qed.

  Lemma in_with_w2f w2f ps q :
    In q (with_w2f wt water lim w2f ps) <->
    In q ps \/ (w2f = true /\ exists base, In base ps /\ W2FImage base q /\ keepb q = true).
  Proof.
    unfold with_w2f, images. rewrite in_app_iff. destruct w2f.
    - rewrite filter_In, in_flat_map. split.
      + intros [H | [[base [Hb Hq]] Hk]]; [left; exact H | right].
        split; [reflexivity|]. exists base. split; [exact Hb|]. split; [apply w2f_enum; exact Hq | exact Hk].
      + intros [H | [_ [base [Hb [Hq Hk]]]]]; [left; exact H | right].
        split; [| exact Hk]. exists base. split; [exact Hb | apply w2f_enum; exact Hq].
    - simpl. split; [intros [H|[]]; left; exact H | intros [H | [H _]]; [left; exact H | discriminate]].
  Qed.

  Lemma in_must_base o pool txs base :
    In base (must_base wt water lim r exc tbl pool (selected true o txs)) <->
    BaseMust o txs base /\ ~ In base pool.
  Proof.
    unfold must_base, BaseMust. rewrite filter_In, noncanon_iff, in_flat_map. split.
    - intros [[t [Ht Hb]] Hn]. split; [| exact Hn]. apply in_selected in Ht. destruct Ht as [Ht Hs].
      apply in_flat_map in Hb. destruct Hb as [p [Hp Hb]].
      destruct (ctx_stable r exc tbl (tr_dna t) p) eqn:E; [| destruct Hb].
      exists t, p. repeat split; auto. apply cleave_spec. exact Hb.
    - intros [(t & p & Ht & Hs & Hp & Hc & Hb) Hn]. split; [| exact Hn].
      exists t. split; [apply in_selected; auto|]. apply in_flat_map. exists p. split; [exact Hp|].
      rewrite Hc. apply cleave_spec. exact Hb.
  Qed.

  Lemma in_may_base o txs base :
    In base (may_base wt water lim r exc tbl (selected true o txs)) <-> BaseMay o txs base.
  Proof.
    unfold may_base, BaseMay. rewrite in_flat_map. split.
    - intros [t [Ht Hb]]. apply in_selected in Ht. destruct Ht as [Ht Hs].
      apply in_flat_map in Hb. destruct Hb as [p [Hp Hb]]. apply in_app_iff in Hb.
      exists t, p. repeat split; auto. destruct Hb as [Hb|Hb].
      + left. apply cleave_spec. exact Hb.
      + right. unfold orf_products_ctx in Hb. apply cleave_loop_spec in Hb. exact Hb.
    - intros (t & p & Ht & Hs & Hp & Hb). exists t. split; [apply in_selected; auto|].
      apply in_flat_map. exists p. split; [exact Hp|]. apply in_app_iff. destruct Hb as [Hb|Hb].
      + left. apply cleave_spec. exact Hb.
      + right. unfold orf_products_ctx. apply cleave_loop_spec. exact Hb.
  Qed.

  (* membership in the computed obliged set <-> the property's existential statement *)
  Theorem novel_spec_iff o w2f pool txs q :
    In q (novel_must wt water lim r exc tbl w2f pool (selected true o txs)) <->
    MustReport o w2f pool txs q.
  Proof.
    unfold novel_must, MustReport. rewrite filter_In, noncanon_iff, in_with_w2f. split.
    - intros [[H | [Hw [base [Hb Hq]]]] Hn]; (split; [exact Hn|]).
      + apply in_must_base in H. destruct H as [H1 H2]. exists q. auto.
      + apply in_must_base in Hb. destruct Hb as [H1 H2]. exists base. auto.
    - intros [Hn [base [Hb [Hp [-> | [Hw Hq]]]]]]; (split; [| exact Hn]).
      + left. apply in_must_base. auto.
      + right. split; [exact Hw|]. exists base. split; [apply in_must_base; auto | exact Hq].
  Qed.

  Theorem novel_may_iff o w2f pool txs q :
    In q (novel_may wt water lim r exc tbl w2f pool (selected true o txs)) <->
    MayReport o w2f pool txs q.
  Proof.
    unfold novel_may, MayReport. rewrite filter_In, noncanon_iff, in_with_w2f. split.
    - intros [[H | [Hw [base [Hb Hq]]]] Hn]; (split; [exact Hn|]).
      + apply in_may_base in H. exists q. auto.
      + apply in_may_base in Hb. exists base. auto.
    - intros [Hn [base [Hb [-> | [Hw Hq]]]]]; (split; [| exact Hn]).
      + left. apply in_may_base. auto.
      + right. split; [exact Hw|]. exists base. split; [apply in_may_base; auto | exact Hq].
  Qed.

  Lemma BaseMust_May o txs base : BaseMust o txs base -> BaseMay o txs base.
  Proof.
    intros (t & p & Ht & Hs & Hp & _ & Hb). exists t, p. repeat split; auto.
  Qed.

  (* the bracket is well-formed: everything obliged is permitted *)
  Theorem must_sub_may o w2f pool txs q :
    In q (novel_must wt water lim r exc tbl w2f pool (selected true o txs)) ->
    In q (novel_may wt water lim r exc tbl w2f pool (selected true o txs)).
  Proof.
    rewrite novel_spec_iff, novel_may_iff. intros [Hn [base [Hb [_ Hq]]]].
    split; [exact Hn|]. exists base. split; [apply BaseMust_May; exact Hb | exact Hq].
  Qed.

  (* every obliged / permitted peptide satisfies the limits and is not canonical *)
  Theorem novel_may_hygienic o w2f pool txs q :
    In q (novel_may wt water lim r exc tbl w2f pool (selected true o txs)) ->
    ~ In q pool /\ keepb q = true.
  Proof.
    rewrite novel_may_iff. intros [Hn [base [Hb [-> | [_ [_ Hk]]]]]]; (split; [exact Hn|]); [| exact Hk].
    destruct Hb as (t & p & _ & _ & _ & [Hb|Hb]); eapply ProductOn_keep; exact Hb.
  Qed.
End NovelSpec.
