(* add_bubbles (Model/AbsGraph.v): the language of the bubble graph is exactly the set of haplotype sequences of the
   reference semantics (Spec.apply_hap over the pairwise compatible sub-lists), DESIGN Appendix B. *)
From Coq Require Import ZArith List Bool Lia Arith.
From MoPep Require Import Model.Base Model.Rule Model.Digest Model.Spec Model.AbsGraph
                          Proofs.SpecProofs Proofs.SpecCircProofs Proofs.AbsGraphProofs.
Import ListNotations.
Open Scope Z_scope.

(* ------------------------------------------------------------------ generic facts about paths *)
Lemma path_unfold g n p :
  Path g (sink g) n p <->
  exists rest, p = n :: rest /\
    ((succs g n = [] /\ rest = []) \/ exists x, In x (succs g n) /\ Path g (sink g) x rest).
Proof.
  split.
  - intros H. destruct H as [n F | n m q Hm Hq].
    + exists []. split; [reflexivity|]. left. split; [|reflexivity].
      unfold sink in F. now destruct (succs g n).
    + exists q. split; [reflexivity|]. right. now exists m.
  - intros (rest & -> & [[H ->] | (x & Hx & Hp)]).
    + constructor. unfold sink. now rewrite H.
    + now apply Path_step with x.
Qed.

Lemma In_find g : forall n nd, In (n, nd) g -> exists nd', find g n = Some nd' /\ In (n, nd') g.
Proof.
  induction g as [|[m x] g IH]; intros n nd H; [destruct H|]. cbn [find].
  destruct (Nat.eqb m n) eqn:E.
  - apply Nat.eqb_eq in E. subst. exists x. split; [reflexivity | now left].
  - destruct H as [H|H]; [injection H as -> ->; rewrite Nat.eqb_refl in E; discriminate|].
    destruct (IH n nd H) as (nd' & H1 & H2). exists nd'. split; [exact H1 | now right].
Qed.

(* a path along which ids grow visits every node once: it is no longer than the node list *)
Fixpoint all_gt (n : nat) (l : list nat) : Prop :=
  match l with [] => True | x :: r => (n < x)%nat /\ all_gt n r end.

Lemma path_incr g fin : (forall n m, In m (succs g n) -> (n < m)%nat) ->
  forall n p, Path g fin n p -> exists q, p = n :: q /\ all_gt n q /\ NoDup p.
Proof.
  intros INC n p H. induction H as [n F | n m q Hm Hq IH].
  - exists []. repeat split. constructor; [intros []|constructor].
  - destruct IH as (q' & -> & G & ND). exists (m :: q'). pose proof (INC _ _ Hm) as L1.
    assert (G2 : all_gt n q').
    { clear - G L1. induction q' as [|y r IHr]; [exact I|]. destruct G as [G1 G2]. split; [lia | now apply IHr]. }
    repeat split; auto. constructor; [|exact ND].
    intros [E|E]; [lia|]. clear - E G2. induction q' as [|y r IHr]; [destruct E|].
    destruct G2 as [G1 G2]. destruct E as [E|E]; [lia | now apply IHr].
Qed.

Lemma path_keys g fin : (forall n m, In m (succs g n) -> find g m <> None) ->
  forall n p, find g n <> None -> Path g fin n p -> incl p (map fst g).
Proof.
  intros CL n p F H. induction H as [n Fi | n m q Hm Hq IH].
  - intros x [<-|[]]. destruct (find g n) as [nd|] eqn:E; [|congruence]. apply find_In in E.
    apply in_map_iff. now exists (n, nd).
  - intros x [<-|Hx].
    + destruct (find g n) as [nd|] eqn:E; [|congruence]. apply find_In in E. apply in_map_iff. now exists (n, nd).
    + apply IH; [now apply CL with n | exact Hx].
Qed.

Lemma lang_Lang_incr g n w :
  (forall a b, In b (succs g a) -> (a < b)%nat) -> (forall a b, In b (succs g a) -> find g b <> None) ->
  find g n <> None -> (In w (lang g n) <-> Lang g n w).
Proof.
  intros INC CL F. unfold lang, paths, Lang. rewrite in_map_iff. split.
  - intros (p & <- & Hp). apply paths_fin_Path in Hp as [Hp _]. now exists p.
  - intros (p & Hp & <-). exists p. split; [reflexivity|]. apply paths_fin_Path. split; [exact Hp|].
    destruct (path_incr g (sink g) INC n p Hp) as (q & _ & _ & ND).
    pose proof (path_keys g (sink g) CL n p F Hp) as I.
    pose proof (NoDup_incl_length ND I) as Len. now rewrite map_length in Len.
Qed.

(* ------------------------------------------------------------------ slices and build *)
Lemma skipn_skipn_nat {A} (a b : nat) (l : list A) : skipn a (skipn b l) = skipn (b + a) l.
Proof.
  revert l. induction b as [|b IH]; intros l; [reflexivity|]. destruct l as [|x l]; [now rewrite !skipn_nil|].
  cbn [skipn plus]. apply IH.
Qed.

Lemma slice_skipn (t : seq) a b : 0 <= a <= b -> slice t a b ++ skipn (Z.to_nat b) t = skipn (Z.to_nat a) t.
Proof.
  intros H. unfold slice. replace (Z.to_nat b) with (Z.to_nat a + Z.to_nat (b - a))%nat by lia.
  rewrite <- skipn_skipn_nat. apply firstn_skipn.
Qed.

Lemma firstn_split {A} : forall n k (u : list A), firstn n u ++ firstn k (skipn n u) = firstn (n + k) u.
Proof.
  induction n as [|n IH]; intros k u; [reflexivity|]. destruct u as [|x u]; [now rewrite !firstn_nil|].
  cbn [firstn skipn plus app]. now rewrite IH.
Qed.

Lemma slice_slice (t : seq) a b c : 0 <= a <= b -> b <= c -> slice t a b ++ slice t b c = slice t a c.
Proof.
  intros H1 H2. unfold slice. replace (Z.to_nat b) with (Z.to_nat a + Z.to_nat (b - a))%nat by lia.
  rewrite <- skipn_skipn_nat. rewrite firstn_split. f_equal. lia.
Qed.

Lemma slice_empty (t : seq) a : slice t a a = [].
Proof. unfold slice. now rewrite Z.sub_diag. Qed.

Lemma chain_pos_weaken : forall h p p' L, p <= p' -> chain p' h L -> chain p h L.
Proof. intros [|v h] p p' L H C; cbn [chain] in *; [lia|]. destruct C as (C1 & C2 & C3). repeat split; auto; lia. Qed.

Lemma chain_all_ge : forall h p L b, chain p h L -> In b h -> p <= v_s b.
Proof.
  induction h as [|v h IH]; intros p L b C Hb; [destruct Hb|]. cbn [chain] in C. destruct C as (C1 & C2 & C3).
  destruct Hb as [<-|Hb]; [exact C1|]. specialize (IH _ _ _ C3 Hb). lia.
Qed.

Lemma build_ref_step (t : seq) : forall h p p' L, 0 <= p <= p' -> chain p' h L ->
  slice t p p' ++ build t p' h = build t p h.
Proof.
  intros [|v h] p p' L H C; cbn [build chain] in *.
  - now apply slice_skipn.
  - destruct C as (C1 & _). rewrite app_assoc. f_equal. apply slice_slice; lia.
Qed.

(* chain from 0 = pairwise compatible (permissive), for well-formed records *)
Definition wfv (L : Z) (v : variant) : Prop := 0 <= v_s v /\ v_s v < v_e v /\ v_e v <= L.

Lemma chain_pairwise : forall h p L, chain p h L -> pairwise false h = true.
Proof.
  induction h as [|v h IH]; intros p L C; [reflexivity|]. cbn [chain] in C. destruct C as (C1 & C2 & C3).
  cbn [pairwise]. apply andb_true_iff. split; [|now apply IH with (v_e v) L].
  apply forallb_forall. intros b Hb. unfold compat. apply Z.leb_le. now apply chain_all_ge with h L.
Qed.

Lemma pairwise_chain : forall h p L, p <= L -> (forall b, In b h -> wfv L b /\ p <= v_s b) ->
  pairwise false h = true -> chain p h L.
Proof.
  induction h as [|v h IH]; intros p L HL W P; cbn [chain]; [exact HL|].
  cbn [pairwise] in P. apply andb_true_iff in P as [P1 P2]. rewrite forallb_forall in P1.
  destruct (W v (or_introl eq_refl)) as ((W1 & W2 & W3) & W4). repeat split; [lia | lia |].
  apply IH; [exact W3 | | exact P2]. intros b Hb. split; [apply W; now right|].
  specialize (P1 b Hb). unfold compat in P1. now apply Z.leb_le in P1.
Qed.

(* ------------------------------------------------------------------ masks *)
Lemma select_falses {A} : forall (a b : list A) m, select (repeat false (length a) ++ m) (a ++ b) = select m b.
Proof. induction a as [|x a IH]; intros b m; [reflexivity|]. cbn [length repeat app select]. apply IH. Qed.

Lemma ids_falses : forall n j m, ids_of_mask j (repeat false n ++ m) = ids_of_mask (j + n) m.
Proof.
  induction n as [|n IH]; intros j m; [now rewrite Nat.add_0_r|]. cbn [repeat app ids_of_mask].
  rewrite IH. f_equal. lia.
Qed.

Lemma select_all_false {A} : forall (l : list A), select (repeat false (length l)) l = [].
Proof. induction l as [|x l IH]; [reflexivity|]. cbn [length repeat select]. exact IH. Qed.
Lemma ids_all_false : forall n j, ids_of_mask j (repeat false n) = [].
Proof. induction n as [|n IH]; intros j; [reflexivity|]. cbn [repeat ids_of_mask app]. apply IH. Qed.

Lemma skipn_nth_split {A} : forall (l : list A) j0 k v, (j0 <= k)%nat -> nth_error l k = Some v ->
  skipn j0 l = firstn (k - j0) (skipn j0 l) ++ v :: skipn (S k) l /\ length (firstn (k - j0) (skipn j0 l)) = (k - j0)%nat.
Proof.
  induction l as [|x l IH]; intros j0 k v H N; [destruct k; discriminate|].
  destruct j0 as [|j0].
  - cbn [skipn]. rewrite Nat.sub_0_r. clear IH H. revert x l v N. induction k as [|k IHk]; intros x l v N.
    + cbn in N. injection N as ->. split; reflexivity.
    + cbn [nth_error] in N. destruct l as [|y l]; [destruct k; discriminate|].
      destruct (IHk y l v N) as [E1 E2]. cbn [firstn skipn app length]. split; [f_equal; exact E1 | f_equal; exact E2].
  - destruct k as [|k]; [lia|]. cbn [nth_error] in N. cbn [skipn]. replace (S k - S j0)%nat with (k - j0)%nat by lia.
    apply IH; [lia | exact N].
Qed.

Lemma skipn_cons_nth {A} : forall (l : list A) j v r, skipn j l = v :: r -> nth_error l j = Some v /\ skipn (S j) l = r.
Proof.
  induction l as [|x l IH]; intros j v r H; [rewrite skipn_nil in H; discriminate|].
  destruct j as [|j]; [cbn in H; injection H as -> ->; split; reflexivity|]. cbn [skipn nth_error] in *. now apply IH.
Qed.

(* ------------------------------------------------------------------ the next cut *)
Lemma next_bounds cs0 L p : p < L -> p < bb_next cs0 L p <= L.
Proof.
  intros H. unfold bb_next. induction cs0 as [|c cs0 IH]; cbn [fold_right]; [lia|].
  destruct ((p <? c) && (c <? fold_right _ L cs0)) eqn:E; [|exact IH].
  apply andb_true_iff in E as [E1 E2]. apply Z.ltb_lt in E1, E2. lia.
Qed.

Lemma next_min cs0 L p c : In c cs0 -> p < c -> bb_next cs0 L p <= c.
Proof.
  intros Hc Hp. unfold bb_next. induction cs0 as [|c0 cs0 IH]; [destruct Hc|]. cbn [fold_right].
  set (acc := fold_right _ L cs0) in *.
  destruct ((p <? c0) && (c0 <? acc)) eqn:E.
  - apply andb_true_iff in E as [E1 E2]. apply Z.ltb_lt in E1, E2. destruct Hc as [->|Hc]; [lia|]. specialize (IH Hc). lia.
  - destruct Hc as [->|Hc]; [|now apply IH]. apply andb_false_iff in E as [E|E].
    + apply Z.ltb_ge in E. lia.
    + apply Z.ltb_ge in E. lia.
Qed.

Lemma next_in cs0 L p : In (bb_next cs0 L p) (L :: cs0).
Proof.
  unfold bb_next. induction cs0 as [|c cs0 IH]; cbn [fold_right]; [now left|].
  destruct ((p <? c) && (c <? fold_right _ L cs0)); [right; now left|]. destruct IH as [IH|IH]; [now left | right; now right].
Qed.

Lemma starts_spec K0 : forall vs0 p j0 x,
  In x (bb_starts K0 vs0 p j0) <-> exists k v, nth_error vs0 k = Some v /\ v_s v = p /\ x = bb_idV K0 p (j0 + k).
Proof.
  induction vs0 as [|v r IH]; intros p j0 x; cbn [bb_starts].
  - split; [intros [] | intros (k & v & H & _); destruct k; discriminate].
  - rewrite in_app_iff, IH. split.
    + intros [H|(k & w & H1 & H2 & H3)].
      * destruct (v_s v =? p) eqn:E; [|destruct H]. destruct H as [<-|[]]. apply Z.eqb_eq in E.
        exists 0%nat, v. rewrite Nat.add_0_r. auto.
      * exists (S k), w. repeat split; auto. rewrite H3. f_equal. lia.
    + intros (k & w & H1 & H2 & H3). destruct k as [|k].
      * cbn in H1. injection H1 as ->. left. apply Z.eqb_eq in H2. rewrite H2. rewrite Nat.add_0_r in H3. now left.
      * right. exists k, w. repeat split; auto. rewrite H3. f_equal. lia.
Qed.

Lemma var_nodes_spec K0 L0 all : forall vs0 j0 n nd,
  In (n, nd) (bb_var_nodes K0 L0 all vs0 j0) <->
  exists k v, nth_error vs0 k = Some v /\ n = bb_idV K0 (v_s v) (j0 + k) /\
              nd = mkNode (v_alt v) [Z.of_nat (j0 + k)] (bb_out K0 L0 all (v_e v)).
Proof.
  induction vs0 as [|v r IH]; intros j0 n nd; cbn [bb_var_nodes].
  - split; [intros [] | intros (k & v & H & _); destruct k; discriminate].
  - cbn [In]. rewrite IH. split.
    + intros [H|(k & w & H1 & H2 & H3)].
      * injection H as <- <-. exists 0%nat, v. rewrite Nat.add_0_r. auto.
      * exists (S k), w. replace (j0 + S k)%nat with (S j0 + k)%nat by lia. auto.
    + intros (k & w & H1 & H2 & H3). destruct k as [|k].
      * cbn in H1. injection H1 as ->. left. rewrite Nat.add_0_r in *. now subst.
      * right. exists k, w. replace (S j0 + k)%nat with (j0 + S k)%nat by lia. auto.
Qed.

Lemma mul_add_inj (K0 a b r r' : nat) : (r < K0)%nat -> (r' < K0)%nat ->
  (a * K0 + r = b * K0 + r')%nat -> a = b /\ r = r'.
Proof.
  intros H1 H2 E. apply (Nat.div_mod_unique K0 a b r r' H1 H2). rewrite !(Nat.mul_comm K0). exact E.
Qed.

Section Bubbles.
  Variables (ref : seq) (vs : list variant).
  Let L := zlen ref.
  Let K := bb_K vs.
  Let cs := bb_cuts L vs.
  Let g := add_bubbles ref vs.
  Hypothesis WF : forall v, In v vs -> wfv L v.
  Hypothesis SORTED : forall i j vi vj, (i < j)%nat ->
    nth_error vs i = Some vi -> nth_error vs j = Some vj -> v_s vi <= v_s vj.

  Lemma L_nonneg : 0 <= L.
  Proof. subst L. rewrite zlen_len. lia. Qed.

  Lemma nth_wf j v : nth_error vs j = Some v -> wfv L v /\ (S j < K)%nat.
  Proof.
    intros H. split; [apply WF; now apply nth_error_In with j|].
    assert (j < length vs)%nat by (apply nth_error_Some; congruence). subst K. unfold bb_K. lia.
  Qed.

  Lemma cut_0 : In 0 cs. Proof. now left. Qed.
  Lemma cut_L : In L cs. Proof. right. now left. Qed.
  Lemma cut_var v : In v vs -> In (v_s v) cs /\ In (v_e v) cs.
  Proof.
    intros H. subst cs. unfold bb_cuts. split; right; right; apply in_flat_map; exists v; (split; [exact H|]);
      [now left | right; now left].
  Qed.
  Lemma cut_next p : In (bb_next cs L p) cs.
  Proof. destruct (next_in cs L p) as [<-|H]; [apply cut_L | exact H]. Qed.

  (* ---- ids ---- *)
  Lemma idR_inj p q : 0 <= p -> 0 <= q -> bb_idR K p = bb_idR K q -> p = q.
  Proof.
    intros Hp Hq E. unfold bb_idR in E. injection E as E.
    assert (K0 : (0 < K)%nat) by (subst K; unfold bb_K; lia).
    destruct (mul_add_inj K (Z.to_nat p) (Z.to_nat q) 0 0 K0 K0) as [E1 _]; [lia|]. lia.
  Qed.
  Lemma idR_idV p q j : (S j < K)%nat -> bb_idR K p <> bb_idV K q j.
  Proof.
    intros Hj E. unfold bb_idR, bb_idV in E. injection E as E.
    destruct (mul_add_inj K (Z.to_nat p) (Z.to_nat q) 0 (S j)) as [_ E2]; [lia | lia | lia | discriminate].
  Qed.
  Lemma idV_inj p q j j' : 0 <= p -> 0 <= q -> (S j < K)%nat -> (S j' < K)%nat ->
    bb_idV K p j = bb_idV K q j' -> p = q /\ j = j'.
  Proof.
    intros Hp Hq Hj Hj' E. unfold bb_idV in E. injection E as E.
    destruct (mul_add_inj K (Z.to_nat p) (Z.to_nat q) (S j) (S j') Hj Hj' E) as [E1 E2]. split; lia.
  Qed.
  Lemma id_lt p q x : 0 <= p -> p < q -> (x < K)%nat -> (S (Z.to_nat p * K + x) < S (Z.to_nat q * K))%nat.
  Proof.
    intros Hp Hq Hx. assert (S (Z.to_nat p) <= Z.to_nat q)%nat by lia.
    pose proof (Nat.mul_le_mono_r _ _ K H). cbn [Nat.mul] in H0. lia.
  Qed.

  (* ---- the entries of the graph ---- *)
  Definition root_nd : node := mkNode [] [] (bb_out K L vs 0).
  Definition ref_nd (c : Z) : node := mkNode (slice ref c (bb_next cs L c)) [] (bb_out K L vs (bb_next cs L c)).
  Definition var_nd (j : nat) (v : variant) : node := mkNode (v_alt v) [Z.of_nat j] (bb_out K L vs (v_e v)).

  Lemma entries n nd : In (n, nd) g <->
    (n = 0%nat /\ nd = root_nd) \/
    (exists c, In c cs /\ 0 <= c < L /\ n = bb_idR K c /\ nd = ref_nd c) \/
    (exists j v, nth_error vs j = Some v /\ n = bb_idV K (v_s v) j /\ nd = var_nd j v).
  Proof.
    subst g. unfold add_bubbles. fold L K cs. cbn [In]. rewrite in_app_iff, in_map_iff, var_nodes_spec. split.
    - intros [H|[(c & H1 & H2)|(k & v & H1 & H2 & H3)]].
      + injection H as <- <-. now left.
      + right. left. apply filter_In in H2 as [H2 H3]. apply andb_true_iff in H3 as [H3 H4].
        apply Z.leb_le in H3. apply Z.ltb_lt in H4. unfold bb_ref_node in H1. injection H1 as <- <-. exists c. auto.
      + right. right. exists k, v. cbn [plus] in *. auto.
    - intros [[-> ->]|[(c & H1 & H2 & -> & ->)|(j & v & H1 & -> & ->)]].
      + now left.
      + right. left. exists c. split; [reflexivity|]. apply filter_In. split; [exact H1|].
        apply andb_true_iff. split; [apply Z.leb_le | apply Z.ltb_lt]; lia.
      + right. right. exists j, v. cbn [plus]. auto.
  Qed.

  Lemma find_root : find g 0 = Some root_nd.
  Proof. reflexivity. Qed.

  Lemma find_ref c : In c cs -> 0 <= c < L -> find g (bb_idR K c) = Some (ref_nd c).
  Proof.
    intros H1 H2. assert (I : In (bb_idR K c, ref_nd c) g) by (apply entries; right; left; exists c; auto).
    destruct (In_find g _ _ I) as (nd' & F & I'). rewrite F. f_equal.
    apply entries in I' as [[E _]|[(c' & _ & H3 & E & ->)|(j & v & H3 & E & _)]].
    - discriminate.
    - apply idR_inj in E; [now subst | lia | lia].
    - exfalso. apply (idR_idV c (v_s v) j); [apply (nth_wf j v H3) | exact E].
  Qed.

  Lemma find_var j v : nth_error vs j = Some v -> find g (bb_idV K (v_s v) j) = Some (var_nd j v).
  Proof.
    intros H. destruct (nth_wf j v H) as [(W1 & W2 & W3) Hj].
    assert (I : In (bb_idV K (v_s v) j, var_nd j v) g) by (apply entries; right; right; exists j, v; auto).
    destruct (In_find g _ _ I) as (nd' & F & I'). rewrite F. f_equal.
    apply entries in I' as [[E _]|[(c' & _ & H3 & E & _)|(j' & v' & H3 & E & ->)]].
    - discriminate.
    - exfalso. apply (idR_idV c' (v_s v) j Hj). now symmetry.
    - destruct (nth_wf j' v' H3) as [(W1' & _) Hj'].
      apply idV_inj in E as [_ E]; auto. subst j'. rewrite H in H3. now injection H3 as ->.
  Qed.

  Lemma out_spec p x : In x (bb_out K L vs p) <->
    (p < L /\ x = bb_idR K p) \/ (exists j v, nth_error vs j = Some v /\ v_s v = p /\ x = bb_idV K p j).
  Proof.
    unfold bb_out. rewrite in_app_iff, starts_spec. cbn [plus]. split.
    - intros [H|H]; [|now right]. destruct (p <? L) eqn:E; [|destruct H]. apply Z.ltb_lt in E.
      destruct H as [<-|[]]. now left.
    - intros [[H ->]|H]; [|now right]. left. apply Z.ltb_lt in H. rewrite H. now left.
  Qed.

  Lemma out_L : bb_out K L vs L = [].
  Proof.
    destruct (bb_out K L vs L) as [|x r] eqn:E; [reflexivity|].
    assert (I : In x (bb_out K L vs L)) by (rewrite E; now left).
    apply out_spec in I as [[H _]|(j & v & H1 & H2 & _)]; [lia|].
    destruct (nth_wf j v H1) as [(W1 & W2 & W3) _]. lia.
  Qed.

  (* ---- edges go to larger ids, and to nodes of the graph ---- *)
  Lemma out_members q m : In q cs -> 0 <= q -> In m (bb_out K L vs q) ->
    find g m <> None /\ (S (Z.to_nat q * K) <= m)%nat.
  Proof.
    intros Hc Hq Hm. apply out_spec in Hm as [[H ->]|(j & v & H1 & H2 & ->)].
    - split; [rewrite find_ref by (auto; lia); discriminate | unfold bb_idR; lia].
    - split; [rewrite <- H2; rewrite (find_var j v H1); discriminate | unfold bb_idV; lia].
  Qed.

  Lemma edge_ok n m : In m (succs g n) -> (n < m)%nat /\ find g m <> None.
  Proof.
    unfold succs. destruct (find g n) as [nd|] eqn:F; [|intros []]. intros Hm. apply find_In in F.
    apply entries in F as [[-> ->]|[(c & H1 & H2 & -> & ->)|(j & v & H1 & -> & ->)]]; cbn [n_succ] in Hm.
    - destruct (out_members 0 m cut_0 ltac:(lia) Hm) as [A B]. split; [lia | exact A].
    - pose proof (next_bounds cs L c ltac:(lia)) as NB.
      destruct (out_members _ m (cut_next c) ltac:(lia) Hm) as [A B]. split; [|exact A].
      pose proof (id_lt c (bb_next cs L c) 0 ltac:(lia) ltac:(lia) ltac:(unfold K, bb_K; lia)).
      unfold bb_idR. lia.
    - destruct (nth_wf j v H1) as [(W1 & W2 & W3) Hj].
      destruct (out_members _ m (proj2 (cut_var v (nth_error_In _ _ H1))) ltac:(lia) Hm) as [A B]. split; [|exact A].
      pose proof (id_lt (v_s v) (v_e v) (S j) W1 W2 Hj). unfold bb_idV. lia.
  Qed.

  (* ---- the language of a junction ---- *)
  Definition PF (q : Z) (rest : list nat) : Prop :=
    (bb_out K L vs q = [] /\ rest = []) \/ exists x, In x (bb_out K L vs q) /\ Path g (sink g) x rest.
  Definition JL (q : Z) (w : seq * list Z) : Prop := exists rest, PF q rest /\ word g rest = w.

  Lemma word_cons x r : word g (x :: r) = (lab g x ++ fst (word g r), vids g x ++ snd (word g r)).
  Proof. reflexivity. Qed.

  (* a node with label l, ids v, leading to junction q: its paths are itself followed by a junction path *)
  Lemma node_paths X l v q path : find g X = Some (mkNode l v (bb_out K L vs q)) ->
    (Path g (sink g) X path <-> exists rest, path = X :: rest /\ PF q rest).
  Proof.
    intros F. rewrite path_unfold. unfold succs. rewrite F. cbn [n_succ]. reflexivity.
  Qed.
  Lemma node_word X l v q rest : find g X = Some (mkNode l v (bb_out K L vs q)) ->
    word g (X :: rest) = (l ++ fst (word g rest), v ++ snd (word g rest)).
  Proof. intros F. rewrite word_cons. unfold lab, vids. now rewrite F. Qed.

  (* ---- soundness: every junction word is a chain of records applied to the reference ---- *)
  Lemma fwd : forall d p j0 w, (Z.to_nat (L - p) <= d)%nat -> In p cs -> 0 <= p <= L ->
    (forall j v, (j < j0)%nat -> nth_error vs j = Some v -> v_s v < p) -> JL p w ->
    exists m, length m = length (skipn j0 vs) /\ chain p (select m (skipn j0 vs)) L /\
              w = (build ref p (select m (skipn j0 vs)), ids_of_mask j0 m).
  Proof.
    induction d as [d IH] using lt_wf_ind. intros p j0 w Hd Hc Hp Inv (rest & PFr & <-).
    destruct PFr as [[E ->]|(x & Hx & Px)].
    - (* the end of the reference *)
      assert (p = L).
      { destruct (Z.eq_dec p L) as [e|ne]; [exact e|]. exfalso.
        assert (I : In (bb_idR K p) (bb_out K L vs p)) by (apply out_spec; left; split; [lia | reflexivity]).
        rewrite E in I. destruct I. }
      subst p. exists (repeat false (length (skipn j0 vs))). rewrite repeat_length, select_all_false, ids_all_false.
      cbn [chain build]. repeat split; [lia|]. unfold word. cbn [flat_map]. f_equal.
      unfold L. rewrite zlen_len, Nat2Z.id. now rewrite skipn_all.
    - apply out_spec in Hx as [[Hlt ->]|(j & v & H1 & H2 & ->)].
      + (* reference node *)
        pose proof (next_bounds cs L p Hlt) as NB. pose proof (cut_next p) as CN.
        pose proof (find_ref p Hc ltac:(lia)) as F. unfold ref_nd in F.
        remember (bb_next cs L p) as p' eqn:Ep'.
        destruct (proj1 (node_paths _ _ _ _ rest F) Px) as (rest' & Er & PF'). rewrite Er.
        rewrite (node_word _ _ _ _ _ F). cbn [app].
        destruct (IH (Z.to_nat (L - p')) ltac:(lia) p' j0 (word g rest') (le_n _) CN ltac:(lia)) as (m & M1 & M2 & M3).
        { intros j v Hj Hn. specialize (Inv j v Hj Hn). lia. }
        { now exists rest'. }
        exists m. split; [exact M1|]. split; [apply chain_pos_weaken with p'; [lia | exact M2]|].
        rewrite M3. cbn [fst snd]. f_equal. apply build_ref_step with L; [lia | exact M2].
      + (* record node *)
        destruct (nth_wf j v H1) as [(W1 & W2 & W3) Hj]. subst p.
        assert (Hj0 : (j0 <= j)%nat).
        { destruct (le_lt_dec j0 j) as [a|a]; [exact a|]. specialize (Inv j v a H1). lia. }
        pose proof (find_var j v H1) as F. unfold var_nd in F.
        destruct (proj1 (node_paths _ _ _ _ rest F) Px) as (rest' & Er & PF'). rewrite Er.
        rewrite (node_word _ _ _ _ _ F).
        destruct (IH (Z.to_nat (L - v_e v)) ltac:(lia) (v_e v) (S j) (word g rest') (le_n _)
                     (proj2 (cut_var v (nth_error_In _ _ H1))) ltac:(lia)) as (m' & M1 & M2 & M3).
        { intros j' v' Hj' Hn. destruct (Nat.eq_dec j' j) as [->|ne].
          - rewrite H1 in Hn. injection Hn as <-. exact W2.
          - pose proof (SORTED j' j v' v ltac:(lia) Hn H1). lia. }
        { now exists rest'. }
        destruct (skipn_nth_split vs j0 j v Hj0 H1) as [E1 E2].
        exists (repeat false (j - j0) ++ true :: m').
        assert (SEL : select (repeat false (j - j0) ++ true :: m') (skipn j0 vs) = v :: select m' (skipn (S j) vs)).
        { rewrite E1. rewrite <- E2 at 1. rewrite select_falses. reflexivity. }
        rewrite SEL. split; [|split].
        * transitivity (length (firstn (j - j0) (skipn j0 vs) ++ v :: skipn (S j) vs)); [|now rewrite <- E1].
          rewrite !app_length, repeat_length, E2. cbn [length]. now rewrite M1.
        * cbn [chain]. repeat split; [lia | lia | exact M2].
        * rewrite M3. cbn [fst snd build]. rewrite slice_empty. cbn [app]. f_equal.
          rewrite ids_falses. replace (j0 + (j - j0))%nat with j by lia. reflexivity.
  Qed.

  (* ---- completeness: every chain has a junction path ---- *)
  Lemma ref_step p h ids : p < L -> In p cs -> 0 <= p ->
    chain (bb_next cs L p) h L -> JL (bb_next cs L p) (build ref (bb_next cs L p) h, ids) ->
    JL p (build ref p h, ids).
  Proof.
    intros Hlt Hc Hp C (rest' & PF' & W). pose proof (next_bounds cs L p Hlt) as NB.
    pose proof (find_ref p Hc ltac:(lia)) as F. unfold ref_nd in F.
    exists (bb_idR K p :: rest'). split.
    - right. exists (bb_idR K p). split; [apply out_spec; left; split; [exact Hlt | reflexivity]|].
      apply (node_paths _ _ _ _ _ F). now exists rest'.
    - rewrite (node_word _ _ _ _ _ F), W. cbn [fst snd app]. f_equal. apply build_ref_step with L; [lia | exact C].
  Qed.

  Lemma var_step j v s' ids' : nth_error vs j = Some v -> JL (v_e v) (s', ids') ->
    JL (v_s v) (v_alt v ++ s', Z.of_nat j :: ids').
  Proof.
    intros H (rest' & PF' & W). pose proof (find_var j v H) as F. unfold var_nd in F.
    exists (bb_idV K (v_s v) j :: rest'). split.
    - right. exists (bb_idV K (v_s v) j). split; [apply out_spec; right; exists j, v; auto|].
      apply (node_paths _ _ _ _ _ F). now exists rest'.
    - rewrite (node_word _ _ _ _ _ F), W. reflexivity.
  Qed.

  Lemma bwd : forall d p, (Z.to_nat (L - p) <= d)%nat -> In p cs -> 0 <= p <= L ->
    forall suf j0 m, skipn j0 vs = suf -> length m = length suf -> chain p (select m suf) L ->
    JL p (build ref p (select m suf), ids_of_mask j0 m).
  Proof.
    induction d as [d IH] using lt_wf_ind. intros p Hd Hc Hp.
    induction suf as [|v suf' IHs]; intros j0 m Hs Hm C.
    - destruct m; [|discriminate]. cbn [select build ids_of_mask] in *.
      destruct (Z.eq_dec p L) as [->|ne].
      + exists []. split; [left; split; [apply out_L | reflexivity]|]. unfold word. cbn [flat_map]. f_equal.
        unfold L. rewrite zlen_len, Nat2Z.id. now rewrite skipn_all.
      + pose proof (next_bounds cs L p ltac:(lia)) as NB.
        apply (ref_step p [] []); [lia | exact Hc | lia | cbn [chain]; lia |].
        apply (IH (Z.to_nat (L - bb_next cs L p)) ltac:(lia) _ (le_n _) (cut_next p) ltac:(lia) [] j0 []); auto.
        cbn [select chain]. lia.
    - destruct m as [|b m']; [discriminate|]. destruct (skipn_cons_nth _ _ _ _ Hs) as [Hn Hs'].
      destruct b; cbn [select ids_of_mask app] in *.
      + (* record j0 is taken *)
        destruct C as (C1 & C2 & C3). destruct (nth_wf j0 v Hn) as [(W1 & W2 & W3) Hj].
        destruct (Z.eq_dec p (v_s v)) as [->|ne].
        * cbn [build]. rewrite slice_empty. cbn [app]. apply var_step; [exact Hn|].
          apply (IH (Z.to_nat (L - v_e v)) ltac:(lia) _ (le_n _) (proj2 (cut_var v (nth_error_In _ _ Hn))) ltac:(lia)
                    suf' (S j0) m'); auto.
        * pose proof (next_bounds cs L p ltac:(lia)) as NB.
          pose proof (next_min cs L p (v_s v) (proj1 (cut_var v (nth_error_In _ _ Hn))) ltac:(lia)) as NM.
          apply (ref_step p (v :: select m' suf') (Z.of_nat j0 :: ids_of_mask (S j0) m')); [lia | exact Hc | lia | |].
          { cbn [chain]. repeat split; [lia | lia | exact C3]. }
          apply (IH (Z.to_nat (L - bb_next cs L p)) ltac:(lia) _ (le_n _) (cut_next p) ltac:(lia)
                    (v :: suf') j0 (true :: m') Hs Hm).
          cbn [select chain]. repeat split; [lia | lia | exact C3].
      + apply (IHs (S j0) m' Hs'); [now injection Hm | exact C].
  Qed.

  Lemma select_In {A} : forall (m : list bool) (l : list A) x, In x (select m l) -> In x l.
  Proof.
    induction m as [|b m IH]; intros l x H; [destruct H|]. destruct l as [|y l]; [destruct H|]. cbn [select] in H.
    destruct b; [destruct H as [<-|H]; [now left | right; now apply IH] | right; now apply IH].
  Qed.

  (* ---- the language of the bubble graph ---- *)
  Lemma bubbles_Lang w : Lang g 0 w <->
    exists m, length m = length vs /\ pairwise false (select m vs) = true /\
              w = (apply_hap ref (select m vs), ids_of_mask 0 m).
  Proof.
    pose proof L_nonneg as LN. pose proof find_root as FR. unfold root_nd in FR. split.
    - intros (p & Hp & <-). destruct (proj1 (node_paths _ _ _ _ p FR) Hp) as (rest & Er & PF0). rewrite Er.
      rewrite (node_word _ _ _ _ _ FR). cbn [app].
      destruct (fwd (Z.to_nat L) 0 0%nat (word g rest)) as (m & M1 & M2 & M3).
      + rewrite Z.sub_0_r. lia.
      + exact cut_0.
      + lia.
      + intros j v Hj. lia.
      + now exists rest.
      + cbn [skipn] in *. exists m. split; [exact M1|]. split; [now apply chain_pairwise with 0 L|].
        destruct (word g rest). cbn [fst snd]. exact M3.
    - intros (m & M1 & M2 & ->). assert (C : chain 0 (select m vs) L).
      { apply pairwise_chain; [lia | | exact M2]. intros b Hb. apply select_In in Hb.
        split; [now apply WF | apply (WF b Hb)]. }
      destruct (bwd (Z.to_nat L) 0 ltac:(lia) cut_0 ltac:(lia) vs 0%nat m eq_refl M1 C) as (rest & PF0 & W).
      exists (0%nat :: rest). split; [apply (node_paths _ _ _ _ _ FR); now exists rest|].
      rewrite (node_word _ _ _ _ _ FR), W. reflexivity.
  Qed.

  Lemma bubbles_lang w : In w (lang g 0) <->
    exists m, length m = length vs /\ pairwise false (select m vs) = true /\
              w = (apply_hap ref (select m vs), ids_of_mask 0 m).
  Proof.
    rewrite <- bubbles_Lang. apply lang_Lang_incr.
    - intros a b H. apply (edge_ok a b H).
    - intros a b H. apply (edge_ok a b H).
    - rewrite find_root. discriminate.
  Qed.
End Bubbles.

(* ------------------------------------------------------------------ the boolean side conditions *)
Lemma bb_wf_spec ref vs : bb_wf ref vs = true -> forall v, In v vs -> wfv (zlen ref) v.
Proof.
  unfold bb_wf. rewrite forallb_forall. intros H v Hv. specialize (H v Hv).
  apply andb_true_iff in H as [H H3]. apply andb_true_iff in H as [H1 H2].
  apply Z.leb_le in H1, H3. apply Z.ltb_lt in H2. unfold wfv. lia.
Qed.

Lemma bb_sorted_head : forall r a, bb_sorted (a :: r) = true -> forall b, In b r -> v_s a <= v_s b.
Proof.
  induction r as [|c r IH]; intros a H b Hb; [destruct Hb|]. cbn [bb_sorted] in H.
  apply andb_true_iff in H as [H1 H2]. apply Z.leb_le in H1. destruct Hb as [<-|Hb]; [exact H1|].
  specialize (IH c H2 b Hb). lia.
Qed.

Lemma bb_sorted_tail a r : bb_sorted (a :: r) = true -> bb_sorted r = true.
Proof. destruct r as [|c r]; [reflexivity|]. cbn [bb_sorted]. intros H. now apply andb_true_iff in H as [_ H]. Qed.

Lemma bb_sorted_spec : forall vs, bb_sorted vs = true -> forall i j vi vj, (i < j)%nat ->
  nth_error vs i = Some vi -> nth_error vs j = Some vj -> v_s vi <= v_s vj.
Proof.
  induction vs as [|a r IH]; intros H i j vi vj Hij Hi Hj; [destruct i; discriminate|].
  destruct j as [|j]; [lia|]. cbn [nth_error] in Hj. destruct i as [|i].
  - cbn in Hi. injection Hi as <-. apply (bb_sorted_head r a H). now apply nth_error_In with j.
  - cbn [nth_error] in Hi. apply (IH (bb_sorted_tail a r H) i j); auto. lia.
Qed.

(* MAIN THEOREM.  For every reference and every well-formed record list sorted by start, the language of the bubble
   graph is exactly { (apply_hap ref H, indices of H) : H a pairwise compatible sub-list of vs } (incl. H = []) *)
Lemma add_bubbles_lang_lemma ref vs : bb_wf ref vs = true -> bb_sorted vs = true ->
  forall w, In w (lang (add_bubbles ref vs) 0) <->
    exists m, length m = length vs /\ pairwise false (select m vs) = true /\
              w = (apply_hap ref (select m vs), ids_of_mask 0 m).
Proof.
  intros W S w. apply bubbles_lang; [exact (bb_wf_spec ref vs W) | exact (bb_sorted_spec vs S)].
Qed.

Lemma add_bubbles_spec_lemma ref vs : bb_wf ref vs = true -> bb_sorted vs = true ->
  forall w, In w (lang (add_bubbles ref vs) 0) <-> In w (bubble_spec ref vs).
Proof.
  intros W S w. rewrite (add_bubbles_lang_lemma ref vs W S). unfold bubble_spec. rewrite in_map_iff. split.
  - intros (m & M1 & M2 & ->). exists m. split; [reflexivity|]. apply filter_In. split; [now apply masks_spec | exact M2].
  - intros (m & <- & Hm). apply filter_In in Hm as [M1 M2]. apply masks_spec in M1. exists m. auto.
Qed.

(* completeness half in terms of Spec.haplotypes (strict or permissive), plus the reference itself *)
Lemma add_bubbles_complete_lemma ref vs : bb_wf ref vs = true -> bb_sorted vs = true ->
  In (ref, []) (lang (add_bubbles ref vs) 0) /\
  forall strict h, In h (haplotypes strict vs) ->
    exists m, h = select m vs /\ In (apply_hap ref h, ids_of_mask 0 m) (lang (add_bubbles ref vs) 0).
Proof.
  intros W S. split.
  - apply (add_bubbles_lang_lemma ref vs W S). exists (repeat false (length vs)).
    rewrite repeat_length, select_all_false, ids_all_false. repeat split.
  - intros strict h Hh. apply haplotypes_spec in Hh as (m & M1 & -> & _ & M4). exists m. split; [reflexivity|].
    apply (add_bubbles_lang_lemma ref vs W S). exists m. repeat split; [exact M1|].
    destruct strict; [now apply pairwise_weaken | exact M4].
Qed.

(* ------------------------------------------------------------------ walking the graph along a string *)
Lemma strip_spec : forall l s r, strip l s = Some r <-> s = l ++ r.
Proof.
  induction l as [|a l IH]; intros s r; cbn [strip app].
  - split; [intros H; now injection H | intros ->; reflexivity].
  - destruct s as [|b s]; [split; discriminate|]. destruct (a =? b) eqn:E.
    + apply Z.eqb_eq in E. subst b. rewrite IH. split; [intros ->; reflexivity | intros H; now injection H].
    + apply Z.eqb_neq in E. split; [discriminate | intros H; injection H as H _; congruence].
Qed.

Lemma accepts_paths g : forall fuel n s,
  accepts g fuel n s = true <-> exists p, In p (paths_fin g (sink g) fuel n) /\ flat_map (lab g) p = s.
Proof.
  induction fuel as [|f IH]; intros n s.
  - cbn. split; [discriminate | intros (p & [] & _)].
  - cbn [accepts paths_fin]. unfold sink.
    destruct (strip (lab g n) s) as [rest|] eqn:E.
    + apply strip_spec in E. subst s. destruct (succs g n) as [|m0 ss] eqn:S; cbn [is_nil].
      * cbn [flat_map map app]. split.
        -- intros H. destruct rest; [|discriminate]. exists [n]. split; [now left|]. cbn [flat_map]. reflexivity.
        -- intros (p & [<-|[]] & Hp). cbn [flat_map] in Hp. rewrite app_nil_r in Hp.
           apply (f_equal (@length Z)) in Hp. rewrite app_length in Hp. destruct rest; [reflexivity | cbn in Hp; lia].
      * cbn [app]. rewrite existsb_exists. split.
        -- intros (m & Hm & A). apply IH in A as (q & Hq & <-). exists (n :: q). split; [|reflexivity].
           apply in_map. apply in_flat_map. now exists m.
        -- intros (p & Hp & Hs). apply in_map_iff in Hp as (q & <- & Hq).
           apply in_flat_map in Hq as (m & Hm & Hq). exists m. split; [exact Hm|]. apply IH.
           cbn [flat_map] in Hs. apply app_inv_head in Hs. now exists q.
    + split; [discriminate|]. intros (p & Hp & Hs). exfalso. apply in_app_or in Hp as [Hp|Hp].
      * destruct (is_nil (succs g n)); [|destruct Hp]. destruct Hp as [<-|[]]. cbn [flat_map] in Hs.
        assert (strip (lab g n) s = Some []) by (apply strip_spec; now rewrite <- Hs). congruence.
      * apply in_map_iff in Hp as (q & <- & _). cbn [flat_map] in Hs.
        assert (strip (lab g n) s = Some (flat_map (lab g) q)) by (apply strip_spec; now rewrite <- Hs). congruence.
Qed.

Lemma accepts_spec g fuel n s :
  accepts g fuel n s = true <-> In s (strings (lang_fin g (sink g) fuel n)).
Proof.
  rewrite accepts_paths. unfold strings, lang_fin. rewrite map_map, in_map_iff. unfold word. cbn [fst].
  split; intros (p & H1 & H2); exists p; auto.
Qed.

(* for the bubble graph: a string is accepted iff it is a haplotype sequence *)
Lemma accepts_bubbles_lemma ref vs s : bb_wf ref vs = true -> bb_sorted vs = true ->
  (accepts (add_bubbles ref vs) (length (add_bubbles ref vs)) 0 s = true <->
   exists m, length m = length vs /\ pairwise false (select m vs) = true /\ s = apply_hap ref (select m vs)).
Proof.
  intros W S. rewrite accepts_spec. fold (paths (add_bubbles ref vs) 0).
  change (map (word (add_bubbles ref vs)) (paths (add_bubbles ref vs) 0)) with (lang (add_bubbles ref vs) 0).
  unfold strings. rewrite in_map_iff. split.
  - intros (w & <- & Hw). apply (add_bubbles_lang_lemma ref vs W S) in Hw as (m & M1 & M2 & ->). exists m. auto.
  - intros (m & M1 & M2 & ->). exists (apply_hap ref (select m vs), ids_of_mask 0 m). split; [reflexivity|].
    apply (add_bubbles_lang_lemma ref vs W S). exists m. auto.
Qed.
