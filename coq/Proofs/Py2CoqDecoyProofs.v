(* Equality of DecoyFasta.find_fixed_indices / reverse_sequence / shuffle_sequence, as GENERATED from /repo's
   source by harness/translate/py2coq.py (coq/Gen/Py_decoy_fasta.v), with Model/Decoy.v.  docs/py2coq.md. *)
From Coq Require Import ZArith List Bool Lia ZifyBool Permutation.
From MoPep Require Import Model.Base Model.PyRt Model.Rule Model.Digest Model.Decoy Gen.Py_decoy_fasta.
Import ListNotations.
Open Scope Z_scope.

Ltac pd_if :=
  match goal with
  | |- context [if ?b then _ else _] => let C := fresh "C" in destruct b eqn:C
  end.

(* ------------------------------------------------------------------ find_fixed_indices *)
Lemma code_find_fixed_indices_is_model_l : forall cfg s,
  py_find_fixed_indices cfg s = find_fixed_indices cfg s.
Proof.
  intros cfg s.
  (* the enumerate scan: i counts the positions already visited, l = seq[i:] *)
  assert (L : forall (l : list Z) (i : nat) acc, (i + length l = length s)%nat ->
    py_find_fixed_indices_loop1 cfg s l (Z.of_nat i) acc = Continue (acc ++ scan_fixed cfg (length s) i l)).
  { induction l as [|c l IH]; intros i acc E.
    - cbn [py_find_fixed_indices_loop1 scan_fixed]. rewrite app_nil_r. reflexivity.
    - cbn [py_find_fixed_indices_loop1 scan_fixed length] in *. cbv zeta.
      destruct (c_nterm cfg); destruct (c_cterm cfg); destruct (mem_seq [c] (c_pattern cfg));
        rewrite ?andb_true_r, ?andb_false_r; repeat pd_if; try lia;
        (match goal with |- context [py_find_fixed_indices_loop1 cfg s l ?j ?a] =>
           replace j with (Z.of_nat (S i)) by lia end;
         rewrite IH by lia; rewrite ?Nat2Z.id, <- ?app_assoc; reflexivity). }
  unfold py_find_fixed_indices, find_fixed_indices. cbv zeta.
  change 0 with (Z.of_nat 0). rewrite L by reflexivity. reflexivity.
Qed.

(* ------------------------------------------------------------------ the offset-walking while loop *)
Definition nfree (fixed : list nat) (p n : nat) : nat :=
  length (filter (fun i => negb (mem_nat i fixed)) (List.seq p (n - p))).

Lemma seq_step : forall p n, (p < n)%nat -> List.seq p (n - p) = p :: List.seq (S p) (n - S p).
Proof. intros p n H. replace (n - p)%nat with (S (n - S p)) by lia. reflexivity. Qed.

Lemma nfree_pos : forall fixed p n, (1 <= nfree fixed p n)%nat -> (p < n)%nat.
Proof.
  intros fixed p n H. destruct (Nat.ltb p n) eqn:E; [apply Nat.ltb_lt; exact E|].
  apply Nat.ltb_ge in E. unfold nfree in H. replace (n - p)%nat with 0%nat in H by lia. cbn in H. lia.
Qed.

Lemma nfree_fixed : forall fixed p n, (p < n)%nat -> mem_nat p fixed = true ->
  nfree fixed (S p) n = nfree fixed p n.
Proof. intros fixed p n H M. unfold nfree. rewrite (seq_step p n H). cbn [filter]. rewrite M. reflexivity. Qed.

Lemma nfree_free : forall fixed p n, (p < n)%nat -> mem_nat p fixed = false ->
  S (nfree fixed (S p) n) = nfree fixed p n.
Proof. intros fixed p n H M. unfold nfree. rewrite (seq_step p n H). cbn [filter]. rewrite M. reflexivity. Qed.

Lemma skipn_nth_cons' : forall A (l : list A) n b,
  nth_error l n = Some b -> skipn n l = b :: skipn (S n) l.
Proof.
  induction l as [|x t IH]; intros [|n] b H; cbn in *; try discriminate.
  - inversion H. reflexivity.
  - apply IH. exact H.
Qed.

Lemma nth_error_in_range' : forall A (l : list A) n, (n < length l)%nat -> exists b, nth_error l n = Some b.
Proof.
  intros A l n H. destruct (nth_error l n) eqn:E; [eauto|]. apply nth_error_None in E. lia.
Qed.

Lemma py_index_nonneg' : forall A (l : list A) i, 0 <= i -> py_index l i = nth_error l (Z.to_nat i).
Proof. intros A l i H. unfold py_index. destruct (i <? 0) eqn:C; [lia | reflexivity]. Qed.

Lemma walk_nil_idx : forall fixed src p rest, walk fixed src p rest [] = rest.
Proof. intros. destruct rest; reflexivity. Qed.

(* what the statement after the loop appends *)
Lemma tail_copy : forall (s out : list Z),
  (if Z.of_nat (length out) <? Z.of_nat (length s)
   then out ++ py_slice_from s (Z.of_nat (length out) - Z.of_nat (length s)) else out)
  = out ++ skipn (length out) s.
Proof.
  intros s out. destruct (Z.of_nat (length out) <? Z.of_nat (length s)) eqn:C.
  - unfold py_slice_from. destruct (_ <? 0) eqn:D; [|lia]. f_equal. f_equal. lia.
  - rewrite skipn_all2 by lia. rewrite app_nil_r. reflexivity.
Qed.

(* The loop specification, shared by the two generated loops (LOOP is the generated Fixpoint applied to its
   closure; the proof script is repeated verbatim for each loop: Ltac cannot abstract over hypothesis names).  State: out = the residues emitted so far, |out| = p = i + offset. *)
Definition walk_spec (s : list Z) (fixed idx : list nat)
  (LOOP : nat -> list Z -> Z -> Z -> lres (list Z * Z * Z) (pyres (list Z))) : Prop :=
  Forall (fun j => (j < length s)%nat) idx ->
  forall fuel out offset i,
    0 <= i -> 0 <= offset -> Z.of_nat (length out) = i + offset ->
    (length (skipn (Z.to_nat i) idx) <= nfree fixed (length out) (length s))%nat ->
    (length s - length out + length (skipn (Z.to_nat i) idx) < fuel)%nat ->
    exists out' off' i', LOOP fuel out offset i = Continue (out', off', i') /\
      out' ++ skipn (length out') s
      = out ++ walk fixed s (length out) (skipn (length out) s) (skipn (Z.to_nat i) idx).

Lemma free_indices_lt : forall fixed n, Forall (fun j => (j < n)%nat) (free_indices fixed n).
Proof.
  intros fixed n. apply Forall_forall. intros j H. unfold free_indices in H.
  apply filter_In in H as [H _]. apply in_seq in H. lia.
Qed.

Lemma free_indices_nfree : forall fixed n, length (free_indices fixed n) = nfree fixed 0 n.
Proof. intros. unfold free_indices, nfree. rewrite Nat.sub_0_r. reflexivity. Qed.

(* ------------------------------------------------------------------ reverse_sequence *)
Lemma code_reverse_sequence_is_model_l : forall s fixed,
  py_reverse_sequence s fixed = POk (reverse_sequence s fixed).
Proof.
  intros s fixed.
  set (idx := rev (free_indices fixed (length s))).
  assert (W : walk_spec s fixed idx (py_reverse_sequence_loop1 s fixed idx)).
  { unfold walk_spec. intros FA. induction fuel as [|fuel IH]; intros out offset i I0 O0 LEN NF FU; [lia|].
    cbn [py_reverse_sequence_loop1]. cbv zeta.
    match goal with |- context [if ?c then _ else _] => destruct c eqn:C end.
    - (* i < len(indices): idx[i] exists, and so does a free position >= p, hence p < len(seq) *)
      destruct (nth_error_in_range' _ idx (Z.to_nat i) ltac:(lia)) as [j NJ].
      pose proof (skipn_nth_cons' _ _ _ _ NJ) as SK. rewrite SK in NF, FU |- *. cbn [length] in NF, FU.
      pose proof (nfree_pos fixed (length out) (length s) ltac:(lia)) as PLT.
      destruct (nth_error_in_range' _ s (length out) PLT) as [c NC].
      pose proof (skipn_nth_cons' _ _ _ _ NC) as SKS. rewrite SKS.
      cbn [walk].
      match goal with |- context [if ?c then _ else _] => destruct c eqn:CF end.
      + (* the position is fixed: copy seq[p] *)
        replace (mem_nat (length out) fixed) with true
          by (symmetry; replace (length out) with (Z.to_nat (i + offset)) by lia; lia).
        rewrite py_index_nonneg' by lia. replace (Z.to_nat (i + offset)) with (length out) by lia. rewrite NC.
        match goal with |- exists _ _ _, py_reverse_sequence_loop1 _ _ _ ?f ?o ?off ?ii = _ /\ _ =>
          destruct (IH o off ii) as (o' & f' & i' & E1 & E2) end.
        * lia.
        * lia.
        * rewrite app_length; cbn [length]; lia.
        * rewrite app_length; cbn [length]. replace (length out + 1)%nat with (S (length out)) by lia.
          rewrite nfree_fixed; [rewrite SK; cbn [length]; lia | lia |].
          replace (length out) with (Z.to_nat (i + offset)) by lia. lia.
        * rewrite app_length; cbn [length]; rewrite SK; cbn [length]; lia.
        * exists o', f', i'. split; [exact E1|].
          rewrite E2, app_length; cbn [length].
          replace (length out + 1)%nat with (S (length out)) by lia.
          rewrite SK, <- app_assoc. reflexivity.
      + (* free position: emit seq[idx[i]] *)
        assert (MF : mem_nat (length out) fixed = false)
          by (replace (length out) with (Z.to_nat (i + offset)) by lia; lia).
        rewrite MF.
        rewrite py_index_nonneg' by lia. rewrite NJ. cbv beta iota.
        rewrite py_index_nonneg' by lia. rewrite Nat2Z.id.
        assert (JL : (j < length s)%nat)
          by (rewrite Forall_forall in FA; apply FA; eapply nth_error_In; exact NJ).
        destruct (nth_error_in_range' _ s j JL) as [cj NCJ]. rewrite NCJ.
        assert (GJ : get s j = cj) by (unfold get; apply nth_error_nth; exact NCJ).
        match goal with |- exists _ _ _, py_reverse_sequence_loop1 _ _ _ ?f ?o ?off ?ii = _ /\ _ =>
          destruct (IH o off ii) as (o' & f' & i' & E1 & E2);
            [ | | | | | exists o', f', i'; split; [exact E1|]; rewrite E2;
                        replace (Z.to_nat ii) with (S (Z.to_nat i)) by lia ];
            try (replace (Z.to_nat ii) with (S (Z.to_nat i)) by lia) end.
        * lia.
        * lia.
        * rewrite app_length; cbn [length]; lia.
        * rewrite app_length; cbn [length]. replace (length out + 1)%nat with (S (length out)) by lia.
          pose proof (nfree_free fixed (length out) (length s) PLT MF). lia.
        * rewrite app_length; cbn [length]. lia.
        * rewrite app_length; cbn [length].
          replace (length out + 1)%nat with (S (length out)) by lia.
          rewrite GJ, <- app_assoc. reflexivity.
    - (* loop ends: no index left *)
      exists out, offset, i. split; [reflexivity|].
      rewrite (skipn_all2 idx) by lia. rewrite walk_nil_idx. reflexivity. }
  assert (FA : Forall (fun j => (j < length s)%nat) idx)
    by (apply Forall_rev, free_indices_lt).
  unfold py_reverse_sequence, reverse_sequence. cbv zeta. fold idx.
  match goal with |- context [py_reverse_sequence_loop1 s fixed idx ?f ?o ?off ?i] =>
    destruct (W FA f o off i) as (o' & f' & i' & E1 & E2);
      [lia | lia | reflexivity
      | cbn [length skipn Z.to_nat]; unfold idx; rewrite rev_length, free_indices_nfree; lia
      | cbn [length skipn Z.to_nat]; lia | rewrite E1 ]
  end.
  cbn [length skipn app] in E2.
  pose proof (tail_copy s o') as T. cbv zeta in T.
  destruct (Z.of_nat (length o') <? Z.of_nat (length s)); rewrite T, E2; reflexivity.
Qed.

(* ------------------------------------------------------------------ shuffle_sequence
   `shuffled` is the value random.sample returned; its contract (a permutation of its argument) is the
   hypothesis, exactly as in C20.decoy_perm *)
Lemma code_shuffle_sequence_is_model_l : forall s fixed shuffled,
  Permutation (free_indices fixed (length s)) shuffled ->
  py_shuffle_sequence s fixed shuffled = POk (shuffle_sequence s fixed shuffled).
Proof.
  intros s fixed idx P.
  assert (W : walk_spec s fixed idx (py_shuffle_sequence_loop1 s fixed idx idx)).
  { unfold walk_spec. intros FA. induction fuel as [|fuel IH]; intros out offset i I0 O0 LEN NF FU; [lia|].
    cbn [py_shuffle_sequence_loop1]. cbv zeta.
    match goal with |- context [if ?c then _ else _] => destruct c eqn:C end.
    - (* i < len(indices): idx[i] exists, and so does a free position >= p, hence p < len(seq) *)
      destruct (nth_error_in_range' _ idx (Z.to_nat i) ltac:(lia)) as [j NJ].
      pose proof (skipn_nth_cons' _ _ _ _ NJ) as SK. rewrite SK in NF, FU |- *. cbn [length] in NF, FU.
      pose proof (nfree_pos fixed (length out) (length s) ltac:(lia)) as PLT.
      destruct (nth_error_in_range' _ s (length out) PLT) as [c NC].
      pose proof (skipn_nth_cons' _ _ _ _ NC) as SKS. rewrite SKS.
      cbn [walk].
      match goal with |- context [if ?c then _ else _] => destruct c eqn:CF end.
      + (* the position is fixed: copy seq[p] *)
        replace (mem_nat (length out) fixed) with true
          by (symmetry; replace (length out) with (Z.to_nat (i + offset)) by lia; lia).
        rewrite py_index_nonneg' by lia. replace (Z.to_nat (i + offset)) with (length out) by lia. rewrite NC.
        match goal with |- exists _ _ _, py_shuffle_sequence_loop1 _ _ _ _ ?f ?o ?off ?ii = _ /\ _ =>
          destruct (IH o off ii) as (o' & f' & i' & E1 & E2) end.
        * lia.
        * lia.
        * rewrite app_length; cbn [length]; lia.
        * rewrite app_length; cbn [length]. replace (length out + 1)%nat with (S (length out)) by lia.
          rewrite nfree_fixed; [rewrite SK; cbn [length]; lia | lia |].
          replace (length out) with (Z.to_nat (i + offset)) by lia. lia.
        * rewrite app_length; cbn [length]; rewrite SK; cbn [length]; lia.
        * exists o', f', i'. split; [exact E1|].
          rewrite E2, app_length; cbn [length].
          replace (length out + 1)%nat with (S (length out)) by lia.
          rewrite SK, <- app_assoc. reflexivity.
      + (* free position: emit seq[idx[i]] *)
        assert (MF : mem_nat (length out) fixed = false)
          by (replace (length out) with (Z.to_nat (i + offset)) by lia; lia).
        rewrite MF.
        rewrite py_index_nonneg' by lia. rewrite NJ. cbv beta iota.
        rewrite py_index_nonneg' by lia. rewrite Nat2Z.id.
        assert (JL : (j < length s)%nat)
          by (rewrite Forall_forall in FA; apply FA; eapply nth_error_In; exact NJ).
        destruct (nth_error_in_range' _ s j JL) as [cj NCJ]. rewrite NCJ.
        assert (GJ : get s j = cj) by (unfold get; apply nth_error_nth; exact NCJ).
        match goal with |- exists _ _ _, py_shuffle_sequence_loop1 _ _ _ _ ?f ?o ?off ?ii = _ /\ _ =>
          destruct (IH o off ii) as (o' & f' & i' & E1 & E2);
            [ | | | | | exists o', f', i'; split; [exact E1|]; rewrite E2;
                        replace (Z.to_nat ii) with (S (Z.to_nat i)) by lia ];
            try (replace (Z.to_nat ii) with (S (Z.to_nat i)) by lia) end.
        * lia.
        * lia.
        * rewrite app_length; cbn [length]; lia.
        * rewrite app_length; cbn [length]. replace (length out + 1)%nat with (S (length out)) by lia.
          pose proof (nfree_free fixed (length out) (length s) PLT MF). lia.
        * rewrite app_length; cbn [length]. lia.
        * rewrite app_length; cbn [length].
          replace (length out + 1)%nat with (S (length out)) by lia.
          rewrite GJ, <- app_assoc. reflexivity.
    - (* loop ends: no index left *)
      exists out, offset, i. split; [reflexivity|].
      rewrite (skipn_all2 idx) by lia. rewrite walk_nil_idx. reflexivity. }
  assert (FA : Forall (fun j => (j < length s)%nat) idx).
  { apply Forall_forall. intros j H. pose proof (free_indices_lt fixed (length s)) as F.
    rewrite Forall_forall in F. apply F. eapply Permutation_in; [apply Permutation_sym; exact P | exact H]. }
  unfold py_shuffle_sequence, shuffle_sequence. cbv zeta.
  match goal with |- context [py_shuffle_sequence_loop1 s fixed idx idx ?f ?o ?off ?i] =>
    destruct (W FA f o off i) as (o' & f' & i' & E1 & E2);
      [lia | lia | reflexivity
      | cbn [length skipn Z.to_nat]; rewrite <- (Permutation_length P), free_indices_nfree; lia
      | cbn [length skipn Z.to_nat]; lia | rewrite E1 ]
  end.
  cbn [length skipn app] in E2.
  pose proof (tail_copy s o') as T. cbv zeta in T.
  destruct (Z.of_nat (length o') <? Z.of_nat (length s)); rewrite T, E2; reflexivity.
Qed.
