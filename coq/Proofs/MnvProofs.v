(* C05 - what find_mnvs_from_adjacent_variants emits (Model/Mnv.v): the chains are characterised declaratively,
   the merged record is the concatenation of its chain. *)
From Coq Require Import ZArith List Bool Lia ZifyBool.
From MoPep Require Import Model.Base Model.Spec Model.Mnv.
Import ListNotations.
Open Scope Z_scope.

(* ------------------------------------------------------------------ small facts *)
Lemma class_is_true t c0 : class_is t c0 = true <-> compat_class t = Some c0.
Proof.
  unfold class_is. destruct (compat_class t) as [c|]; [|split; discriminate].
  rewrite Z.eqb_eq. split; [intros ->; reflexivity | intros [= ->]; reflexivity].
Qed.

Lemma class_known t c0 : compat_class t = Some c0 -> known_type t = true.
Proof. unfold known_type. intros ->. reflexivity. Qed.

Lemma zlen_length {A} (l : list A) : zlen l = Z.of_nat (length l).
Proof. induction l as [|x l IH]; cbn [zlen length]; [reflexivity|]. rewrite IH. lia. Qed.

Lemma nthZ_cons {A} (x : A) l i : 0 <= i -> nthZ (x :: l) (i + 1) = nthZ l i.
Proof.
  intros Hi. unfold nthZ. destruct (i + 1 <? 0) eqn:E1; [lia|]. destruct (i <? 0) eqn:E2; [lia|].
  replace (Z.to_nat (i + 1)) with (S (Z.to_nat i)) by lia. reflexivity.
Qed.

Lemma nthZ_nat {A} (l : list A) (n : nat) : nthZ l (Z.of_nat n) = nth_error l n.
Proof. unfold nthZ. destruct (Z.of_nat n <? 0) eqn:E; [lia|]. now rewrite Nat2Z.id. Qed.

Lemma nthZ_some {A} (l : list A) i v : nthZ l i = Some v -> 0 <= i < zlen l.
Proof.
  unfold nthZ. destruct (i <? 0) eqn:E; [discriminate|]. intros H.
  assert (Hn : (Z.to_nat i < length l)%nat) by (apply nth_error_Some; congruence).
  rewrite zlen_length. lia.
Qed.

Lemma nth_error_skipn {A} (l : list A) a n : nth_error (skipn a l) n = nth_error l (a + n).
Proof. revert l. induction a as [|a IH]; intros l; [reflexivity|]. destruct l; [now destruct n|]. apply IH. Qed.

(* ------------------------------------------------------------------ the j loop *)
(* comb ++ [j + n] is found: record n of rest is of the class, starts at e, and nothing before it ended the scan *)
Definition hitP (c0 e : Z) (comb : list Z) (j : Z) (rest : list mrec) (c : list Z) : Prop :=
  exists n v, c = comb ++ [j + Z.of_nat n] /\ nth_error rest n = Some v /\
    compat_class (m_ty v) = Some c0 /\ m_start v = e /\
    forall m w, (m < n)%nat -> nth_error rest m = Some w -> known_type (m_ty w) = true -> m_start w <= e.

Lemma hitP_nil c0 e comb j c : ~ hitP c0 e comb j [] c.
Proof. intros (n & v & _ & H & _). destruct n; discriminate. Qed.

Lemma hitP_cons c0 e comb j v r c :
  hitP c0 e comb j (v :: r) c <->
  (c = comb ++ [j] /\ compat_class (m_ty v) = Some c0 /\ m_start v = e) \/
  ((known_type (m_ty v) = true -> m_start v <= e) /\ hitP c0 e comb (j + 1) r c).
Proof.
  split.
  - intros (n & w & Hc & Hn & Hcl & Hs & Hb). destruct n as [|n].
    + left. cbn in Hn. injection Hn as <-. rewrite Z.add_0_r in Hc. auto.
    + right. split.
      * intros Hk. apply (Hb 0%nat v); [lia | reflexivity | exact Hk].
      * exists n, w. repeat split; auto.
        -- rewrite Hc. do 2 f_equal. lia.
        -- intros m w' Hm Hw Hk. apply (Hb (S m) w'); [lia | exact Hw | exact Hk].
  - intros [(Hc & Hcl & Hs) | (Hv & n & w & Hc & Hn & Hcl & Hs & Hb)].
    + exists 0%nat, v. rewrite Z.add_0_r. repeat split; auto. intros m w Hm. lia.
    + exists (S n), w. repeat split; auto.
      * rewrite Hc. do 2 f_equal. lia.
      * intros m w' Hm Hw Hk. destruct m as [|m].
        -- cbn in Hw. injection Hw as <-. auto.
        -- apply (Hb m w'); [lia | exact Hw | exact Hk].
Qed.

Lemma scan_spec c0 e comb rest : forall j c, In c (scan c0 e comb j rest) <-> hitP c0 e comb j rest c.
Proof.
  induction rest as [|v r IH]; intros j c; cbn [scan].
  - split; [intros [] | intros H; exact (hitP_nil _ _ _ _ _ H)].
  - rewrite hitP_cons, <- IH.
    destruct (known_type (m_ty v)) eqn:Ek; cbn [negb].
    + destruct (m_start v <? e) eqn:E1.
      { split; [intros H; right; split; [lia | exact H] | intros [(_ & _ & H) | (_ & H)]; [lia | exact H]]. }
      destruct (m_start v >? e) eqn:E2.
      { split; [intros [] | intros [(_ & _ & H) | (H & _)]; [lia | specialize (H eq_refl); lia]]. }
      destruct (class_is (m_ty v) c0) eqn:E3.
      * apply class_is_true in E3. cbn [In].
        split; [intros [<- | H]; [left; repeat split; [exact E3 | lia] | right; split; [lia | exact H]]
               | intros [(-> & _) | (_ & H)]; [left; reflexivity | right; exact H]].
      * assert (Hn : compat_class (m_ty v) <> Some c0) by (intros H; apply class_is_true in H; congruence).
        split; [intros H; right; split; [lia | exact H] | intros [(_ & H & _) | (_ & H)]; [contradiction | exact H]].
    + assert (Hn : compat_class (m_ty v) <> Some c0) by (intros H; apply class_known in H; congruence).
      split; [intros H; right; split; [discriminate | exact H] | intros [(_ & H & _) | (_ & H)]; [contradiction | exact H]].
Qed.

(* ------------------------------------------------------------------ one step of a chain *)
Definition step (vs : list mrec) (c0 a b : Z) : Prop :=
  a < b /\ exists va vb, nthZ vs a = Some va /\ nthZ vs b = Some vb /\
    compat_class (m_ty vb) = Some c0 /\ m_start vb = m_end va /\
    forall m w, a < m < b -> nthZ vs m = Some w -> known_type (m_ty w) = true -> m_start w <= m_end va.

Lemma extend_spec vs c0 comb c :
  In c (extend vs c0 comb) <-> exists j, c = comb ++ [j] /\ step vs c0 (last comb 0) j.
Proof.
  unfold extend. set (a := last comb 0).
  destruct (a >=? zlen vs - 1) eqn:E.
  { split; [intros [] |]. intros (j & _ & Hlt & va & vb & _ & Hb & _). apply nthZ_some in Hb. lia. }
  destruct (nthZ vs a) as [va|] eqn:Ea.
  2:{ split; [intros [] |]. intros (j & _ & _ & va & vb & Ha & _). congruence. }
  pose proof (nthZ_some _ _ _ Ea) as Ha.
  rewrite scan_spec. unfold hitP.
  assert (Hnth : forall n, nth_error (skipn (Z.to_nat (a + 1)) vs) n = nthZ vs (a + 1 + Z.of_nat n)).
  { intros n. rewrite nth_error_skipn. unfold nthZ. destruct (a + 1 + Z.of_nat n <? 0) eqn:E1; [lia|]. f_equal. lia. }
  split.
  - intros (n & v & Hc & Hn & Hcl & Hs & Hb). exists (a + 1 + Z.of_nat n). split; [exact Hc|].
    split; [lia|]. exists va, v. rewrite Hnth in Hn. repeat split; auto.
    intros m w Hm Hw Hk. apply (Hb (Z.to_nat (m - a - 1)) w); [lia | | exact Hk].
    rewrite Hnth. rewrite <- Hw. f_equal. lia.
  - intros (j & Hc & Hlt & va' & vb & Ha' & Hb & Hcl & Hs & Hbl).
    assert (va' = va) as -> by congruence.
    exists (Z.to_nat (j - a - 1)), vb. repeat split; auto.
    + rewrite Hc. do 2 f_equal. lia.
    + rewrite Hnth. rewrite <- Hb. f_equal. lia.
    + intros m w Hm Hw Hk. rewrite Hnth in Hw. apply (Hbl (a + 1 + Z.of_nat m) w); [lia | exact Hw | exact Hk].
Qed.

(* ------------------------------------------------------------------ chains *)
Inductive chainP (vs : list mrec) (c0 i : Z) : list Z -> Prop :=
| chain_one : chainP vs c0 i [i]
| chain_snoc c j : chainP vs c0 i c -> step vs c0 (last c 0) j -> chainP vs c0 i (c ++ [j]).

Lemma level_spec vs c0 i n c : In c (level vs c0 i n) <-> chainP vs c0 i c /\ length c = S n.
Proof.
  revert c. induction n as [|n IH]; intros c; cbn [level].
  - split.
    + intros [<- | []]. split; [constructor | reflexivity].
    + intros (H & Hl). destruct H as [|c j H Hs]; [left; reflexivity|].
      rewrite app_length in Hl. cbn in Hl. destruct c; [inversion H; destruct c; discriminate | cbn in Hl; lia].
  - rewrite in_flat_map. split.
    + intros (b & Hb & Hc). apply IH in Hb. destruct Hb as (Hb & Hl). apply extend_spec in Hc.
      destruct Hc as (j & -> & Hs). split; [constructor; assumption|]. rewrite app_length. cbn. lia.
    + intros (H & Hl). destruct H as [|b j H Hs]; [discriminate|].
      exists b. split.
      * apply IH. split; [exact H|]. rewrite app_length in Hl. cbn in Hl. lia.
      * apply extend_spec. exists j. split; [reflexivity | exact Hs].
Qed.

(* THE characterisation: for record i of a known type (class c0) the code emits exactly the chains of 2 .. K
   records that start at i; nothing for a record of another type or for K < 2 *)
Lemma chains_spec vs K i c :
  In c (chains_from vs K i) <->
  exists v0 c0, nthZ vs i = Some v0 /\ compat_class (m_ty v0) = Some c0 /\ chainP vs c0 i c /\
                2 <= Z.of_nat (length c) <= K.
Proof.
  unfold chains_from. destruct (nthZ vs i) as [v0|].
  2:{ split; [intros [] | intros (? & ? & H & _); discriminate]. }
  destruct (compat_class (m_ty v0)) as [c0|] eqn:Ec.
  2:{ split; [intros [] | intros (? & ? & [= <-] & H & _); congruence]. }
  rewrite in_flat_map. split.
  - intros (n & Hn & Hc). apply in_seq in Hn. apply level_spec in Hc. destruct Hc as (Hc & Hl).
    exists v0, c0. repeat split; auto; lia.
  - intros (v & c1 & [= <-] & Hc0 & Hc & Hl). assert (c1 = c0) as -> by congruence.
    exists (length c - 2)%nat. split; [apply in_seq; lia|]. apply level_spec. split; [exact Hc | lia].
Qed.

(* ------------------------------------------------------------------ what a chain looks like *)
Lemma last_snoc {A} (l : list A) x d : last (l ++ [x]) d = x.
Proof. induction l as [|y l IH]; [reflexivity|]. cbn [app]. destruct (l ++ [x]) eqn:E; [destruct l; discriminate|]. exact IH. Qed.

(* consecutive members of c, as a relation *)
Inductive consec {A} (R : A -> A -> Prop) : list A -> Prop :=
| consec_nil : consec R []
| consec_one a : consec R [a]
| consec_cons a b l : R a b -> consec R (b :: l) -> consec R (a :: b :: l).

Lemma consec_snoc {A} (R : A -> A -> Prop) l x d : l <> [] -> consec R l -> R (last l d) x -> consec R (l ++ [x]).
Proof.
  induction l as [|a l IH]; [congruence|]. intros _ Hc Hr. destruct l as [|b l].
  - cbn in *. constructor; [exact Hr | constructor].
  - inversion Hc; subst. cbn [app]. constructor; [assumption|]. apply IH; [discriminate | assumption | exact Hr].
Qed.

(* a chain starts at i, and each member is a step after its predecessor: later index, same class, starting where
   the predecessor ends *)
Lemma chain_shape vs c0 i c : chainP vs c0 i c -> hd 0 c = i /\ c <> [] /\ consec (step vs c0) c.
Proof.
  induction 1 as [|c j H (Hh & Hne & Hc) Hs].
  - repeat split; [discriminate | constructor].
  - repeat split.
    + destruct c; [congruence | exact Hh].
    + destruct c; discriminate.
    + apply consec_snoc with (d := 0); assumption.
Qed.

(* conversely any list of that shape is a chain *)
Lemma chain_of_shape vs c0 c : c <> [] -> consec (step vs c0) c -> chainP vs c0 (hd 0 c) c.
Proof.
  induction c as [|x c IH] using rev_ind; [congruence|]. intros _ Hc.
  destruct c as [|a c]; [constructor|].
  assert (Hpre : consec (step vs c0) (a :: c) /\ step vs c0 (last (a :: c) 0) x).
  { clear IH. revert a Hc. induction c as [|b c IHc]; intros a Hc.
    - cbn in Hc. inversion Hc; subst. split; [constructor | assumption].
    - cbn [app] in Hc. inversion Hc; subst. destruct (IHc b H3) as (H4 & H5). split; [constructor; assumption | exact H5]. }
  destruct Hpre as (H1 & H2). cbn [app hd]. change (a :: c ++ [x]) with ((a :: c) ++ [x]).
  constructor; [|exact H2]. apply (IH ltac:(discriminate) H1).
Qed.

(* records sorted by start (what callVariant passes): the `break` never cuts a chain short, a step is just
   "later record of the class that starts where this one ends" *)
Definition sorted_by_start (vs : list mrec) : Prop :=
  forall a b va vb, a <= b -> nthZ vs a = Some va -> nthZ vs b = Some vb -> m_start va <= m_start vb.

Lemma step_of_sorted vs c0 a b va vb :
  sorted_by_start vs -> a < b -> nthZ vs a = Some va -> nthZ vs b = Some vb ->
  compat_class (m_ty vb) = Some c0 -> m_start vb = m_end va -> step vs c0 a b.
Proof.
  intros Hs Hlt Ha Hb Hc He. split; [exact Hlt|]. exists va, vb. repeat split; auto.
  intros m w Hm Hw _. rewrite <- He. apply (Hs m b w vb); [lia | exact Hw | exact Hb].
Qed.

(* ------------------------------------------------------------------ the merged record *)
Lemma create_mnv_spec v l :
  create_mnv (v :: l) = Some (mkMnv (m_start v) (m_end (last (v :: l) v)) (flat_map m_ref (v :: l))
                                    (flat_map m_alt (v :: l)) (map m_id (v :: l))).
Proof. reflexivity. Qed.

Lemma pick_chain vs c0 c : c <> [] -> consec (step vs c0) c -> (exists v, nthZ vs (hd 0 c) = Some v) ->
  length (pick vs c) = length c.
Proof.
  unfold pick. induction c as [|a c IH]; [congruence|]. intros _ Hc (v & Hv). cbn [flat_map hd] in *. rewrite Hv.
  cbn [app length]. f_equal. destruct c as [|b c]; [reflexivity|]. inversion Hc; subst.
  apply IH; [discriminate | assumption|]. destruct H1 as (_ & _ & vb & _ & Hb & _). exists vb. exact Hb.
Qed.

(* every emitted chain yields a record: no index of a comb is out of range *)
Lemma chain_merges vs K i c : In c (chains_from vs K i) -> exists m, create_mnv (pick vs c) = Some m.
Proof.
  intros H. apply chains_spec in H. destruct H as (v0 & c0 & Hv & _ & Hc & Hl).
  apply chain_shape in Hc. destruct Hc as (Hh & Hne & Hc).
  assert (Hp : length (pick vs c) = length c) by (apply (pick_chain vs c0); auto; exists v0; congruence).
  destruct (pick vs c) as [|v l] eqn:E; [cbn in Hp; lia|]. eexists. reflexivity.
Qed.

(* the merged reference allele spans the merged location when the members do: a well-formed substitution *)
Lemma zlen_app {A} (a b : list A) : zlen (a ++ b) = zlen a + zlen b.
Proof. rewrite !zlen_length, app_length. lia. Qed.

Lemma merged_ref_spans (l : list mrec) v :
  consec (fun a b => m_start b = m_end a) (v :: l) ->
  Forall (fun r => zlen (m_ref r) = m_end r - m_start r) (v :: l) ->
  zlen (flat_map m_ref (v :: l)) = m_end (last (v :: l) v) - m_start v.
Proof.
  revert v. induction l as [|b l IH]; intros v Hc Hf.
  - cbn. inversion Hf; subst. rewrite app_nil_r. assumption.
  - assert (Hc' : consec (fun a b => m_start b = m_end a) (b :: l) /\ m_start b = m_end v) by (inversion Hc; subst; auto).
    assert (Hf' : Forall (fun r => zlen (m_ref r) = m_end r - m_start r) (b :: l) /\ zlen (m_ref v) = m_end v - m_start v)
      by (inversion Hf; subst; auto).
    destruct Hc' as (Hc1 & Hc2). destruct Hf' as (Hf1 & Hf2).
    cbn [flat_map]. rewrite zlen_app.
    change (m_ref b ++ flat_map m_ref l) with (flat_map m_ref (b :: l)).
    rewrite (IH b Hc1 Hf1).
    replace (last (v :: b :: l) v) with (last (b :: l) b).
    2:{ cbn [last]. destruct l as [|x l]; [reflexivity|]. clear. revert x. induction l as [|y l IHl]; intros x; [reflexivity|]. cbn [last] in *. apply IHl. }
    lia.
Qed.

(* ------------------------------------------------------------------ relation to Model/Spec.v *)
(* Spec.v applies a haplotype with `build`: reference stretches interleaved with the alternative alleles.  Its
   adjacency convention (Spec.compat) lets two abutting records share a haplotype only as "merged adjacent
   variants"; the merged record the code creates denotes exactly the haplotype that applies all members of the
   chain: same resulting sequence. *)
Definition to_spec (r : mrec) : variant := mkVar (m_start r) (m_end r) (m_alt r) true.
Definition mnv_to_spec (m : mnv) : variant := mkVar (n_start m) (n_end m) (n_alt m) true.

Lemma last_cons2 {A} (a b : A) l : last (a :: b :: l) a = last (b :: l) b.
Proof. cbn [last]. destruct l as [|x l]; [reflexivity|]. revert x. induction l as [|y l IHl]; intros x; [reflexivity|]. cbn [last] in *. apply IHl. Qed.

Lemma merged_build t : forall l v pos h,
  consec (fun a b => m_start b = m_end a) (v :: l) ->
  build t pos (mkVar (m_start v) (m_end (last (v :: l) v)) (flat_map m_alt (v :: l)) true :: h)
  = build t pos (map to_spec (v :: l) ++ h).
Proof.
  induction l as [|b l IH]; intros v pos h Hc.
  - cbn. now rewrite app_nil_r.
  - assert (Hc' : consec (fun a b => m_start b = m_end a) (b :: l) /\ m_start b = m_end v) by (inversion Hc; subst; auto).
    destruct Hc' as (Hc1 & Hc2).
    rewrite last_cons2. cbn [map app build v_s v_e v_alt to_spec flat_map].
    specialize (IH b (m_end v) h Hc1). cbn [map app build v_s v_e v_alt to_spec flat_map] in IH.
    rewrite <- IH. rewrite Hc2.
    assert (Hs : slice t (m_end v) (m_end v) = []) by (unfold slice; now rewrite Z.sub_diag).
    rewrite Hs. cbn [app]. now rewrite <- !app_assoc.
Qed.

Lemma merged_denotes_chain t l m pos h :
  consec (fun a b => m_start b = m_end a) l -> create_mnv l = Some m ->
  build t pos (mnv_to_spec m :: h) = build t pos (map to_spec l ++ h).
Proof.
  destruct l as [|v l]; [discriminate|]. intros Hc [= <-]. apply (merged_build t l v pos h Hc).
Qed.

(* the members of an emitted chain abut, so the theorem applies to every record find_mnvs emits *)
Lemma pick_abut vs c0 c : consec (step vs c0) c -> consec (fun a b => m_start b = m_end a) (pick vs c).
Proof.
  unfold pick. induction c as [|a c IH]; intros Hc; [constructor|].
  destruct c as [|b c].
  - cbn. destruct (nthZ vs a); constructor.
  - assert (Hc' : consec (step vs c0) (b :: c) /\ step vs c0 a b) by (inversion Hc; subst; auto).
    destruct Hc' as (Hc1 & _ & va & vb & Ha & Hb & _ & He & _). specialize (IH Hc1).
    cbn [flat_map] in *. rewrite Ha. rewrite Hb in *. cbn [app] in *. constructor; assumption.
Qed.

(* every record the code emits for a chain is the merge of in-range, abutting members and denotes their joint
   application *)
Lemma emitted_mnv_denotes_chain vs K i c : In c (chains_from vs K i) ->
  exists m, create_mnv (pick vs c) = Some m /\ length (pick vs c) = length c /\
            forall t pos h, build t pos (mnv_to_spec m :: h) = build t pos (map to_spec (pick vs c) ++ h).
Proof.
  intros H. destruct (chain_merges vs K i c H) as (m & Hm). exists m. split; [exact Hm|].
  apply chains_spec in H. destruct H as (v0 & c0 & Hv & _ & Hc & _).
  apply chain_shape in Hc. destruct Hc as (Hh & Hne & Hc). split.
  - apply (pick_chain vs c0); auto. exists v0. congruence.
  - intros t pos h. apply merged_denotes_chain; [apply (pick_abut vs c0 c Hc) | exact Hm].
Qed.

(* ------------------------------------------------------------------ not only the maximal runs *)
Definition snv (s : Z) (r a : Z) : mrec := mkM s (s + 1) [r] [a] s_SNV [r; a].

(* three abutting SNVs, --max-adjacent-as-mnv 3: the pair 0-1, the triple 0-1-2 and the pair 1-2 are all emitted *)
Lemma not_only_maximal :
  all_chains [snv 10 65 67; snv 11 67 71; snv 12 71 84] 3 = [[0; 1]; [0; 1; 2]; [1; 2]] /\
  map (fun m => (n_start m, n_end m, n_ref m, n_alt m)) (find_mnvs [snv 10 65 67; snv 11 67 71; snv 12 71 84] 3)
  = [(10, 12, [65; 67], [67; 71]); (10, 13, [65; 67; 71], [67; 71; 84]); (11, 13, [67; 71], [71; 84])].
Proof. split; reflexivity. Qed.

(* with the default 2 only pairs; an INDEL between two SNVs at the same boundary is skipped, not a barrier *)
Lemma pairs_only_and_class :
  all_chains [snv 10 65 67; mkM 11 12 [67] [67; 84] s_INDEL []; snv 11 67 71; snv 12 71 84] 2 = [[0; 2]; [2; 3]].
Proof. reflexivity. Qed.
