(* Lemmas and proofs for C17 (model: Model/Circ.v). *)
From Coq Require Import ZArith List Bool Lia ZifyBool.
From MoPep Require Import Model.Base Model.Vep Model.Circ Proofs.VepProofs.
Import ListNotations.
Open Scope Z_scope.

Lemma of_res_ok {A} (r : res A) x : of_res r = COk x -> r = Ok x.
Proof. destruct r; cbn; intros H; try discriminate. now injection H as <-. Qed.

(* ---- one block ---- *)

Lemma block_fragment_ok g bs size fr :
  block_fragment g bs size = COk fr ->
  fr = block_in_gene g (bs, bs + size) /\ in_gene g (bs, bs + size) /\
  (g_strand g = 1 \/ g_strand g = -1).
Proof.
  unfold block_fragment, cbind. intros H.
  destruct (of_res (g2gene g bs)) as [s0| | | |] eqn:E1; try discriminate.
  destruct (of_res (g2gene g (bs + size - 1))) as [e0| | | |] eqn:E2; try discriminate.
  apply of_res_ok in E1. apply of_res_ok in E2.
  apply g2gene_ok in E1. apply g2gene_ok in E2.
  destruct E1 as (B1 & P1). destruct E2 as (B2 & P2).
  unfold block_in_gene, in_gene. cbn [fst snd].
  destruct P1 as [(S & ->)|(S & ->)]; destruct P2 as [(S' & ->)|(S' & ->)]; try lia;
    rewrite S in *; cbn [Z.eqb Pos.eqb] in *.
  - destruct (bs + size - 1 - g_start g + 1 <? bs - g_start g) eqn:C; [discriminate|].
    injection H as <-. split; [f_equal; lia|]. split; [lia|left; reflexivity].
  - destruct (g_end g - 1 - bs + 1 <? g_end g - 1 - (bs + size - 1)) eqn:C; [discriminate|].
    injection H as <-. split; [f_equal; lia|]. split; [lia|right; reflexivity].
Qed.

Lemma nth_error_skipn {A} (l : list A) i x :
  nth_error l i = Some x -> skipn i l = x :: skipn (S i) l.
Proof.
  revert l. induction i; intros [|y l] H; try discriminate.
  - cbn in H. injection H as ->. reflexivity.
  - cbn in H. cbn [skipn]. rewrite (IHi l H). reflexivity.
Qed.

(* ---- the loop: fragments are the strand-corrected blocks, in block order ---- *)
Lemma blocks_loop_frags a r sr er sizes i frs intr :
  blocks_loop a r sr er sizes i = COk (frs, intr) ->
  let bl := blocks_of (ce_start r) sizes (skipn i (ce_offsets r)) in
  frs = map (block_in_gene (ca_gene a)) bl /\ length bl = length sizes /\
  Forall (in_gene (ca_gene a)) bl.
Proof.
  revert i frs intr. induction sizes as [|size rest IH]; intros i frs intr H.
  - cbn in H. injection H as <- <-. cbn. auto.
  - cbn [blocks_loop] in H.
    destruct (nth_error (ce_offsets r) i) as [off|] eqn:N; [|discriminate].
    unfold cbind in H.
    destruct (block_fragment (ca_gene a) (ce_start r + off) size) as [fr| | | |] eqn:B; try discriminate.
    match type of H with
    | match ?c with _ => _ end = _ => destruct c as [isi| | | |] eqn:F; try discriminate
    end.
    destruct (blocks_loop a r sr er rest (S i)) as [[frs' intr']| | | |] eqn:R; try discriminate.
    injection H as <- _.
    destruct (IH _ _ _ R) as (I1 & I2 & I3).
    destruct (block_fragment_ok _ _ _ _ B) as (B1 & B2 & _).
    rewrite (nth_error_skipn _ _ _ N). cbn [blocks_of map length fst].
    split; [f_equal; [exact B1|exact I1]|]. split; [f_equal; exact I2|].
    constructor; assumption.
Qed.

Lemma convert_circ_frags a r sr er c :
  convert_circ a r sr er = COk c ->
  let bl := blocks_of (ce_start r) (ce_sizes r) (ce_offsets r) in
  ci_frags c = map (block_in_gene (ca_gene a)) bl /\
  length bl = length (ce_sizes r) /\
  Forall (in_gene (ca_gene a)) bl.
Proof.
  unfold convert_circ. intros H.
  destruct (negb ((ce_type r =? 0) || (ce_type r =? 1))); [discriminate|].
  unfold cbind in H.
  destruct (blocks_loop a r sr er (ce_sizes r) 0) as [[frs intr]| | | |] eqn:L; try discriminate.
  destruct (of_res (g2gene (ca_gene a) (ce_start r))) as [s0| | | |]; try discriminate.
  destruct (of_res (g2gene (ca_gene a) (ce_end r - 1))) as [e0| | | |]; try discriminate.
  injection H as <-. cbn [ci_frags fst].
  exact (blocks_loop_frags _ _ _ _ _ _ _ _ L).
Qed.

(* ---- id ---- *)
Lemma convert_circ_id a r sr er c :
  convert_circ a r sr er = COk c ->
  (ci_id_start c, ci_id_end c) = block_in_gene (ca_gene a) (ce_start r, ce_end r) /\
  g_start (ca_gene a) <= ce_start r < g_end (ca_gene a) /\
  g_start (ca_gene a) < ce_end r <= g_end (ca_gene a).
Proof.
  unfold convert_circ. intros H.
  destruct (negb ((ce_type r =? 0) || (ce_type r =? 1))); [discriminate|].
  unfold cbind in H.
  destruct (blocks_loop a r sr er (ce_sizes r) 0) as [[frs intr]| | | |] eqn:L; try discriminate.
  destruct (of_res (g2gene (ca_gene a) (ce_start r))) as [s0| | | |] eqn:E1; try discriminate.
  destruct (of_res (g2gene (ca_gene a) (ce_end r - 1))) as [e0| | | |] eqn:E2; try discriminate.
  injection H as <-. cbn [ci_id_start ci_id_end].
  apply of_res_ok in E1. apply of_res_ok in E2.
  apply g2gene_ok in E1. apply g2gene_ok in E2.
  destruct E1 as (B1 & P1). destruct E2 as (B2 & P2).
  unfold block_in_gene. cbn [fst snd].
  destruct P1 as [(S & ->)|(S & ->)]; destruct P2 as [(S' & ->)|(S' & ->)]; try lia;
    rewrite S; cbn [Z.eqb Pos.eqb]; (split; [f_equal; lia|lia]).
Qed.

(* ---- validity ---- *)

Lemma is_valid_exact th r :
  is_valid th r = true <->
  ct_reads th <= ce_reads r /\
  (ct_ce3 th = true -> thr_ok (ct_fpb th) (ce_fpb r) /\ thr_ok (ct_score th) (ce_score r)).
Proof.
  unfold is_valid, thr_ok, truthy.
  destruct (ct_ce3 th).
  - destruct (ct_fpb th) as [m|]; destruct (ct_score th) as [m2|].
    all: repeat match goal with |- context [if ?b then _ else _] => destruct b eqn:? end.
    all: split; [intros H; split; [lia|intros _; split; lia]| intros (H1 & H2); specialize (H2 eq_refl); try lia].
    all: try (destruct H2 as [[|] [|]]; lia).
    all: try (destruct H2 as [[|] _]; lia).
    all: try (destruct H2 as [_ [|]]; lia).
  - split; [intros H; split; [lia|discriminate]|intros (H & _); lia].
Qed.

(* ---- the CLI loop and its tally ---- *)
Lemma cli_loop_tally th sr er recs k t :
  cli_loop th sr er recs k = Some t ->
  ta_total t = Z.of_nat (length recs) /\
  Z.of_nat (length (ta_emitted t)) + ta_insufficient t + ta_invalid t = ta_total t /\
  ta_insufficient t = Z.of_nat (length (filter (fun ar => negb (is_valid th (snd ar))) recs)) /\
  0 <= ta_invalid t.
Proof.
  revert k t. induction recs as [|[a r] rest IH]; intros k t H.
  - cbn in H. injection H as <-. cbn. lia.
  - cbn [cli_loop] in H. cbn [filter snd length].
    destruct (negb (is_valid th r)) eqn:V.
    + destruct (cli_loop th sr er rest (S k)) as [t'|] eqn:R; [|discriminate].
      injection H as <-. destruct (IH _ _ R) as (A & B & C & D). cbn [ta_total ta_emitted ta_insufficient ta_invalid length]. lia.
    + destruct (convert_circ a r sr er) as [c| | | |] eqn:Cv; try discriminate.
      all: destruct (cli_loop th sr er rest (S k)) as [t'|] eqn:R; [|discriminate].
      all: injection H as <-; destruct (IH _ _ R) as (A & B & C & D).
      all: cbn [ta_total ta_emitted ta_insufficient ta_invalid length]; lia.
Qed.

(* membership: record number j (0-based, counted from k) is emitted iff it is valid and converts *)
Lemma cli_loop_emitted th sr er recs k t :
  cli_loop th sr er recs k = Some t ->
  forall j c, In (j, c) (ta_emitted t) <->
    exists a r, nth_error recs (j - k) = Some (a, r) /\ (k <= j)%nat /\
                is_valid th r = true /\ convert_circ a r sr er = COk c.
Proof.
  revert k t. induction recs as [|[a r] rest IH]; intros k t H j c.
  - cbn in H. injection H as <-. cbn. split; [tauto|]. intros (a & r & N & _). destruct (j - k)%nat; discriminate.
  - cbn [cli_loop] in H.
    assert (Hstep : forall t', cli_loop th sr er rest (S k) = Some t' ->
       (In (j, c) (ta_emitted t') <->
        exists a0 r0, nth_error ((a, r) :: rest) (j - k) = Some (a0, r0) /\ (k < j)%nat /\
                      is_valid th r0 = true /\ convert_circ a0 r0 sr er = COk c)).
    { intros t' R. rewrite (IH _ _ R j c). split.
      - intros (a0 & r0 & N & Hk & V & Cv). exists a0, r0.
        replace (j - k)%nat with (S (j - S k))%nat by lia. cbn [nth_error]. repeat split; auto; lia.
      - intros (a0 & r0 & N & Hk & V & Cv). exists a0, r0.
        replace (j - k)%nat with (S (j - S k))%nat in N by lia. cbn [nth_error] in N. repeat split; auto; lia. }
    destruct (negb (is_valid th r)) eqn:V.
    + destruct (cli_loop th sr er rest (S k)) as [t'|] eqn:R; [|discriminate].
      injection H as <-. cbn [ta_emitted]. rewrite (Hstep _ eq_refl). split.
      * intros (a0 & r0 & N & Hk & V' & Cv). exists a0, r0. repeat split; auto; lia.
      * intros (a0 & r0 & N & Hk & V' & Cv). exists a0, r0.
        destruct (Nat.eq_dec j k) as [->|Hne].
        -- rewrite Nat.sub_diag in N. cbn in N. injection N as <- <-. rewrite V' in V. discriminate.
        -- repeat split; auto; lia.
    + destruct (convert_circ a r sr er) as [c0| | | |] eqn:Cv; try discriminate.
      all: destruct (cli_loop th sr er rest (S k)) as [t'|] eqn:R; [|discriminate].
      all: injection H as <-; cbn [ta_emitted].
      * cbn [In]. rewrite (Hstep _ eq_refl). split.
        -- intros [Heq|(a0 & r0 & N & Hk & V' & Cv')].
           ++ injection Heq as <- <-. exists a, r. rewrite Nat.sub_diag. cbn. repeat split; auto. destruct (is_valid th r); [reflexivity|discriminate].
           ++ exists a0, r0. repeat split; auto; lia.
        -- intros (a0 & r0 & N & Hk & V' & Cv').
           destruct (Nat.eq_dec j k) as [->|Hne].
           ++ rewrite Nat.sub_diag in N. cbn in N. injection N as <- <-. left. rewrite Cv in Cv'. injection Cv' as <-. reflexivity.
           ++ right. exists a0, r0. repeat split; auto; lia.
      * rewrite (Hstep _ eq_refl). split.
        -- intros (a0 & r0 & N & Hk & V' & Cv'). exists a0, r0. repeat split; auto; lia.
        -- intros (a0 & r0 & N & Hk & V' & Cv').
           destruct (Nat.eq_dec j k) as [->|Hne].
           ++ rewrite Nat.sub_diag in N. cbn in N. injection N as <- <-. rewrite Cv in Cv'. discriminate.
           ++ exists a0, r0. repeat split; auto; lia.
      * rewrite (Hstep _ eq_refl). split.
        -- intros (a0 & r0 & N & Hk & V' & Cv'). exists a0, r0. repeat split; auto; lia.
        -- intros (a0 & r0 & N & Hk & V' & Cv').
           destruct (Nat.eq_dec j k) as [->|Hne].
           ++ rewrite Nat.sub_diag in N. cbn in N. injection N as <- <-. rewrite Cv in Cv'. discriminate.
           ++ exists a0, r0. repeat split; auto; lia.
Qed.

(* ---- sorting of fragments ---- *)
Fixpoint locs_asc (l : list (Z * Z)) : Prop :=
  match l with
  | [] => True
  | x :: t => match t with [] => True | y :: _ => loc_lt x y = true end /\ locs_asc t
  end.
Fixpoint locs_desc (l : list (Z * Z)) : Prop :=
  match l with
  | [] => True
  | x :: t => Forall (fun y => loc_lt x y = false) t /\ locs_desc t
  end.

Lemma sort_asc l : locs_asc l -> sort_locs l = l.
Proof.
  induction l as [|x t IH]; [reflexivity|]. intros (H1 & H2). cbn [sort_locs]. rewrite (IH H2).
  destruct t as [|y t']; [reflexivity|]. cbn [insert_loc]. now rewrite H1.
Qed.

Lemma insert_last x l : Forall (fun y => loc_lt x y = false) l -> insert_loc x l = l ++ [x].
Proof.
  induction l as [|y t IH]; [reflexivity|]. intros H. inversion H; subst. cbn [insert_loc app].
  rewrite H2. f_equal. apply IH. assumption.
Qed.

Lemma sort_desc l : locs_desc l -> sort_locs l = rev l.
Proof.
  induction l as [|x t IH]; [reflexivity|]. intros (H1 & H2). cbn [sort_locs rev]. rewrite (IH H2).
  apply insert_last. apply Forall_forall. intros y Hy. apply in_rev in Hy.
  rewrite Forall_forall in H1. apply H1. exact Hy.
Qed.

(* ---- blocks ---- *)
Lemma blocks_asc_all b t : blocks_asc (b :: t) -> Forall (fun y => snd b <= fst y) t.
Proof.
  revert b. induction t as [|y t IH]; intros b H; [constructor|].
  cbn [blocks_asc] in H. destruct H as (Hb & Hby & Hy).
  constructor; [exact Hby|].
  pose proof (IH y Hy) as IHy. cbn [blocks_asc] in Hy. destruct Hy as (Hyy & _).
  eapply Forall_impl; [|exact IHy]. cbn. intros z Hz. lia.
Qed.

Lemma blocks_asc_tail b t : blocks_asc (b :: t) -> blocks_asc t.
Proof. cbn [blocks_asc]. tauto. Qed.

Lemma big_asc g bl : g_strand g = 1 -> blocks_asc bl -> locs_asc (map (block_in_gene g) bl).
Proof.
  intros S. induction bl as [|b t IH]; [constructor|]. intros H.
  cbn [map locs_asc]. split; [|apply IH; eapply blocks_asc_tail; exact H].
  destruct t as [|y t']; [exact I|]. cbn [map].
  cbn [blocks_asc] in H. destruct H as (Hb & Hby & (Hy & _)).
  unfold loc_lt, loc_gt, loc_eq, block_in_gene. rewrite S. cbn [Z.eqb Pos.eqb fst snd]. lia.
Qed.

Lemma big_desc g bl : g_strand g = -1 -> blocks_asc bl -> locs_desc (map (block_in_gene g) bl).
Proof.
  intros S. induction bl as [|b t IH]; [constructor|]. intros H.
  cbn [map locs_desc]. split; [|apply IH; eapply blocks_asc_tail; exact H].
  pose proof (blocks_asc_all _ _ H) as A. cbn [blocks_asc] in H. destruct H as (Hb & _ & Ht).
  apply Forall_forall. intros y Hy. apply in_map_iff in Hy. destruct Hy as (z & <- & Hz).
  rewrite Forall_forall in A. specialize (A z Hz).
  assert (Hzz : fst z < snd z).
  { clear -Ht Hz. induction t as [|w t IH]; [destruct Hz|]. cbn [blocks_asc] in Ht. destruct Ht as (Hw & _ & Ht').
    destruct Hz as [->|Hz]; [exact Hw|apply IH; assumption]. }
  unfold loc_lt, loc_gt, loc_eq, block_in_gene. rewrite S. cbn [Z.eqb Pos.eqb fst snd]. lia.
Qed.

(* ---- one fragment read from the gene = the genomic block, strand-corrected ---- *)
Lemma gene_slice_block g chrom b :
  wf_gene g chrom -> in_gene g b ->
  pyslice (gene_of g chrom) (fst (block_in_gene g b)) (snd (block_in_gene g b)) =
  (if g_strand g =? 1 then slice chrom (fst b) (snd b) else revcomp (slice chrom (fst b) (snd b))).
Proof.
  intros (Hs & Hg0 & Hg1 & Hg2) (B1 & B2 & B3). unfold gene_of, block_in_gene.
  assert (Ln : zlen (slice chrom (g_start g) (g_end g)) = g_end g - g_start g) by (rewrite zlen_slice; lia).
  destruct Hs as [S|S]; rewrite S; cbn [Z.eqb Pos.eqb fst snd].
  - rewrite pyslice_slice by lia. rewrite slice_slice by lia. f_equal; lia.
  - rewrite pyslice_slice by lia. rewrite slice_revcomp by lia. rewrite Ln. rewrite slice_slice by lia.
    f_equal. f_equal; lia.
Qed.

Lemma revcomp_concat (l : list seq) : revcomp (concat l) = concat (map revcomp (rev l)).
Proof.
  induction l as [|x t IH]; [reflexivity|]. cbn [concat rev]. rewrite revcomp_app, IH.
  rewrite map_app, concat_app. cbn [map concat]. now rewrite app_nil_r.
Qed.

Lemma circ_seq_blocks g chrom bl :
  wf_gene g chrom -> Forall (in_gene g) bl -> blocks_asc bl ->
  circ_seq (gene_of g chrom) (map (block_in_gene g) bl) =
  (if g_strand g =? 1 then concat (map (fun b => slice chrom (fst b) (snd b)) bl)
   else revcomp (concat (map (fun b => slice chrom (fst b) (snd b)) bl))).
Proof.
  intros W F A. pose proof W as (Hs & _). unfold circ_seq.
  assert (Hmap : forall l, Forall (in_gene g) l ->
     map (fun f => pyslice (gene_of g chrom) (fst f) (snd f)) (map (block_in_gene g) l) =
     map (fun b => if g_strand g =? 1 then slice chrom (fst b) (snd b) else revcomp (slice chrom (fst b) (snd b))) l).
  { intros l Fl. rewrite map_map. apply map_ext_in. intros b Hb.
    rewrite Forall_forall in Fl. apply gene_slice_block; auto. }
  destruct Hs as [S|S].
  - rewrite (sort_asc _ (big_asc g bl S A)). rewrite (Hmap _ F). rewrite S. cbn [Z.eqb Pos.eqb]. reflexivity.
  - rewrite (sort_desc _ (big_desc g bl S A)). rewrite <- map_rev.
    assert (Fr : Forall (in_gene g) (rev bl)).
    { apply Forall_forall. intros b Hb. apply in_rev in Hb. rewrite Forall_forall in F. auto. }
    rewrite (Hmap _ Fr). rewrite S. cbn [Z.eqb Pos.eqb].
    rewrite revcomp_concat. rewrite <- (map_rev (fun b => slice chrom (fst b) (snd b))). rewrite map_map. reflexivity.
Qed.

Lemma loc_eq_true a b : loc_eq a b = true -> a = b.
Proof. destruct a, b. unfold loc_eq. cbn. intros. f_equal; lia. Qed.

Lemma frag_roundtrip g b : g_strand g = 1 \/ g_strand g = -1 ->
  frag_to_genomic g (block_in_gene g b) = b.
Proof.
  destruct b as [s e]. unfold frag_to_genomic, block_in_gene, gene2g.
  intros [S|S]; rewrite S; cbn [Z.eqb Pos.eqb fst snd]; f_equal; lia.
Qed.

(* soundness: an index returned is the position of the block among the transcript's exons *)
Lemma fei_plus_sound exs f i j : fei_plus exs f i = Some j ->
  i <= j /\ nth_error exs (Z.to_nat (j - i)) = Some f.
Proof.
  revert i. induction exs as [|x r IH]; intros i H; [discriminate|]. cbn [fei_plus] in H.
  destruct (loc_eq x f) eqn:E.
  - injection H as <-. rewrite Z.sub_diag. apply loc_eq_true in E. subst. split; [lia|reflexivity].
  - destruct (loc_gt x f); [discriminate|]. destruct (IH _ H) as (A & B). split; [lia|].
    replace (Z.to_nat (j - i)) with (S (Z.to_nat (j - (i + 1)))) by lia. exact B.
Qed.
Lemma fei_minus_sound exs f i j : fei_minus exs f i = Some j ->
  i <= j /\ nth_error exs (Z.to_nat (j - i)) = Some f.
Proof.
  revert i. induction exs as [|x r IH]; intros i H; [discriminate|]. cbn [fei_minus] in H.
  destruct (loc_eq x f) eqn:E.
  - injection H as <-. rewrite Z.sub_diag. apply loc_eq_true in E. subst. split; [lia|reflexivity].
  - destruct (loc_lt x f); [discriminate|]. destruct (IH _ H) as (A & B). split; [lia|].
    replace (Z.to_nat (j - i)) with (S (Z.to_nat (j - (i + 1)))) by lia. exact B.
Qed.

Lemma find_exon_sound a frag j : find_exon_index a frag = Some j ->
  0 <= j /\ nth_error (tx_exons a) (Z.to_nat j) = Some (frag_to_genomic (ca_gene a) frag).
Proof.
  unfold find_exon_index, tx_exons. destruct (g_strand (ca_gene a) =? 1); intros H.
  - apply fei_plus_sound in H. now rewrite Z.sub_0_r in H.
  - apply fei_minus_sound in H. now rewrite Z.sub_0_r in H.
Qed.

(* completeness under ascending exons *)
Lemma exons_asc_all x t : exons_asc (x :: t) -> Forall (fun y => snd x <= fst y) t.
Proof.
  revert x. induction t as [|y t IH]; intros x H; [constructor|].
  cbn [exons_asc] in H. destruct H as (Hx & Hxy & Hy).
  constructor; [exact Hxy|]. pose proof (IH y Hy) as IHy. cbn [exons_asc] in Hy. destruct Hy as (Hyy & _).
  eapply Forall_impl; [|exact IHy]. cbn. intros z Hz. lia.
Qed.

Lemma fei_plus_complete exs f i : exons_asc exs -> In f exs -> exists j, fei_plus exs f i = Some j.
Proof.
  revert i. induction exs as [|x r IH]; intros i A H; [destruct H|]. cbn [fei_plus].
  destruct (loc_eq x f) eqn:E; [eauto|].
  destruct H as [->|H].
  { unfold loc_eq in E. lia. }
  pose proof (exons_asc_all _ _ A) as All. rewrite Forall_forall in All. specialize (All _ H).
  cbn [exons_asc] in A. destruct A as (Hx & _ & Ar).
  replace (loc_gt x f) with false by (unfold loc_gt; lia). apply IH; assumption.
Qed.

(* descending list (reversed exons) *)
Fixpoint exons_desc (l : list (Z * Z)) : Prop :=
  match l with
  | [] => True
  | x :: t => fst x < snd x /\ Forall (fun y => snd y <= fst x) t /\ exons_desc t
  end.
Lemma exons_desc_app l x : exons_desc l -> fst x < snd x -> Forall (fun y => snd x <= fst y) l -> exons_desc (l ++ [x]).
Proof.
  induction l as [|y t IH]; intros D Hx F.
  - cbn. repeat split; auto.
  - cbn [app exons_desc] in *. destruct D as (Hy & Fy & Dt). inversion F; subst.
    split; [exact Hy|]. split.
    + apply Forall_app. split; [exact Fy|]. constructor; [lia|constructor].
    + apply IH; auto.
Qed.
Lemma exons_asc_rev l : exons_asc l -> exons_desc (rev l).
Proof.
  induction l as [|x t IH]; intros A; [exact I|]. cbn [rev].
  pose proof (exons_asc_all _ _ A) as All. cbn [exons_asc] in A. destruct A as (Hx & _ & At).
  apply exons_desc_app; auto.
  apply Forall_forall. intros y Hy. apply in_rev in Hy. rewrite Forall_forall in All. auto.
Qed.
Lemma exons_desc_in l f : exons_desc l -> In f l -> fst f < snd f.
Proof.
  induction l as [|x t IH]; intros D H; [destruct H|]. cbn [exons_desc] in D. destruct D as (Hx & _ & Dt).
  destruct H as [->|H]; [exact Hx|apply IH; assumption].
Qed.
Lemma fei_minus_complete exs f i : exons_desc exs -> In f exs -> exists j, fei_minus exs f i = Some j.
Proof.
  revert i. induction exs as [|x r IH]; intros i A H; [destruct H|]. cbn [fei_minus].
  destruct (loc_eq x f) eqn:E; [eauto|].
  destruct H as [->|H].
  { unfold loc_eq in E. lia. }
  cbn [exons_desc] in A. destruct A as (Hx & All & Ar). rewrite Forall_forall in All. specialize (All _ H).
  pose proof (exons_desc_in _ _ Ar H) as Hf.
  replace (loc_lt x f) with false by (unfold loc_lt, loc_gt, loc_eq; lia). apply IH; assumption.
Qed.

Lemma find_exon_exact a b :
  g_strand (ca_gene a) = 1 \/ g_strand (ca_gene a) = -1 -> exons_asc (ca_exons a) ->
  (find_exon_index a (block_in_gene (ca_gene a) b) <> None <-> In b (ca_exons a)).
Proof.
  intros S A. split.
  - intros H. destruct (find_exon_index a (block_in_gene (ca_gene a) b)) as [j|] eqn:F; [|congruence].
    apply find_exon_sound in F. destruct F as (_ & N). rewrite frag_roundtrip in N by exact S.
    apply nth_error_In in N. unfold tx_exons in N. destruct (g_strand (ca_gene a) =? 1); [exact N|].
    apply in_rev. exact N.
  - intros H. unfold find_exon_index. rewrite frag_roundtrip by exact S.
    destruct (g_strand (ca_gene a) =? 1).
    + destruct (fei_plus_complete _ _ 0 A H) as [j ->]. discriminate.
    + destruct (fei_minus_complete (rev (ca_exons a)) b 0) as [j ->]; [apply exons_asc_rev; exact A|apply in_rev; rewrite rev_involutive; exact H|discriminate].
Qed.

(* ---- introns: an index is only returned for a pair of consecutive exons (transcript order) whose gap
   matches the reported block within the tolerances ---- *)

Lemma fii_plus_sound exs f sr er i j : fii_plus exs f sr er i = Some j ->
  exists n x y, nth_error exs n = Some x /\ nth_error exs (S n) = Some y /\
                intron_match_plus f x y sr er /\ j = i + Z.of_nat n.
Proof.
  revert i. induction exs as [|[s e] r IH]; intros i H; [discriminate|]. cbn [fii_plus] in H.
  destruct (in_rng (fst f - e) sr) eqn:R1.
  - destruct r as [|[s2 e2] r']; [discriminate|].
    exists 0%nat, (s, e), (s2, e2). unfold intron_match_plus. cbn [nth_error fst snd].
    destruct (in_rng (snd f - s2) er) eqn:R2.
    + injection H as <-. repeat split; auto. lia.
    + destruct (s2 >=? snd f) eqn:G; [|discriminate]. injection H as <-. repeat split; auto; [right; lia|lia].
  - destruct (s >? snd f); [discriminate|].
    destruct (IH _ H) as (n & x & y & N1 & N2 & M & ->).
    exists (S n), x, y. cbn [nth_error]. split; [exact N1|]. split; [exact N2|]. split; [exact M|lia].
Qed.
Lemma fii_minus_sound exs f sr er i j : fii_minus exs f sr er i = Some j ->
  exists n x y, nth_error exs n = Some x /\ nth_error exs (S n) = Some y /\
                intron_match_minus f x y sr er /\ j = i - Z.of_nat n.
Proof.
  revert i. induction exs as [|[s e] r IH]; intros i H; [discriminate|]. cbn [fii_minus] in H.
  destruct (in_rng (- (snd f - s)) sr) eqn:R1.
  - destruct r as [|[s2 e2] r']; [discriminate|].
    exists 0%nat, (s, e), (s2, e2). unfold intron_match_minus. cbn [nth_error fst snd].
    destruct (in_rng (- (fst f - e2)) er) eqn:R2.
    + injection H as <-. repeat split; auto. lia.
    + destruct (e2 <=? fst f) eqn:G; [|discriminate]. injection H as <-. repeat split; auto; [right; lia|lia].
  - destruct (e <? fst f); [discriminate|].
    destruct (IH _ H) as (n & x & y & N1 & N2 & M & ->).
    exists (S n), x, y. cbn [nth_error]. split; [exact N1|]. split; [exact N2|]. split; [exact M|lia].
Qed.

Lemma find_intron_sound a b sr er j :
  g_strand (ca_gene a) = 1 \/ g_strand (ca_gene a) = -1 ->
  find_intron_index a (block_in_gene (ca_gene a) b) sr er = COk j ->
  exists n x y, nth_error (tx_exons a) n = Some x /\ nth_error (tx_exons a) (S n) = Some y /\
    (if g_strand (ca_gene a) =? 1 then intron_match_plus b x y sr er else intron_match_minus b x y sr er).
Proof.
  intros S H. unfold find_intron_index in H.
  destruct ((snd sr + 1 <? fst sr) || (snd er + 1 <? fst er)); [discriminate|].
  rewrite frag_roundtrip in H by exact S. unfold tx_exons.
  destruct (g_strand (ca_gene a) =? 1).
  - destruct (fii_plus (ca_exons a) b sr er 0) as [i|] eqn:F; [|discriminate].
    destruct (fii_plus_sound _ _ _ _ _ _ F) as (n & x & y & A & B & C & _). eauto 8.
  - destruct (fii_minus (rev (ca_exons a)) b sr er (zlen (ca_exons a) - 1)) as [i|] eqn:F; [|discriminate].
    destruct (fii_minus_sound _ _ _ _ _ _ F) as (n & x & y & A & B & C & _). eauto 8.
Qed.

(* ---- the GVF columns denote the same fragments ---- *)
Lemma gvf_roundtrip_l pos (l : list (Z * Z)) :
  gvf_fragments pos (map (fun f => fst f - pos) l) (map (fun f => snd f - fst f) l) = l.
Proof.
  unfold gvf_fragments. induction l as [|[s e] t IH]; [reflexivity|].
  cbn [map combine fst snd]. rewrite IH. f_equal. f_equal; lia.
Qed.

Lemma circ_seq_convert a r sr er c chrom :
  wf_gene (ca_gene a) chrom ->
  convert_circ a r sr er = COk c ->
  blocks_asc (blocks_of (ce_start r) (ce_sizes r) (ce_offsets r)) ->
  circ_seq (gene_of (ca_gene a) chrom) (ci_frags c) =
  (let cat := concat (map (fun b => slice chrom (fst b) (snd b))
                          (blocks_of (ce_start r) (ce_sizes r) (ce_offsets r))) in
   if g_strand (ca_gene a) =? 1 then cat else revcomp cat).
Proof.
  intros W H A. destruct (convert_circ_frags _ _ _ _ _ H) as (F1 & _ & F3).
  rewrite F1. apply circ_seq_blocks; assumption.
Qed.

Lemma cli_loop_emitted0 :
  forall th sr er recs t,
    cli_loop th sr er recs 0 = Some t ->
    forall j c, In (j, c) (ta_emitted t) <->
      exists a r, nth_error recs j = Some (a, r) /\ is_valid th r = true /\ convert_circ a r sr er = COk c.
Proof.
  intros th sr er recs t H j c. rewrite (cli_loop_emitted th sr er recs 0 t H j c). rewrite Nat.sub_0_r.
  split; [intros (a & r & A & _ & B & C)|intros (a & r & A & B & C)]; exists a, r; repeat split; auto. lia.
Qed.
