(* Equality of <Tool>Record.convert_to_variant_records of the fusion parsers, as GENERATED from /repo's source by
   harness/translate/py2coq.py (coq/Gen/Py_STARFusionParser.v, Py_ArribaParser.v, Py_FusionCatcherParser.v), with
   Fusion.convert <tool>: in particular the ORDER of the look-ups, which decides the escaping exception.
   docs/py2coq.md. *)
From Coq Require Import ZArith List Bool Lia ZifyBool.
From MoPep Require Import Model.Base Model.PyRt Model.Rmats Model.Fusion
                          Gen.Py_STARFusionParser Gen.Py_ArribaParser Gen.Py_FusionCatcherParser
                          Gen.Py_parse_star_fusion Gen.Py_parse_fusion_catcher Gen.Py_parse_arriba
                          Gen.Py_TranscriptAnnotationModel_fusion.
Import ListNotations.
Open Scope Z_scope.

Lemma lookup_err : forall genes i e, lookup_gene genes i = FErr e -> e = FGeneNotFound.
Proof.
  intros genes i e H. unfold lookup_gene in H. destruct (i <? 0); [congruence|].
  destruct (nth_error genes (Z.to_nat i)); congruence.
Qed.

(* what the record loop computes = Fusion.build *)
Definition build_spec (pairs : list (Z * Z)) (pos apos : Z) (ref : option Z) (acc : list frec)
  : lres (list frec) (fres (list frec)) :=
  match pairs, ref with
  | [], _ => Continue acc
  | _, None => Done (FErr FValue)
  | _, Some c => Continue (acc ++ map (fun p => mkF (fst p) (snd p) pos apos c) pairs)
  end.

Lemma build_of_spec : forall pairs pos apos ref,
  match build_spec pairs pos apos ref [] with Done r => r | Continue a => FOk a end = build pairs pos apos ref.
Proof. intros [|p t] pos apos [c|]; reflexivity. Qed.

Ltac lookups :=
  repeat match goal with
  | |- context [lookup_gene ?g ?i] =>
      let E := fresh "E" in destruct (lookup_gene g i) as [?d|?e] eqn:E;
      [|apply lookup_err in E; subst; reflexivity]
  | |- context [lift ?x] => destruct (lift x); [|reflexivity]
  end.

Lemma code_star_convert_is_model_l : forall genes chroms dg ag L R,
  py_star_convert genes chroms dg ag L R = convert Star genes chroms dg ag L R.
Proof.
  intros genes chroms dg ag L R.
  assert (LOOP : forall pos apos ref (l : list (Z * Z)) acc,
    py_star_convert_loop1 genes chroms dg ag L R pos apos ref l acc = build_spec l pos apos ref acc).
  { intros pos apos ref. induction l as [|p t IH]; intro acc; [reflexivity|].
    cbn [py_star_convert_loop1]. cbv zeta. destruct ref as [c|]; [|reflexivity].
    rewrite IH. unfold build_spec. destruct t as [|q t']; cbn [map]; [reflexivity|].
    rewrite <- app_assoc. reflexivity. }
  unfold py_star_convert, convert, fbind, ref_base. cbv zeta. lookups.
  destruct (g_strand (w_gene d) =? 1).
  - destruct (nthZ (chrom_of chroms (w_chrom d)) (L + 1)); [|reflexivity].
    rewrite LOOP. (rewrite build_of_spec; first [reflexivity | f_equal; lia]).
  - rewrite LOOP. destruct (nthZ (chrom_of chroms (w_chrom d)) L); (rewrite build_of_spec; first [reflexivity | f_equal; lia]).
Qed.

Lemma code_arriba_convert_is_model_l : forall genes chroms dg ag L R,
  py_arriba_convert genes chroms dg ag L R = convert Arriba genes chroms dg ag L R.
Proof.
  intros genes chroms dg ag L R.
  assert (LOOP : forall pos apos ref (l : list (Z * Z)) acc,
    py_arriba_convert_loop1 genes chroms dg ag L R pos apos ref l acc = build_spec l pos apos ref acc).
  { intros pos apos ref. induction l as [|p t IH]; intro acc; [reflexivity|].
    cbn [py_arriba_convert_loop1]. cbv zeta. destruct ref as [c|]; [|reflexivity].
    rewrite IH. unfold build_spec. destruct t as [|q t']; cbn [map]; [reflexivity|].
    rewrite <- app_assoc. reflexivity. }
  unfold py_arriba_convert, convert, fbind, ref_base. cbv zeta. lookups.
  destruct (g_strand (w_gene d) =? 1).
  - destruct (nthZ (chrom_of chroms (w_chrom d)) L); [|reflexivity].
    rewrite LOOP. (rewrite build_of_spec; first [reflexivity | f_equal; lia]).
  - rewrite LOOP. destruct (nthZ (chrom_of chroms (w_chrom d)) L); (rewrite build_of_spec; first [reflexivity | f_equal; lia]).
Qed.

Lemma code_fc_convert_is_model_l : forall versioned genes chroms dg ag L R,
  py_fc_convert versioned genes chroms dg ag L R = convert FC genes chroms dg ag L R.
Proof.
  intros versioned genes chroms dg ag L R.
  assert (LOOP : forall pos apos ref (l : list (Z * Z)) acc,
    py_fc_convert_loop1 versioned genes chroms dg ag L R pos apos ref l acc = build_spec l pos apos ref acc).
  { intros pos apos ref. induction l as [|p t IH]; intro acc; [reflexivity|].
    cbn [py_fc_convert_loop1]. cbv zeta. destruct ref as [c|]; [|reflexivity].
    rewrite IH. unfold build_spec. destruct t as [|q t']; cbn [map]; [reflexivity|].
    rewrite <- app_assoc. reflexivity. }
  unfold py_fc_convert, convert, fbind, ref_base. cbv zeta.
  destruct versioned; lookups;
    (destruct (g_strand (w_gene d) =? 1);
      [ destruct (nthZ (chrom_of chroms (w_chrom d)) L); [|reflexivity]; rewrite LOOP; (rewrite build_of_spec; first [reflexivity | f_equal; lia])
      | rewrite LOOP; destruct (nthZ (chrom_of chroms (w_chrom d)) L); (rewrite build_of_spec; first [reflexivity | f_equal; lia]) ]).
Qed.

(* ------------------------------------------------------------------ the CLI record loops with their tallies *)
Lemma bump_mk : forall a b c d e f w,
  bump (mkT a b c d e f) w
  = mkT (a + 1) (if w =? 0 then b + 1 else b) (if w =? 1 then c + 1 else c) (if w =? 2 then d + 1 else d)
        (if w =? 3 then e + 1 else e) (if w =? 4 then f + 1 else f).
Proof.
  intros. unfold bump. cbn [t_total t_succeed t_insufficient t_invalid_gene t_invalid_pos t_antisense].
  destruct (w =? 0), (w =? 1), (w =? 2), (w =? 3), (w =? 4); f_equal; lia.
Qed.

Ltac cli_step IH :=
  rewrite ?bump_mk; cbn [Z.eqb Pos.eqb]; cbv iota; try apply IH; try reflexivity.

Lemma code_py_star_cli_is_model_l : forall genes chroms o rows,
  py_star_cli genes chroms o rows = cli Star genes chroms o rows.
Proof.
  intros genes chroms o rows0.
  assert (LOOP : forall (l : list row) tl acc,
    match py_star_cli_loop1 genes chroms o rows0 l tl acc with Done r => r | Continue (t, a) => FOk (a, t) end
    = cli_loop Star genes chroms o l acc tl).
  { induction l as [|r rest IH]; intros tl acc; [reflexivity|].
    cbn [py_star_cli_loop1 cli_loop]. cbv zeta. unfold prefilter.
    destruct tl as [tt ts ti tg tp ta]. cbn [t_total t_succeed t_insufficient t_invalid_gene t_invalid_pos t_antisense].
    repeat match goal with
    | |- context [if ?c then _ else _] =>
        lazymatch c with
        | context [convert] => fail
        | context [o_skip_failed] => fail
        | _ => destruct c eqn:?; cbn [negb andb orb] in *; try discriminate
        end
    end; try (cli_step IH; fail).
    all: destruct (convert Star genes chroms (r_dg r) (r_ag r) (r_L r) (r_R r)) as [recs|[| |]]; cbv iota;
      try destruct (o_skip_failed o); cli_step IH. }
  unfold py_star_cli, cli. cbv zeta. rewrite <- LOOP.
  destruct (py_star_cli_loop1 genes chroms o rows0 rows0 tally0 []) as [[t a]|x]; reflexivity.
Qed.

Lemma code_py_fc_cli_is_model_l : forall genes chroms o rows,
  py_fc_cli genes chroms o rows = cli FC genes chroms o rows.
Proof.
  intros genes chroms o rows0.
  assert (LOOP : forall (l : list row) tl acc,
    match py_fc_cli_loop1 genes chroms o rows0 l tl acc with Done r => r | Continue (t, a) => FOk (a, t) end
    = cli_loop FC genes chroms o l acc tl).
  { induction l as [|r rest IH]; intros tl acc; [reflexivity|].
    cbn [py_fc_cli_loop1 cli_loop]. cbv zeta. unfold prefilter.
    destruct tl as [tt ts ti tg tp ta]. cbn [t_total t_succeed t_insufficient t_invalid_gene t_invalid_pos t_antisense].
    repeat match goal with
    | |- context [if ?c then _ else _] =>
        lazymatch c with
        | context [convert] => fail
        | context [o_skip_failed] => fail
        | _ => destruct c eqn:?; cbn [negb andb orb] in *; try discriminate
        end
    end; try (cli_step IH; fail).
    all: destruct (convert FC genes chroms (r_dg r) (r_ag r) (r_L r) (r_R r)) as [recs|[| |]]; cbv iota;
      try destruct (o_skip_failed o); cli_step IH. }
  unfold py_fc_cli, cli. cbv zeta. rewrite <- LOOP.
  destruct (py_fc_cli_loop1 genes chroms o rows0 rows0 tally0 []) as [[t a]|x]; reflexivity.
Qed.

Lemma code_py_arriba_cli_is_model_l : forall genes chroms o rows,
  py_arriba_cli genes chroms o rows = cli Arriba genes chroms o rows.
Proof.
  intros genes chroms o rows0.
  assert (LOOP : forall (l : list row) tl acc,
    match py_arriba_cli_loop1 genes chroms o rows0 l tl acc with Done r => r | Continue (t, a) => FOk (a, t) end
    = cli_loop Arriba genes chroms o l acc tl).
  { induction l as [|r rest IH]; intros tl acc; [reflexivity|].
    cbn [py_arriba_cli_loop1 cli_loop]. cbv zeta. unfold prefilter.
    destruct tl as [tt ts ti tg tp ta]. cbn [t_total t_succeed t_insufficient t_invalid_gene t_invalid_pos t_antisense].
    repeat match goal with
    | |- context [if ?c then _ else _] =>
        lazymatch c with
        | context [convert] => fail
        | context [o_skip_failed] => fail
        | _ => destruct c eqn:?; cbn [negb andb orb] in *; try discriminate
        end
    end; try (cli_step IH; fail).
    all: destruct (convert Arriba genes chroms (r_dg r) (r_ag r) (r_L r) (r_R r)) as [recs|[| |]]; cbv iota;
      try destruct (o_skip_failed o); cli_step IH. }
  unfold py_arriba_cli, cli. cbv zeta. rewrite <- LOOP.
  destruct (py_arriba_cli_loop1 genes chroms o rows0 rows0 tally0 []) as [[t a]|x]; reflexivity.
Qed.

(* ------------------------------------------------------------------ get_upstream_exon_end / get_downstream_exon_start
   (None = the function's ValueError or the UnboundLocalError of `ind`).  Hypothesis: exon coordinates are
   non-negative and exons non-empty -- the code uses -1 as "not found", the model an option. *)
Definition exons_nonneg (ex : list exon) : Prop := Forall (fun x : exon => 0 <= fst x < snd x) ex.

Lemma code_upstream_exon_end_is_model_l : forall strand ex pos, exons_nonneg ex ->
  py_upstream_exon_end strand ex pos = upstream_exon_end strand ex pos.
Proof.
  intros strand ex pos H.
  assert (L1 : forall (l : list exon) ind,
    py_upstream_exon_end_loop1 strand ex pos l ind = Continue (upstream_end_plus l pos ind)).
  { induction l as [|x t IH]; intro ind; [reflexivity|]. cbn [py_upstream_exon_end_loop1 upstream_end_plus]. cbv zeta.
    destruct (snd x >? pos); [reflexivity | apply IH]. }
  assert (L2 : forall (l : list exon) ind,
    py_upstream_exon_end_loop2 strand ex pos l ind = Continue (upstream_end_minus l pos ind)).
  { induction l as [|x t IH]; intro ind; [reflexivity|]. cbn [py_upstream_exon_end_loop2 upstream_end_minus]. cbv zeta.
    destruct (fst x <? pos); [reflexivity | apply IH]. }
  assert (P1 : forall (l : list exon) ind w, Forall (fun x : exon => 0 <= fst x < snd x) l ->
    (forall v, ind = Some v -> 0 <= v) -> upstream_end_plus l pos ind = Some w -> 0 <= w).
  { induction l as [|x t IH]; intros ind w F I E; cbn [upstream_end_plus] in E; [apply I; exact E|].
    inversion F; subst. destruct (snd x >? pos); [apply I; exact E|].
    eapply IH; [eassumption | | exact E]. intros v Hv. inversion Hv; subst. lia. }
  assert (P2 : forall (l : list exon) ind w, Forall (fun x : exon => 0 <= fst x < snd x) l ->
    (forall v, ind = Some v -> 0 <= v) -> upstream_end_minus l pos ind = Some w -> 0 <= w).
  { induction l as [|x t IH]; intros ind w F I E; cbn [upstream_end_minus] in E; [apply I; exact E|].
    inversion F; subst. destruct (fst x <? pos); [apply I; exact E|].
    eapply IH; [eassumption | | exact E]. intros v Hv. inversion Hv; subst. lia. }
  unfold py_upstream_exon_end, upstream_exon_end. cbv zeta.
  destruct (strand =? 1).
  - rewrite L1. destruct (upstream_end_plus ex pos None) as [w|] eqn:E; [|reflexivity].
    pose proof (P1 ex None w H ltac:(intros; discriminate) E). replace (w =? -1) with false by lia. reflexivity.
  - rewrite L2. destruct (upstream_end_minus (rev ex) pos None) as [w|] eqn:E; [|reflexivity].
    pose proof (P2 (rev ex) None w (Forall_rev H) ltac:(intros; discriminate) E).
    replace (w =? -1) with false by lia. reflexivity.
Qed.

Lemma code_downstream_exon_start_is_model_l : forall strand ex pos, exons_nonneg ex ->
  py_downstream_exon_start strand ex pos = downstream_exon_start strand ex pos.
Proof.
  intros strand ex pos H.
  assert (L1 : forall (l : list exon), Forall (fun x : exon => 0 <= fst x < snd x) l ->
    match py_downstream_exon_start_loop1 strand ex pos l (-1) with Done r => r | Continue i => if i =? -1 then None else Some i end
    = downstream_start_plus l pos).
  { induction l as [|x t IH]; intro F; [reflexivity|]. inversion F; subst.
    cbn [py_downstream_exon_start_loop1 downstream_start_plus]. cbv zeta.
    destruct (fst x >=? pos); [replace (fst x =? -1) with false by lia; reflexivity | apply IH; assumption]. }
  assert (L2 : forall (l : list exon), Forall (fun x : exon => 0 <= fst x < snd x) l ->
    match py_downstream_exon_start_loop2 strand ex pos l (-1) with Done r => r | Continue i => if i =? -1 then None else Some i end
    = downstream_start_minus l pos).
  { induction l as [|x t IH]; intro F; [reflexivity|]. inversion F; subst.
    cbn [py_downstream_exon_start_loop2 downstream_start_minus]. cbv zeta.
    destruct (snd x - 1 <=? pos); [replace (snd x - 1 =? -1) with false by lia; reflexivity | apply IH; assumption]. }
  unfold py_downstream_exon_start, downstream_exon_start. cbv zeta.
  destruct (strand =? 1).
  - rewrite <- (L1 ex H). destruct (py_downstream_exon_start_loop1 strand ex pos ex (-1)); [|reflexivity].
    destruct (s =? -1); reflexivity.
  - rewrite <- (L2 (rev ex) (Forall_rev H)). destruct (py_downstream_exon_start_loop2 strand ex pos (rev ex) (-1)); [|reflexivity].
    destruct (s =? -1); reflexivity.
Qed.
