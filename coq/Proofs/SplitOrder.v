(* Order-theoretic facts about Model/Split.v: set_eq is an equivalence, to_int respects it, the
   length-then-lexicographic comparison is a strict total order, sorting yields a list ordered by it. *)
From Coq Require Import ZArith List Bool Lia ZifyBool Permutation.
From MoPep Require Import Model.Base Gen.HeaderCfg Model.Header Model.Filter Model.Split Proofs.FilterProofs.
Import ListNotations.
Open Scope Z_scope.

(* ---- membership ---- *)
Lemma mem_seq_In : forall x l, mem_seq x l = true <-> In x l.
Proof.
  induction l as [|y l IH]; cbn [mem_seq In]. split; [discriminate|tauto].
  rewrite orb_true_iff, IH, eq_seq_true. split; intros [H|H]; auto.
Qed.

Lemma subset_In : forall a b, subset a b = true <-> (forall x, In x a -> In x b).
Proof.
  unfold subset. intros a b. rewrite forallb_forall. split; intros H x Hx.
  - apply mem_seq_In. apply H. exact Hx.
  - apply mem_seq_In. apply H. exact Hx.
Qed.

Lemma set_eq_In : forall a b, set_eq a b = true <-> (forall x, In x a <-> In x b).
Proof.
  unfold set_eq. intros a b. rewrite andb_true_iff, !subset_In. split.
  - intros [H1 H2] x. split; auto.
  - intros H. split; intros x Hx; apply H; exact Hx.
Qed.

Lemma set_eq_refl : forall a, set_eq a a = true.
Proof. intro a. apply set_eq_In. tauto. Qed.
Lemma set_eq_sym : forall a b, set_eq a b = set_eq b a.
Proof. intros a b. unfold set_eq. apply andb_comm. Qed.
Lemma set_eq_trans : forall a b c, set_eq a b = true -> set_eq b c = true -> set_eq a c = true.
Proof.
  intros a b c H1 H2. rewrite set_eq_In in *. intro x. rewrite H1. apply H2.
Qed.
(* set_eq a b = true makes a and b interchangeable in any set_eq test *)
Lemma set_eq_cong_r : forall a b c, set_eq a b = true -> set_eq c a = set_eq c b.
Proof.
  intros a b c H. destruct (set_eq c a) eqn:E1, (set_eq c b) eqn:E2; auto.
  - rewrite (set_eq_trans c a b E1 H) in E2. discriminate.
  - rewrite set_eq_sym in H. rewrite (set_eq_trans c b a E2 H) in E1. discriminate.
Qed.
Lemma set_eq_cong_l : forall a b c, set_eq a b = true -> set_eq a c = set_eq b c.
Proof. intros a b c H. rewrite (set_eq_sym a c), (set_eq_sym b c). apply set_eq_cong_r. exact H. Qed.

Lemma mem_seq_cong : forall x a b, set_eq a b = true -> mem_seq x a = mem_seq x b.
Proof.
  intros x a b H. rewrite set_eq_In in H.
  destruct (mem_seq x a) eqn:E1, (mem_seq x b) eqn:E2; auto.
  - apply mem_seq_In in E1. apply H in E1. apply mem_seq_In in E1. congruence.
  - apply mem_seq_In in E2. apply H in E2. apply mem_seq_In in E2. congruence.
Qed.

(* ---- zsort: canonical form of a finite set of integers ---- *)
Fixpoint strict_sorted (l : list Z) : Prop :=
  match l with
  | [] => True
  | x :: t => (forall y, In y t -> x < y) /\ strict_sorted t
  end.

Lemma zinsert_In : forall x l y, In y (zinsert x l) <-> y = x \/ In y l.
Proof.
  induction l as [|z l IH]; intros y; cbn [zinsert In].
  - split; [intros [H|[]]; auto|intros [H|[]]; auto].
  - destruct (x <? z) eqn:E1; cbn [In].
    + split; [intros [H|H]; auto|intros [H|H]; auto].
    + destruct (x =? z) eqn:E2; cbn [In].
      * assert (x = z) by lia. subst. split; [auto|intros [H|H]; auto].
      * rewrite IH. split; [intros [H|[H|H]]; auto|intros [H|[H|H]]; auto].
Qed.

Lemma zinsert_sorted : forall x l, strict_sorted l -> strict_sorted (zinsert x l).
Proof.
  induction l as [|z l IH]; cbn [zinsert strict_sorted]; intros H.
  - split; [intros ? []|exact I].
  - destruct H as [H1 H2]. destruct (x <? z) eqn:E1; cbn [strict_sorted].
    + split; [|split; auto]. intros y [Hy|Hy]; [lia|]. specialize (H1 y Hy). lia.
    + destruct (x =? z) eqn:E2; cbn [strict_sorted]; [split; auto|].
      split; [|apply IH; exact H2]. intros y Hy. apply zinsert_In in Hy. destruct Hy as [Hy|Hy]; [lia|auto].
Qed.

Lemma zsort_In : forall l y, In y (zsort l) <-> In y l.
Proof.
  induction l as [|x l IH]; intros y; cbn [zsort fold_right In]. tauto.
  fold (zsort l). rewrite zinsert_In, IH. split; intros [H|H]; auto.
Qed.
Lemma zsort_sorted : forall l, strict_sorted (zsort l).
Proof. induction l as [|x l IH]; cbn [zsort fold_right]. exact I. apply zinsert_sorted. exact IH. Qed.

Lemma strict_sorted_unique : forall a b, strict_sorted a -> strict_sorted b ->
  (forall y, In y a <-> In y b) -> a = b.
Proof.
  induction a as [|x a IH]; destruct b as [|z b]; cbn [strict_sorted]; intros Ha Hb H; auto.
  - exfalso. apply (H z). left. reflexivity.
  - exfalso. apply (H x). left. reflexivity.
  - destruct Ha as [Ha1 Ha2], Hb as [Hb1 Hb2].
    assert (x = z).
    { assert (Hx : In x (z :: b)) by (apply H; left; reflexivity).
      assert (Hz : In z (x :: a)) by (apply H; left; reflexivity).
      destruct Hx as [Hx|Hx]; [auto|]. destruct Hz as [Hz|Hz]; [auto|].
      specialize (Ha1 z Hz). specialize (Hb1 x Hx). lia. }
    subst z. f_equal. apply IH; auto. intro y. split; intro Hy.
    + assert (Hy' : In y (x :: b)) by (apply H; right; exact Hy).
      destruct Hy' as [Hy'|Hy']; auto. subst y. specialize (Ha1 x Hy). lia.
    + assert (Hy' : In y (x :: a)) by (apply H; right; exact Hy).
      destruct Hy' as [Hy'|Hy']; auto. subst y. specialize (Hb1 x Hy). lia.
Qed.

(* ---- to_int respects set_eq ---- *)
Definition lvl (lv : levels) (s : str) : res Z :=
  match level_of_str lv s with Some z => Ok z | None => Err EKey end.

Lemma mapM_lvl : forall lv S,
  (mapM (lvl lv) S = Err EKey /\ exists s, In s S /\ level_of_str lv s = None) \/
  (exists zs, mapM (lvl lv) S = Ok zs /\
              (forall z, In z zs <-> exists s, In s S /\ level_of_str lv s = Some z) /\
              (forall s, In s S -> level_of_str lv s <> None)).
Proof.
  induction S as [|s S IH]; cbn [mapM].
  - right. exists []. split; auto. split. intros z. split; [intros []|intros [s [[] _]]]. intros s [].
  - destruct (level_of_str lv s) as [z|] eqn:E.
    + assert (Hv : lvl lv s = Ok z) by (unfold lvl; rewrite E; reflexivity). rewrite Hv. cbn [bind].
      destruct IH as [[H1 [s' [H2 H3]]]|[zs [H1 [H2 H3]]]]; rewrite H1; cbn [bind].
      * left. split; auto. exists s'. split; [right|]; auto.
      * right. exists (z :: zs). split; auto. split.
        -- intros z'. cbn [In]. rewrite H2. split.
           ++ intros [Hz|[s' [Hs Hl]]]; [subst; exists s; split; [left|]; auto|exists s'; split; [right|]; auto].
           ++ intros [s' [[Hs|Hs] Hl]]; [subst; left; congruence|right; exists s'; auto].
        -- intros s' [Hs|Hs]; [subst; congruence|auto].
    + assert (Hv : lvl lv s = Err EKey) by (unfold lvl; rewrite E; reflexivity). rewrite Hv. cbn [bind].
      left. split; auto. exists s. split; [left|]; auto.
Qed.

Lemma mapM_lvl_cong : forall lv A B, set_eq A B = true ->
  match mapM (lvl lv) A, mapM (lvl lv) B with
  | Ok za, Ok zb => zsort za = zsort zb
  | Err ea, Err eb => ea = eb
  | _, _ => False
  end.
Proof.
  intros lv A B H. rewrite set_eq_In in H.
  destruct (mapM_lvl lv A) as [[Ha [sa [Hsa Hna]]]|[za [Ha [Hza Hoka]]]];
  destruct (mapM_lvl lv B) as [[Hb [sb [Hsb Hnb]]]|[zb [Hb [Hzb Hokb]]]]; rewrite Ha, Hb; auto.
  - apply (Hokb sa); [apply H; exact Hsa|exact Hna].
  - apply (Hoka sb); [apply H; exact Hsb|exact Hnb].
  - apply strict_sorted_unique; try apply zsort_sorted.
    intro y. rewrite !zsort_In, Hza, Hzb. split; intros [s [Hs Hl]]; exists s; split; auto; apply H; auto.
Qed.

Lemma level_of_set_cong : forall lv A B, set_eq A B = true -> level_of_set lv A = level_of_set lv B.
Proof.
  induction lv as [|[[s|l] z] lv IH]; intros A B H; cbn [level_of_set]; auto.
  rewrite (set_eq_cong_r A B l H). destruct (set_eq l B); auto.
Qed.

Lemma to_int_cong : forall lv A B, set_eq A B = true -> to_int lv A = to_int lv B.
Proof.
  intros lv A B H. unfold to_int. rewrite (level_of_set_cong lv A B H).
  destruct (level_of_set lv B); auto.
  pose proof (mapM_lvl_cong lv A B H) as Hc. unfold lvl in Hc.
  destruct (mapM _ A) as [za|ea], (mapM _ B) as [zb|eb]; cbn [bind]; try contradiction; congruence.
Qed.

(* ---- the comparison of rank lists ---- *)
Lemma zlen_length : forall {A} (l : list A), zlen l = Z.of_nat (length l).
Proof. induction l; cbn [zlen length]. reflexivity. rewrite IHl. lia. Qed.

Lemma lex_gt_asym : forall a b, lex_gt a b = true -> lex_gt b a = false.
Proof.
  induction a as [|x a IH]; destruct b as [|y b]; cbn [lex_gt]; intros H; try discriminate; auto.
  destruct (y <? x) eqn:E1.
  - replace (x <? y) with false by lia. replace (y <? x) with true by lia. reflexivity.
  - destruct (x <? y) eqn:E2; try discriminate. replace (y <? x) with false by lia.
    replace (x <? y) with false by lia. apply IH. exact H.
Qed.

Lemma lex_le_trans : forall a b c, length a = length b -> length b = length c ->
  lex_gt a b = false -> lex_gt b c = false -> lex_gt a c = false.
Proof.
  induction a as [|x a IH]; destruct b as [|y b]; destruct c as [|z c]; cbn [lex_gt length];
    intros L1 L2 H1 H2; try discriminate; auto.
  destruct (y <? x) eqn:E1; try discriminate.
  destruct (z <? y) eqn:E2; try discriminate.
  destruct (x <? y) eqn:E3.
  - replace (z <? x) with false by lia. replace (x <? z) with true by (destruct (y <? z) eqn:E4; lia). reflexivity.
  - destruct (y <? z) eqn:E4.
    + replace (z <? x) with false by lia. replace (x <? z) with true by lia. reflexivity.
    + replace (z <? x) with false by lia. replace (x <? z) with false by lia.
      apply (IH b c); auto.
Qed.

Lemma lex_antisym : forall a b, length a = length b -> lex_gt a b = false -> lex_gt b a = false -> a = b.
Proof.
  induction a as [|x a IH]; destruct b as [|y b]; cbn [lex_gt length]; intros L H1 H2; try discriminate; auto.
  destruct (y <? x) eqn:E1; try discriminate. destruct (x <? y) eqn:E2; try discriminate.
  assert (x = y) by lia. subst. f_equal. apply IH; auto.
Qed.

Lemma ints_gt_asym : forall a b, ints_gt a b = true -> ints_gt b a = false.
Proof.
  unfold ints_gt. intros a b H.
  destruct (zlen b <? zlen a) eqn:E1.
  - replace (zlen a <? zlen b) with false by lia. reflexivity.
  - destruct (zlen a <? zlen b) eqn:E2; try discriminate. apply lex_gt_asym. exact H.
Qed.

Lemma ints_le_trans : forall a b c, ints_gt a b = false -> ints_gt b c = false -> ints_gt a c = false.
Proof.
  unfold ints_gt. intros a b c H1 H2. rewrite !zlen_length in *.
  destruct (Z.of_nat (length b) <? Z.of_nat (length a)) eqn:E1; try discriminate.
  destruct (Z.of_nat (length c) <? Z.of_nat (length b)) eqn:E2; try discriminate.
  destruct (Z.of_nat (length a) <? Z.of_nat (length b)) eqn:E3.
  - replace (Z.of_nat (length c) <? Z.of_nat (length a)) with false by lia.
    replace (Z.of_nat (length a) <? Z.of_nat (length c)) with true by lia. reflexivity.
  - destruct (Z.of_nat (length b) <? Z.of_nat (length c)) eqn:E4.
    + replace (Z.of_nat (length c) <? Z.of_nat (length a)) with false by lia.
      replace (Z.of_nat (length a) <? Z.of_nat (length c)) with true by lia. reflexivity.
    + replace (Z.of_nat (length c) <? Z.of_nat (length a)) with false by lia.
      replace (Z.of_nat (length a) <? Z.of_nat (length c)) with false by lia.
      apply (lex_le_trans a b c); auto; lia.
Qed.

Lemma ints_antisym : forall a b, ints_gt a b = false -> ints_gt b a = false -> a = b.
Proof.
  unfold ints_gt. intros a b H1 H2. rewrite !zlen_length in *.
  destruct (Z.of_nat (length b) <? Z.of_nat (length a)) eqn:E1; try discriminate.
  destruct (Z.of_nat (length a) <? Z.of_nat (length b)) eqn:E2; try discriminate.
  apply lex_antisym; auto. lia.
Qed.

(* ---- "a is not of lower priority than b": the code's own `>` answers False ---- *)
Definition src_le (lv : levels) (A B : list str) : Prop := src_gt lv A B = Ok false.

Lemma src_gt_cong_l : forall lv A A' B, set_eq A A' = true -> src_gt lv A B = src_gt lv A' B.
Proof.
  intros lv A A' B H. unfold src_gt. rewrite (set_eq_cong_l A A' B H), (to_int_cong lv A A' H). reflexivity.
Qed.
Lemma src_gt_cong_r : forall lv A B B', set_eq B B' = true -> src_gt lv A B = src_gt lv A B'.
Proof.
  intros lv A B B' H. unfold src_gt. rewrite (set_eq_cong_r B B' A H), (to_int_cong lv B B' H). reflexivity.
Qed.

Lemma src_le_refl : forall lv A, src_le lv A A.
Proof. intros. unfold src_le, src_gt. rewrite set_eq_refl. reflexivity. Qed.

Lemma src_le_trans : forall lv A B C, src_le lv A B -> src_le lv B C -> src_le lv A C.
Proof.
  unfold src_le. intros lv A B C H1 H2.
  destruct (set_eq A B) eqn:Eab.
  - rewrite (src_gt_cong_l lv A B C Eab). exact H2.
  - destruct (set_eq B C) eqn:Ebc.
    + rewrite <- (src_gt_cong_r lv A B C Ebc). exact H1.
    + unfold src_gt in *. rewrite Eab in H1. rewrite Ebc in H2.
      destruct (to_int lv A) as [ra|]; cbn [bind] in *; try discriminate.
      destruct (to_int lv B) as [rb|]; cbn [bind] in *; try discriminate.
      destruct (to_int lv C) as [rc|]; cbn [bind] in *; try discriminate.
      destruct (set_eq A C); auto. f_equal.
      injection H1 as H1'. injection H2 as H2'. apply (ints_le_trans ra rb rc); auto.
Qed.

Lemma src_gt_true_le : forall lv A B, src_gt lv A B = Ok true -> src_le lv B A.
Proof.
  unfold src_le, src_gt. intros lv A B H. rewrite (set_eq_sym B A).
  destruct (set_eq A B); try discriminate.
  destruct (to_int lv A) as [ra|]; cbn [bind] in *; try discriminate.
  destruct (to_int lv B) as [rb|]; cbn [bind] in *; try discriminate.
  inversion H. f_equal. apply ints_gt_asym. exact H1.
Qed.

(* ---- sorting is a permutation ---- *)
Lemma insert_info_perm : forall lv x l r, insert_info lv x l = Ok r -> Permutation (x :: l) r.
Proof.
  induction l as [|y t IH]; cbn [insert_info]; intros r H.
  - inversion H. apply Permutation_refl.
  - destruct (info_lt lv x y) as [b|]; cbn [bind] in H; try discriminate.
    destruct b.
    + inversion H. apply Permutation_refl.
    + destruct (insert_info lv x t) as [r'|] eqn:E; cbn [bind] in H; try discriminate.
      inversion H; subst r. eapply Permutation_trans. apply perm_swap. apply perm_skip. apply IH. reflexivity.
Qed.

Lemma sort_infos_perm : forall lv l r, sort_infos lv l = Ok r -> Permutation l r.
Proof.
  induction l as [|x t IH]; cbn [sort_infos]; intros r H.
  - inversion H. constructor.
  - destruct (sort_infos lv t) as [s|] eqn:E; cbn [bind] in H; try discriminate.
    apply insert_info_perm in H. eapply Permutation_trans; [|exact H]. apply perm_skip. apply IH. reflexivity.
Qed.


(* ---- sorting yields an ordered list ---- *)
Fixpoint sorted_le (lv : levels) (l : list sinfo) : Prop :=
  match l with
  | [] => True
  | x :: t => (forall e, In e t -> src_le lv (si_sources x) (si_sources e)) /\ sorted_le lv t
  end.

Lemma info_lt_true : forall lv x y, info_lt lv x y = Ok true -> src_le lv (si_sources x) (si_sources y).
Proof.
  unfold info_lt, src_le. intros lv x y H.
  destruct (src_gt lv (si_sources x) (si_sources y)) as [g|]; cbn [bind] in H; try discriminate.
  inversion H. destruct g; cbn in H1; try discriminate. reflexivity.
Qed.

Lemma info_eq_sources : forall a b, info_eq a b = true -> set_eq (si_sources a) (si_sources b) = true.
Proof. unfold info_eq. intros a b H. apply andb_true_iff in H. tauto. Qed.

Lemma info_lt_false : forall lv x y, info_lt lv x y = Ok false -> src_le lv (si_sources y) (si_sources x).
Proof.
  unfold info_lt. intros lv x y H.
  destruct (src_gt lv (si_sources x) (si_sources y)) as [g|] eqn:Eg; cbn [bind] in H; try discriminate.
  inversion H. apply negb_false_iff in H1. apply orb_true_iff in H1. destruct H1 as [H1|H1].
  - subst g. apply src_gt_true_le. exact Eg.
  - apply info_eq_sources in H1. unfold src_le, src_gt. rewrite set_eq_sym, H1. reflexivity.
Qed.

Lemma insert_info_sorted : forall lv x l r,
  insert_info lv x l = Ok r -> sorted_le lv l -> sorted_le lv r.
Proof.
  induction l as [|y t IH]; cbn [insert_info]; intros r H Hs.
  - inversion H. cbn. split; [intros ? []|exact I].
  - destruct (info_lt lv x y) as [b|] eqn:Elt; cbn [bind] in H; try discriminate.
    destruct Hs as [Hs1 Hs2]. destruct b.
    + inversion H; subst r. cbn [sorted_le]. split; [|split; auto].
      pose proof (info_lt_true _ _ _ Elt) as Hxy.
      intros e [He|He]; [subst; exact Hxy|]. eapply src_le_trans; [exact Hxy|apply Hs1; exact He].
    + destruct (insert_info lv x t) as [r'|] eqn:Ei; cbn [bind] in H; try discriminate.
      inversion H; subst r. cbn [sorted_le]. split; [|apply (IH r' eq_refl Hs2)].
      intros e He. assert (Hp : In e (x :: t)).
      { apply (Permutation_in e (Permutation_sym (insert_info_perm lv x t r' Ei))). exact He. }
      destruct Hp as [Hp|Hp]; [subst e; apply (info_lt_false _ _ _ Elt)|apply Hs1; exact Hp].
Qed.

Lemma sort_infos_sorted : forall lv l r, sort_infos lv l = Ok r -> sorted_le lv r.
Proof.
  induction l as [|x t IH]; cbn [sort_infos]; intros r H.
  - inversion H. exact I.
  - destruct (sort_infos lv t) as [s|] eqn:E; cbn [bind] in H; try discriminate.
    apply (insert_info_sorted lv x s r H). apply IH. reflexivity.
Qed.

(* the first element of the sorted list is of highest priority among ALL elements *)
Lemma sort_head_minimal : forall lv l h t,
  sort_infos lv l = Ok (h :: t) ->
  In h l /\ forall e, In e l -> src_le lv (si_sources h) (si_sources e).
Proof.
  intros lv l h t H. pose proof (sort_infos_perm _ _ _ H) as Hp.
  pose proof (sort_infos_sorted _ _ _ H) as Hs. destruct Hs as [Hs _]. split.
  - apply (Permutation_in h (Permutation_sym Hp)). left. reflexivity.
  - intros e He. apply (Permutation_in e Hp) in He. destruct He as [He|He].
    + subst e. apply src_le_refl.
    + apply Hs. exact He.
Qed.
