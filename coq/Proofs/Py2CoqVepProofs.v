(* Equality of REDItoolsRecord.get_valid_subs, as GENERATED from /repo's source by harness/translate/py2coq.py
   (coq/Gen/Py_REDItoolsParser.v), with Vep.get_valid_subs.  docs/py2coq.md. *)
From Coq Require Import ZArith List Bool Lia ZifyBool.
From MoPep Require Import Model.Base Model.PyRt Model.Vep Gen.Py_REDItoolsParser.
Import ListNotations.
Open Scope Z_scope.

Lemma fold_left_add : forall (l : list Z) a, fold_left Z.add l a = a + sumZ l.
Proof. induction l as [|x t IH]; intro a; cbn [fold_left sumZ fold_right]; [lia|]. rewrite IH. unfold sumZ. lia. Qed.

Lemma py_index_of_nat : forall A (l : list A) k, py_index l (Z.of_nat k) = nth_error l k.
Proof. intros. unfold py_index. destruct (Z.of_nat k <? 0) eqn:C; [lia|]. rewrite Nat2Z.id. reflexivity. Qed.

Lemma code_get_valid_subs_is_model_l : forall th r, py_get_valid_subs th r = get_valid_subs th r.
Proof.
  intros th r.
  (* the code stops at the first failing substitution, the model reports a failure of any of them: same result *)
  assert (L : forall total (l : list (Z * Z)) acc,
    match py_get_valid_subs_loop1 th r total l acc with Done x => x | Continue a => Some a end
    = match valid_subs_loop th (r_counts r) total l with None => None | Some vs => Some (acc ++ vs) end).
  { intros total. induction l as [|[rf al] t IH]; intro acc.
    - cbn [py_get_valid_subs_loop1 valid_subs_loop]. rewrite app_nil_r. reflexivity.
    - cbn [py_get_valid_subs_loop1 valid_subs_loop snd]. cbv zeta.
      destruct (base_order al) as [k|]; [|reflexivity].
      rewrite py_index_of_nat. destruct (nth_error (r_counts r) k) as [rc|]; [|reflexivity].
      destruct (rc <? th_alt th) eqn:C1.
      + rewrite IH. destruct (valid_subs_loop th (r_counts r) total t); reflexivity.
      + destruct (total =? 0) eqn:C2.
        * destruct (valid_subs_loop th (r_counts r) total t); reflexivity.
        * destruct (rc * th_fden th <? th_fnum th * total) eqn:C3; rewrite IH;
            destruct (valid_subs_loop th (r_counts r) total t); try reflexivity.
          rewrite <- app_assoc. reflexivity. }
  unfold py_get_valid_subs, get_valid_subs. cbv zeta.
  rewrite fold_left_add. replace (0 + sumZ (r_counts r)) with (sumZ (r_counts r)) by lia.
  destruct (sumZ (r_counts r) <? th_rna th); [reflexivity|].
  destruct (r_gcov r) as [c|]; cbn [negb]; [|reflexivity].
  destruct (c =? -1) eqn:C1; cbn [negb].
  - rewrite L. cbn [app]. destruct (valid_subs_loop _ _ _ _); reflexivity.
  - destruct (c <? th_dna th); [reflexivity|].
    rewrite L. cbn [app]. destruct (valid_subs_loop _ _ _ _); reflexivity.
Qed.

(* ------------------------------------------------------------------ the per-transcript loop of
   REDItoolsRecord.convert_to_variant_records = Vep.redi_loop in mode 1 (a non-intron ValueError is re-raised) *)
From MoPep Require Import Gen.Py_REDItoolsParser.

Lemma code_redi_convert_is_model_l : forall th r txs, py_redi_convert th r txs = redi_loop 1 th r txs.
Proof.
  intros th r txs0.
  (* inner loop: one record per valid substitution *)
  assert (IN : forall pos (x : rtx) (l : list (Z * Z)) acc,
    py_redi_convert_loop1 th r txs0 pos x l acc
    = Continue (acc ++ map (fun s => (x_id x, pos, fst s, snd s)) l)).
  { intros pos x. induction l as [|s t IH]; intro acc.
    - cbn [py_redi_convert_loop1 map]. rewrite app_nil_r. reflexivity.
    - cbn [py_redi_convert_loop1 map]. cbv zeta. rewrite IH, <- app_assoc. reflexivity. }
  assert (OUT : forall (l : list rtx) acc,
    match py_redi_convert_loop2 th r txs0 l acc with Done x => x | Continue a => Ok a end
    = bind (redi_loop 1 th r l) (fun more => Ok (acc ++ more))).
  { induction l as [|x t IH]; intro acc.
    - cbn [py_redi_convert_loop2 redi_loop bind]. rewrite app_nil_r. reflexivity.
    - cbn [py_redi_convert_loop2 redi_loop]. cbv zeta.
      destruct (get_transcript_index (g_strand (x_gene x)) (x_exons x) (r_pos r - 1)) as [i| |]; cbv iota.
      + unfold bind at 2. destruct (g2gene (x_gene x) (r_pos r - 1)) as [pos| | | |]; try reflexivity.
        destruct (get_valid_subs th r) as [vs|]; [|reflexivity].
        rewrite IN, IH. unfold bind. destruct (redi_loop 1 th r t); try reflexivity.
        rewrite <- app_assoc. reflexivity.
      + reflexivity.
      + apply IH. }
  unfold py_redi_convert. cbv zeta. rewrite OUT. unfold bind. cbn [app].
  destruct (redi_loop 1 th r txs0); reflexivity.
Qed.
