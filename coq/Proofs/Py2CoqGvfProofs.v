(* Equality of GVFIndex.iterate_pointer (a generator: byte accounting over the lines of a GVF file), as GENERATED
   from /repo's source by harness/translate/py2coq.py (coq/Gen/Py_GVFIndex.v), with Gvf.iterate_pointer.
   docs/py2coq.md. *)
From Coq Require Import ZArith List Bool Lia.
From MoPep Require Import Model.Base Model.PyRt Model.Gvf Gen.Py_GVFIndex.
Import ListNotations.
Open Scope Z_scope.

Lemma zlen_length_g : forall A (l : list A), zlen l = Z.of_nat (length l).
Proof. induction l as [|x t IH]; [reflexivity|]. cbn [zlen length]. rewrite IH. lia. Qed.

(* the two locals cur_key / pointer of the code are the model's single optional `cur` *)
Definition gv_inv (ck : option seq) (p : option ptr) (cur : option ptr) : Prop :=
  match cur with
  | None => ck = None /\ p = None
  | Some (k, se) => ck = Some k /\ p = Some (k, se)
  end.

(* the statement after the loop: `if pointer is not None: yield pointer` *)
Definition gv_fin (st : Z * option seq * option ptr * list ptr) : res (list ptr) :=
  let '(_, _, p, ys) := st in match p with Some x => Ok (ys ++ [x]) | None => Ok ys end.

Lemma code_iterate_pointer_is_model_l : forall R P key_of ic lines,
  py_iterate_pointer R P key_of ic lines = iterate_pointer R P key_of ic lines.
Proof.
  intros R P key_of ic lines.
  assert (loop_spec : forall (l : list seq) off ck p ys cur, gv_inv ck p cur ->
      match py_iterate_pointer_loop1 R P key_of ic lines l off ck p ys with Done r => r | Continue st => gv_fin st end
      = bind (iter_ptr R P key_of ic l off cur) (fun rest => Ok (ys ++ rest))).
  {
    induction l as [|ln t IH]; intros off ck p ys cur I.
    - cbn [py_iterate_pointer_loop1 iter_ptr gv_fin bind].
      destruct cur as [[k se]|]; destruct I as [-> ->]; [reflexivity | rewrite app_nil_r; reflexivity].
    - cbn [py_iterate_pointer_loop1 iter_ptr]. cbv zeta. rewrite zlen_length_g.
      unfold bind at 2. destruct (utf8_decode ln) as [tx|e]; [|reflexivity].
      destruct (starts_with_chr HASH tx); [apply IH; exact I|].
      unfold bind at 2. destruct (P ic tx) as [r|e]; [|reflexivity].
      unfold bind at 2. destruct (key_of r) as [k|e]; [|reflexivity].
      destruct cur as [[k0 [s0 e0]]|]; cbn [gv_inv] in I; destruct I as [-> ->].
      + destruct (eq_seq k0 k) eqn:E; cbn [negb fst snd].
        * apply IH. cbn [gv_inv]. split; reflexivity.
        * rewrite (IH _ _ _ _ (Some (k, (off, off + Z.of_nat (length ln))))) by (cbn [gv_inv]; split; reflexivity).
          unfold bind. destruct (iter_ptr R P key_of ic t _ _); [|reflexivity].
          rewrite <- app_assoc. reflexivity.
      + cbn [negb]. apply IH. cbn [gv_inv]. split; reflexivity.
  }
  unfold py_iterate_pointer, iterate_pointer. cbv zeta.
  pose proof (loop_spec lines 0 None None [] None (conj eq_refl eq_refl)) as L.
  cbn [app] in L.
  assert (E : bind (iter_ptr R P key_of ic lines 0 None) (fun rest => Ok rest) = iter_ptr R P key_of ic lines 0 None)
    by (unfold bind; destruct (iter_ptr R P key_of ic lines 0 None); reflexivity).
  rewrite E in L. rewrite <- L.
  destruct (py_iterate_pointer_loop1 R P key_of ic lines lines 0 None None []) as [[[[a b] c] d]|r]; [|reflexivity].
  unfold gv_fin. destruct c; reflexivity.
Qed.
