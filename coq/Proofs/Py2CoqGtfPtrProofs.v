(* Equality of gtf/GTFPointer.py iterate_pointer (a generator: byte accounting over the lines of a GTF file), as
   GENERATED from /repo's source by harness/translate/py2coq.py (coq/Gen/Py_GTFPointer.v), with GtfPtr.iterate.
   Hypothesis: no line is empty (a line read from a file handle has at least its terminator / one byte): the code
   tests `if cur_gene_pointer:` through GTFPointer.__len__ (end - start > 0) where the model tests "is set".
   docs/py2coq.md. *)
From Coq Require Import ZArith List Bool Lia ZifyBool.
From MoPep Require Import Model.Base Model.PyRt Model.GtfPtr Gen.Py_GTFPointer.
Import ListNotations.
Open Scope Z_scope.

Lemma zlen_length_p : forall A (l : list A), zlen l = Z.of_nat (length l).
Proof. induction l as [|x t IH]; [reflexivity|]. cbn [zlen length]. rewrite IH. lia. Qed.

Definition gp_ptr_ok (e : Z) (o : option ptr) : Prop :=
  match o with Some p => p_start p < p_end p <= e | None => True end.

(* invariant of the loop state: pointers are non-empty and end at or before the current offset; a current
   transcript id comes with a current transcript pointer *)
Definition gp_inv (st : ist) : Prop :=
  0 <= i_end st /\ gp_ptr_ok (i_end st) (i_gene st) /\ gp_ptr_ok (i_end st) (i_tx st) /\
  (forall t, i_txid st = Some t -> i_tx st <> None).

Definition gp_nonempty (l : line) : Prop := fst l <> [].

Lemma gp_truthy_ok : forall e o, gp_ptr_ok e o ->
  match o with Some p => 0 <? p_end p - p_start p | None => false end
  = match o with Some _ => true | None => false end.
Proof. intros e [p|] H; [cbn [gp_ptr_ok] in H; lia | reflexivity]. Qed.

Lemma gp_add_tx_bounds : forall t p, p_start (add_tx t p) = p_start p /\ p_end (add_tx t p) = p_end p.
Proof. intros t p. unfold add_tx. destruct (memZ t (p_txs p)); split; reflexivity. Qed.

Lemma gp_ptr_mono : forall e e' o, e <= e' -> gp_ptr_ok e o -> gp_ptr_ok e' o.
Proof. intros e e' [p|] H K; cbn [gp_ptr_ok] in *; [lia | exact I]. Qed.

Lemma gp_ptr_add : forall e t o, gp_ptr_ok e o -> gp_ptr_ok e (option_map (add_tx t) o).
Proof.
  intros e t [p|] K; cbn [option_map gp_ptr_ok] in *; [|exact I].
  destruct (gp_add_tx_bounds t p) as [-> ->]. exact K.
Qed.

Lemma gp_step_inv : forall st ln, gp_inv st -> gp_nonempty ln -> gp_inv (istep st ln).
Proof.
  intros st [b k] (E & G & T & X) N. unfold gp_nonempty in N. cbn [fst] in N.
  assert (L : 0 < zlen b) by (destruct b; [congruence | cbn [zlen]; rewrite zlen_length_p; lia]).
  assert (G' : gp_ptr_ok (i_end st + zlen b) (i_gene st)) by (eapply gp_ptr_mono; [|exact G]; lia).
  assert (T' : gp_ptr_ok (i_end st + zlen b) (i_tx st)) by (eapply gp_ptr_mono; [|exact T]; lia).
  unfold istep, gp_inv. cbn [fst snd]. cbv zeta.
  destruct k as [|g|t].
  - cbn [i_end i_gene i_tx i_txid]. split; [lia|]. split; [exact G'|]. split; [exact T' | exact X].
  - cbn [i_end i_gene i_tx i_txid]. split; [lia|]. split; [cbn [gp_ptr_ok p_start p_end]; lia|].
    split; [exact I | intros t H; discriminate].
  - destruct (match i_txid st with Some t' => t' =? t | None => false end) eqn:S;
      cbn [i_end i_gene i_tx i_txid]; (split; [lia|]); (split; [apply gp_ptr_add; exact G'|]).
    + split.
      * destruct (i_tx st) as [p|]; cbn [option_map gp_ptr_ok set_end p_start p_end] in *; [lia | exact I].
      * intros t0 _. destruct (i_txid st) as [t'|]; [|discriminate].
        specialize (X t' eq_refl). destruct (i_tx st); [cbn [option_map]; congruence | congruence].
    + split; [cbn [gp_ptr_ok p_start p_end]; lia | intros t0 _; congruence].
Qed.

Lemma code_gtf_iterate_pointer_is_model_l : forall lines, Forall gp_nonempty lines ->
  py_gtf_iterate_pointer lines = POk (iterate lines).
Proof.
  intros lines F0.
  (* one iteration of the generated loop = one step of the model (the local cur_gene_id is not observed) *)
  assert (gp_step_eq : forall lines0 ln (t : list line) st gid, gp_inv st -> gp_nonempty ln ->
    exists gid',
      py_gtf_iterate_pointer_loop1 lines0 (ln :: t) (i_end st) gid (i_gene st) (i_txid st) (i_tx st) (i_out st)
      = let st' := istep st ln in
        py_gtf_iterate_pointer_loop1 lines0 t (i_end st') gid' (i_gene st') (i_txid st') (i_tx st') (i_out st')).
  {
    intros lines0 [b k] t st gid (E & G & T & X) N.
    pose proof (gp_truthy_ok _ _ G) as TG. pose proof (gp_truthy_ok _ _ T) as TT.
    cbn [py_gtf_iterate_pointer_loop1]. cbv zeta. cbn [fst snd].
    unfold istep. cbn [fst snd]. cbv zeta. rewrite zlen_length_p.
    (* `line_end += len(line)` and `line_end = len(line) + line_end` are the same code *)
    rewrite ?(Z.add_comm (Z.of_nat (length b)) (i_end st)).
    destruct k as [|g|tx]; cbv iota.
    - exists gid. reflexivity.
    - rewrite TG, TT.
      destruct (i_gene st) as [gp|]; destruct (i_tx st) as [tp|]; cbn [opt_list app];
        eexists; rewrite <- ?app_assoc, ?app_nil_r; cbn [app]; reflexivity.
    - destruct (i_txid st) as [t'|] eqn:TI.
      + destruct (t' =? tx) eqn:S; cbn [negb].
        * specialize (X t' eq_refl). destruct (i_tx st) as [tp|]; [|congruence].
          rewrite TG. destruct (i_gene st) as [gp|]; cbn [option_map]; eexists;
            replace t' with tx by lia; reflexivity.
        * rewrite TT, TG.
          destruct (i_tx st) as [tp|]; destruct (i_gene st) as [gp|]; cbn [option_map opt_list];
            eexists; rewrite ?app_nil_r; reflexivity.
      + cbn [negb]. rewrite TT, TG.
        destruct (i_tx st) as [tp|]; destruct (i_gene st) as [gp|]; cbn [option_map opt_list];
          eexists; rewrite ?app_nil_r; reflexivity.
  }
  assert (gp_loop_spec : forall lines0 (l : list line) st gid, gp_inv st -> Forall gp_nonempty l ->
    exists gid',
      py_gtf_iterate_pointer_loop1 lines0 l (i_end st) gid (i_gene st) (i_txid st) (i_tx st) (i_out st)
      = (let st' := fold_left istep l st in
         Continue (i_end st', gid', i_gene st', i_txid st', i_tx st', i_out st'))
      /\ gp_inv (fold_left istep l st)).
  {
    intros lines0. induction l as [|ln t IH]; intros st gid I F.
    - exists gid. split; [reflexivity | exact I].
    - inversion F as [|? ? N F']; subst.
      destruct (gp_step_eq lines0 ln t st gid I N) as [g1 E1]. cbv zeta in E1.
      destruct (IH (istep st ln) g1 (gp_step_inv _ _ I N) F') as [g2 [E2 I2]].
      exists g2. split; [rewrite E1; exact E2 | exact I2].
  }
  unfold py_gtf_iterate_pointer, iterate. cbv zeta.
  assert (I0 : gp_inv init_ist) by (unfold gp_inv, init_ist; cbn; repeat split; try lia; intros; discriminate).
  destruct (gp_loop_spec lines lines init_ist None I0 F0) as [g [E (E' & G & T & X)]].
  cbn [init_ist i_end i_gene i_tx i_txid i_out] in E. cbv zeta in E. rewrite E.
  rewrite (gp_truthy_ok _ _ G), (gp_truthy_ok _ _ T). unfold finish.
  destruct (i_gene _) as [gp|]; destruct (i_tx _) as [tp|]; cbn [opt_list app];
    rewrite <- ?app_assoc, ?app_nil_r; reflexivity.
Qed.
