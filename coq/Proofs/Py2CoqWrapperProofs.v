(* Equality of the control flow of call_variant_peptides_wrapper (three try/except regions, flags, skip / re-raise,
   `continue`, denylist update, order of add_peptide_anno), as GENERATED from /repo's source by
   harness/translate/py2coq.py (coq/Gen/Py_wrapper.v), with Wrapper.wrapper shape_fixed projected on
   (peptide_anno, success_flags).  docs/py2coq.md. *)
From Coq Require Import ZArith List Bool Lia.
From MoPep Require Import Model.Base Model.PyRt Model.Wrapper Gen.Py_wrapper.
Import ListNotations.
Open Scope Z_scope.

(* the transcript the generated function's arguments stand for *)
Definition wr_tx (has_tx inner : bool) (um : unit_) (fs cs : list unit_) : txin :=
  {| t_id := 0; t_invalid := false; t_empty := false; t_acc_invalid := false;
     t_main := if has_tx && inner then Some um else None; t_fusions := fs; t_circs := cs |}.

Definition wr_proj (r : res wst) : res (pmap * flags3) :=
  match r with Ok st => Ok (w_anno st, w_flags st) | Raise e => Raise e end.

Lemma fusion_keeps_main : forall sh skip l st st',
  fusion_loop sh skip l st = Ok st' -> w_main_peptides st' = w_main_peptides st.
Proof.
  intros sh skip. induction l as [|u r IH]; intros st st' H; cbn [fusion_loop] in H.
  - inversion H. reflexivity.
  - destruct (call_unit u []).
    + apply IH in H. exact H.
    + destruct skip; [apply IH in H; exact H|].
      destruct (sh_fusion_reraise sh); [discriminate | apply IH in H; exact H].
Qed.

Lemma code_wrapper_is_model_l : forall skip has_tx inner um fs cs,
  py_wrapper skip has_tx inner um fs cs = wr_proj (wrapper shape_fixed skip (wr_tx has_tx inner um fs cs)).
Proof.
  intros skip has_tx inner um fs cs.
  (* fusion loop, reached without / with a bound peptide_map *)
  assert (F1 : forall (l : list unit_) st,
    py_wrapper_loop1 skip has_tx inner um fs cs [] l (w_anno st) (w_flags st)
    = match fusion_loop shape_fixed skip l st with
      | Raise e => Done (Raise e) | Ok st' => Continue (w_anno st', w_flags st') end).
  { induction l as [|u r IH]; intro st; [reflexivity|].
    cbn [py_wrapper_loop1 fusion_loop]. cbv zeta.
    destruct (call_unit u []) as [m|].
    - rewrite <- IH. reflexivity.
    - destruct skip; cbn [shape_fixed sh_fusion_reraise sh_fusion_flag]; [rewrite <- IH; reflexivity | reflexivity]. }
  assert (F3 : forall (l : list unit_) st pm, exists pm',
    py_wrapper_loop3 skip has_tx inner um fs cs [] l (w_anno st) pm (w_flags st)
    = match fusion_loop shape_fixed skip l st with
      | Raise e => Done (Raise e) | Ok st' => Continue (w_anno st', pm', w_flags st') end).
  { induction l as [|u r IH]; intros st pm; [exists pm; reflexivity|].
    cbn [py_wrapper_loop3 fusion_loop]. cbv zeta.
    destruct (call_unit u []) as [m|].
    - match goal with |- context [fusion_loop _ _ r ?s] => destruct (IH s m) as [pm' E] end.
      exists pm'. rewrite <- E. reflexivity.
    - destruct skip; cbn [shape_fixed sh_fusion_reraise sh_fusion_flag].
      + match goal with |- context [fusion_loop _ _ r ?s] => destruct (IH s pm) as [pm' E] end.
        exists pm'. rewrite <- E. reflexivity.
      + exists pm. reflexivity. }
  (* circRNA loop: the handler `continue`s, so the statements after the try only run after a success *)
  assert (C2 : forall deny (l : list unit_) st,
    py_wrapper_loop2 skip has_tx inner um fs cs deny l (w_flags st) (w_anno st)
    = match circ_loop shape_fixed skip deny l st with
      | Raise e => Done (Raise e) | Ok st' => Continue (w_flags st', w_anno st') end).
  { intros deny. induction l as [|c r IH]; intro st; [reflexivity|].
    cbn [py_wrapper_loop2 circ_loop circ_post]. cbv zeta.
    destruct (call_unit c deny) as [m|]; unfold circ_post; cbn [w_cg w_pm w_anno w_flags w_main_peptides w_graphs].
    - rewrite <- IH. reflexivity.
    - destruct skip; cbn [shape_fixed sh_circ_reraise sh_circ_flag sh_circ_cont]; [rewrite <- IH; reflexivity | reflexivity]. }
  assert (C4 : forall deny (l : list unit_) st pm, exists pm',
    py_wrapper_loop4 skip has_tx inner um fs cs deny l pm (w_flags st) (w_anno st)
    = match circ_loop shape_fixed skip deny l st with
      | Raise e => Done (Raise e) | Ok st' => Continue (pm', w_flags st', w_anno st') end).
  { intros deny. induction l as [|c r IH]; intros st pm; [exists pm; reflexivity|].
    cbn [py_wrapper_loop4 circ_loop circ_post]. cbv zeta.
    destruct (call_unit c deny) as [m|]; unfold circ_post; cbn [w_cg w_pm w_anno w_flags w_main_peptides w_graphs].
    - match goal with |- context [circ_loop _ _ _ r ?s] => destruct (IH s m) as [pm' E] end.
      exists pm'. rewrite <- E. reflexivity.
    - destruct skip; cbn [shape_fixed sh_circ_reraise sh_circ_flag sh_circ_cont].
      + match goal with |- context [circ_loop _ _ _ r ?s] => destruct (IH s pm) as [pm' E] end.
        exists pm'. rewrite <- E. reflexivity.
      + exists pm. reflexivity. }
  unfold py_wrapper, wrapper, wr_tx, do_main, wr_proj. cbn [t_main t_fusions t_circs]. cbv zeta.
  (* the part shared by the paths on which peptide_map is unbound *)
  assert (TAIL : forall st, w_main_peptides st = None ->
    match py_wrapper_loop1 skip has_tx inner um fs cs [] fs (w_anno st) (w_flags st) with
    | Done r => r
    | Continue (a, f) =>
        match py_wrapper_loop2 skip has_tx inner um fs cs [] cs f a with
        | Done r => r | Continue (f', a') => Ok (a', f') end
    end
    = match match fusion_loop shape_fixed skip fs st with
            | Raise e => Raise e
            | Ok st2 => circ_loop shape_fixed skip (extra_deny st2) cs st2 end with
      | Ok st' => Ok (w_anno st', w_flags st') | Raise e => Raise e end).
  { intros st MP. rewrite F1. destruct (fusion_loop shape_fixed skip fs st) as [st2|e] eqn:EF; [|reflexivity].
    apply fusion_keeps_main in EF. unfold extra_deny. rewrite EF, MP.
    rewrite C2. destruct (circ_loop shape_fixed skip [] cs st2); reflexivity. }
  unfold w0 in *. cbn [w_anno w_flags w_main_peptides w_pm w_cg w_graphs].
  destruct has_tx; cbn [andb]; [destruct inner|].
  - destruct (call_unit um []) as [m|].
    + (* main call succeeded: main_peptides = keys, the circRNA callers see them as extra denylist *)
      match goal with |- context [fusion_loop _ _ fs ?s] => destruct (F3 fs s m) as [pm' E]; cbn [w_anno w_flags] in E end.
      rewrite E. match goal with |- context [fusion_loop _ _ fs ?s] => destruct (fusion_loop shape_fixed skip fs s) as [st2|e] eqn:EF end; [|reflexivity].
      pose proof (fusion_keeps_main _ _ _ _ _ EF) as MP. cbn [w_main_peptides] in MP.
      unfold extra_deny. rewrite MP.
      destruct (keys m) as [|k ks]; cbn [app].
      * destruct (C4 [] cs st2 pm') as [pm2 E2]. rewrite E2. destruct (circ_loop shape_fixed skip [] cs st2); reflexivity.
      * destruct (C4 (k :: ks) cs st2 pm') as [pm2 E2]. rewrite E2. destruct (circ_loop shape_fixed skip (k :: ks) cs st2); reflexivity.
    + destruct skip; cbn [shape_fixed sh_main_reraise sh_main_flag]; [|reflexivity].
      match goal with |- context [fusion_loop _ _ fs ?s] => rewrite <- (TAIL s eq_refl) end. reflexivity.
  - match goal with |- context [fusion_loop _ _ fs ?s] => rewrite <- (TAIL s eq_refl) end. reflexivity.
  - match goal with |- context [fusion_loop _ _ fs ?s] => rewrite <- (TAIL s eq_refl) end. reflexivity.
Qed.
