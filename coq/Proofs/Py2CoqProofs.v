(* Equality of the functions GENERATED from /repo's source by harness/translate/py2coq.py
   (coq/Gen/Py_*.v) with the hand-written models (Model/Anno.v).  See docs/py2coq.md.

   The scripts are written to survive harmless rewrites of the Python (renamed locals, reordered
   independent assignments, `x = x + 1` vs `x += 1`, re-associated arithmetic): loops are handled by
   induction over the list, branches by case analysis on every test of either side (py_cases) and
   arithmetic by lia -- never by syntactic reflexivity on a whole body. *)
From Coq Require Import ZArith List Bool Lia ZifyBool.
From MoPep Require Import Model.Base Model.PyRt Model.Anno
                          Gen.Py_TranscriptAnnotationModel Gen.Py_GenomicAnnotation.
Import ListNotations.
Open Scope Z_scope.

(* ------------------------------------------------------------------ generic list facts *)
Lemma nth_error_last_cons : forall A (x : A) l d,
  nth_error (x :: l) (length (x :: l) - 1)%nat = Some (last (x :: l) d).
Proof.
  intros A x l d. revert x. induction l as [|y t IH]; intro x; [reflexivity|].
  specialize (IH y). cbn [length] in *. replace (S (S (length t)) - 1)%nat with (S (length t)) by lia.
  replace (S (length t) - 1)%nat with (length t) in IH by lia.
  cbn [nth_error]. rewrite IH. reflexivity.
Qed.

Lemma nth_error_last_rev : forall A (l : list A),
  nth_error l (length l - 1)%nat = hd_error (rev l).
Proof.
  intros A l. destruct l as [|x t]; [reflexivity|].
  rewrite (nth_error_last_cons A x t x).
  assert (H : forall (l : list A) d, l <> [] -> hd_error (rev l) = Some (last l d)).
  { induction l as [|a l IH]; intros d N; [congruence|].
    destruct l as [|b l']; [reflexivity|].
    cbn [rev] in *. specialize (IH d ltac:(congruence)).
    destruct (rev l' ++ [b]) eqn:E; [destruct (rev l'); discriminate|].
    cbn [app hd_error] in *. exact IH. }
  symmetry. apply H. congruence.
Qed.

(* ------------------------------------------------------------------ tactics *)
Ltac py_if :=
  match goal with
  | |- context [if ?b then _ else _] => let C := fresh "C" in destruct b eqn:C
  end.
Ltac py_opt :=
  match goal with
  | |- context [match ?o with Some _ => _ | None => _ end] => let O := fresh "O" in destruct o eqn:O
  end.
Ltac py_close := try reflexivity; try congruence; try lia; try (f_equal; lia); try (f_equal; f_equal; lia).
Ltac py_cases := repeat (first [py_opt | py_if]); py_close.

(* NOTE on structure: the per-loop facts are `assert`ed INSIDE each target's lemma, so that when a
   regenerated Gen file breaks a script the failing line always belongs to the lemma that the
   obligation in Props/C1x.v `exact`s (harness/check.py maps failing line -> lemma -> theorem). *)

(* ------------------------------------------------------------------ (1) get_transcript_index = g2tx *)
Lemma code_get_transcript_index_is_model_l : forall st ex g,
  get_transcript_index st ex g = g2tx st ex g.
Proof.
  intros st ex g.
  (* strand == 1 loop followed by `return index` *)
  assert (L1 : forall (l : list exon) idx,
    match get_transcript_index_loop1 st ex g l idx with Done r => r | Continue i => Ok i end
    = g2tx_plus l g idx).
  { induction l as [|[s e] t IH]; intro idx; [reflexivity|].
    cbn [get_transcript_index_loop1 g2tx_plus fst snd]. cbv zeta.
    repeat py_if; rewrite ?IH; py_close. }
  (* strand == -1 loop (over the reversed list) followed by `return index` *)
  assert (L2 : forall (l : list exon) idx,
    match get_transcript_index_loop2 st ex g l idx with Done r => r | Continue i => Ok i end
    = g2tx_minus l g idx).
  { induction l as [|[s e] t IH]; intro idx; [reflexivity|].
    cbn [get_transcript_index_loop2 g2tx_minus fst snd]. cbv zeta.
    repeat py_if; rewrite ?IH; py_close. }
  unfold get_transcript_index, g2tx, first_start, last_end. cbv zeta.
  destruct ex as [|x t]; [reflexivity|].
  rewrite (nth_error_last_cons _ x t (0, 0)). cbn [nth_error hd].
  specialize (L1 (x :: t)). specialize (L2 (rev (x :: t))).
  repeat py_if; rewrite <- ?L1, <- ?L2; py_close.
Qed.

(* ------------------------------------------------------------------ (2) coordinate_transcript_to_genomic = tx2g *)
Lemma fold_tx_len : forall (ex : list exon) acc,
  fold_left (fun a (x : exon) => a + (snd x - fst x)) ex acc = acc + tx_len ex.
Proof.
  induction ex as [|x t IH]; intro acc; cbn [fold_left tx_len]; [lia|].
  rewrite IH. unfold exon_len. lia.
Qed.

Lemma code_coordinate_transcript_to_genomic_is_model_l : forall st ex i,
  coordinate_transcript_to_genomic st ex i = tx2g st ex i.
Proof.
  intros st ex i0.
  (* a loop that finishes falls through to the final raise *)
  assert (L1 : forall (l : list exon) i,
    match coordinate_transcript_to_genomic_loop1 st ex i0 l i with Done r => r | Continue _ => Err EStrand end
    = tx2g_plus l i).
  { induction l as [|[s e] t IH]; intro i; [reflexivity|].
    cbn [coordinate_transcript_to_genomic_loop1 tx2g_plus fst snd]. cbv zeta.
    repeat py_if; rewrite ?IH; py_close. }
  assert (L2 : forall (l : list exon) i,
    match coordinate_transcript_to_genomic_loop2 st ex i0 l i with Done r => r | Continue _ => Err EStrand end
    = tx2g_minus l i).
  { induction l as [|[s e] t IH]; intro i; [reflexivity|].
    cbn [coordinate_transcript_to_genomic_loop2 tx2g_minus fst snd]. cbv zeta.
    repeat py_if; rewrite ?IH; py_close. }
  unfold coordinate_transcript_to_genomic, tx2g. cbv zeta.
  rewrite fold_tx_len. replace (0 + tx_len ex) with (tx_len ex) by lia.
  specialize (L1 ex i0). specialize (L2 (rev ex) i0).
  destruct (tx_len ex <? i0) eqn:C0; [reflexivity|].
  destruct (st =? 1) eqn:C1.
  - rewrite <- L1. destruct (coordinate_transcript_to_genomic_loop1 st ex i0 ex i0); [|reflexivity].
    py_cases.
  - destruct (st =? -1) eqn:C2; [|reflexivity].
    rewrite <- L2. destruct (coordinate_transcript_to_genomic_loop2 st ex i0 (rev ex) i0); reflexivity.
Qed.

Lemma code_coordinate_genomic_to_gene_is_model_l : forall st gs ge g,
  coordinate_genomic_to_gene st gs ge g = g2gene st gs ge g.
Proof. intros. unfold coordinate_genomic_to_gene, g2gene. cbv zeta. py_cases. Qed.

Lemma code_coordinate_gene_to_genomic_is_model_l : forall st gs ge i,
  coordinate_gene_to_genomic st gs ge i = gene2g st gs ge i.
Proof. intros. unfold coordinate_gene_to_genomic, gene2g. cbv zeta. py_cases. Qed.

(* ------------------------------------------------------------------ (3) get_cds_start_index = cds_start_index *)
Lemma code_get_cds_start_index_is_model_l : forall st ex cs,
  get_cds_start_index st ex cs = cds_start_index st ex cs.
Proof.
  intros st ex cs.
  (* neither loop can raise once self.cds is known to be non-empty; both always end with `Continue` *)
  assert (L1 : forall c0 cs' (l : list exon) acc, cs = c0 :: cs' ->
    get_cds_start_index_loop1 st ex cs l acc = Continue (cds_start_plus l (c_start c0) acc)).
  { intros c0 cs' l acc E. subst cs. revert acc.
    induction l as [|x t IH]; intro acc; [reflexivity|].
    cbn [get_cds_start_index_loop1 cds_start_plus nth_error]. cbv zeta.
    repeat py_if; rewrite ?IH; py_close. }
  assert (L2 : forall cN (l : list exon), hd_error (rev cs) = Some cN -> forall acc,
    get_cds_start_index_loop2 st ex cs l acc = Continue (cds_start_minus l (c_end cN) acc)).
  { intros cN l H. induction l as [|x t IH]; intro acc; [reflexivity|].
    cbn [get_cds_start_index_loop2 cds_start_minus]. rewrite nth_error_last_rev, H. cbv zeta.
    repeat py_if; rewrite ?IH; py_close. }
  unfold get_cds_start_index, cds_start_index. cbv zeta.
  destruct (st =? 1) eqn:C1.
  - destruct cs as [|c0 cs']; [reflexivity|]. cbn [nth_error].
    rewrite (L1 c0 cs') by reflexivity. py_cases.
  - destruct (st =? -1) eqn:C2; [|reflexivity].
    rewrite nth_error_last_rev. destruct (rev cs) as [|cN r] eqn:R; [reflexivity|]. cbn [hd_error].
    rewrite (L2 cN) by reflexivity.
    unfold py_or_optZ. py_cases.
Qed.

(* ------------------------------------------------------------------ is_exonic = exonic *)
Lemma code_is_exonic_is_model_l : forall ex g, is_exonic ex g = exonic ex g.
Proof.
  intros ex0 g.
  assert (L : forall l : list exon,
    match is_exonic_loop1 ex0 g l with Done r => r | Continue _ => false end = exonic l g).
  { induction l as [|[s e] t IH]; [reflexivity|].
    cbn [is_exonic_loop1 exonic fst snd]. cbv zeta.
    repeat py_if; rewrite ?IH; py_close. }
  unfold is_exonic. apply L.
Qed.

(* ------------------------------------------------------------------ coordinate_gene_to_transcript = gene2tx
   (the two method calls are mapped to the MODELS of the callees, which are tied to their own code above) *)
Lemma code_coordinate_gene_to_transcript_is_model_l : forall gst gs ge member tst ex i,
  coordinate_gene_to_transcript gst gs ge member tst ex i = gene2tx gst gs ge member tst ex i.
Proof.
  intros. unfold coordinate_gene_to_transcript, gene2tx. cbv zeta.
  destruct (gene2g gst gs ge i); [|reflexivity].
  destruct member; cbn [negb]; [|reflexivity].
  destruct (g2tx tst ex a); reflexivity.
Qed.
