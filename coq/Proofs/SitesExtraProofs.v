From Coq Require Import ZArith List Bool Lia ZifyBool Arith Sorted.
From MoPep Require Import Model.Base Model.Rule Model.Digest Model.SitesExtra Proofs.DigestProofs.
Import ListNotations.
Open Scope Z_scope.

Lemma stop_sites_from_spec : forall s k i,
  In i (stop_sites_from s k) <-> exists n, i = (k + n)%nat /\ nth_error s n = Some STAR_code.
Proof.
  induction s as [|c s IH]; intros k i; cbn [stop_sites_from].
  - split; [intros [] | intros (n & _ & H); destruct n; discriminate].
  - destruct (c =? STAR_code) eqn:E.
    + cbn [In]. rewrite IH. split.
      * intros [<- | (n & -> & H)].
        -- exists O. split; [lia|]. cbn. f_equal. lia.
        -- exists (S n). split; [lia | exact H].
      * intros (n & -> & H). destruct n as [|n]; [left; lia|].
        right. exists n. split; [lia | exact H].
    + rewrite IH. split.
      * intros (n & -> & H). exists (S n). split; [lia | exact H].
      * intros (n & -> & H). destruct n as [|n].
        -- cbn in H. injection H as H. lia.
        -- exists n. split; [lia | exact H].
Qed.

Lemma stop_sites_spec s i : In i (stop_sites s) <-> nth_error s i = Some STAR_code.
Proof.
  unfold stop_sites. rewrite stop_sites_from_spec. split.
  - intros (n & -> & H). exact H.
  - intros H. exists i. split; [lia | exact H].
Qed.

Lemma insert_u_In x l y : In y (insert_u x l) <-> y = x \/ In y l.
Proof.
  induction l as [|z l IH]; cbn [insert_u].
  - cbn. intuition.
  - destruct (Nat.ltb x z) eqn:E1; [cbn; intuition|].
    destruct (Nat.eqb x z) eqn:E2.
    + apply Nat.eqb_eq in E2. subst. cbn. intuition.
    + cbn [In]. rewrite IH. intuition.
Qed.

Lemma sort_u_In l y : In y (sort_u l) <-> In y l.
Proof.
  induction l as [|x l IH]; cbn [sort_u fold_right]; [tauto|].
  fold (sort_u l). rewrite insert_u_In, IH. cbn. intuition.
Qed.

Lemma insert_u_sorted x l : Sorted lt l -> Sorted lt (insert_u x l).
Proof.
  induction l as [|z l IH]; intros H; cbn [insert_u].
  - repeat constructor.
  - destruct (Nat.ltb x z) eqn:E1.
    + apply Nat.ltb_lt in E1. constructor; [exact H | constructor; exact E1].
    + destruct (Nat.eqb x z) eqn:E2; [exact H|].
      apply Nat.ltb_ge in E1. apply Nat.eqb_neq in E2.
      inversion H as [|? ? Hs Hh]; subst. constructor; [apply IH; exact Hs|].
      destruct l as [|w l]; cbn [insert_u].
      * constructor. lia.
      * destruct (Nat.ltb x w); [constructor; lia|].
        destruct (Nat.eqb x w); inversion Hh; subst; constructor; lia.
Qed.

Lemma sort_u_sorted l : Sorted lt (sort_u l).
Proof.
  induction l as [|x l IH]; cbn [sort_u fold_right]; [constructor|].
  apply insert_u_sorted. exact IH.
Qed.

(* find_all_cleave_and_stop_sites: strictly increasing (hence duplicate free) list of exactly the
   cleavage sites and the boundaries before (if not at 0) and after (if not at the end) every '*' *)
Theorem all_cleave_stop_spec r exc given s j :
  In j (find_all_cleave_and_stop_sites r exc given s) <->
  In j (sites_given r exc given s) \/
  ((0 < j)%nat /\ nth_error s j = Some STAR_code) \/
  (exists i, j = S i /\ nth_error s i = Some STAR_code /\ (i < length s - 1)%nat).
Proof.
  unfold find_all_cleave_and_stop_sites. rewrite sort_u_In, !in_app_iff, in_map_iff.
  rewrite filter_In, stop_sites_spec, Nat.ltb_lt.
  split.
  - intros [H | [[H1 H2] | (i & <- & Hi)]]; auto.
    right. right. apply filter_In in Hi as [Hi1 Hi2]. apply stop_sites_spec in Hi1.
    apply Nat.ltb_lt in Hi2. eauto.
  - intros [H | [[H1 H2] | (i & -> & Hi1 & Hi2)]]; auto.
    right. right. exists i. split; auto. apply filter_In. rewrite stop_sites_spec, Nat.ltb_lt. auto.
Qed.

Theorem all_cleave_stop_sorted r exc given s :
  Sorted lt (find_all_cleave_and_stop_sites r exc given s).
Proof. apply sort_u_sorted. Qed.

(* find_first_enzymatic_cleave_site = first site of the suffix, shifted *)
Theorem first_cleave_spec r exc start s z :
  find_first_enzymatic_cleave_site r exc start s = z ->
  (z = -1 /\ sites r exc (skipn start s) = []) \/
  (exists x rest, sites r exc (skipn start s) = x :: rest /\ z = Z.of_nat (x + start)).
Proof.
  unfold find_first_enzymatic_cleave_site. destruct (sites r exc (skipn start s)) as [|x rest]; intros <-.
  - left. auto.
  - right. eauto.
Qed.
