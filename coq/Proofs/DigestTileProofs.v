(* C10: the zero-missed-cleavage pieces of the digestion model TILE the protein: read in order they
   concatenate back to the sequence (no residue lost, none duplicated), and every residue position
   lies in exactly one piece.  Pure list facts over Model.Digest; no axioms. *)
From Coq Require Import ZArith List Bool Lia Arith.
From MoPep Require Import Model.Base Model.Rule Model.Digest Proofs.DigestProofs.
Import ListNotations.

(* consecutive pieces  s[a:b1], s[b1:b2], ...  over a boundary list *)
Fixpoint tiles (s : seq) (a : nat) (rest : list nat) : list seq :=
  match rest with
  | [] => []
  | b :: r => firstn (b - a) (skipn a s) :: tiles s b r
  end.

(* non-decreasing chain starting at a *)
Inductive chain_le : nat -> list nat -> Prop :=
| chain_nil a : chain_le a []
| chain_cons a b l : (a <= b)%nat -> chain_le b l -> chain_le a (b :: l).

Lemma firstn_add_skipn {A} : forall m n (t : list A),
  firstn m t ++ firstn n (skipn m t) = firstn (m + n) t.
Proof.
  induction m as [|m IH]; intros n t; cbn; [reflexivity|].
  destruct t as [|x t]; cbn; [destruct n; reflexivity|]. f_equal. apply IH.
Qed.

Lemma skipn_add {A} : forall a m (s : list A), skipn m (skipn a s) = skipn (a + m) s.
Proof.
  induction a as [|a IH]; intros m s; cbn [skipn plus]; [reflexivity|].
  destruct s as [|x s]; [destruct m; reflexivity|]. cbn [skipn]. apply IH.
Qed.

Lemma piece_app {A} (s : list A) a b c : (a <= b)%nat -> (b <= c)%nat ->
  firstn (b - a) (skipn a s) ++ firstn (c - b) (skipn b s) = firstn (c - a) (skipn a s).
Proof.
  intros Hab Hbc.
  replace (skipn b s) with (skipn (b - a) (skipn a s)).
  - rewrite firstn_add_skipn. f_equal. lia.
  - rewrite skipn_add. f_equal. lia.
Qed.

Lemma tiles_concat s : forall rest a, chain_le a rest ->
  concat (tiles s a rest) = firstn (last rest a - a) (skipn a s).
Proof.
  induction rest as [|b rest IH]; intros a H; cbn [tiles concat last].
  - rewrite Nat.sub_diag. reflexivity.
  - inversion H as [|a' b' l' Hab Hrest]; subst.
    rewrite (IH b Hrest).
    assert (Hlast : (b <= last rest b)%nat).
    { clear -Hrest. revert b Hrest. induction rest as [|c rest IHr]; intros b Hc; cbn [last]; [lia|].
      inversion Hc; subst. destruct rest as [|d rest'] eqn:E; [cbn; lia|].
      rewrite <- E in *. specialize (IHr c ltac:(assumption)).
      assert (last rest b = last rest c) as ->.
      { rewrite E. clear. revert d. induction rest' as [|e r IH2]; intros d; cbn; [reflexivity|].
        destruct r; [reflexivity|]. apply (IH2 e). }
      lia. }
    assert (last (b :: rest) a = last rest b) as Hl.
    { destruct rest as [|c rest']; [reflexivity|]. cbn [last].
      clear. revert c. induction rest' as [|e r IH2]; intros c; cbn; [reflexivity|].
      destruct r; [reflexivity|]. apply (IH2 e). }
    cbn [last] in Hl. rewrite Hl. apply piece_app; assumption.
Qed.

Lemma incr_chain n : forall l i, incr_from i l -> (forall j, In j l -> (j <= n)%nat) -> (i <= n)%nat ->
  chain_le i (l ++ [n]).
Proof.
  induction l as [|j l IH]; intros i H Hb Hi; cbn.
  - constructor; [exact Hi | constructor].
  - inversion H; subst. constructor; [lia|].
    apply IH; [assumption | intros k Hk; apply Hb; right; exact Hk | apply Hb; left; reflexivity].
Qed.

Lemma sites_le_length r exc s j : In j (sites r exc s) -> (j <= length s)%nat.
Proof.
  intros H. assert (In j (raw_sites r s)) as H'.
  { unfold sites in H. destruct exc; [apply filter_In in H; tauto | exact H]. }
  apply raw_sites_ctx_range in H'. lia.
Qed.

Lemma last_snoc {A} (l : list A) x d : last (l ++ [x]) d = x.
Proof. induction l as [|y l IH]; cbn; [reflexivity|]. destruct (l ++ [x]) eqn:E; [destruct l; discriminate|]. exact IH. Qed.

(* the boundary list used by cleave is  0 :: sites ++ [|s|]  (Model.Digest.bounds_of) *)
Theorem zero_miss_pieces_tile r exc s :
  concat (tiles s 0 (sites r exc s ++ [length s])) = s.
Proof.
  rewrite tiles_concat.
  - rewrite last_snoc, Nat.sub_0_r. cbn [skipn]. apply firstn_all.
  - apply incr_chain; [apply sites_increasing | intros j Hj; eapply sites_le_length; exact Hj | lia].
Qed.

(* tiles are exactly the pieces cleave examines with zero missed cleavages *)
Lemma tiles_are_pieces s : forall rest a,
  tiles s a rest = map (fun ab => piece s (fst ab) (snd ab)) (combine (a :: rest) rest).
Proof.
  induction rest as [|b rest IH]; intros a; cbn [tiles combine map]; [reflexivity|].
  unfold piece at 1. cbn [fst snd]. f_equal. apply IH.
Qed.

Theorem bounds_tile r exc s :
  bounds_of r exc s = 0%nat :: sites r exc s ++ [length s] /\
  concat (map (fun ab => piece s (fst ab) (snd ab))
              (combine (bounds_of r exc s) (tl (bounds_of r exc s)))) = s.
Proof.
  split; [reflexivity|]. unfold bounds_of. cbn [tl].
  rewrite <- tiles_are_pieces. apply zero_miss_pieces_tile.
Qed.

(* total length is conserved *)
Lemma length_concat_sum {A} (l : list (list A)) : list_sum (map (@length A) l) = length (concat l).
Proof. induction l as [|p l IH]; cbn; [reflexivity|]. rewrite app_length. f_equal. exact IH. Qed.

Corollary tiles_length r exc s :
  list_sum (map (@length Z) (tiles s 0 (sites r exc s ++ [length s]))) = length s.
Proof. rewrite length_concat_sum, zero_miss_pieces_tile. reflexivity. Qed.

(* non-vacuity: a concrete sequence with two sites *)
Example tiles_example :
  tiles [1;2;3;4;5]%Z 0 ([2;4] ++ [5])%nat = [[1;2];[3;4];[5]]%Z.
Proof. reflexivity. Qed.

(* every digest product is a contiguous substring of the protein and passes the limits; hence
   (pool_spec) every pool member is a substring of a prepared protein or the I->L image of one *)
Lemma piece_substring (s : seq) a b : exists u v, s = u ++ piece s a b ++ v.
Proof.
  exists (firstn a s), (skipn (b - a) (skipn a s)). unfold piece.
  rewrite (firstn_skipn (b - a) (skipn a s)). symmetry. apply firstn_skipn.
Qed.

Theorem cleave_products_substrings wt water lim r exc nf s p :
  In p (cleave wt water lim r exc nf s) ->
  (exists u v, s = u ++ p ++ v) /\ keep wt water lim p = true.
Proof.
  intros H. apply cleave_spec in H. destruct H as (pre & a & rest & b & _ & _ & Hk & Hp).
  split; [|exact Hk].
  destruct (piece_substring s a b) as (u & v & Huv).
  destruct Hp as [->|(_ & _ & HM & ->)]; [exists u, v; exact Huv|].
  destruct (piece s a b) as [|c q] eqn:E; [discriminate HM|]. cbn [tl].
  exists (u ++ [c]), v. rewrite Huv, <- app_assoc. reflexivity.
Qed.

(* provenance of the canonical pool: every member is (the I->L image of) a product p that occurs as a
   contiguous stretch of one of the proteins, holds no stop symbol, and passes the limits *)
Lemma memZ_app x (a b : list Z) : memZ x (a ++ b) = memZ x a || memZ x b.
Proof. induction a as [|y a IH]; cbn; [reflexivity|]. rewrite IH, orb_assoc. reflexivity. Qed.

Theorem pool_members_come_from_proteins wt water lim r exc prots q :
  In q (pool wt water lim r exc prots) ->
  exists pr p, In pr prots /\ (q = p \/ q = i2l p) /\
    (exists u v, fst pr = u ++ p ++ v) /\ memZ STAR_code p = false /\ keep wt water lim p = true.
Proof.
  intros H. apply pool_spec in H. destruct H as (pr & p & Hpr & Hp & Hq).
  exists pr, p. split; [exact Hpr|]. split; [exact Hq|].
  apply cleave_products_substrings in Hp. destruct Hp as [(u & v & Huv) Hk].
  destruct (lstrip_X_spec (fst pr)) as (n & Hn & _).
  destruct (cut_at_stop_spec (lstrip_X (fst pr))) as (t & Ht & Hstop & _).
  unfold prep in Huv. split; [|split; [|exact Hk]].
  - exists (repeat X_code n ++ u), (v ++ t).
    rewrite Hn at 1. rewrite Ht at 1. rewrite Huv. rewrite <- !app_assoc. reflexivity.
  - rewrite Huv, !memZ_app in Hstop. apply orb_false_iff in Hstop as [_ Hstop].
    apply orb_false_iff in Hstop as [Hstop _]. exact Hstop.
Qed.

(* the known-start digest is the cds_start_NF digest plus Met-removed forms of N-terminal products:
   nothing is lost by knowing the start, and every extra product q sits right after the initial M *)
Theorem cleave_nf_subset wt water lim r exc s p :
  In p (cleave wt water lim r exc true s) -> In p (cleave wt water lim r exc false s).
Proof.
  rewrite !cleave_spec. intros (pre & a & rest & b & HB & Hb & Hk & Hp).
  exists pre, a, rest, b. repeat split; auto.
  destruct Hp as [Hp|(_ & Hnf & _)]; [left; exact Hp | discriminate Hnf].
Qed.

Theorem cleave_known_start_extra wt water lim r exc s p :
  In p (cleave wt water lim r exc false s) -> ~ In p (cleave wt water lim r exc true s) ->
  exists v, s = M_code :: p ++ v.
Proof.
  rewrite !cleave_spec. intros (pre & a & rest & b & HB & Hb & Hk & Hp) Hnot.
  destruct Hp as [Hp|(Hpre & _ & HM & Hp)].
  - exfalso. apply Hnot. exists pre, a, rest, b. repeat split; auto.
  - subst pre. unfold bounds_of in HB. cbn [app] in HB. injection HB as Ha _. subst a.
    unfold piece in HM, Hp. rewrite Nat.sub_0_r in HM, Hp. cbn [skipn] in HM, Hp.
    destruct (firstn b s) as [|c q] eqn:E; [discriminate HM|]. cbn [tl] in Hp. subst p.
    cbn [starts_with_M] in HM. apply Z.eqb_eq in HM. subst c.
    exists (skipn b s). rewrite <- (firstn_skipn b s) at 1. rewrite E. reflexivity.
Qed.
