(* Proofs about Model/Batch.v (property C06). *)
From Coq Require Import ZArith List Bool Lia Permutation.
From MoPep Require Import Model.Base Model.Batch.
Import ListNotations.
Open Scope Z_scope.

Lemma zlen_nonneg : forall A (l : list A), 0 <= zlen l.
Proof. induction l; cbn [zlen]; lia. Qed.

Lemma zlen_app1 : forall A (l : list A) x, zlen (l ++ [x]) = zlen l + 1.
Proof. induction l; intros; cbn [zlen app]; [reflexivity | rewrite IHl; lia]. Qed.

Lemma zlen_zero : forall A (l : list A), zlen l <= 0 -> l = [].
Proof. intros A [|x l] H; [reflexivity|]. cbn [zlen] in H. pose proof (zlen_nonneg A l). lia. Qed.

Lemma dispatched_all : forall threads p, 1 <= threads -> zlen p <= threads -> dispatched threads p = p.
Proof.
  intros threads p Ht Hp. unfold dispatched. destruct (1 <? threads) eqn:E; [reflexivity|].
  apply Z.ltb_ge in E. assert (threads = 1) by lia. subst.
  destruct p as [|a [|b p]]; try reflexivity.
  cbn [zlen] in Hp. pose proof (zlen_nonneg _ p). lia.
Qed.

Lemma nonskipped_cons : forall x l,
    nonskipped (x :: l) = (if snd x then [] else [fst x]) ++ nonskipped l.
Proof. intros [t [|]] l; reflexivity. Qed.

Section Fix.
  Variable threads n : Z.
  Hypothesis Ht : 1 <= threads.

  Lemma fix_main : forall l s,
      b_i s + zlen l = n -> zlen (b_pending s) < threads ->
      concat (b_out (fold_left (step_fix threads n) l s)) ++ b_pending (fold_left (step_fix threads n) l s)
      = concat (b_out s) ++ b_pending s ++ nonskipped l /\
      (l <> [] -> b_pending (fold_left (step_fix threads n) l s) = []).
  Proof.
    induction l as [|x l IH]; intros s Hi Hp.
    - cbn [fold_left nonskipped map filter]. rewrite app_nil_r. split; [reflexivity | congruence].
    - cbn [fold_left]. cbn [zlen] in Hi.
      set (pending := if snd x then b_pending s else b_pending s ++ [fst x]).
      assert (Hpl : zlen pending <= threads).
      { unfold pending. destruct (snd x); [lia | rewrite zlen_app1; lia]. }
      assert (Hpe : pending = b_pending s ++ (if snd x then [] else [fst x])).
      { unfold pending. destruct (snd x); [rewrite app_nil_r|]; reflexivity. }
      assert (Hstep : step_fix threads n s x =
                      if ((zlen pending =? threads) || (b_i s + 1 =? n)) && (0 <? zlen pending)
                      then mkB (b_i s + 1) [] (b_out s ++ [dispatched threads pending])
                      else mkB (b_i s + 1) pending (b_out s)) by reflexivity.
      rewrite Hstep. clear Hstep.
      destruct (((zlen pending =? threads) || (b_i s + 1 =? n)) && (0 <? zlen pending)) eqn:R.
      + (* flushed *)
        destruct (IH (mkB (b_i s + 1) [] (b_out s ++ [dispatched threads pending]))) as [E1 E2];
          cbn [b_i b_pending b_out]; [lia | cbn [zlen]; lia |].
        cbn [b_i b_pending b_out] in E1, E2. split.
        * rewrite E1. rewrite concat_app. cbn [concat]. rewrite app_nil_r.
          rewrite dispatched_all by assumption. rewrite Hpe, nonskipped_cons.
          cbn [app]. rewrite <- !app_assoc. reflexivity.
        * intros _. destruct l as [|y l]; [reflexivity | apply E2; congruence].
      + (* not flushed *)
        assert (Hlt : zlen pending < threads \/ (pending = [] /\ True)).
        { apply andb_false_iff in R. destruct R as [R|R].
          - apply orb_false_iff in R. destruct R as [R _]. apply Z.eqb_neq in R. left; lia.
          - apply Z.ltb_ge in R. right. split; [apply zlen_zero; assumption | exact I]. }
        assert (Hlt' : zlen pending < threads).
        { destruct Hlt as [H|[H _]]; [assumption | rewrite H; cbn [zlen]; lia]. }
        destruct (IH (mkB (b_i s + 1) pending (b_out s))) as [E1 E2];
          cbn [b_i b_pending b_out]; [lia | assumption |].
        cbn [b_i b_pending b_out] in E1, E2. split.
        * rewrite E1, Hpe, nonskipped_cons. rewrite <- !app_assoc. reflexivity.
        * intros _. destruct l as [|y l]; [|apply E2; congruence].
          cbn [fold_left b_pending]. cbn [zlen] in Hi.
          (* last transcript: i + 1 = n, so not flushing means nothing is pending *)
          apply andb_false_iff in R. destruct R as [R|R].
          -- apply orb_false_iff in R. destruct R as [_ R]. apply Z.eqb_neq in R. lia.
          -- apply Z.ltb_ge in R. apply zlen_zero. assumption.
  Qed.

  (* every batch handed out is non-empty and never larger than the pool *)
  Lemma fix_sizes : forall l s,
      zlen (b_pending s) < threads ->
      Forall (fun b => 0 < zlen b <= threads) (b_out s) ->
      Forall (fun b => 0 < zlen b <= threads) (b_out (fold_left (step_fix threads n) l s)).
  Proof.
    induction l as [|x l IH]; intros s Hp HF; [exact HF|].
    cbn [fold_left].
    set (pending := if snd x then b_pending s else b_pending s ++ [fst x]).
    assert (Hpl : zlen pending <= threads).
    { unfold pending. destruct (snd x); [lia | rewrite zlen_app1; lia]. }
    assert (Hstep : step_fix threads n s x =
                    if ((zlen pending =? threads) || (b_i s + 1 =? n)) && (0 <? zlen pending)
                    then mkB (b_i s + 1) [] (b_out s ++ [dispatched threads pending])
                    else mkB (b_i s + 1) pending (b_out s)) by reflexivity.
    rewrite Hstep. clear Hstep.
    destruct (((zlen pending =? threads) || (b_i s + 1 =? n)) && (0 <? zlen pending)) eqn:R.
    - apply IH; cbn [b_pending b_out]; [cbn [zlen]; lia|].
      apply Forall_app. split; [exact HF|]. constructor; [|constructor].
      rewrite dispatched_all by assumption.
      apply andb_true_iff in R. destruct R as [_ R]. apply Z.ltb_lt in R. lia.
    - apply IH; cbn [b_pending b_out]; [|exact HF].
      apply andb_false_iff in R. destruct R as [R|R].
      + apply orb_false_iff in R. destruct R as [R _]. apply Z.eqb_neq in R. lia.
      + apply Z.ltb_ge in R. lia.
  Qed.
End Fix.

Lemma all_dispatched_l : forall threads l,
    1 <= threads -> concat (batches_fix threads l) = nonskipped l.
Proof.
  intros threads l Ht. unfold batches_fix, run_loop.
  destruct (fix_main threads (zlen l) Ht l init_b) as [E1 E2]; cbn [init_b b_i b_pending]; [lia | cbn [zlen]; lia |].
  cbn [init_b b_out b_pending concat app] in E1.
  destruct l as [|x l]; [reflexivity|].
  rewrite E2 in E1 by congruence. rewrite app_nil_r in E1. exact E1.
Qed.

(* D3 on the faithful model: transcripts run, skipped, run with --threads 3: nothing is dispatched *)
Lemma all_dispatched_refuted_l :
  exists threads l, 1 <= threads /\ concat (batches_orig threads l) <> nonskipped l /\
                    batches_orig threads l = [].
Proof.
  exists 3, [(1, false); (2, true); (3, false)]. split; [lia|]. split; vm_compute; [discriminate | reflexivity].
Qed.

Lemma batch_sizes_l : forall threads l,
    1 <= threads -> Forall (fun b => 0 < zlen b <= threads) (batches_fix threads l).
Proof.
  intros threads l Ht. unfold batches_fix, run_loop.
  apply fix_sizes; cbn [init_b b_pending b_out zlen]; [assumption | lia | constructor].
Qed.

(* why the suite (threads = 1 everywhere) cannot see D3: with one thread the unchanged loop is right *)
Lemma orig_single_main : forall n l s,
    b_pending s = [] ->
    concat (b_out (fold_left (step_orig 1 n) l s)) = concat (b_out s) ++ nonskipped l /\
    b_pending (fold_left (step_orig 1 n) l s) = [].
Proof.
  induction l as [|x l IH]; intros s Hp.
  - cbn [fold_left nonskipped map filter]. rewrite app_nil_r. auto.
  - cbn [fold_left]. rewrite nonskipped_cons. unfold step_orig at 2 4.
    destruct (snd x).
    + cbn [app]. apply IH. assumption.
    + rewrite Hp. cbn [app zlen]. rewrite Z.mod_1_r. cbn [Z.eqb orb andb Z.ltb Z.compare Z.add].
      destruct (IH (mkB (b_i s + 1) [] (b_out s ++ [dispatched 1 [fst x]]))) as [E1 E2]; [reflexivity|].
      cbn [b_out] in E1. split; [|exact E2].
      rewrite E1, concat_app. cbn. rewrite <- app_assoc. reflexivity.
Qed.

Lemma all_dispatched_single_l : forall l, concat (batches_orig 1 l) = nonskipped l.
Proof.
  intros. unfold batches_orig, run_loop.
  destruct (orig_single_main (zlen l) l init_b eq_refl) as [E _]. exact E.
Qed.

(* ------------------------------------------------------------------ gathering *)
Lemma gather_in : forall tx files r, In r (gather tx files) <-> In (tx, r) (concat files).
Proof.
  intros tx files r. unfold gather. rewrite in_flat_map, in_concat. split.
  - intros (f & Hf & Hr). apply in_map_iff in Hr. destruct Hr as ([t r'] & <- & Hr).
    apply filter_In in Hr. destruct Hr as [Hr Ht]. cbn in Ht. apply Z.eqb_eq in Ht. subst t.
    exists f. split; assumption.
  - intros (f & Hf & Hr). exists f. split; [assumption|].
    apply in_map_iff. exists (tx, r). split; [reflexivity|].
    apply filter_In. split; [assumption | cbn; apply Z.eqb_refl].
Qed.

Lemma keys_in : forall files tx, In tx (keys files) <-> exists r, In (tx, r) (concat files).
Proof.
  intros files tx. unfold keys. rewrite in_flat_map. split.
  - intros (f & Hf & Ht). apply in_map_iff in Ht. destruct Ht as ([t r] & <- & Hr).
    exists r. apply in_concat. exists f. split; assumption.
  - intros (r & Hr). apply in_concat in Hr. destruct Hr as (f & Hf & Hr).
    exists f. split; [assumption|]. apply in_map_iff. exists (tx, r). split; [reflexivity | assumption].
Qed.

Lemma gather_layout_free_l : forall files files',
    Permutation (concat files) (concat files') ->
    (forall tx r, In r (gather tx files) <-> In r (gather tx files')) /\
    (forall tx, In tx (keys files) <-> In tx (keys files')).
Proof.
  intros files files' HP. split.
  - intros tx r. rewrite !gather_in. split; apply Permutation_in; [|apply Permutation_sym]; assumption.
  - intros tx. rewrite !keys_in. split; intros (r & Hr); exists r;
      eapply Permutation_in; try eassumption; apply Permutation_sym; assumption.
Qed.

Lemma thread_independent_l : forall (result : Z -> list Z) t1 t2 l,
    1 <= t1 -> 1 <= t2 ->
    flat_map result (concat (batches_fix t1 l)) = flat_map result (concat (batches_fix t2 l)).
Proof. intros. rewrite !all_dispatched_l by assumption. reflexivity. Qed.

(* tie to the source: the loop found in call_variant_peptide.py is one of the two modelled forms *)
From MoPep Require Gen.BatchLoop.
Lemma loop_modelled_l : Gen.BatchLoop.loop_variant = 0 \/ Gen.BatchLoop.loop_variant = 1.
Proof. first [left; reflexivity | right; reflexivity]. Qed.
