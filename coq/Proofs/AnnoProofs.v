(* C11 -- proofs about Model/Anno.v (coordinates, sequences, ORF / Sec) *)
From Coq Require Import ZArith List Bool Lia ZifyBool.
From MoPep Require Import Model.Base Model.Anno.
Import ListNotations.
Open Scope Z_scope.

Definition strand_ok (st : Z) : Prop := st = 1 \/ st = -1.

(* ------------------------------------------------------------------ basic list facts *)
Lemma tx_len_app : forall a b, tx_len (a ++ b) = tx_len a + tx_len b.
Proof. induction a as [|x a IH]; intros b; cbn [tx_len app]; [lia | rewrite IH; lia]. Qed.

Lemma tx_len_rev : forall ex, tx_len (rev ex) = tx_len ex.
Proof.
  induction ex as [|x t IH]; [reflexivity|].
  cbn [rev]. rewrite tx_len_app, IH. cbn [tx_len]. lia.
Qed.

Lemma exonic_app : forall a b g, exonic (a ++ b) g = exonic a g || exonic b g.
Proof.
  induction a as [|[s e] a IH]; intros b g; cbn [exonic app]; [reflexivity|].
  rewrite IH, orb_assoc. reflexivity.
Qed.

Lemma exonic_rev : forall ex g, exonic (rev ex) g = exonic ex g.
Proof.
  induction ex as [|[s e] t IH]; intros g; [reflexivity|].
  cbn [rev]. rewrite exonic_app, IH. cbn [exonic]. rewrite orb_false_r, orb_comm. reflexivity.
Qed.

(* end of the last exon, or lo for the empty list *)
Fixpoint high (lo : Z) (ex : list exon) : Z :=
  match ex with [] => lo | (_, e) :: t => high e t end.

(* descending well-formedness (for reversed exon lists) and start of the last element *)
Fixpoint wfd_from (hi : Z) (rex : list exon) : bool :=
  match rex with
  | [] => true
  | (s, e) :: t => (s <? e) && (e <? hi) && wfd_from s t
  end.

Fixpoint low (hi : Z) (rex : list exon) : Z :=
  match rex with [] => hi | (s, _) :: t => low s t end.

Lemma wf_split : forall lo s e t, wf_from lo ((s, e) :: t) = true -> lo < s /\ s < e /\ wf_from e t = true.
Proof.
  intros lo s e t W. cbn [wf_from] in W.
  apply andb_prop in W as [W1 W3]. apply andb_prop in W1 as [W1 W2]. repeat split; try lia; exact W3.
Qed.

Lemma wfd_split : forall hi s e t, wfd_from hi ((s, e) :: t) = true -> s < e /\ e < hi /\ wfd_from s t = true.
Proof.
  intros hi s e t W. cbn [wfd_from] in W.
  apply andb_prop in W as [W1 W3]. apply andb_prop in W1 as [W1 W2]. repeat split; try lia; exact W3.
Qed.

Lemma wf_len_nonneg : forall ex lo, wf_from lo ex = true -> 0 <= tx_len ex.
Proof.
  induction ex as [|[s e] t IH]; intros lo W; cbn [tx_len]; [lia|].
  apply wf_split in W as (A & B & C). specialize (IH _ C). unfold exon_len; cbn [fst snd]. lia.
Qed.

Lemma wfd_len_nonneg : forall rex hi, wfd_from hi rex = true -> 0 <= tx_len rex.
Proof.
  induction rex as [|[s e] t IH]; intros hi W; cbn [tx_len]; [lia|].
  apply wfd_split in W as (A & B & C). specialize (IH _ C). unfold exon_len; cbn [fst snd]. lia.
Qed.

Lemma exonic_lb : forall ex lo g, wf_from lo ex = true -> exonic ex g = true -> lo < g.
Proof.
  induction ex as [|[s e] t IH]; intros lo g W H; cbn [exonic] in H; [discriminate|].
  apply wf_split in W as (A & B & C).
  apply orb_prop in H as [H|H]; [lia|]. specialize (IH _ _ C H). lia.
Qed.

Lemma exonic_ub : forall rex hi g, wfd_from hi rex = true -> exonic rex g = true -> g + 1 < hi.
Proof.
  induction rex as [|[s e] t IH]; intros hi g W H; cbn [exonic] in H; [discriminate|].
  apply wfd_split in W as (A & B & C).
  apply orb_prop in H as [H|H]; [lia|]. specialize (IH _ _ C H). lia.
Qed.

Lemma high_ge : forall ex lo, wf_from lo ex = true -> lo <= high lo ex.
Proof.
  induction ex as [|[s e] t IH]; intros lo W; cbn [high]; [lia|].
  apply wf_split in W as (A & B & C). specialize (IH _ C). lia.
Qed.

Lemma exonic_lt_high : forall ex lo g, wf_from lo ex = true -> exonic ex g = true -> g < high lo ex.
Proof.
  induction ex as [|[s e] t IH]; intros lo g W H; cbn [exonic] in H; [discriminate|].
  apply wf_split in W as (A & B & C). cbn [high].
  apply orb_prop in H as [H|H]; [pose proof (high_ge _ _ C); lia | eauto].
Qed.

Lemma last_end_high : forall ex lo, ex <> [] -> last_end ex = high lo ex.
Proof.
  unfold last_end.
  induction ex as [|[s e] t IH]; intros lo N; [congruence|].
  destruct t as [|y t']; [reflexivity|].
  cbn [high]. change (last ((s, e) :: y :: t') (0, 0)) with (last (y :: t') (0, 0)).
  rewrite (IH e) by discriminate. reflexivity.
Qed.

Lemma last_end_cons : forall x t, t <> [] -> last_end (x :: t) = last_end t.
Proof. intros x [|y t] N; [congruence|reflexivity]. Qed.

(* ------------------------------------------------------------------ rev of a wf list is wfd *)
Lemma wfd_snoc : forall a hi s e,
  wfd_from hi (a ++ [(s, e)]) = wfd_from hi a && ((s <? e) && (e <? low hi a)).
Proof.
  induction a as [|[s' e'] a IH]; intros hi s e; cbn [app wfd_from low].
  - rewrite andb_true_r. reflexivity.
  - rewrite IH. rewrite !andb_assoc. reflexivity.
Qed.

Lemma low_snoc : forall a hi s e, low hi (a ++ [(s, e)]) = s.
Proof. induction a as [|[s' e'] a IH]; intros; cbn [app low]; [reflexivity | apply IH]. Qed.

Lemma wf_rev : forall ex lo hi, wf_from lo ex = true -> high lo ex < hi ->
  wfd_from hi (rev ex) = true /\ lo < low hi (rev ex).
Proof.
  induction ex as [|[s e] t IH]; intros lo hi W H.
  - cbn in *. split; [reflexivity | lia].
  - apply wf_split in W as (A & B & C). cbn [high] in H.
    destruct (IH e hi C H) as [D E].
    cbn [rev]. rewrite wfd_snoc, low_snoc, D. split; [|lia].
    cbn [andb]. apply andb_true_intro; split; lia.
Qed.

(* ------------------------------------------------------------------ plus strand arms *)
Lemma plus_tx2g_g2tx : forall ex lo i acc, wf_from lo ex = true -> 0 <= i < tx_len ex ->
  exists g, tx2g_plus ex i = Ok g /\ exonic ex g = true /\ g2tx_plus ex g acc = Ok (acc + i).
Proof.
  induction ex as [|[s e] t IH]; intros lo i acc W H; cbn [tx_len] in H; [lia|].
  apply wf_split in W as (A & B & C). unfold exon_len in H; cbn [fst snd] in H.
  cbn [tx2g_plus g2tx_plus exonic].
  destruct (i <? e - s) eqn:E1.
  - exists (i + s). split; [reflexivity|]. split.
    + apply orb_true_intro; left. lia.
    + destruct (e <=? i + s) eqn:E2; [lia|].
      destruct (s <=? i + s) eqn:E4; [|lia]. f_equal; lia.
  - destruct (IH e (i - (e - s)) (acc + (e - s)) C) as (g & G1 & G2 & G3); [lia|].
    exists g. split; [exact G1|]. split; [rewrite G2; apply orb_true_r|].
    pose proof (exonic_lb _ _ _ C G2).
    destruct (e <=? g) eqn:E2; [|lia]. rewrite G3. f_equal; lia.
Qed.

Lemma plus_g2tx_tx2g : forall ex lo g acc, wf_from lo ex = true -> exonic ex g = true ->
  exists i, g2tx_plus ex g acc = Ok (acc + i) /\ 0 <= i < tx_len ex /\ tx2g_plus ex i = Ok g.
Proof.
  induction ex as [|[s e] t IH]; intros lo g acc W H; cbn [exonic] in H; [discriminate|].
  apply wf_split in W as (A & B & C). pose proof (wf_len_nonneg _ _ C) as L.
  cbn [tx2g_plus g2tx_plus tx_len]. unfold exon_len; cbn [fst snd].
  destruct ((s <=? g) && (g <? e)) eqn:E.
  - exists (g - s). destruct (e <=? g) eqn:E2; [lia|].
    destruct (s <=? g) eqn:E4; [|lia]. split; [reflexivity|]. split; [lia|].
    destruct (g - s <? e - s) eqn:E5; [|lia]. f_equal; lia.
  - cbn [orb] in H. destruct (IH e g (acc + (e - s)) C H) as (i & I1 & I2 & I3).
    pose proof (exonic_lb _ _ _ C H).
    exists (e - s + i). destruct (e <=? g) eqn:E2; [|lia]. split; [rewrite I1; f_equal; lia|]. split; [lia|].
    destruct (e - s + i <? e - s) eqn:E5; [lia|].
    replace (e - s + i - (e - s)) with i by lia. exact I3.
Qed.

Lemma plus_reject : forall ex lo g acc, wf_from lo ex = true -> ex <> [] -> exonic ex g = false ->
  g < last_end ex -> g2tx_plus ex g acc = Err EIntron.
Proof.
  induction ex as [|[s e] t IH]; intros lo g acc W N H L; [congruence|].
  apply wf_split in W as (A & B & C). cbn [exonic] in H. apply orb_false_elim in H as [H1 H2].
  cbn [g2tx_plus].
  destruct (e <=? g) eqn:E1.
  - destruct t as [|y t'].
    + unfold last_end in L; cbn in L. lia.
    + rewrite last_end_cons in L by discriminate. apply (IH e); [exact C | discriminate | exact H2 | exact L].
  - destruct (s <=? g) eqn:E3; [lia | reflexivity].
Qed.

(* ------------------------------------------------------------------ minus strand arms (descending lists) *)
Lemma minus_tx2g_g2tx : forall rex hi i acc, wfd_from hi rex = true -> 0 <= i < tx_len rex ->
  exists g, tx2g_minus rex i = Ok g /\ exonic rex g = true /\ g2tx_minus rex g acc = Ok (acc + 1 + i).
Proof.
  induction rex as [|[s e] t IH]; intros hi i acc W H; cbn [tx_len] in H; [lia|].
  apply wfd_split in W as (A & B & C). unfold exon_len in H; cbn [fst snd] in H.
  cbn [tx2g_minus g2tx_minus exonic].
  destruct (i <? e - s) eqn:E1.
  - exists (e - 1 - i). split; [reflexivity|]. split.
    + apply orb_true_intro; left. lia.
    + destruct (s >=? e - 1 - i) eqn:E2.
      * destruct (s =? e - 1 - i) eqn:E3; [|lia]. f_equal; lia.
      * destruct (e >? e - 1 - i) eqn:E3; [|lia]. f_equal; lia.
  - destruct (IH s (i - (e - s)) (acc + (e - s)) C) as (g & G1 & G2 & G3); [lia|].
    exists g. split; [exact G1|]. split; [rewrite G2; apply orb_true_r|].
    pose proof (exonic_ub _ _ _ C G2).
    destruct (s >=? g) eqn:E2; [|lia]. destruct (s =? g) eqn:E3; [lia|]. rewrite G3. f_equal; lia.
Qed.

Lemma minus_g2tx_tx2g : forall rex hi g acc, wfd_from hi rex = true -> exonic rex g = true ->
  exists i, g2tx_minus rex g acc = Ok (acc + 1 + i) /\ 0 <= i < tx_len rex /\ tx2g_minus rex i = Ok g.
Proof.
  induction rex as [|[s e] t IH]; intros hi g acc W H; cbn [exonic] in H; [discriminate|].
  apply wfd_split in W as (A & B & C). pose proof (wfd_len_nonneg _ _ C) as L.
  cbn [tx2g_minus g2tx_minus tx_len]. unfold exon_len; cbn [fst snd].
  destruct ((s <=? g) && (g <? e)) eqn:E.
  - exists (e - 1 - g). split.
    + destruct (s >=? g) eqn:E2.
      * destruct (s =? g) eqn:E3; [|lia]. f_equal; lia.
      * destruct (e >? g) eqn:E3; [|lia]. f_equal; lia.
    + split; [lia|]. destruct (e - 1 - g <? e - s) eqn:E5; [|lia]. f_equal; lia.
  - cbn [orb] in H. destruct (IH s g (acc + (e - s)) C H) as (i & I1 & I2 & I3).
    pose proof (exonic_ub _ _ _ C H).
    exists (e - s + i). destruct (s >=? g) eqn:E2; [|lia]. destruct (s =? g) eqn:E3; [lia|].
    split; [rewrite I1; f_equal; lia|]. split; [lia|].
    destruct (e - s + i <? e - s) eqn:E5; [lia|].
    replace (e - s + i - (e - s)) with i by lia. exact I3.
Qed.

Lemma minus_reject : forall rex hi g acc, wfd_from hi rex = true -> rex <> [] -> exonic rex g = false ->
  fst (last rex (0, 0)) <= g -> g2tx_minus rex g acc = Err EIntron.
Proof.
  induction rex as [|[s e] t IH]; intros hi g acc W N H L; [congruence|].
  apply wfd_split in W as (A & B & C). cbn [exonic] in H. apply orb_false_elim in H as [H1 H2].
  cbn [g2tx_minus].
  destruct (s >=? g) eqn:E1.
  - destruct (s =? g) eqn:E2; [lia|].
    destruct t as [|y t'].
    + cbn in L. lia.
    + apply (IH s); [exact C | discriminate | exact H2 | exact L].
  - destruct (e >? g) eqn:E2; [lia | reflexivity].
Qed.

(* ------------------------------------------------------------------ top level *)
Lemma wf_wf_from : forall ex, wf ex = true -> ex <> [] /\ wf_from (first_start ex - 1) ex = true /\ 0 <= first_start ex.
Proof.
  intros [|[s e] t] W; [discriminate|]. unfold wf in W.
  apply andb_prop in W as [W1 W3]. apply andb_prop in W1 as [W1 W2].
  split; [discriminate|]. unfold first_start; cbn [hd fst wf_from]. split; [|lia].
  rewrite W3. apply andb_true_intro; split; [|reflexivity]. apply andb_true_intro; split; lia.
Qed.

Lemma first_start_rev_last : forall ex, ex <> [] -> fst (last (rev ex) (0, 0)) = first_start ex.
Proof.
  intros [|x t] N; [congruence|]. cbn [rev]. rewrite last_last. reflexivity.
Qed.

Lemma exonic_in_span : forall ex lo g, wf_from lo ex = true -> exonic ex g = true ->
  first_start ex <= g < last_end ex.
Proof.
  intros ex lo g W H. assert (N : ex <> []) by (destruct ex; [discriminate | discriminate]).
  rewrite (last_end_high ex lo N). split; [|eapply exonic_lt_high; eauto].
  destruct ex as [|[s e] t]; [congruence|]. unfold first_start; cbn [hd fst].
  cbn [exonic] in H. apply wf_split in W as (A & B & C).
  apply orb_prop in H as [H|H]; [lia|]. pose proof (exonic_lb _ _ _ C H). lia.
Qed.

Lemma g2tx_unfold : forall st ex g, ex <> [] ->
  g2tx st ex g =
    if (g <? first_start ex) || (g >=? last_end ex) then Err ERange
    else if st =? 1 then g2tx_plus ex g 0
    else if st =? -1 then g2tx_minus (rev ex) g (-1)
    else Err EUnbound.
Proof. intros st [|x t] g N; [congruence | reflexivity]. Qed.

Lemma tx2g_g2tx_l : forall st ex i, wf ex = true -> strand_ok st -> 0 <= i < tx_len ex ->
  exists g, tx2g st ex i = Ok g /\ exonic ex g = true /\ g2tx st ex g = Ok i.
Proof.
  intros st ex i W S H. destruct (wf_wf_from _ W) as (N & WF & P).
  unfold tx2g. destruct (tx_len ex <? i) eqn:E0; [lia|].
  destruct S as [-> | ->].
  - cbn [Z.eqb Pos.eqb].
    destruct (plus_tx2g_g2tx ex _ i 0 WF H) as (g & G1 & G2 & G3).
    exists g. split; [exact G1|]. split; [exact G2|].
    pose proof (exonic_in_span _ _ _ WF G2) as SP.
    rewrite g2tx_unfold by exact N.
    destruct ((g <? first_start ex) || (g >=? last_end ex)) eqn:E1; [lia|].
    cbn [Z.eqb Pos.eqb]. rewrite G3. f_equal; lia.
  - change (-1 =? 1) with false. change (-1 =? -1) with true. cbn iota.
    destruct (wf_rev ex _ (high (first_start ex - 1) ex + 1) WF ltac:(lia)) as [WD _].
    rewrite <- tx_len_rev in H.
    destruct (minus_tx2g_g2tx (rev ex) _ i (-1) WD H) as (g & G1 & G2 & G3).
    rewrite exonic_rev in G2.
    exists g. split; [exact G1|]. split; [exact G2|].
    pose proof (exonic_in_span _ _ _ WF G2) as SP.
    rewrite g2tx_unfold by exact N.
    destruct ((g <? first_start ex) || (g >=? last_end ex)) eqn:E1; [lia|].
    change (-1 =? 1) with false. change (-1 =? -1) with true. cbn iota.
    rewrite G3. f_equal; lia.
Qed.

Lemma g2tx_tx2g_l : forall st ex g, wf ex = true -> strand_ok st -> exonic ex g = true ->
  exists i, g2tx st ex g = Ok i /\ 0 <= i < tx_len ex /\ tx2g st ex i = Ok g.
Proof.
  intros st ex g W S H. destruct (wf_wf_from _ W) as (N & WF & P).
  pose proof (exonic_in_span _ _ _ WF H) as SP.
  rewrite g2tx_unfold by exact N.
  destruct ((g <? first_start ex) || (g >=? last_end ex)) eqn:E1; [lia|].
  unfold tx2g. destruct S as [-> | ->].
  - cbn [Z.eqb Pos.eqb].
    destruct (plus_g2tx_tx2g ex _ g 0 WF H) as (i & I1 & I2 & I3).
    exists i. split; [rewrite I1; f_equal; lia|]. split; [exact I2|].
    destruct (tx_len ex <? i) eqn:E0; [lia | exact I3].
  - change (-1 =? 1) with false. change (-1 =? -1) with true. cbn iota.
    destruct (wf_rev ex _ (high (first_start ex - 1) ex + 1) WF ltac:(lia)) as [WD _].
    rewrite <- exonic_rev in H.
    destruct (minus_g2tx_tx2g (rev ex) _ g (-1) WD H) as (i & I1 & I2 & I3).
    rewrite tx_len_rev in I2.
    exists i. split; [rewrite I1; f_equal; lia|]. split; [exact I2|].
    destruct (tx_len ex <? i) eqn:E0; [lia | exact I3].
Qed.

(* every non-exonic position is rejected: intron inside the span, out of range outside *)
Lemma g2tx_reject_l : forall st ex g, wf ex = true -> strand_ok st -> exonic ex g = false ->
  g2tx st ex g = if (first_start ex <=? g) && (g <? last_end ex) then Err EIntron else Err ERange.
Proof.
  intros st ex g W S H. destruct (wf_wf_from _ W) as (N & WF & P).
  rewrite g2tx_unfold by exact N.
  destruct ((g <? first_start ex) || (g >=? last_end ex)) eqn:E1.
  - destruct ((first_start ex <=? g) && (g <? last_end ex)) eqn:E2; [lia | reflexivity].
  - destruct ((first_start ex <=? g) && (g <? last_end ex)) eqn:E2; [|lia].
    destruct S as [-> | ->].
    + cbn [Z.eqb Pos.eqb]. eapply plus_reject; eauto. lia.
    + change (-1 =? 1) with false. change (-1 =? -1) with true. cbn iota.
      destruct (wf_rev ex _ (high (first_start ex - 1) ex + 1) WF ltac:(lia)) as [WD _].
      eapply minus_reject; eauto.
      * intro R. apply N. destruct ex; [reflexivity|]. cbn [rev] in R. destruct (rev ex); discriminate.
      * rewrite exonic_rev. exact H.
      * rewrite first_start_rev_last by exact N. lia.
Qed.

(* ------------------------------------------------------------------ gene <-> genomic, gene -> transcript *)
Lemma gene_genomic_inv_l : forall st gs ge, strand_ok st ->
  (forall g, gs <= g < ge ->
     exists i, g2gene st gs ge g = Ok i /\ 0 <= i < ge - gs /\ gene2g st gs ge i = Ok g) /\
  (forall i, 0 <= i < ge - gs ->
     exists g, gene2g st gs ge i = Ok g /\ gs <= g < ge /\ g2gene st gs ge g = Ok i) /\
  (forall g, ~ (gs <= g < ge) -> g2gene st gs ge g = Err ERange).
Proof.
  intros st gs ge S. unfold g2gene, gene2g. split; [|split].
  - intros g H. destruct (negb ((gs <=? g) && (g <? ge))) eqn:E; [lia|].
    destruct S as [-> | ->].
    + cbn [Z.eqb Pos.eqb]. exists (g - gs). repeat split; try lia. f_equal; lia.
    + change (-1 =? 1) with false. change (-1 =? -1) with true. cbn iota.
      exists (ge - 1 - g). repeat split; try lia. f_equal; lia.
  - intros i H. destruct S as [-> | ->].
    + cbn [Z.eqb Pos.eqb]. exists (gs + i). split; [reflexivity|]. split; [lia|].
      destruct (negb ((gs <=? gs + i) && (gs + i <? ge))) eqn:E; [lia|]. f_equal; lia.
    + change (-1 =? 1) with false. change (-1 =? -1) with true. cbn iota.
      exists (ge - 1 - i). split; [reflexivity|]. split; [lia|].
      destruct (negb ((gs <=? ge - 1 - i) && (ge - 1 - i <? ge))) eqn:E; [lia|]. f_equal; lia.
  - intros g H. destruct (negb ((gs <=? g) && (g <? ge))) eqn:E; [reflexivity | lia].
Qed.

Lemma gene2tx_l : forall gst gs ge tst ex i g, wf ex = true -> strand_ok tst ->
  gene2g gst gs ge i = Ok g ->
  (exonic ex g = true ->
     exists j, gene2tx gst gs ge true tst ex i = Ok j /\ tx2g tst ex j = Ok g) /\
  (exonic ex g = false -> exists e, gene2tx gst gs ge true tst ex i = Err e).
Proof.
  intros gst gs ge tst ex i g W S G. unfold gene2tx. rewrite G. split; intro H.
  - destruct (g2tx_tx2g_l tst ex g W S H) as (j & A & B & C). exists j. auto.
  - rewrite (g2tx_reject_l tst ex g W S H).
    destruct ((first_start ex <=? g) && (g <? last_end ex)); eauto.
Qed.

(* ------------------------------------------------------------------ sequences *)
Lemma zlen_length : forall A (l : list A), zlen l = Z.of_nat (length l).
Proof. induction l; cbn [zlen length]; [reflexivity | rewrite IHl; lia]. Qed.

Lemma nth_error_firstn_lt : forall A n (l : list A) k, (k < n)%nat -> nth_error (firstn n l) k = nth_error l k.
Proof.
  induction n as [|n IH]; intros l k H; [lia|].
  destruct l as [|x l]; [destruct k; reflexivity|].
  destruct k as [|k]; [reflexivity|]. cbn [firstn nth_error]. apply IH. lia.
Qed.

Lemma nth_error_skipn_add : forall A n (l : list A) k, nth_error (skipn n l) k = nth_error l (n + k).
Proof.
  induction n as [|n IH]; intros l k; [reflexivity|].
  destruct l as [|x l]; [destruct k; reflexivity|]. cbn [skipn plus nth_error]. apply IH.
Qed.

Lemma nth_error_rev_lt : forall A (l : list A) k, (k < length l)%nat ->
  nth_error (rev l) k = nth_error l (length l - 1 - k).
Proof.
  induction l as [|x l IH]; intros k H; cbn [length] in H; [lia|].
  cbn [rev length].
  destruct (Nat.lt_ge_cases k (length l)) as [C|C].
  - rewrite nth_error_app1 by (rewrite rev_length; exact C). rewrite IH by exact C.
    replace (S (length l) - 1 - k)%nat with (S (length l - 1 - k)) by lia. reflexivity.
  - assert (k = length l) by lia. subst k.
    rewrite nth_error_app2 by (rewrite rev_length; lia). rewrite rev_length, Nat.sub_diag.
    replace (S (length l) - 1 - length l)%nat with 0%nat by lia. reflexivity.
Qed.

Lemma slice_length : forall A (l : list A) a b, 0 <= a -> a <= b -> b <= zlen l ->
  length (slice l a b) = Z.to_nat (b - a).
Proof.
  intros A l a b H1 H2 H3. unfold slice. rewrite zlen_length in H3.
  rewrite firstn_length, skipn_length. lia.
Qed.

Lemma slice_nth : forall A (l : list A) a b k, 0 <= a -> 0 <= k < b - a ->
  nth_error (slice l a b) (Z.to_nat k) = nth_error l (Z.to_nat (a + k)).
Proof.
  intros A l a b k H1 H2. unfold slice.
  rewrite nth_error_firstn_lt by lia. rewrite nth_error_skipn_add. f_equal. lia.
Qed.

Lemma wf_starts : forall ex lo, wf_from lo ex = true -> -1 <= lo -> Forall (fun x => 0 <= fst x) ex.
Proof.
  induction ex as [|[s e] t IH]; intros lo W L; constructor.
  - apply wf_split in W as (A & B & C). cbn [fst]. lia.
  - apply wf_split in W as (A & B & C). apply (IH e C). lia.
Qed.

Lemma concat_length : forall chrom ex lo, wf_from lo ex = true -> -1 <= lo -> high lo ex <= zlen chrom ->
  length (concat_exons chrom ex) = Z.to_nat (tx_len ex).
Proof.
  intros chrom. induction ex as [|[s e] t IH]; intros lo W L H; [reflexivity|].
  apply wf_split in W as (A & B & C). cbn [high] in H. pose proof (high_ge _ _ C).
  pose proof (wf_len_nonneg _ _ C).
  unfold concat_exons in *. cbn [flat_map tx_len]. rewrite app_length, (IH e C) by lia.
  unfold exon_seq, exon_len; cbn [fst snd]. rewrite slice_length by lia. lia.
Qed.

(* plus strand: the i-th letter of the concatenated exons is the genome letter at tx2g_plus i *)
Lemma plus_seq_nth : forall chrom ex lo i, wf_from lo ex = true -> -1 <= lo -> high lo ex <= zlen chrom ->
  0 <= i < tx_len ex ->
  exists g, tx2g_plus ex i = Ok g /\ 0 <= g < zlen chrom /\
            nth_error (concat_exons chrom ex) (Z.to_nat i) = nth_error chrom (Z.to_nat g).
Proof.
  intros chrom. induction ex as [|[s e] t IH]; intros lo i W L H R; cbn [tx_len] in R; [lia|].
  apply wf_split in W as (A & B & C). cbn [high] in H. pose proof (high_ge _ _ C) as HG.
  unfold exon_len in R; cbn [fst snd] in R.
  unfold concat_exons; cbn [flat_map tx2g_plus].
  assert (LEN : length (exon_seq chrom (s, e)) = Z.to_nat (e - s))
    by (unfold exon_seq; cbn [fst snd]; apply slice_length; lia).
  destruct (i <? e - s) eqn:E.
  - exists (i + s). split; [reflexivity|]. split; [lia|].
    rewrite nth_error_app1 by lia. unfold exon_seq; cbn [fst snd].
    rewrite slice_nth by lia. f_equal. lia.
  - destruct (IH e (i - (e - s)) C ltac:(lia) H ltac:(lia)) as (g & G1 & G2 & G3).
    exists g. split; [exact G1|]. split; [exact G2|].
    rewrite nth_error_app2 by lia. rewrite LEN. unfold concat_exons in G3. rewrite <- G3. f_equal. lia.
Qed.

Lemma rev_flat_map : forall A B (f : A -> list B) l,
  rev (flat_map f l) = flat_map (fun x => rev (f x)) (rev l).
Proof.
  induction l as [|x t IH]; [reflexivity|].
  cbn [flat_map rev]. rewrite rev_app_distr, IH, flat_map_app. cbn [flat_map]. rewrite app_nil_r. reflexivity.
Qed.

(* minus strand: the i-th letter of the reversed concatenation is the genome letter at tx2g_minus i *)
Lemma minus_seq_nth : forall chrom rex hi i, wfd_from hi rex = true -> Forall (fun x => 0 <= fst x) rex ->
  hi <= zlen chrom + 1 -> 0 <= i < tx_len rex ->
  exists g, tx2g_minus rex i = Ok g /\ 0 <= g < zlen chrom /\
            nth_error (flat_map (fun x => rev (exon_seq chrom x)) rex) (Z.to_nat i) = nth_error chrom (Z.to_nat g).
Proof.
  intros chrom. induction rex as [|[s e] t IH]; intros hi i W P H R; cbn [tx_len] in R; [lia|].
  apply wfd_split in W as (A & B & C). inversion P as [|? ? P1 P2]; subst. cbn [fst] in P1.
  unfold exon_len in R; cbn [fst snd] in R.
  cbn [flat_map tx2g_minus].
  assert (LEN : length (exon_seq chrom (s, e)) = Z.to_nat (e - s))
    by (unfold exon_seq; cbn [fst snd]; apply slice_length; lia).
  destruct (i <? e - s) eqn:E.
  - exists (e - 1 - i). split; [reflexivity|]. split; [lia|].
    rewrite nth_error_app1 by (rewrite rev_length; lia).
    rewrite nth_error_rev_lt by lia. rewrite LEN. unfold exon_seq; cbn [fst snd].
    replace (Z.to_nat (e - s) - 1 - Z.to_nat i)%nat with (Z.to_nat (e - s - 1 - i)) by lia.
    rewrite slice_nth by lia. f_equal. lia.
  - destruct (IH s (i - (e - s)) C P2 ltac:(lia) ltac:(lia)) as (g & G1 & G2 & G3).
    exists g. split; [exact G1|]. split; [exact G2|].
    rewrite nth_error_app2 by (rewrite rev_length; lia). rewrite rev_length, LEN. rewrite <- G3. f_equal. lia.
Qed.

Lemma nthZ_nth_error : forall A (l : list A) i, 0 <= i -> nthZ l i = nth_error l (Z.to_nat i).
Proof. intros. unfold nthZ. destruct (i <? 0) eqn:E; [lia | reflexivity]. Qed.

Lemma nth_error_in_range : forall A (l : list A) g, 0 <= g < zlen l -> exists c, nth_error l (Z.to_nat g) = Some c.
Proof.
  intros A l g H. rewrite zlen_length in H.
  destruct (nth_error l (Z.to_nat g)) eqn:E; [eauto|]. apply nth_error_None in E. lia.
Qed.

Lemma tx_seq_nth_l : forall tbl st ex chrom i, wf ex = true -> strand_ok st -> last_end ex <= zlen chrom ->
  0 <= i < tx_len ex ->
  exists sq g c, tx_seq tbl st ex chrom = Ok sq /\ zlen sq = tx_len ex /\
                 tx2g st ex i = Ok g /\ exonic ex g = true /\ nthZ chrom g = Some c /\
                 nthZ sq i = Some (if st =? -1 then comp tbl c else c) /\
                 nthZ sq i = strand_base tbl st chrom g.
Proof.
  intros tbl st ex chrom i W S HB R. destruct (wf_wf_from _ W) as (N & WF & P).
  rewrite (last_end_high ex (first_start ex - 1) N) in HB.
  pose proof (concat_length chrom ex _ WF ltac:(lia) HB) as CL.
  destruct (tx2g_g2tx_l st ex i W S R) as (g0 & T0 & X0 & _).
  unfold tx_seq. destruct ex as [|x0 t0] eqn:EX; [congruence|]. rewrite <- EX in *. clear EX.
  unfold strand_base.
  destruct S as [-> | ->].
  - change (1 =? -1) with false. cbn iota.
    destruct (plus_seq_nth chrom ex _ i WF ltac:(lia) HB R) as (g & G1 & G2 & G3).
    destruct (nth_error_in_range _ chrom g G2) as [c Hc].
    assert (g0 = g) by (unfold tx2g in T0; destruct (tx_len ex <? i); [discriminate|]; cbn [Z.eqb Pos.eqb] in T0; congruence).
    subst g0.
    exists (concat_exons chrom ex), g, c. rewrite !nthZ_nth_error by lia. rewrite G3, Hc.
    repeat split; auto. rewrite zlen_length, CL. pose proof (wf_len_nonneg _ _ WF). lia.
  - change (-1 =? -1) with true. cbn iota.
    destruct (wf_rev ex _ (high (first_start ex - 1) ex + 1) WF ltac:(lia)) as [WD _].
    pose proof (wf_starts _ _ WF ltac:(lia)) as ST. apply Forall_rev in ST.
    rewrite <- tx_len_rev in R.
    destruct (minus_seq_nth chrom (rev ex) _ i WD ST ltac:(lia) R) as (g & G1 & G2 & G3).
    destruct (nth_error_in_range _ chrom g G2) as [c Hc].
    assert (g0 = g).
    { unfold tx2g in T0. destruct (tx_len ex <? i); [discriminate|].
      change (-1 =? 1) with false in T0. change (-1 =? -1) with true in T0. cbn iota in T0. congruence. }
    subst g0.
    exists (revcomp tbl (concat_exons chrom ex)), g, c. rewrite !nthZ_nth_error by lia. rewrite Hc.
    assert (E : nth_error (revcomp tbl (concat_exons chrom ex)) (Z.to_nat i) = Some (comp tbl c)).
    { unfold revcomp. apply map_nth_error. unfold concat_exons. rewrite rev_flat_map, G3. exact Hc. }
    rewrite E. repeat split; auto.
    unfold revcomp. rewrite zlen_length, map_length, rev_length, CL. pose proof (wf_len_nonneg _ _ WF). lia.
Qed.

Lemma gene_seq_nth_l : forall tbl st gs ge chrom i, strand_ok st -> 0 <= gs -> gs <= ge -> ge <= zlen chrom ->
  0 <= i < ge - gs ->
  exists sq g c, gene_seq tbl st gs ge chrom = Ok sq /\ zlen sq = ge - gs /\
                 gene2g st gs ge i = Ok g /\ nthZ chrom g = Some c /\
                 nthZ sq i = Some (if st =? -1 then comp tbl c else c).
Proof.
  intros tbl st gs ge chrom i S H0 H1 H2 R. unfold gene_seq, gene2g.
  pose proof (slice_length _ chrom gs ge H0 H1 H2) as SL.
  destruct S as [-> | ->].
  - cbn [Z.eqb Pos.eqb]. change (1 =? -1) with false. cbn iota.
    destruct (nth_error_in_range _ chrom (gs + i) ltac:(lia)) as [c Hc].
    exists (slice chrom gs ge), (gs + i), c. rewrite !nthZ_nth_error by lia.
    rewrite slice_nth by lia. rewrite Hc. repeat split; auto. rewrite zlen_length, SL. lia.
  - change (-1 =? 1) with false. change (-1 =? -1) with true. cbn iota.
    destruct (nth_error_in_range _ chrom (ge - 1 - i) ltac:(lia)) as [c Hc].
    exists (revcomp tbl (slice chrom gs ge)), (ge - 1 - i), c. rewrite !nthZ_nth_error by lia.
    rewrite Hc. repeat split; auto.
    + unfold revcomp. rewrite zlen_length, map_length, rev_length, SL. lia.
    + unfold revcomp. apply map_nth_error. rewrite nth_error_rev_lt by lia. rewrite SL.
      replace (Z.to_nat (ge - gs) - 1 - Z.to_nat i)%nat with (Z.to_nat (ge - gs - 1 - i)) by lia.
      rewrite slice_nth by lia. rewrite <- Hc. f_equal. lia.
Qed.

(* ------------------------------------------------------------------ ORF start / end *)
Lemma plus_cds_start : forall ex lo p acc, wf_from lo ex = true -> exonic ex p = true ->
  g2tx_plus ex p acc = Ok (cds_start_plus ex p acc).
Proof.
  induction ex as [|[s e] t IH]; intros lo p acc W H; cbn [exonic] in H; [discriminate|].
  apply wf_split in W as (A & B & C). cbn [g2tx_plus cds_start_plus]. unfold in_exon, exon_len; cbn [fst snd].
  destruct ((s <=? p) && (p <? e)) eqn:E.
  - cbn [negb]. destruct (e <=? p) eqn:E1; [lia|].
    destruct (s <=? p) eqn:E3; [|lia]. reflexivity.
  - cbn [negb orb] in *. pose proof (exonic_lb _ _ _ C H). destruct (e <=? p) eqn:E1; [|lia]. apply (IH e); auto.
Qed.

Lemma minus_cds_start : forall rex hi q acc, wfd_from hi rex = true -> exonic rex (q - 1) = true ->
  g2tx_minus rex (q - 1) acc = Ok (cds_start_minus rex q (acc + 1)).
Proof.
  induction rex as [|[s e] t IH]; intros hi q acc W H; cbn [exonic] in H; [discriminate|].
  apply wfd_split in W as (A & B & C). cbn [g2tx_minus cds_start_minus]. unfold in_exon, exon_len; cbn [fst snd].
  destruct ((s <=? q - 1) && (q - 1 <? e)) eqn:E.
  - assert (X : negb (q =? e) && negb ((s <=? q) && (q <? e)) = false) by lia.
    rewrite X.
    destruct (s >=? q - 1) eqn:E1.
    + destruct (s =? q - 1) eqn:E2; [|lia]. f_equal; lia.
    + destruct (e >? q - 1) eqn:E2; [|lia]. f_equal; lia.
  - cbn [orb] in H. pose proof (exonic_ub _ _ _ C H).
    assert (X : negb (q =? e) && negb ((s <=? q) && (q <? e)) = true) by lia.
    rewrite X. destruct (s >=? q - 1) eqn:E1; [|lia]. destruct (s =? q - 1) eqn:E2; [lia|].
    rewrite (IH s q (acc + (e - s)) C H). f_equal; f_equal; lia.
Qed.

Lemma g2tx_plus_arm : forall ex g, wf ex = true -> exonic ex g = true -> g2tx 1 ex g = g2tx_plus ex g 0.
Proof.
  intros ex g W H. destruct (wf_wf_from _ W) as (N & WF & P).
  pose proof (exonic_in_span _ _ _ WF H). rewrite g2tx_unfold by exact N.
  destruct ((g <? first_start ex) || (g >=? last_end ex)) eqn:E; [lia | reflexivity].
Qed.

Lemma g2tx_minus_arm : forall ex g, wf ex = true -> exonic ex g = true -> g2tx (-1) ex g = g2tx_minus (rev ex) g (-1).
Proof.
  intros ex g W H. destruct (wf_wf_from _ W) as (N & WF & P).
  pose proof (exonic_in_span _ _ _ WF H). rewrite g2tx_unfold by exact N.
  destruct ((g <? first_start ex) || (g >=? last_end ex)) eqn:E; [lia | reflexivity].
Qed.

Lemma wf_wfd_rev : forall ex, wf ex = true -> exists hi, wfd_from hi (rev ex) = true.
Proof.
  intros ex W. destruct (wf_wf_from _ W) as (N & WF & P).
  exists (high (first_start ex - 1) ex + 1). apply (wf_rev ex _ _ WF). lia.
Qed.

Lemma orf_start_plus_l : forall ex c0 cs f, wf ex = true -> c_frame c0 = Some f ->
  exonic ex (c_start c0) = true ->
  exists j, g2tx 1 ex (c_start c0) = Ok j /\ cds_start_index 1 ex (c0 :: cs) = Ok (j + f).
Proof.
  intros ex c0 cs f W F H. destruct (wf_wf_from _ W) as (N & WF & P).
  exists (cds_start_plus ex (c_start c0) 0). split.
  - rewrite g2tx_plus_arm by assumption. eapply plus_cds_start; eauto.
  - unfold cds_start_index. cbn [Z.eqb Pos.eqb]. rewrite F. reflexivity.
Qed.

Lemma orf_start_minus_l : forall ex cs cN, wf ex = true -> exonic ex (c_end cN - 1) = true ->
  exists j, g2tx (-1) ex (c_end cN - 1) = Ok j /\
            cds_start_index (-1) ex (cs ++ [cN]) = Ok (j + match c_frame cN with Some f => f | None => 0 end).
Proof.
  intros ex cs cN W H. destruct (wf_wfd_rev _ W) as [hi WD].
  exists (cds_start_minus (rev ex) (c_end cN) 0). split.
  - rewrite g2tx_minus_arm by assumption. rewrite <- exonic_rev in H.
    rewrite (minus_cds_start (rev ex) hi (c_end cN) (-1) WD H). reflexivity.
  - unfold cds_start_index. change (-1 =? 1) with false. change (-1 =? -1) with true. cbn iota.
    rewrite rev_unit. reflexivity.
Qed.

Lemma frame_floor_spec : forall e st,
  frame_floor e st <= e < frame_floor e st + 3 /\ (frame_floor e st - st) mod 3 = 0.
Proof.
  intros. unfold frame_floor. pose proof (Z.mod_pos_bound (e - st) 3 ltac:(lia)). split; [lia|].
  replace (e - (e - st) mod 3 - st) with ((e - st) / 3 * 3)
    by (pose proof (Z.div_mod (e - st) 3 ltac:(lia)); lia).
  apply Z_mod_mult.
Qed.

Lemma orf_end_l : forall st ex three n start, wf ex = true -> strand_ok st ->
  match three with
  | [] => cds_end_index st ex three n start = Ok (frame_floor n start)
  | u :: t =>
      let p := if st =? 1 then fst (loc_min u t) else snd (loc_max u t) - 1 in
      exonic ex p = true ->
      exists j, g2tx st ex p = Ok j /\ 0 <= j < tx_len ex /\ tx2g st ex j = Ok p /\
                cds_end_index st ex three n start = Ok (frame_floor j start)
  end.
Proof.
  intros st ex [|u t] n start W S; [reflexivity|].
  cbn zeta. intro H. unfold cds_end_index.
  destruct S as [-> | ->].
  - cbn [Z.eqb Pos.eqb] in *. destruct (g2tx_tx2g_l 1 ex _ W (or_introl eq_refl) H) as (j & A & B & C).
    exists j. rewrite A. auto.
  - change (-1 =? 1) with false in *. cbn iota in *.
    destruct (g2tx_tx2g_l (-1) ex _ W (or_intror eq_refl) H) as (j & A & B & C).
    exists j. rewrite A. auto.
Qed.

(* ------------------------------------------------------------------ Sec *)
Lemma In_lb : forall ex lo s e, wf_from lo ex = true -> In (s, e) ex -> lo < s /\ s < e.
Proof.
  induction ex as [|[s0 e0] t IH]; intros lo s e W I; [contradiction|].
  apply wf_split in W as (A & B & C). destruct I as [I|I].
  - inversion I; subst. lia.
  - destruct (IH _ _ _ C I). lia.
Qed.

Lemma In_ub : forall rex hi s e, wfd_from hi rex = true -> In (s, e) rex -> e < hi /\ s < e.
Proof.
  induction rex as [|[s0 e0] t IH]; intros hi s e W I; [contradiction|].
  apply wfd_split in W as (A & B & C). destruct I as [I|I].
  - inversion I; subst. lia.
  - destruct (IH _ _ _ C I). lia.
Qed.

Lemma In_exonic : forall ex s e g, In (s, e) ex -> s <= g < e -> exonic ex g = true.
Proof.
  induction ex as [|[s0 e0] t IH]; intros s e g I H; [contradiction|].
  cbn [exonic]. destruct I as [I|I].
  - inversion I; subst. apply orb_true_intro; left. lia.
  - apply orb_true_intro; right. eapply IH; eauto.
Qed.

Lemma plus_same_exon : forall ex lo s e g g' acc, wf_from lo ex = true -> In (s, e) ex ->
  s <= g < e -> s <= g' < e ->
  exists i, g2tx_plus ex g acc = Ok i /\ g2tx_plus ex g' acc = Ok (i + (g' - g)).
Proof.
  induction ex as [|[s0 e0] t IH]; intros lo s e g g' acc W I H H'; [contradiction|].
  apply wf_split in W as (A & B & C). cbn [g2tx_plus]. destruct I as [I|I].
  - inversion I; subst.
    destruct (e <=? g) eqn:E1; [lia|]. destruct (s <=? g) eqn:E3; [|lia].
    destruct (e <=? g') eqn:F1; [lia|]. destruct (s <=? g') eqn:F3; [|lia].
    eexists. split; [reflexivity|]. f_equal; lia.
  - destruct (In_lb _ _ _ _ C I).
    destruct (e0 <=? g) eqn:E1; [|lia]. destruct (e0 <=? g') eqn:F1; [|lia]. eapply IH; eauto.
Qed.

Lemma minus_same_exon : forall rex hi s e g g' acc, wfd_from hi rex = true -> In (s, e) rex ->
  s <= g < e -> s <= g' < e ->
  exists i, g2tx_minus rex g acc = Ok i /\ g2tx_minus rex g' acc = Ok (i - (g' - g)).
Proof.
  induction rex as [|[s0 e0] t IH]; intros hi s e g g' acc W I H H'; [contradiction|].
  apply wfd_split in W as (A & B & C). cbn [g2tx_minus]. destruct I as [I|I].
  - inversion I; subst. exists (acc + (e - g)). split.
    + destruct (s >=? g) eqn:E1.
      * destruct (s =? g) eqn:E2; [|lia]. f_equal; lia.
      * destruct (e >? g) eqn:E2; [|lia]. reflexivity.
    + destruct (s >=? g') eqn:E1.
      * destruct (s =? g') eqn:E2; [|lia]. f_equal; lia.
      * destruct (e >? g') eqn:E2; [|lia]. f_equal; lia.
  - destruct (In_ub _ _ _ _ C I).
    destruct (s0 >=? g) eqn:E1; [|lia]. destruct (s0 =? g) eqn:E2; [lia|].
    destruct (s0 >=? g') eqn:F1; [|lia]. destruct (s0 =? g') eqn:F2; [lia|]. eapply IH; eauto.
Qed.

(* a Selenocysteine record lying inside one exon maps to a transcript interval of the same length
   that starts at the transcript image of its first (strand-wise) base *)
Lemma sec_agrees_l : forall st ex xs xe s e, wf ex = true -> strand_ok st -> In (xs, xe) ex ->
  xs <= s -> s < e -> e <= xe ->
  exists a, sec_loc st ex (s, e, st) = Ok (a, a + (e - s)) /\ 0 <= a /\ a + (e - s) <= tx_len ex /\
            tx2g st ex a = Ok (if st =? 1 then s else e - 1).
Proof.
  intros st ex xs xe s e W S I H1 H2 H3. destruct (wf_wf_from _ W) as (N & WF & P).
  assert (X1 : exonic ex s = true) by (eapply In_exonic; eauto; lia).
  assert (X2 : exonic ex (e - 1) = true) by (eapply In_exonic; eauto; lia).
  unfold sec_loc. destruct S as [-> | ->].
  - cbn [Z.eqb Pos.eqb]. rewrite !g2tx_plus_arm by assumption.
    destruct (plus_same_exon ex _ xs xe s (e - 1) 0 WF I ltac:(lia) ltac:(lia)) as (a & A & B).
    rewrite A, B.
    destruct (g2tx_tx2g_l 1 ex s W (or_introl eq_refl) X1) as (i & C & D & E).
    rewrite g2tx_plus_arm in C by assumption. rewrite A in C. inversion C; subst i.
    destruct (g2tx_tx2g_l 1 ex (e - 1) W (or_introl eq_refl) X2) as (i' & C' & D' & E').
    rewrite g2tx_plus_arm in C' by assumption. rewrite B in C'. inversion C'; subst i'.
    exists a. split; [f_equal; f_equal; lia|]. split; [lia|]. split; [lia | exact E].
  - change (-1 =? 1) with false. cbn iota. rewrite !g2tx_minus_arm by assumption.
    destruct (wf_wfd_rev _ W) as [hi WD].
    assert (I' : In (xs, xe) (rev ex)) by (apply in_rev; rewrite rev_involutive; exact I).
    destruct (minus_same_exon (rev ex) hi xs xe (e - 1) s (-1) WD I' ltac:(lia) ltac:(lia)) as (a & A & B).
    rewrite A, B.
    destruct (g2tx_tx2g_l (-1) ex (e - 1) W (or_intror eq_refl) X2) as (i & C & D & E).
    rewrite g2tx_minus_arm in C by assumption. rewrite A in C. inversion C; subst i.
    destruct (g2tx_tx2g_l (-1) ex s W (or_intror eq_refl) X1) as (i' & C' & D' & E').
    rewrite g2tx_minus_arm in C' by assumption. rewrite B in C'. inversion C'; subst i'.
    exists a. split; [f_equal; f_equal; lia|]. split; [lia|]. split; [lia | exact E].
Qed.

(* ------------------------------------------------------------------ CDS (cDNA) sequence *)
(* the CDS sequence is the transcript-sequence construction applied to the CDS segments, so every
   statement about tx_seq holds of it with the CDS segments in place of the exons *)
Lemma cdna_is_tx_seq : forall tbl st ex cs chrom sq r, cdna_sequence tbl st ex cs chrom = Ok (sq, r) ->
  tx_seq tbl st (cds_segments cs) chrom = Ok sq /\ cds_start_index st ex cs = Ok r.
Proof.
  intros tbl st ex cs chrom sq r H. unfold cdna_sequence in H.
  destruct cs as [|c cs']; [discriminate|].
  destruct (cds_start_index st ex (c :: cs')) as [x|e] eqn:E; [|discriminate].
  inversion H; subst. split; reflexivity.
Qed.

Lemma cdna_seq_nth_l : forall tbl st ex cs chrom f i, wf (cds_segments cs) = true -> strand_ok st ->
  last_end (cds_segments cs) <= zlen chrom -> 0 <= i < tx_len (cds_segments cs) ->
  cds_start_index st ex cs = Ok f ->
  exists sq g c, cdna_sequence tbl st ex cs chrom = Ok (sq, f) /\ zlen sq = tx_len (cds_segments cs) /\
                 tx2g st (cds_segments cs) i = Ok g /\ exonic (cds_segments cs) g = true /\
                 nthZ chrom g = Some c /\ nthZ sq i = Some (if st =? -1 then comp tbl c else c).
Proof.
  intros tbl st ex cs chrom f i W S HB R F.
  destruct (tx_seq_nth_l tbl st _ chrom i W S HB R) as (sq & g & c & A & B & C & D & E & G & _).
  exists sq, g, c. repeat split; auto.
  unfold cdna_sequence. destruct cs as [|c0 cs']; [discriminate W|]. rewrite F.
  unfold tx_seq in A. cbn [cds_segments map] in A. inversion A. reflexivity.
Qed.

(* ------------------------------------------------------------------ the book-end repair (fix c35675e) *)
(* inside the range test of get_transcript_index (g < end of the last exon) the repaired plus arm and
   the arm as it was written before agree on every well-separated exon list *)
Lemma bookend_fix_equiv_l : forall ex lo g acc, wf_from lo ex = true -> ex <> [] -> g < last_end ex ->
  g2tx_plus ex g acc = g2tx_plus_old ex g acc.
Proof.
  induction ex as [|[s e] t IH]; intros lo g acc W N L; [congruence|].
  apply wf_split in W as (A & B & C). cbn [g2tx_plus g2tx_plus_old].
  destruct (e <? g) eqn:E1.
  - destruct (e <=? g) eqn:E2; [|lia].
    destruct t as [|y t']; [unfold last_end in L; cbn in L; lia|].
    rewrite last_end_cons in L by discriminate. apply (IH e); [exact C | discriminate | exact L].
  - destruct (e =? g) eqn:E2.
    + destruct (e <=? g) eqn:E3; [|lia].
      destruct t as [|[s' e'] t']; [unfold last_end in L; cbn in L; lia|].
      apply wf_split in C as (A' & B' & C'). cbn [g2tx_plus].
      destruct (e' <=? g) eqn:E4; [lia|]. destruct (s' <=? g) eqn:E5; [lia | reflexivity].
    + destruct (e <=? g) eqn:E3; [lia | reflexivity].
Qed.
