(* Equality of the per-peptide database decision of PeptidePoolSplitter.split, as GENERATED from /repo's source by
   harness/translate/py2coq.py (coq/Gen/Py_PeptidePoolSplitter.v), with Split.db_key.  docs/py2coq.md. *)
From Coq Require Import ZArith List Bool Lia.
From MoPep Require Import Model.Base Model.PyRt Gen.HeaderCfg Model.Header Model.Split Gen.Py_PeptidePoolSplitter.
Import ListNotations.
Open Scope Z_scope.

Lemma code_db_key_is_model_l : forall c S, py_db_key c S = db_key c S.
Proof.
  intros c S.
  (* the loop over additional_split stops at the first subset: List.find *)
  assert (L : forall (l : list (list str)) k0,
    py_db_key_loop1 c S S l k0 false
    = match find (fun a => subset a S) l with
      | Some a => Continue (set_str (c_levels c) a ++ [cfg_key_sep] ++ s_additional, true)
      | None => Continue (k0, false)
      end).
  { induction l as [|a t IH]; intro k0; [reflexivity|].
    cbn [py_db_key_loop1 find]. cbv zeta. destruct (subset a S); [reflexivity | apply IH]. }
  unfold py_db_key, db_key. cbv zeta.
  destruct (set_len S <=? c_max_groups c); [reflexivity|].
  rewrite L. destruct (find (fun a => subset a S) (c_additional c)); reflexivity.
Qed.
