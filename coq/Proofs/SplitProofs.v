(* Proofs about Model/Split.v (C18). *)
From Coq Require Import ZArith List Bool Lia ZifyBool Permutation.
From MoPep Require Import Model.Base Gen.HeaderCfg Model.Header Model.Filter Model.Split Proofs.FilterProofs Proofs.SplitOrder.
Import ListNotations.
Open Scope Z_scope.

(* ---- summary totals ---- *)
Lemma total_count_add : forall S t, total_of (count_add S t) = total_of t + 1.
Proof.
  induction t as [|[K n] t IH]; cbn [count_add total_of fold_right snd]. lia.
  destruct (set_eq K S); cbn [total_of fold_right snd]; fold (total_of t); fold (total_of (count_add S t)); lia.
Qed.

Lemma total_fold : forall ks t,
  total_of (fold_left (fun t S => count_add S t) ks t) = total_of t + Z.of_nat (length ks).
Proof.
  induction ks as [|S ks IH]; intros t; cbn [fold_left length]. lia.
  rewrite IH, total_count_add. lia.
Qed.

Lemma Forall2_length : forall {A B} (R : A -> B -> Prop) l l', Forall2 R l l' -> length l = length l'.
Proof. induction 1; cbn; congruence. Qed.

Theorem summary_totals_l : forall lv pool t,
  summarize lv pool = Ok t -> total_of t = Z.of_nat (length (dedup pool)).
Proof.
  unfold summarize. intros lv pool t H.
  destruct (mapM (summary_key lv) (dedup pool)) as [ks|] eqn:E; cbn [bind] in H; try discriminate.
  inversion H; subst t. rewrite total_fold. cbn [total_of fold_right].
  apply mapM_ok in E. rewrite <- (Forall2_length _ _ _ E). reflexivity.
Qed.

Lemma map_wild_label : forall c e e', map_wild c e = Ok e' ->
  si_label e' = si_label e /\ si_genes e' = si_genes e /\ si_index e' = si_index e.
Proof.
  unfold map_wild. intros c e e' H.
  destruct (wild_lookup (c_levels c) (c_all c) (si_sources e)).
  - destruct (validate_set (c_levels c) l); cbn [bind] in H; try discriminate. inversion H. cbn. auto.
  - inversion H. auto.
Qed.

Lemma mapM_map_wild_labels : forall c es es',
  mapM (map_wild c) es = Ok es' -> map si_label es' = map si_label es.
Proof.
  intros c es es' H. apply mapM_ok in H. induction H; cbn [map]. reflexivity.
  f_equal; auto. apply (map_wild_label c x y H).
Qed.

(* one peptide: sequence unchanged, labels preserved as a multiset, key = key of the first sorted entry,
   which is one of the (wildcard-mapped) entries *)
Lemma split_pep_spec : forall c p k s sorted,
  split_pep c p = Ok (k, (s, sorted)) ->
  s = fst p /\ Permutation (map si_label sorted) (map si_label (snd p)) /\
  exists h t es', sorted = h :: t /\ k = db_key c (si_sources h) /\
                  mapM (map_wild c) (snd p) = Ok es' /\ In h es' /\
                  forall e, In e es' -> src_gt (c_levels c) (si_sources h) (si_sources e) = Ok false.
Proof.
  unfold split_pep. intros c p k s sorted H.
  destruct (mapM (map_wild c) (snd p)) as [es'|] eqn:Em; cbn [bind] in H; try discriminate.
  destruct (sort_infos (c_levels c) es') as [so|] eqn:Es; cbn [bind] in H; try discriminate.
  destruct so as [|h t]; try discriminate. inversion H; subst k s sorted.
  pose proof (sort_infos_perm _ _ _ Es) as Hp.
  split; [reflexivity|]. split.
  - rewrite <- (mapM_map_wild_labels _ _ _ Em). apply Permutation_sym. apply Permutation_map. exact Hp.
  - destruct (sort_head_minimal _ _ _ _ Es) as [Hin Hmin].
    exists h, t, es'. split; [reflexivity|]. split; [reflexivity|]. split; [reflexivity|]. split; [exact Hin|].
    intros e He. apply Hmin. exact He.
Qed.

(* ---- grouping into databases ---- *)
Definition flat_dbs {A} (dbs : list (str * list A)) : list (str * A) :=
  flat_map (fun kl => map (fun x => (fst kl, x)) (snd kl)) dbs.

Lemma flat_db_add : forall {A} (k : str) (x : A) dbs,
  Permutation (flat_dbs (db_add k x dbs)) (flat_dbs dbs ++ [(k, x)]).
Proof.
  induction dbs as [|[k' l] t IH]; cbn [db_add flat_dbs flat_map map fst snd app].
  - apply Permutation_refl.
  - destruct (eq_seq k k') eqn:E.
    + apply eq_seq_true in E. subst k'. cbn [flat_dbs flat_map fst snd].
      rewrite map_app. cbn [map]. rewrite <- !app_assoc. apply Permutation_app_head.
      apply Permutation_app_comm.
    + cbn [flat_dbs flat_map fst snd]. rewrite <- app_assoc. apply Permutation_app_head. exact IH.
Qed.

Lemma flat_group_fold : forall {A} (a : list (str * A)) dbs,
  Permutation (flat_dbs (fold_left (fun d kx => db_add (fst kx) (snd kx) d) a dbs)) (flat_dbs dbs ++ a).
Proof.
  induction a as [|[k x] a IH]; intros dbs; cbn [fold_left fst snd].
  - rewrite app_nil_r. apply Permutation_refl.
  - eapply Permutation_trans. apply IH.
    eapply Permutation_trans. apply Permutation_app_tail. apply flat_db_add.
    rewrite <- app_assoc. apply Permutation_refl.
Qed.

Lemma flat_group : forall {A} (a : list (str * A)), Permutation (flat_dbs (group_by_key a)) a.
Proof. intros. unfold group_by_key. apply (flat_group_fold a []). Qed.

(* keys of the databases are pairwise different *)
Fixpoint keys_distinct {A} (dbs : list (str * list A)) : Prop :=
  match dbs with
  | [] => True
  | kl :: t => (forall kl', In kl' t -> eq_seq (fst kl) (fst kl') = false) /\ keys_distinct t
  end.

Lemma db_add_keys : forall {A} (k : str) (x : A) dbs kl,
  In kl (db_add k x dbs) -> fst kl = k \/ exists kl0, In kl0 dbs /\ fst kl0 = fst kl.
Proof.
  induction dbs as [|[k' l] t IH]; cbn [db_add]; intros kl H.
  - destruct H as [H|[]]. subst. left. reflexivity.
  - destruct (eq_seq k k') eqn:E.
    + destruct H as [H|H]; [subst kl|]; right; eexists; split; [left; reflexivity| reflexivity | right; exact H | reflexivity].
    + destruct H as [H|H]; [subst kl; right; eexists; split; [left; reflexivity|reflexivity]|].
      destruct (IH kl H) as [Hk|[kl0 [H0 H1]]]; [left; exact Hk|right; exists kl0; split; [right; exact H0|exact H1]].
Qed.

Lemma db_add_distinct : forall {A} (k : str) (x : A) dbs, keys_distinct dbs -> keys_distinct (db_add k x dbs).
Proof.
  induction dbs as [|[k' l] t IH]; cbn [db_add keys_distinct]; intros H.
  - split; [intros ? []|exact I].
  - destruct H as [H1 H2]. destruct (eq_seq k k') eqn:E; cbn [keys_distinct fst].
    + split; auto.
    + split; [|apply IH; exact H2].
      intros kl' Hin. destruct (db_add_keys k x t kl' Hin) as [Hk|[kl0 [H0 Hk]]].
      * rewrite Hk. destruct (eq_seq k' k) eqn:E2; auto.
        apply eq_seq_true in E2. subst. rewrite eq_seq_refl in E. discriminate.
      * rewrite <- Hk. apply (H1 kl0 H0).
Qed.

Lemma fold_distinct : forall {A} (a : list (str * A)) dbs, keys_distinct dbs ->
  keys_distinct (fold_left (fun d kx => db_add (fst kx) (snd kx) d) a dbs).
Proof.
  induction a as [|kx a IH]; intros dbs H; cbn [fold_left]; auto. apply IH. apply db_add_distinct. exact H.
Qed.

Lemma group_distinct : forall {A} (a : list (str * A)), keys_distinct (group_by_key a).
Proof. intros A a. unfold group_by_key. apply fold_distinct. exact I. Qed.

Theorem split_partition_l : forall c pool dbs,
  split_pool c pool = Ok dbs ->
  keys_distinct dbs /\
  exists assign,
    Permutation (flat_dbs dbs) assign /\
    Forall2 (fun p kx => fst (snd kx) = fst p /\
                         Permutation (map si_label (snd (snd kx))) (map si_label (snd p)))
            (dedup pool) assign.
Proof.
  unfold split_pool, split_assign. intros c pool dbs H.
  destruct (negb (wild_ok (c_levels c))); cbn [bind] in H; try discriminate.
  destruct (mapM (validate_set (c_levels c)) (c_additional c)) as [vv|]; cbn [bind] in H; try discriminate.
  destruct (mapM (split_pep c) (dedup pool)) as [a|] eqn:Em; cbn [bind] in H; try discriminate.
  inversion H; subst dbs. split. apply group_distinct.
  exists a. split. apply flat_group.
  apply mapM_ok in Em. induction Em; constructor; auto.
  destruct y as [k [s sorted]]. destruct (split_pep_spec _ _ _ _ _ H0) as [Hs [Hp _]].
  cbn [fst snd]. auto.
Qed.

Theorem split_choice_l : forall c pool a,
  split_assign c pool = Ok a ->
  Forall2 (fun p kx =>
     exists h t es', snd (snd kx) = h :: t /\ fst kx = db_key c (si_sources h) /\
                     mapM (map_wild c) (snd p) = Ok es' /\ In h es' /\
                     forall e, In e es' -> src_gt (c_levels c) (si_sources h) (si_sources e) = Ok false)
          (dedup pool) a.
Proof.
  unfold split_assign. intros c pool a H.
  destruct (negb (wild_ok (c_levels c))); try discriminate.
  destruct (mapM (validate_set (c_levels c)) (c_additional c)) as [vv|]; cbn [bind] in H; try discriminate.
  apply mapM_ok in H. induction H; constructor; auto.
  destruct y as [k [s sorted]]. destruct (split_pep_spec _ _ _ _ _ H) as [_ [_ Hh]]. exact Hh.
Qed.

(* ---- the comparison is not a strict order: two entries with equal source sets that differ elsewhere
   are each "less than" the other ---- *)
Lemma info_lt_not_asymmetric_l :
  exists lv a b, info_lt lv a b = Ok true /\ info_lt lv b a = Ok true.
Proof.
  exists [(KStr [65], 0)],
         (mkInfo [1] [[71]] [[71]] (Some 1) [[65]]), (mkInfo [2] [[71]] [[71]] (Some 2) [[65]]).
  split; vm_compute; reflexivity.
Qed.

(* ---- wildcard keys: the code's expansion differs from the documented meaning ---- *)
(* order "ab,c-+" ; GVF source c ; a peptide entry with sources {c, ab} *)
Lemma wildcard_expansion_refuted_l : cfg_init_sources_by_char = true ->
  exists order gvf k S,
    In k order /\ spec_key_matches k S = true /\
    key_matches (snd (mk_order order [] gvf)) k S = false.
Proof.
  intro H. vm_compute in H.
  first [ discriminate H
        | (exists [KStr [97;98]; KSet [[99]; [43]]], [[99]], (KSet [[99]; [43]]), [[99]; [97;98]];
           split; [right; left; reflexivity | split; vm_compute; reflexivity]) ].
Qed.
