(* Proofs about fusion backbones (Model/SpecFusion.v). *)
From Coq Require Import ZArith List Bool Lia ZifyBool.
From MoPep Require Import Model.Base Model.Rule Model.Digest Model.Spec Model.SpecStmt Model.SpecFusion
                          Gen.Bio Proofs.SpecProofs.
Import ListNotations.
Open Scope Z_scope.

Lemma fuse_backbone_lemma : forall xd bp xa bp',
  in_tx (fuse xd bp xa bp') = firstn (Z.to_nat bp) (in_tx xd) ++ skipn (Z.to_nat bp') (in_tx xa).
Proof. reflexivity. Qed.

(* the records of the fused backbone: donor records ending at or before the breakpoint, unchanged, and
   acceptor records starting at or behind the acceptor breakpoint, moved by bp - bp' *)
Lemma fuse_records_lemma : forall xd bp xa bp' v,
  In v (in_vars (fuse xd bp xa bp')) <->
  (In v (in_vars xd) /\ v_e v <= bp) \/
  (exists w, In w (in_vars xa) /\ bp' <= v_s w /\ v = move (bp - bp') w).
Proof.
  intros xd bp xa bp' v. unfold fuse. cbn [in_vars]. rewrite in_app_iff, filter_In, in_map_iff. split.
  - intros [[H1 H2]|(w & <- & Hw)].
    + left. split; auto. lia.
    + right. apply filter_In in Hw as [Hw Hs]. exists w. repeat split; auto. lia.
  - intros [[H1 H2]|(w & Hw & Hs & ->)].
    + left. split; auto. lia.
    + right. exists w. split; auto. apply filter_In. split; auto. lia.
Qed.

(* C02 for a fusion transcript: the sequence is a digestion product of the fused backbone carrying a
   compatible -- possibly empty -- set of the applicable records (the fusion itself is the variant) *)
Lemma realizable_fusion_iff_lemma : forall xd bp xa bp' p,
  realizable_fusion xd bp xa bp' p = true <->
  (MayProduct (fuse xd bp xa bp') [] p \/ Realizable (fuse xd bp xa bp') p).
Proof.
  intros xd bp xa bp' p. unfold realizable_fusion, fusion_set.
  rewrite sp_mem_seq_In, in_app_iff, may_products_spec.
  rewrite <- realizable_iff_lemma. unfold realizable. rewrite sp_mem_seq_In. tauto.
Qed.

(* ------------------------------------------------------------------ general breakpoints *)
Lemma fuse_gen_backbone_lemma : forall xd bp mid mvars xa bp',
  in_tx (fuse_gen xd bp mid mvars xa bp') =
  firstn (Z.to_nat bp) (in_tx xd) ++ mid ++ skipn (Z.to_nat bp') (in_tx xa).
Proof. reflexivity. Qed.

Lemma fuse_gen_records_lemma : forall xd bp mid mvars xa bp' v,
  In v (in_vars (fuse_gen xd bp mid mvars xa bp')) <->
  (In v (in_vars xd) /\ v_e v <= bp) \/
  (exists w, In w mvars /\ v = move bp w) \/
  (exists w, In w (in_vars xa) /\ bp' <= v_s w /\ v = move (bp + zlen mid - bp') w).
Proof.
  intros xd bp mid mvars xa bp' v. unfold fuse_gen. cbn [in_vars].
  rewrite !in_app_iff, filter_In, !in_map_iff. split.
  - intros [[H1 H2]|[(w & <- & Hw)|(w & <- & Hw)]].
    + left. split; auto. lia.
    + right. left. exists w. auto.
    + right. right. apply filter_In in Hw as [Hw Hs]. exists w. repeat split; auto. lia.
  - intros [[H1 H2]|[(w & Hw & ->)|(w & Hw & Hs & ->)]].
    + left. split; auto. lia.
    + right. left. exists w. auto.
    + right. right. exists w. split; auto. apply filter_In. split; auto. lia.
Qed.

(* exonic breakpoints are the special case of empty retained pieces *)
Lemma fuse_gen_exonic_lemma : forall xd bp xa bp',
  fuse_gen xd bp [] [] xa bp' = fuse xd bp xa bp'.
Proof.
  intros. unfold fuse_gen, fuse. cbn [zlen map app].
  replace (bp + 0 - bp') with (bp - bp') by lia. reflexivity.
Qed.

Definition MayProductT (x : input) (tail : bool) (h : list variant) (p : seq) : Prop :=
  exists st secs,
    In st (may_starts x h (apply_hap (in_tx x) h)) /\ In secs (may_secs x h) /\
    Product x false tail (translate_from (apply_hap (in_tx x) h) st secs) p.

Lemma may_products_t_spec : forall x tail h p, In p (may_products_t x tail h) <-> MayProductT x tail h p.
Proof.
  intros x tail h p. unfold may_products_t, MayProductT. rewrite in_flat_map. split.
  - intros (st & Hst & H). apply in_flat_map in H as (secs & Hs & H).
    apply products_spec in H. exists st, secs. auto.
  - intros (st & secs & Hst & Hs & H). exists st. split; auto.
    apply in_flat_map. exists secs. split; auto. apply products_spec; auto.
Qed.

Lemma may_products_t_true : forall x h, may_products_t x true h = may_products x h.
Proof. reflexivity. Qed.

(* C02 for a fusion transcript with arbitrary breakpoints: a digestion product of the fused backbone carrying a
   compatible -- possibly empty -- set of the applicable records; the open last peptide only when the
   acceptor's 3' end is complete *)
Lemma realizable_fusion_g_iff_lemma : forall xd bp mid mvars xa bp' p,
  realizable_fusion_g xd bp mid mvars xa bp' p = true <->
  let x := fuse_gen xd bp mid mvars xa bp' in
  MayProductT x (fusion_tail x) [] p \/
  exists m, length m = length (in_vars x) /\
    let h := select m (in_vars x) in
    nonempty h = true /\ pairwise false h = true /\ MayProductT x (fusion_tail x) h p.
Proof.
  intros xd bp mid mvars xa bp' p. cbn zeta. unfold realizable_fusion_g, fusion_set_t.
  rewrite sp_mem_seq_In, in_app_iff, may_products_t_spec, in_flat_map. split.
  - intros [H|(h & Hh & Hp)]; auto. right.
    apply haplotypes_spec in Hh as (m & Hl & -> & Hn & Hc). exists m. repeat split; auto.
    apply may_products_t_spec; auto.
  - intros [H|(m & Hl & Hn & Hc & Hp)]; auto. right.
    exists (select m (in_vars (fuse_gen xd bp mid mvars xa bp'))). split.
    + apply haplotypes_spec. exists m. auto.
    + apply may_products_t_spec; auto.
Qed.

(* a product that does not use the open tail is a product with the tail admitted *)
Lemma may_products_t_mono : forall x h p, In p (may_products_t x false h) -> In p (may_products_t x true h).
Proof.
  intros x h p H. apply may_products_t_spec in H as (st & secs & Hst & Hs & Hp).
  apply may_products_t_spec. exists st, secs. repeat split; auto. eapply Product_weaken; eauto.
Qed.
