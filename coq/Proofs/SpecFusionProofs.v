(* Proofs about fusion backbones (Model/SpecFusion.v). *)
From Coq Require Import ZArith List Bool Lia ZifyBool.
From MoPep Require Import Model.Base Model.Rule Model.Digest Model.Spec Model.SpecStmt Model.SpecFusion
                          Gen.Bio Proofs.SpecProofs.
Import ListNotations.
Open Scope Z_scope.

Lemma fuse_backbone_lemma : forall xd bp xa bp',
  in_tx (fuse xd bp xa bp') = firstn (Z.to_nat bp) (in_tx xd) ++ skipn (Z.to_nat bp') (in_tx xa).
Proof. reflexivity. Qed.

(* the records of the fused backbone: donor records ending at or before the breakpoint, unchanged, and
   acceptor records starting at or behind the acceptor breakpoint, moved by bp - bp' *)
Lemma fuse_records_lemma : forall xd bp xa bp' v,
  In v (in_vars (fuse xd bp xa bp')) <->
  (In v (in_vars xd) /\ v_e v <= bp) \/
  (exists w, In w (in_vars xa) /\ bp' <= v_s w /\ v = move (bp - bp') w).
Proof.
  intros xd bp xa bp' v. unfold fuse. cbn [in_vars]. rewrite in_app_iff, filter_In, in_map_iff. split.
  - intros [[H1 H2]|(w & <- & Hw)].
    + left. split; auto. lia.
    + right. apply filter_In in Hw as [Hw Hs]. exists w. repeat split; auto. lia.
  - intros [[H1 H2]|(w & Hw & Hs & ->)].
    + left. split; auto. lia.
    + right. exists w. split; auto. apply filter_In. split; auto. lia.
Qed.

(* C02 for a fusion transcript: the sequence is a digestion product of the fused backbone carrying a
   compatible -- possibly empty -- set of the applicable records (the fusion itself is the variant) *)
Lemma realizable_fusion_iff_lemma : forall xd bp xa bp' p,
  realizable_fusion xd bp xa bp' p = true <->
  (MayProduct (fuse xd bp xa bp') [] p \/ Realizable (fuse xd bp xa bp') p).
Proof.
  intros xd bp xa bp' p. unfold realizable_fusion, fusion_set.
  rewrite sp_mem_seq_In, in_app_iff, may_products_spec.
  rewrite <- realizable_iff_lemma. unfold realizable. rewrite sp_mem_seq_In. tauto.
Qed.
