(* Proofs about the Level-S specification Model/Spec.v (C01, C02, C03).
   The deciders must_set / realizable / witness_ok / entries_unique are equivalent to the
   properties' own existential statements; haplotype enumeration is exact; MUST is inside MAY. *)
From Coq Require Import ZArith List Bool Lia ZifyBool.
From MoPep Require Import Model.Base Model.Rule Model.Digest Model.Spec Model.SpecStmt Gen.Bio Proofs.DigestProofs.
Import ListNotations.
Open Scope Z_scope.

(* ------------------------------------------------------------------ small list facts *)
Lemma sp_eq_seq_true : forall a b, eq_seq a b = true <-> a = b.
Proof.
  induction a as [|x a IH]; destruct b as [|y b]; cbn [eq_seq].
  - split; auto.
  - split; discriminate.
  - split; discriminate.
  - rewrite andb_true_iff, IH, Z.eqb_eq. split; [intros [-> ->]; reflexivity | intros H; injection H; auto].
Qed.

Lemma sp_mem_seq_In : forall x l, mem_seq x l = true <-> In x l.
Proof.
  induction l as [|y l IH]; cbn [mem_seq In]; [split; [discriminate|tauto]|].
  rewrite orb_true_iff, IH, sp_eq_seq_true. split; intros [H|H]; auto.
Qed.

Lemma sp_mem_seq_false : forall x l, mem_seq x l = false <-> ~ In x l.
Proof.
  intros x l. rewrite <- sp_mem_seq_In. destruct (mem_seq x l); split; intros H; congruence.
Qed.

Lemma sp_mem_nat_In : forall x l, mem_nat x l = true <-> In x l.
Proof.
  induction l as [|y l IH]; cbn [mem_nat In]; [split; [discriminate|tauto]|].
  rewrite orb_true_iff, IH, Nat.eqb_eq. split; intros [H|H]; auto.
Qed.

(* ------------------------------------------------------------------ haplotype enumeration *)
Lemma masks_spec : forall n m, In m (masks n) <-> length m = n.
Proof.
  induction n as [|n IH]; intros m; cbn [masks].
  - split.
    + intros [<-|[]]; reflexivity.
    + destruct m; [left; reflexivity | discriminate].
  - rewrite in_app_iff, !in_map_iff. split.
    + intros [(m' & <- & H)|(m' & <- & H)]; apply IH in H; cbn; lia.
    + destruct m as [|b m]; [discriminate|]. cbn. intros H. injection H as H. apply IH in H.
      destruct b; [right|left]; exists m; auto.
Qed.

Lemma NoDup_map_cons : forall (b : bool) (l : list (list bool)), NoDup l -> NoDup (map (cons b) l).
Proof.
  intros b l H. induction H as [|x l Hn H IH]; cbn; constructor; auto.
  rewrite in_map_iff. intros (y & Hy & Hin). injection Hy as ->. contradiction.
Qed.

Lemma masks_NoDup : forall n, NoDup (masks n).
Proof.
  induction n as [|n IH]; cbn [masks].
  - constructor; [intros []|constructor].
  - assert (H: forall l1 l2 : list (list bool), NoDup l1 -> NoDup l2 ->
               (forall x, In x l1 -> ~ In x l2) -> NoDup (l1 ++ l2)).
    { induction l1 as [|a l1 IHl]; intros l2 H1 H2 Hd; cbn; auto.
      inversion H1; subst. constructor.
      - rewrite in_app_iff. intros [Hx|Hx]; [contradiction|]. apply (Hd a); cbn; auto.
      - apply IHl; auto. intros x Hx. apply Hd. cbn; auto. }
    apply H; try apply NoDup_map_cons; auto.
    intros x. rewrite !in_map_iff. intros (y & <- & _) (z & Hz & _). discriminate.
Qed.

Lemma NoDup_filter : forall {A} (f : A -> bool) l, NoDup l -> NoDup (filter f l).
Proof.
  intros A f l H. induction H as [|x l Hn H IH]; cbn; [constructor|].
  destruct (f x); auto. constructor; auto. rewrite filter_In. tauto.
Qed.

(* every pairwise-compatible non-empty subset (as a selection mask over the record list) is
   enumerated, nothing else is, and no mask is enumerated twice *)
Theorem hap_enum_complete_lemma : forall strict vs,
  (forall m, In m (hap_masks strict vs) <->
             length m = length vs /\ nonempty (select m vs) = true /\ pairwise strict (select m vs) = true)
  /\ NoDup (hap_masks strict vs).
Proof.
  intros strict vs. split.
  - intros m. unfold hap_masks. rewrite filter_In, masks_spec, andb_true_iff. tauto.
  - apply NoDup_filter, masks_NoDup.
Qed.

Lemma haplotypes_spec : forall strict vs h,
  In h (haplotypes strict vs) <->
  exists m, length m = length vs /\ h = select m vs /\ nonempty h = true /\ pairwise strict h = true.
Proof.
  intros strict vs h. unfold haplotypes. rewrite in_map_iff. split.
  - intros (m & <- & Hm). apply hap_enum_complete_lemma in Hm as (H1 & H2 & H3). exists m. auto.
  - intros (m & H1 & -> & H2 & H3). exists m. split; auto. apply hap_enum_complete_lemma. auto.
Qed.

(* ------------------------------------------------------------------ declarative digestion product *)
Lemma products_spec : forall x nf tail tr p,
  In p (products x nf tail tr) <-> Product x nf tail tr p.
Proof.
  intros x nf tail tr p. unfold products, Product. rewrite cleave_loop_spec. split.
  - intros (pre & a & rest & b & HB & Hb & Hp). exists pre, a, rest, b.
    apply emit_spec in Hp as [Hk Hp]. repeat split; auto.
    destruct Hp as [->|(Hf & -> & HM & ->)]; auto. right. repeat split; auto.
    destruct pre; [reflexivity | discriminate].
  - intros (pre & a & rest & b & HB & Hb & Hk & Hp). exists pre, a, rest, b.
    repeat split; auto. apply emit_spec. split; auto.
    destruct Hp as [->|(-> & -> & HM & ->)]; auto.
Qed.

(* ------------------------------------------------------------------ MAY: realizable *)
Lemma may_products_spec : forall x h p, In p (may_products x h) <-> MayProduct x h p.
Proof.
  intros x h p. unfold may_products, MayProduct. rewrite in_flat_map. split.
  - intros (st & Hst & H). apply in_flat_map in H as (secs & Hs & H).
    apply products_spec in H. exists st, secs. auto.
  - intros (st & secs & Hst & Hs & H). exists st. split; auto.
    apply in_flat_map. exists secs. split; auto. apply products_spec; auto.
Qed.

Lemma realizable_iff_lemma : forall x p, realizable x p = true <-> Realizable x p.
Proof.
  intros x p. unfold realizable, Realizable, may_set. rewrite sp_mem_seq_In, in_flat_map. split.
  - intros (h & Hh & Hp). apply haplotypes_spec in Hh as (m & Hl & -> & Hn & Hc).
    exists m. cbn zeta. repeat split; auto. apply may_products_spec; auto.
  - intros (m & Hl & Hn & Hc & Hp). exists (select m (in_vars x)). split.
    + apply haplotypes_spec. exists m. auto.
    + apply may_products_spec; auto.
Qed.

(* ------------------------------------------------------------------ MUST: must_set *)
Lemma must_products_spec : forall x h p,
  In p (must_products x h) <->
  exists st, In st (must_starts x (apply_hap (in_tx x) h)) /\
    Product x (must_nf x) (must_tail x)
            (translate_from (apply_hap (in_tx x) h) st (map (shift h) (in_sec x))) p.
Proof.
  intros x h p. unfold must_products. rewrite in_flat_map. split.
  - intros (st & Hst & H). exists st. split; auto. apply products_spec; auto.
  - intros (st & Hst & H). exists st. split; auto. apply products_spec; auto.
Qed.

Lemma novel_spec : forall x p, novel x p = true <-> ~ RefProduct x p /\ ~ In p (in_pool x).
Proof.
  intros x p. unfold novel, RefProduct, ref_products.
  rewrite andb_true_iff, !negb_true_iff, !sp_mem_seq_false, may_products_spec. tauto.
Qed.

Lemma must_hap_spec : forall x h, must_hap x h = true <-> forallb (must_var x) h = true /\ no_run3 h = true.
Proof. intros x h. unfold must_hap. apply andb_true_iff. Qed.

Lemma must_sound_complete_lemma : forall x p, In p (must_set x) <-> MustReport x p.
Proof.
  intros x p. unfold must_set, MustReport, must_haps.
  rewrite filter_In, novel_spec, in_flat_map. split.
  - intros [(h & Hh & Hp) Hn]. split; auto.
    apply filter_In in Hh as [Hh Hm]. apply must_hap_spec in Hm as [Hm Hr].
    apply haplotypes_spec in Hh as (m & Hl & -> & Hne & Hc).
    exists m. cbn zeta. repeat split; auto. apply must_products_spec; auto.
  - intros [(m & Hl & Hne & Hc & Hm & Hr & Hp) Hn]. split; auto.
    exists (select m (in_vars x)). split.
    + apply filter_In. split; [|apply must_hap_spec; auto]. apply haplotypes_spec. exists m. auto.
    + apply must_products_spec; auto.
Qed.

(* ------------------------------------------------------------------ MUST inside MAY *)
Lemma compat_weaken : forall a b, compat true a b = true -> compat false a b = true.
Proof. intros a b. unfold compat. lia. Qed.


Lemma pairwise_weaken : forall h, pairwise true h = true -> pairwise false h = true.
Proof.
  induction h as [|a h IH]; cbn [pairwise]; auto.
  rewrite !andb_true_iff. intros [H1 H2]. split; auto.
  rewrite forallb_forall in *. intros b Hb. apply compat_weaken; auto.
Qed.

Lemma shift_must : forall x h, in_coding x = true -> forallb (must_var x) h = true ->
  shift h (in_orf x) = in_orf x.
Proof.
  intros x h Hc. induction h as [|v h IH]; cbn [forallb shift]; auto.
  rewrite andb_true_iff. intros [Hv Hh]. rewrite IH by auto.
  unfold must_var in Hv. rewrite Hc in Hv.
  destruct (v_e v <=? in_orf x) eqn:E; [|lia].
  exfalso. rewrite !andb_true_iff in Hv. lia.
Qed.

Lemma sec_untouched : forall x h p, forallb (must_var x) h = true -> In p (in_sec x) ->
  sec_touched h p = false.
Proof.
  intros x h p Hh Hp. unfold sec_touched, touched.
  destruct (existsb (fun v => overlaps v p (p + 3)) h) eqn:E; auto.
  apply existsb_exists in E as (v & Hv & Ho).
  rewrite forallb_forall in Hh. specialize (Hh v Hv). unfold must_var in Hh.
  rewrite !andb_true_iff in Hh. destruct Hh as [_ Hs].
  rewrite forallb_forall in Hs. specialize (Hs p Hp).
  unfold overlaps in *. lia.
Qed.

Lemma filter_all : forall {A} (f : A -> bool) l, (forall a, In a l -> f a = true) -> filter f l = l.
Proof.
  induction l as [|a l IH]; cbn; auto. intros H. rewrite (H a) by auto. f_equal. apply IH. auto.
Qed.

Lemma filter_none : forall {A} (f : A -> bool) l, (forall a, In a l -> f a = false) -> filter f l = [].
Proof.
  induction l as [|a l IH]; cbn; auto. intros H. rewrite (H a) by auto. apply IH. auto.
Qed.

Lemma may_secs_must : forall x h, forallb (must_var x) h = true ->
  may_secs x h = [map (shift h) (in_sec x)].
Proof.
  intros x h Hh. unfold may_secs.
  rewrite (filter_all (fun p => negb (sec_touched h p))), (filter_none (sec_touched h)).
  - cbn. rewrite app_nil_r. reflexivity.
  - intros p Hp. eapply sec_untouched; eauto.
  - intros p Hp. rewrite (sec_untouched x h p); auto.
Qed.

Lemma take_while_prefix : forall {A} (f : A -> bool) l, exists t, l = take_while f l ++ t.
Proof.
  induction l as [|a l [t IH]]; cbn [take_while].
  - exists []. reflexivity.
  - destruct (f a).
    + exists t. cbn. f_equal. exact IH.
    + exists (a :: l). reflexivity.
Qed.

Lemma firstn_app_In : forall {A} n (l t : list A) b, In b (firstn n l) -> In b (firstn n (l ++ t)).
Proof.
  induction n as [|n IH]; intros l t b; cbn; auto.
  destruct l as [|a l]; cbn; [intros []|]. intros [->|H]; auto.
Qed.

Lemma Product_weaken : forall x nf tail tr p,
  Product x nf tail tr p -> Product x false true tr p.
Proof.
  intros x nf tail tr p (pre & a & rest & b & HB & Hb & Hk & Hp).
  unfold Product. cbn [orb].
  destruct (tail || snd tr) eqn:E.
  - exists pre, a, rest, b. unfold bounds in *. repeat split; auto.
    destruct Hp as [->|(-> & -> & HM & ->)]; auto; try (right; auto).
  - unfold bounds in HB. unfold bounds, bounds_of.
    destruct (take_while_prefix (lt_len (length (fst tr))) (sites (in_rule x) (in_exc x) (fst tr))) as [t Ht].
    exists pre, a, (rest ++ t ++ [length (fst tr)]), b. repeat split; auto.
    + rewrite Ht at 1. change (0%nat :: (take_while (lt_len (length (fst tr))) (sites (in_rule x) (in_exc x) (fst tr)) ++ t) ++ [length (fst tr)])
        with ((0%nat :: take_while (lt_len (length (fst tr))) (sites (in_rule x) (in_exc x) (fst tr)) ++ t) ++ [length (fst tr)]).
      rewrite app_comm_cons, HB. rewrite <- !app_assoc. cbn. reflexivity.
    + apply firstn_app_In; auto.
    + destruct Hp as [->|(-> & -> & HM & ->)]; auto; try (right; auto).
Qed.

Lemma must_sub_may_lemma : forall x p, In p (must_set x) -> realizable x p = true.
Proof.
  intros x p H. apply must_sound_complete_lemma in H as [(m & Hl & Hne & Hc & Hm & _ & st & Hst & Hp) _].
  apply realizable_iff_lemma. exists m. cbn zeta. repeat split; auto.
  - apply pairwise_weaken; auto.
  - exists st, (map (shift (select m (in_vars x))) (in_sec x)). repeat split.
    + unfold may_starts, must_starts in *. destruct (in_coding x) eqn:Ec; auto.
      rewrite (shift_must x _ Ec Hm). auto.
    + rewrite (may_secs_must x _ Hm). left. reflexivity.
    + eapply Product_weaken; eauto.
Qed.

(* ------------------------------------------------------------------ C03: witnesses *)
Lemma witness_ok_iff_lemma : forall x p ids, witness_ok x p ids = true <-> Witness x p ids.
Proof.
  intros x p ids. unfold witness_ok, Witness, ids_ok. cbn zeta.
  rewrite !andb_true_iff, forallb_forall, sp_mem_seq_In, may_products_spec.
  split.
  - intros [Hi [[Hn Hc] Hp]]. repeat split; auto. intros i Hin. apply Nat.ltb_lt. auto.
  - intros [Hi [Hn [Hc Hp]]]. repeat split; auto. intros i Hin. apply Nat.ltb_lt. auto.
Qed.

(* named x ids is exactly the sub-list of the supplied records at the named positions *)
Lemma select_mask_of : forall {A} (vs : list A) ids k v,
  In v (select (mask_of (length vs) ids k) vs) <->
  exists i, In (k + i)%nat ids /\ nth_error vs i = Some v.
Proof.
  induction vs as [|a vs IH]; intros ids k v; cbn [length mask_of select].
  - split; [intros []|]. intros (i & _ & H). destruct i; discriminate.
  - destruct (mem_nat k ids) eqn:E.
    + cbn [In]. rewrite IH. split.
      * intros [<-|(i & Hi & Hn)].
        -- exists 0%nat. rewrite Nat.add_0_r. split; [apply sp_mem_nat_In; auto | reflexivity].
        -- exists (S i). rewrite Nat.add_succ_r. auto.
      * intros (i & Hi & Hn). destruct i as [|i]; cbn in Hn.
        -- left. congruence.
        -- right. exists i. rewrite Nat.add_succ_r in Hi. auto.
    + rewrite IH. split.
      * intros (i & Hi & Hn). exists (S i). rewrite Nat.add_succ_r. auto.
      * intros (i & Hi & Hn). destruct i as [|i]; cbn in Hn.
        -- rewrite Nat.add_0_r in Hi. apply sp_mem_nat_In in Hi. congruence.
        -- exists i. rewrite Nat.add_succ_r in Hi. auto.
Qed.

Lemma named_spec_lemma : forall x ids v,
  In v (named x ids) <-> exists i, In i ids /\ nth_error (in_vars x) i = Some v.
Proof. intros x ids v. unfold named. rewrite select_mask_of. cbn. tauto. Qed.

Lemma entries_unique_iff_lemma : forall es, entries_unique es = true <-> NoDup es.
Proof.
  induction es as [|e es IH]; cbn [entries_unique].
  - split; [constructor | reflexivity].
  - rewrite andb_true_iff, negb_true_iff, sp_mem_seq_false, IH. split.
    + intros [H1 H2]. constructor; auto.
    + intros H. inversion H; subst. auto.
Qed.


(* ------------------------------------------------------------------ abstract graph: skipping routes is sound *)
Lemma routes_limited_subset : forall (alive : nat -> bool) (sc : nat -> list nat) fuel n r,
  In r (routes (limited alive sc) fuel n) -> In r (routes sc fuel n).
Proof.
  intros alive sc. induction fuel as [|f IH]; intros n r; cbn [routes]; [intros []|].
  intros [<-|H]; [left; reflexivity|right].
  apply in_map_iff in H as (r' & <- & H). apply in_map_iff. exists r'. split; auto.
  apply in_flat_map in H as (m & Hm & H). apply in_flat_map. exists m. split.
  - unfold limited in Hm. apply filter_In in Hm. tauto.
  - apply IH; auto.
Qed.

Lemma skip_routes_sound_lemma : forall (L : Type) (lab : nat -> list L) alive sc fuel n w,
  In w (spelled L lab (limited alive sc) fuel n) -> In w (spelled L lab sc fuel n).
Proof.
  intros L lab alive sc fuel n w. unfold spelled. rewrite !in_map_iff.
  intros (r & <- & H). exists r. split; auto. apply routes_limited_subset in H; auto.
Qed.
