(* C11 -- proofs about Model/PtrCache.v: the FIFO pointer cache *)
From Coq Require Import ZArith List Bool Lia ZifyBool.
From MoPep Require Import Model.Base Model.PtrCache.
Import ListNotations.
Open Scope Z_scope.

(* ------------------------------------------------------------------ Prop form of the invariant *)
Definition Inv (limit : Z) (s : cstate) : Prop :=
  NoDup (dq s) /\ NoDup (map fst (cache s)) /\
  (forall k, In k (dq s) <-> In k (map fst (cache s))) /\ zlen (dq s) <= limit.

Lemma memZ_In : forall x l, memZ x l = true <-> In x l.
Proof.
  induction l as [|y t IH]; cbn [memZ In]; [split; [discriminate | tauto]|].
  rewrite orb_true_iff, IH, Z.eqb_eq. split; intros [H|H]; auto.
Qed.

Lemma nodupZ_NoDup : forall l, nodupZ l = true <-> NoDup l.
Proof.
  induction l as [|y t IH]; cbn [nodupZ]; [split; [constructor | reflexivity]|].
  rewrite andb_true_iff, negb_true_iff, IH. split.
  - intros [A B]. constructor; [|exact B]. intro C. apply memZ_In in C. congruence.
  - intro N. inversion N as [|? ? A B]; subst. split; [|exact B].
    destruct (memZ y t) eqn:E; [apply memZ_In in E; contradiction | reflexivity].
Qed.

Lemma subsetZ_incl : forall a b, subsetZ a b = true <-> (forall x, In x a -> In x b).
Proof.
  intros a b. unfold subsetZ. rewrite forallb_forall. split; intros H x I; specialize (H x I); apply memZ_In; exact H.
Qed.

Lemma cache_inv_iff : forall limit s, cache_inv limit s = true <-> Inv limit s.
Proof.
  intros limit s. unfold cache_inv, Inv. rewrite !andb_true_iff, !nodupZ_NoDup, !subsetZ_incl, Z.leb_le.
  split.
  - intros ((((A & B) & C) & D) & E). repeat split; auto.
  - intros (A & B & C & D). repeat split; auto; intros x I; apply C; exact I.
Qed.

(* ------------------------------------------------------------------ association lists *)
Lemma lookup_None : forall k c, lookup k c = None <-> ~ In k (map fst c).
Proof.
  induction c as [|[a v] t IH]; cbn [lookup map fst In]; [tauto|].
  destruct (a =? k) eqn:E.
  - apply Z.eqb_eq in E. split; [discriminate | intro H; exfalso; apply H; left; exact E].
  - apply Z.eqb_neq in E. rewrite IH. tauto.
Qed.

Lemma lookup_Some_In : forall k c v, lookup k c = Some v -> In k (map fst c).
Proof.
  intros k c v H. destruct (in_dec Z.eq_dec k (map fst c)) as [I|N]; [exact I|].
  apply lookup_None in N. congruence.
Qed.

Lemma In_lookup : forall k c, In k (map fst c) -> exists v, lookup k c = Some v.
Proof.
  intros k c I. destruct (lookup k c) eqn:E; [eauto|]. apply lookup_None in E. contradiction.
Qed.

Lemma keys_remove : forall k c a, In a (map fst (remove_key k c)) <-> a <> k /\ In a (map fst c).
Proof.
  induction c as [|[b v] t IH]; intros a; cbn [remove_key map fst In]; [tauto|].
  destruct (b =? k) eqn:E.
  - apply Z.eqb_eq in E. rewrite IH. split; [tauto|]. intros [A [B|B]]; [congruence | tauto].
  - apply Z.eqb_neq in E. cbn [map fst In]. rewrite IH. split.
    + intros [A|[A B]]; [subst; tauto | tauto].
    + intros [A [B|B]]; tauto.
Qed.

Lemma nodup_remove : forall k c, NoDup (map fst c) -> NoDup (map fst (remove_key k c)).
Proof.
  induction c as [|[b v] t IH]; intros N; cbn [remove_key map fst]; [constructor|].
  inversion N as [|? ? A B]; subst. destruct (b =? k); [auto|].
  cbn [map fst]. constructor; [|auto]. intro C. apply keys_remove in C. tauto.
Qed.

Lemma lookup_remove : forall k c a, a <> k -> lookup a (remove_key k c) = lookup a c.
Proof.
  induction c as [|[b v] t IH]; intros a N; cbn [remove_key lookup]; [reflexivity|].
  destruct (b =? k) eqn:E.
  - apply Z.eqb_eq in E. rewrite IH by exact N. destruct (b =? a) eqn:F; [apply Z.eqb_eq in F; congruence | reflexivity].
  - cbn [lookup]. rewrite IH by exact N. reflexivity.
Qed.

(* ------------------------------------------------------------------ deque *)
Lemma zlen_nonneg : forall A (l : list A), 0 <= zlen l.
Proof. induction l; cbn [zlen]; lia. Qed.

Lemma zlen_app : forall A (a b : list A), zlen (a ++ b) = zlen a + zlen b.
Proof. induction a; intros; cbn [zlen app]; [lia | rewrite IHa; lia]. Qed.

Lemma pop_last_spec : forall d x, x :: d = fst (pop_last x d) ++ [snd (pop_last x d)].
Proof.
  induction d as [|y t IH]; intros x; cbn [pop_last]; [reflexivity|].
  specialize (IH y). destruct (pop_last y t) as [r l]. cbn [fst snd] in *. rewrite IH. reflexivity.
Qed.

Lemma pop_last_cons : forall x y t,
  pop_last x (y :: t) = (x :: fst (pop_last y t), snd (pop_last y t)).
Proof. intros. cbn [pop_last]. destruct (pop_last y t); reflexivity. Qed.

(* ------------------------------------------------------------------ one valid access *)
Lemma get_valid : forall limit load s k v,
  1 <= limit -> Inv limit s -> cache_sound load s -> load k = Some v ->
  exists s', get limit load s k = (s', RVal v) /\ Inv limit s' /\ cache_sound load s'.
Proof.
  intros limit load [d c] k v L INV SND LD. pose proof INV as (ND & NC & KS & SZ). cbn [dq cache] in *.
  unfold get; cbn [dq cache].
  destruct (lookup k c) as [v0|] eqn:HIT.
  - (* hit *)
    pose proof (SND _ _ HIT) as E. cbn [cache] in E. rewrite LD in E. inversion E; subst v0.
    exists (mkC d c). split; [reflexivity|]. split; [exact INV | exact SND].
  - (* miss *)
    assert (NKc : ~ In k (map fst c)) by (apply lookup_None; exact HIT).
    assert (NKd : ~ In k d) by (intro I; apply NKc, KS, I).
    unfold evict.
    destruct (zlen (k :: d) >? limit) eqn:OV.
    + (* eviction *)
      cbn [zlen] in OV. pose proof (zlen_nonneg _ d) as ZN.
      destruct d as [|y t]; [cbn [zlen] in *; lia|].
      rewrite pop_last_cons.
      pose proof (pop_last_spec t y) as SP.
      destruct (pop_last y t) as [r kp]. cbn [fst snd] in *.
      assert (IKP : In kp (y :: t)) by (rewrite SP; apply in_or_app; right; left; reflexivity).
      destruct (In_lookup kp c (proj1 (KS kp) IKP)) as [vp HP]. rewrite HP. rewrite LD.
      exists (mkC (k :: r) ((k, v) :: remove_key kp c)). split; [reflexivity|].
      assert (NDr : NoDup (r ++ [kp])) by (rewrite <- SP; exact ND).
      assert (NKPr : ~ In kp r).
      { apply NoDup_remove_2 in NDr. rewrite app_nil_r in NDr. exact NDr. }
      assert (NDr' : NoDup r).
      { apply NoDup_remove_1 in NDr. rewrite app_nil_r in NDr. exact NDr. }
      split; [|].
      * unfold Inv; cbn [dq cache map fst]. repeat split.
        -- constructor; [|exact NDr']. intro I. apply NKd. rewrite SP. apply in_or_app; left; exact I.
        -- constructor; [|apply nodup_remove; exact NC]. intro I. apply keys_remove in I. tauto.
        -- intros [A|A]; [left; exact A|]. right. apply keys_remove. split; [intro; subst; contradiction|].
           apply KS. rewrite SP. apply in_or_app; left; exact A.
        -- intros [A|A]; [left; exact A|]. right. apply keys_remove in A as [A1 A2].
           apply KS in A2. rewrite SP in A2. apply in_app_or in A2 as [A2|[A2|[]]]; [exact A2 | congruence].
        -- cbn [zlen]. rewrite SP, zlen_app in SZ. cbn [zlen] in SZ. rewrite SP, zlen_app in OV. cbn [zlen] in OV. lia.
      * intros a va. cbn [cache lookup]. destruct (k =? a) eqn:E.
        -- apply Z.eqb_eq in E. subst a. intro X; inversion X; subst. exact LD.
        -- intro X. destruct (Z.eq_dec a kp) as [->|NE].
           ++ assert (N : lookup kp (remove_key kp c) = None).
              { apply lookup_None. intro I. apply keys_remove in I. tauto. }
              congruence.
           ++ rewrite lookup_remove in X by exact NE. apply (SND a va). exact X.
    + (* no eviction *)
      rewrite LD. exists (mkC (k :: d) ((k, v) :: c)). split; [reflexivity|]. split.
      * unfold Inv; cbn [dq cache map fst]. repeat split.
        -- constructor; assumption.
        -- constructor; assumption.
        -- intros [A|A]; [left; exact A | right; apply KS; exact A].
        -- intros [A|A]; [left; exact A | right; apply KS; exact A].
        -- lia.
      * intros a va. cbn [cache lookup]. destruct (k =? a) eqn:E.
        -- apply Z.eqb_eq in E. subst a. intro X; inversion X; subst. exact LD.
        -- intro X. apply (SND a va). exact X.
Qed.

(* ------------------------------------------------------------------ histories *)
Definition spec_of (load : Z -> option Z) (k : Z) : gres :=
  match load k with Some v => RVal v | None => RKeyLookup end.

Lemma run_valid_gen : forall limit load ks s acc,
  1 <= limit -> Inv limit s -> cache_sound load s -> Forall (fun k => load k <> None) ks ->
  exists s', fold_left (step (get limit load)) ks (s, acc) = (s', acc ++ map (spec_of load) ks) /\
             Inv limit s' /\ cache_sound load s'.
Proof.
  intros limit load. induction ks as [|k t IH]; intros s acc L I S F.
  - exists s. cbn. rewrite app_nil_r. auto.
  - inversion F as [|? ? V F']; subst.
    destruct (load k) as [v|] eqn:LD; [|congruence].
    destruct (get_valid limit load s k v L I S LD) as (s1 & G & I1 & S1).
    destruct (IH s1 (acc ++ [RVal v]) L I1 S1 F') as (s' & R & I' & S').
    exists s'. split; [|auto].
    cbn [fold_left]. unfold step at 2. cbn [fst snd]. rewrite G. rewrite R.
    cbn [map]. unfold spec_of at 2. rewrite LD. rewrite <- app_assoc. reflexivity.
Qed.

Lemma empty_inv : forall limit, 0 <= limit -> Inv limit empty.
Proof.
  intros. unfold Inv, empty; cbn. repeat split; try constructor; try tauto; try lia.
Qed.

Lemma empty_sound : forall load, cache_sound load empty.
Proof. intros load k v H. cbn in H. discriminate. Qed.

(* main statement, boolean invariant *)
Lemma cache_history_l : forall limit load s ks,
  1 <= limit -> cache_inv limit s = true -> cache_sound load s ->
  Forall (fun k => load k <> None) ks ->
  cache_inv limit (fst (run (get limit load) s ks)) = true /\
  cache_sound load (fst (run (get limit load) s ks)) /\
  snd (run (get limit load) s ks) = map (spec_of load) ks.
Proof.
  intros limit load s ks L I S F. apply cache_inv_iff in I.
  destruct (run_valid_gen limit load ks s [] L I S F) as (s' & R & I' & S').
  unfold run. rewrite R. cbn [fst snd app]. split; [apply cache_inv_iff; exact I' | auto].
Qed.

(* the repaired getter: ANY key sequence *)
Lemma get_fixed_any : forall limit load s k,
  1 <= limit -> Inv limit s -> cache_sound load s ->
  exists s', get_fixed limit load s k = (s', spec_of load k) /\ Inv limit s' /\ cache_sound load s'.
Proof.
  intros limit load s k L I S. unfold get_fixed, spec_of.
  destruct (lookup k (cache s)) as [v0|] eqn:HIT.
  - rewrite (S _ _ HIT). exists s. auto.
  - destruct (load k) as [v|] eqn:LD.
    + destruct (get_valid limit load s k v L I S LD) as (s1 & G & I1 & S1). exists s1. auto.
    + exists s. auto.
Qed.

Lemma run_fixed_gen : forall limit load ks s acc,
  1 <= limit -> Inv limit s -> cache_sound load s ->
  exists s', fold_left (step (get_fixed limit load)) ks (s, acc) = (s', acc ++ map (spec_of load) ks) /\
             Inv limit s' /\ cache_sound load s'.
Proof.
  intros limit load. induction ks as [|k t IH]; intros s acc L I S.
  - exists s. cbn. rewrite app_nil_r. auto.
  - destruct (get_fixed_any limit load s k L I S) as (s1 & G & I1 & S1).
    destruct (IH s1 (acc ++ [spec_of load k]) L I1 S1) as (s' & R & I' & S').
    exists s'. split; [|auto].
    cbn [fold_left]. unfold step at 2. cbn [fst snd]. rewrite G. rewrite R.
    cbn [map]. rewrite <- app_assoc. reflexivity.
Qed.

Lemma cache_fixed_history_l : forall limit load s ks,
  1 <= limit -> cache_inv limit s = true -> cache_sound load s ->
  cache_inv limit (fst (run (get_fixed limit load) s ks)) = true /\
  cache_sound load (fst (run (get_fixed limit load) s ks)) /\
  snd (run (get_fixed limit load) s ks) = map (spec_of load) ks.
Proof.
  intros limit load s ks L I S. apply cache_inv_iff in I.
  destruct (run_fixed_gen limit load ks s [] L I S) as (s' & R & I' & S').
  unfold run. rewrite R. cbn [fst snd app]. split; [apply cache_inv_iff; exact I' | auto].
Qed.

(* on valid keys the repaired getter and the getter as written coincide *)
Lemma get_fixed_eq_valid : forall limit load s k, load k <> None -> get_fixed limit load s k = get limit load s k.
Proof.
  intros limit load s k V. unfold get_fixed.
  destruct (lookup k (cache s)) eqn:HIT; [unfold get; rewrite HIT; reflexivity|].
  destruct (load k); [reflexivity | congruence].
Qed.
