(* Equality of the per-entry decision loop of VariantPeptidePool.filter, as GENERATED from /repo's source by
   harness/translate/py2coq.py (coq/Gen/Py_VariantPeptidePool.v), with Filter.keep_list.  docs/py2coq.md. *)
From Coq Require Import ZArith List Bool Lia ZifyBool.
From MoPep Require Import Model.Base Model.PyRt Model.Rule Model.Digest Model.Header Model.Filter Gen.Py_VariantPeptidePool.
Import ListNotations.
Open Scope Z_scope.

(* case analysis on primitive scrutinees only (terms headed by a constant or a variable): the leftmost ATOM of a
   compound boolean test, the scrutinee of an option / list / res match; literals are reduced *)
Ltac pf_head t := lazymatch t with ?f _ => pf_head f | _ => t end.
Ltac pf_prim x := let h := pf_head x in first [is_const h | is_var h].
Ltac pf_atom b :=
  lazymatch b with
  | ?x && _ => pf_atom x
  | ?x || _ => pf_atom x
  | negb ?x => pf_atom x
  | _ => pf_prim b; destruct b eqn:?
  end.
Ltac pf_step :=
  first
  [ progress (cbn [negb andb orb]; cbv iota)
  | match goal with
    | |- context [match ?x with Some _ => _ | None => _ end] => pf_prim x; destruct x eqn:?
    | |- context [match ?x with [] => _ | _ :: _ => _ end] => pf_prim x; destruct x eqn:?
    | |- context [match ?x with Ok _ => _ | Err _ => _ end] => pf_prim x; destruct x eqn:?
    | |- context [if ?b then _ else _] => pf_atom b
    end ].

Lemma code_keep_list_is_model_l : forall o d es, py_keep_list o d es = keep_list o d es.
Proof.
  intros o d es0.
  (* one iteration = the model's per-entry decision, then the rest of the loop with the entry appended or not *)
  assert (STEP : forall e (t : list entry) acc,
    match py_keep_list_loop1 o d es0 (e :: t) acc with Done r => r | Continue a => Ok a end
    = match keep_entry o d e with
      | Err x => Err x
      | Ok b => match py_keep_list_loop1 o d es0 t (if b then acc ++ [e] else acc) with Done r => r | Continue a => Ok a end
      end).
  { intros e t acc. cbn [py_keep_list_loop1]. cbv zeta.
    unfold keep_entry, is_canonical, all_noncoding, all_coding, bind. cbn [nth_error].
    repeat pf_step; reflexivity. }
  assert (L : forall (l : list entry) acc,
    match py_keep_list_loop1 o d es0 l acc with Done r => r | Continue a => Ok a end
    = bind (keep_list o d l) (fun r => Ok (acc ++ r))).
  { induction l as [|e t IH]; intro acc.
    - cbn [py_keep_list_loop1 keep_list bind]. rewrite app_nil_r. reflexivity.
    - rewrite STEP. cbn [keep_list]. unfold bind at 1. destruct (keep_entry o d e) as [b|x]; [|reflexivity].
      rewrite IH. unfold bind. destruct (keep_list o d t); [|reflexivity].
      destruct b; rewrite <- ?app_assoc; reflexivity. }
  unfold py_keep_list. cbv zeta. rewrite L. unfold bind. cbn [app].
  destruct (keep_list o d es0); reflexivity.
Qed.

(* ------------------------------------------------------------------ the whole function *)
Lemma code_filter_is_model_l : forall o peps,
  py_filter o peps = bind (mapM (filter_pep o) peps) (fun rs => Ok (flat_map opt_list rs)).
Proof.
  intros o peps0.
  (* inner loop, one entry *)
  assert (STEP : forall d e (t : list entry) acc,
    py_filter_loop1 o peps0 d (e :: t) acc
    = match keep_entry o d e with
      | Err x => Done (Err x)
      | Ok b => py_filter_loop1 o peps0 d t (if b then acc ++ [e] else acc)
      end).
  { intros d e t acc. cbn [py_filter_loop1]. cbv zeta.
    unfold keep_entry, is_canonical, all_noncoding, all_coding, bind. cbn [nth_error].
    repeat pf_step; reflexivity. }
  assert (INNER : forall d (l : list entry) acc,
    py_filter_loop1 o peps0 d l acc
    = match keep_list o d l with Err x => Done (Err x) | Ok r => Continue (acc ++ r) end).
  { intros d. induction l as [|e t IH]; intro acc.
    - cbn [py_filter_loop1 keep_list]. rewrite app_nil_r. reflexivity.
    - rewrite STEP. cbn [keep_list]. unfold bind at 1. destruct (keep_entry o d e) as [b|x]; [|reflexivity].
      rewrite IH. unfold bind. destruct (keep_list o d t); [|reflexivity].
      destruct b; rewrite <- ?app_assoc; reflexivity. }
  (* outer loop, one peptide: the miscleavage window, the denylist flag, the keep list, `if keep:` *)
  assert (PEP : forall p (t : list pep) acc,
    py_filter_loop2 o peps0 (p :: t) acc
    = match filter_pep o p with
      | Err x => Done (Err x)
      | Ok None => py_filter_loop2 o peps0 t acc
      | Ok (Some q) => py_filter_loop2 o peps0 t (acc ++ [q])
      end).
  { intros [sq es] t acc. cbn [py_filter_loop2]. cbv zeta. cbn [fst snd].
    unfold filter_pep, misc_ok, misc_count, in_denylist, bind. cbn [fst snd]. cbv zeta.
    set (n := Z.of_nat (length (sites (o_rule o) (o_exc o) sq))).
    destruct (o_lo o) as [lo|]; destruct (o_hi o) as [hi|]; cbn [negb];
      try (destruct (n <? lo) eqn:C1); try (destruct (n >? hi) eqn:C2);
      try (replace (lo <=? n) with true by lia); try (replace (lo <=? n) with false by lia);
      try (replace (n <=? hi) with true by lia); try (replace (n <=? hi) with false by lia);
      cbn [negb andb]; try reflexivity;
      destruct (o_deny o) as [dl|]; cbn [negb andb]; rewrite INNER; cbn [app];
      (match goal with |- context [keep_list o ?d es] => destruct (keep_list o d es) as [k|x] end;
       [destruct k; reflexivity | reflexivity]). }
  assert (OUTER : forall (l : list pep) acc,
    match py_filter_loop2 o peps0 l acc with Done r => r | Continue a => Ok a end
    = bind (mapM (filter_pep o) l) (fun rs => Ok (acc ++ flat_map opt_list rs))).
  { induction l as [|p t IH]; intro acc.
    - cbn [py_filter_loop2 mapM bind flat_map]. rewrite app_nil_r. reflexivity.
    - rewrite PEP. cbn [mapM]. unfold bind at 1. destruct (filter_pep o p) as [[q|]|x]; [| |reflexivity];
        rewrite IH; unfold bind; destruct (mapM (filter_pep o) t); try reflexivity;
        cbn [flat_map opt_list app]; rewrite <- ?app_assoc; reflexivity. }
  unfold py_filter. cbv zeta. rewrite OUTER. reflexivity.
Qed.
